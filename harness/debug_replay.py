#!/usr/bin/env python3
"""Developer tool: rebuild the package of a typed-layer replay file and run the flows verbosely.
usage: debug_replay.py <replay.json> [--cpp] [--keep] [--asan]"""
import io, json, os, re, shutil, subprocess, sys, tempfile, traceback
sys.path.insert(0, os.path.join(os.path.dirname(os.path.abspath(__file__)), "lib"))
r = json.load(open(sys.argv[1]))["replay"]
d = tempfile.mkdtemp(prefix="yvdbg-")
os.makedirs(d + "/model")
open(d + "/model/model.yml", "w").write(r["model"])
nsname = r.get("namespace", "Dbg")
open(d + "/model/_package.yml", "w").write("namespace: %s\ncpp:\n  sourcesOutputDir: ../cpp/generated\n  generateCMakeLists: false\n  generateHDF5: false\n  generateNDJson: %s\n  overrideArrayHeader: ndarray_shim.h\npython:\n  outputDir: ../python\n" % (nsname, "true" if "--ndjson" in sys.argv else "false"))
p = subprocess.run(["/verif/.cache/bin/yardl", "generate"], cwd=d + "/model", capture_output=True, text=True)
print(p.stdout, p.stderr)
proto = r["protocol"]
data = bytes.fromhex(r["stream_hex"])
if "--nopy" not in sys.argv:
    sys.path.insert(0, d + "/python")
    mod = __import__(nsname.lower())
    try:
        rd = getattr(mod, "Binary%sReader" % proto)(io.BytesIO(data))
        out = io.BytesIO()
        wr = getattr(mod, "Binary%sWriter" % proto)(out)
        rd.copy_to(wr); rd.close(); wr.close()
        print("python ok, identical:", out.getvalue() == data)
    except Exception:
        traceback.print_exc()
if "--cpp" in sys.argv:
    import genrun
    protos = re.findall(r"^(\w+): !protocol\n((?:  .*\n|\n)*)", r["model"] + "\n", re.M)
    class P: pass
    pk = P(); pk.namespace = nsname; pk.protocols = []
    for name, body in protos:
        steps = []
        for m in re.finditer(r"^    (\w+): (.*)$", body, re.M):
            steps.append((m.group(1), None, m.group(2).startswith("!stream")))
        pk.protocols.append((name, steps))
    class C: pass
    ctx = C(); ctx.scratch = d; ctx.yardl = "/verif/.cache/bin/yardl"
    gp = genrun.GenPackage.__new__(genrun.GenPackage)
    gp.ctx, gp.pkg, gp.name, gp.ndjson, gp.dir = ctx, pk, "x", "--ndjson" in sys.argv, d
    ok = gp.cpp_build(asan="--asan" in sys.argv, opt="-O0")
    print("cpp build", ok, getattr(gp, "cpp_err", "")[-3000:])
    if ok:
        for b in (1, 3):
            c = gp.cpp_call(proto, "binary", "binary", data, batch=b)
            print("cpp batch", b, "rc", c["rc"], "identical:", c["out"] == data, c["err"][-1500:])
            if c["out"] != data:
                print(" out:", c["out"].hex()[-300:]); print(" ref:", data.hex()[-300:])
if "--ndjson" in sys.argv:
    try:
        rd = getattr(mod, "Binary%sReader" % proto)(io.BytesIO(data))
        out = io.StringIO()
        wr = getattr(mod, "NDJson%sWriter" % proto)(out)
        rd.copy_to(wr); rd.close(); wr.close()
        print("PY NDJSON:\n" + "\n".join(out.getvalue().split("\n")[1:]))
        pyj = out.getvalue()
    except Exception:
        traceback.print_exc(); pyj = None
    if "--cpp" in sys.argv and ok:
        c = gp.cpp_call(proto, "binary", "ndjson", data)
        cj = c["out"].decode()
        print("CPP NDJSON rc", c["rc"], c["err"][-300:], "\n" + "\n".join(cj.split("\n")[1:]))
        if pyj:
            c2 = gp.cpp_call(proto, "ndjson", "binary", pyj.encode())
            print("cpp reads py ndjson: rc", c2["rc"], c2["err"][-300:], c2["out"] == data)
        try:
            rd = getattr(mod, "NDJson%sReader" % proto)(io.StringIO(cj))
            out = io.BytesIO(); wr = getattr(mod, "Binary%sWriter" % proto)(out)
            rd.copy_to(wr); rd.close(); wr.close()
            print("py reads cpp ndjson ok, identical:", out.getvalue() == data)
        except Exception:
            traceback.print_exc()
print("dir:", d)
if "--keep" not in sys.argv:
    shutil.rmtree(d)
