// Drives yardl's shipped coded_stream.h (taken from /repo, -I given by the harness) with op scripts.
// One case per input line:
//   in  <bufsize> <hex-input|-> <op> <op> ...     ops: b | v32 | v64 | s32 | s64 | f1 f2 f4 f8 | r<n> | V
//   out <bufsize> <op> ...                        ops: b:<n> v32:<n> v64:<n> s32:<z> s64:<z> f<k>:<n> B:<hex|-> F
// Output: one line per case.
//   in : space separated outcomes: "<value>" | "h:<hex>" (for r) | "ok" (V) | "EOF" | "NOTFINISHED" ; stops at first exception
//   out: "<hex of everything written>|<chunk sizes comma separated>"
#include <cstdint>
#include <iostream>
#include <sstream>
#include <streambuf>
#include <string>
#include <vector>

#include "coded_stream.h"

static std::string hex(const std::string& s) {
  static const char* d = "0123456789abcdef";
  std::string o;
  for (unsigned char c : s) {
    o.push_back(d[c >> 4]);
    o.push_back(d[c & 15]);
  }
  return o.empty() ? "-" : o;
}
static std::string unhex(const std::string& h) {
  std::string o;
  if (h == "-") return o;
  for (size_t i = 0; i + 1 < h.size(); i += 2) o.push_back((char)std::stoi(h.substr(i, 2), nullptr, 16));
  return o;
}

class ChunkBuf : public std::streambuf {
 public:
  std::string all;
  std::vector<size_t> chunks;

 protected:
  std::streamsize xsputn(const char* s, std::streamsize n) override {
    all.append(s, (size_t)n);
    chunks.push_back((size_t)n);
    return n;
  }
  int overflow(int c) override {
    if (c != EOF) {
      all.push_back((char)c);
      chunks.push_back(1);
    }
    return c;
  }
};

int main() {
  std::string line;
  while (std::getline(std::cin, line)) {
    std::istringstream ls(line);
    std::string kind;
    size_t bufsize;
    ls >> kind >> bufsize;
    std::ostringstream out;
    if (kind == "in") {
      std::string h;
      ls >> h;
      std::istringstream input(unhex(h));
      yardl::binary::CodedInputStream s(input, bufsize);
      std::string op;
      bool first = true;
      try {
        while (ls >> op) {
          if (!first) out << ' ';
          first = false;
          if (op == "b") {
            uint8_t v;
            s.ReadByte(v);
            out << (unsigned)v;
          } else if (op == "v32") {
            uint32_t v;
            s.ReadVarInt32(v);
            out << v;
          } else if (op == "v64") {
            uint64_t v;
            s.ReadVarInt64(v);
            out << v;
          } else if (op == "s32") {
            int32_t v;
            s.ReadVarInt32(v);
            out << v;
          } else if (op == "s64") {
            int64_t v;
            s.ReadVarInt64(v);
            out << v;
          } else if (op == "f1") {
            uint8_t v;
            s.ReadFixedInteger(v);
            out << (unsigned)v;
          } else if (op == "f2") {
            uint16_t v;
            s.ReadFixedInteger(v);
            out << v;
          } else if (op == "f4") {
            uint32_t v;
            s.ReadFixedInteger(v);
            out << v;
          } else if (op == "f8") {
            uint64_t v;
            s.ReadFixedInteger(v);
            out << v;
          } else if (op[0] == 'r') {
            size_t n = std::stoull(op.substr(1));
            std::string d(n, '\0');
            s.ReadBytes(d.data(), n);
            out << "h:" << hex(d);
          } else if (op == "V") {
            s.VerifyFinished();
            out << "ok";
          }
        }
      } catch (yardl::binary::EndOfStreamException const&) {
        out << "EOF";
      } catch (std::runtime_error const&) {
        out << "NOTFINISHED";
      }
    } else {
      ChunkBuf cb;
      std::ostream os(&cb);
      {
        yardl::binary::CodedOutputStream s(os, bufsize);
        std::string op;
        while (ls >> op) {
          auto c = op.find(':');
          std::string k = op.substr(0, c), a = c == std::string::npos ? "" : op.substr(c + 1);
          if (k == "b") s.WriteByte((uint8_t)std::stoul(a));
          else if (k == "v32") s.WriteVarInt32((uint32_t)std::stoull(a));
          else if (k == "v64") s.WriteVarInt64((uint64_t)std::stoull(a));
          else if (k == "s32") s.WriteVarInt32((int32_t)std::stoll(a));
          else if (k == "s64") s.WriteVarInt64((int64_t)std::stoll(a));
          else if (k == "f1") s.WriteFixedInteger((uint8_t)std::stoull(a));
          else if (k == "f2") s.WriteFixedInteger((uint16_t)std::stoull(a));
          else if (k == "f4") s.WriteFixedInteger((uint32_t)std::stoull(a));
          else if (k == "f8") s.WriteFixedInteger((uint64_t)std::stoull(a));
          else if (k == "B") {
            std::string d = unhex(a);
            s.WriteBytes(d.data(), d.size());
          } else if (k == "F") s.Flush();
        }
      }
      out << hex(cb.all) << '|';
      for (size_t i = 0; i < cb.chunks.size(); i++) out << (i ? "," : "") << cb.chunks[i];
    }
    std::cout << out.str() << '\n';
  }
  return 0;
}
