#!/usr/bin/env python3
"""Regenerates the data-driven parts of DESIGN.md section 9 (9.3 fixes, 9.4 findings, 9.6 seeds table) from
known_findings.json and seeded/RESULTS.json.  Development tool; the prose of section 9 is edited by hand in DESIGN.md."""
import json
import os
import re

V = os.path.dirname(os.path.dirname(os.path.abspath(__file__)))
k = json.load(open(os.path.join(V, "known_findings.json")))
res = json.load(open(os.path.join(V, "seeded", "RESULTS.json")))
s = open(os.path.join(V, "DESIGN.md")).read()


def block(name, text):
    global s
    a, b = "<!-- BEGIN %s -->" % name, "<!-- END %s -->" % name
    if a not in s:
        raise SystemExit("marker %s missing in DESIGN.md" % name)
    s = s[:s.index(a) + len(a)] + "\n" + text + "\n" + s[s.index(b):]


block("FIXED", "\n".join("- `%s`" % f.replace("fixed: ", "") for f in k["fixed"]))
block("FINDINGS", "\n".join("- **%s / `%s`** — %s *Why not repaired:* %s" % (f["property"], f["key"], f["what"], f["why_not_fixed"])
                            for f in k["findings"]))
rows = []
for name in sorted(res):
    r = res[name]
    if r.get("neutralised"):
        rows.append("| %s | neutralised by a fix | see seeded/%s/meta.json |" % (name, name))
        continue
    first = ""
    for run in r.get("runs", []):
        for l in run["lines"]:
            if not l.startswith("VIOLATION"):
                parts = l.split(":")
                first = parts[0] + (":" + parts[1] if len(parts) > 2 and len(parts[1]) < 40 else "")
                break
        if first:
            break
    rows.append("| %s | %s | `%s` |" % (name, "yes" if r.get("detected") else ("does not apply" if not r.get("applies", True) else "NO"), first[:90]))
block("SEEDS", "| seed | detected by the quick check of its property | first report (key) |\n|---|---|---|\n" + "\n".join(rows))
open(os.path.join(V, "DESIGN.md"), "w").write(s)
print("DESIGN.md section 9 data blocks regenerated: %d fixes, %d findings, %d seeds" % (len(k["fixed"]), len(k["findings"]), len(rows)))
