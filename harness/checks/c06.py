"""C06 - schema-evolution verdicts are total, reflexive and match the documented classes."""
import json
import os
import re
from concurrent.futures import ThreadPoolExecutor

import evomodel
import ymodel
from vlib import Ctx, sh

LEVEL = "proof"
TRUSTED = [
    "Coq 8.16.1 kernel + vm_compute; theorems in coq/Props/C06.v over Model/Evolution.v, a hand-written reading of "
    "compareTypes / detect*Changes / validateChanges on expanded types; GetPrimitiveKind comes from the regenerated Gen/Tables.v",
    "tie: for documented edits, random type pairs at 9 positions and edited random packages, the verdict class of the real "
    "`yardl validate` (error / warning / silent) on a package with `versions:` is compared with env_verdict evaluated inside Coq "
    "on the two model.json files yardl itself dumps; harness/lib/evomodel.py expands aliases and generic instantiations",
    "not modelled: the text of messages, generic-definition pairing details, TypeHasNullOption's view of vectors of optionals",
]
BASE = ("Rec: !record\n  fields:\n    x: int32\n    y: string\n\nGen<T>: !record\n  fields:\n    v: T\n\nEn: !enum\n  values: [a, b]\n\n"
        "AliasInt: int\n\nRecAlias: Rec\n\n")
POOL = ["int", "long", "uint8", "float", "double", "string", "bool", "complexfloat", "complexdouble", "date", "size", "uint64",
        "int?", "string?", "Rec?", "[int, string]", "[null, int, string]", "[int, float, string]", "[string, int]", "[int, Rec]",
        "int*", "long*", "int*3", "int*4", "float[]", "float[x, y]", "float[a, b]", "float[2, 3]", "float[x, y, z]", "double[x, y]",
        "string->int", "string->long", "int->int", "Rec", "RecAlias", "Rec*", "En", "Gen<int>", "Gen<string>", "Gen<Rec>", "AliasInt",
        "AliasInt?", "Gen<int>?", "int?*", "[En, int]"]
POSITIONS = {
    "step": "P: !protocol\n  sequence:\n    a: int32\n    s: {T}\n",
    "stream-items": "P: !protocol\n  sequence:\n    a: int32\n    s: !stream\n      items: {T}\n",
    "record-field": "H: !record\n  fields:\n    a: int32\n    h: {T}\n\nP: !protocol\n  sequence:\n    r: H\n",
    "alias": "H: {T}\n\nP: !protocol\n  sequence:\n    r: H\n",
    "alias-unused": "H: {T}\n\nP: !protocol\n  sequence:\n    r: int32\n",
    "vector-items": "P: !protocol\n  sequence:\n    s: !vector\n      items: {T}\n",
    "optional-inner": "P: !protocol\n  sequence:\n    s: [null, {T}]\n",
    "generic-argument": "P: !protocol\n  sequence:\n    s: !generic\n      name: Gen\n      args: [{T}]\n",
    "map-values": "P: !protocol\n  sequence:\n    s: !map\n      keys: string\n      values: {T}\n",
    "field-of-record-in-stream": "H: !record\n  fields:\n    h: {T}\n\nP: !protocol\n  sequence:\n    r: !stream\n      items: H\n",
}
P0 = "P: !protocol\n  sequence:\n    a: int32\n    r: R\n"
# documented edits: (name, old, new, class the documentation gives: ok | warn | err | None when the documentation is silent)
EDITS = [
    ("identical", "R: !record\n  fields:\n    a: int32\n    b: string\n\n" + P0, "R: !record\n  fields:\n    a: int32\n    b: string\n\n" + P0, "ok"),
    ("reordered-definitions-and-comments", "R: !record\n  fields:\n    a: int32\n\n" + P0, "# a comment\n" + P0 + "\n# another\nR: !record\n  fields:\n    # about a\n    a: int32\n", "ok"),
    ("unused-type-added", "R: !record\n  fields:\n    a: int32\n\n" + P0, "R: !record\n  fields:\n    a: int32\n\nUnusedNew: !record\n  fields:\n    q: float\n\n" + P0, "ok"),
    ("rename-through-alias", "R: !record\n  fields:\n    a: int32\n\n" + P0, "Renamed: !record\n  fields:\n    a: int32\n\nR: Renamed\n\nP: !protocol\n  sequence:\n    a: int32\n    r: Renamed\n", "ok"),
    ("rename-without-alias", "R: !record\n  fields:\n    a: int32\n\n" + P0, "Renamed: !record\n  fields:\n    a: int32\n\nP: !protocol\n  sequence:\n    a: int32\n    r: Renamed\n", "err"),
    ("alias-added", "R: !record\n  fields:\n    a: int32\n\n" + P0, "R: !record\n  fields:\n    a: int32\n\nExtra: R\n\n" + P0, "ok"),
    ("alias-layer-inserted", "R: !record\n  fields:\n    a: int32\n\n" + P0, "MyInt: int32\n\nR: !record\n  fields:\n    a: MyInt\n\n" + P0, "ok"),
    ("alias-removed", "R: !record\n  fields:\n    a: int32\n\nGone: R\n\n" + P0, "R: !record\n  fields:\n    a: int32\n\n" + P0, "ok"),
    ("optional-field-added", "R: !record\n  fields:\n    a: int32\n\n" + P0, "R: !record\n  fields:\n    a: int32\n    n: string?\n\n" + P0, "ok"),
    ("optional-field-removed", "R: !record\n  fields:\n    a: int32\n    n: string?\n\n" + P0, "R: !record\n  fields:\n    a: int32\n\n" + P0, "ok"),
    ("fields-reordered", "R: !record\n  fields:\n    a: int32\n    b: string\n\n" + P0, "R: !record\n  fields:\n    b: string\n    a: int32\n\n" + P0, "ok"),
    ("required-field-added", "R: !record\n  fields:\n    a: int32\n\n" + P0, "R: !record\n  fields:\n    a: int32\n    n: string\n\n" + P0, "warn"),
    ("required-field-removed", "R: !record\n  fields:\n    a: int32\n    n: string\n\n" + P0, "R: !record\n  fields:\n    a: int32\n\n" + P0, "warn"),
    # a required field whose TYPE merely contains an optional somewhere inside is still a required field
    ("required-record-field-added", "Inner: !record\n  fields:\n    note: string?\n    k: int32\n\nR: !record\n  fields:\n    a: int32\n\n" + P0, "Inner: !record\n  fields:\n    note: string?\n    k: int32\n\nR: !record\n  fields:\n    a: int32\n    h: Inner\n\n" + P0, "warn"),
    ("required-record-field-removed", "Inner: !record\n  fields:\n    note: string?\n    k: int32\n\nR: !record\n  fields:\n    a: int32\n    h: Inner\n\n" + P0, "Inner: !record\n  fields:\n    note: string?\n    k: int32\n\nR: !record\n  fields:\n    a: int32\n\n" + P0, "warn"),
    ("required-vector-of-records-field-added", "Inner: !record\n  fields:\n    note: string?\n    k: int32\n\nR: !record\n  fields:\n    a: int32\n\n" + P0, "Inner: !record\n  fields:\n    note: string?\n    k: int32\n\nR: !record\n  fields:\n    a: int32\n    h: Inner*\n\n" + P0, "warn"),
    ("required-union-with-record-field-added", "Inner: !record\n  fields:\n    note: string?\n    k: int32\n\nR: !record\n  fields:\n    a: int32\n\n" + P0, "Inner: !record\n  fields:\n    note: string?\n    k: int32\n\nR: !record\n  fields:\n    a: int32\n    h: [int32, Inner]\n\n" + P0, "warn"),
    ("required-map-of-optionals-field-removed", "R: !record\n  fields:\n    a: int32\n    h: string->int32?\n\n" + P0, "R: !record\n  fields:\n    a: int32\n\n" + P0, "warn"),
    ("field-made-optional", "R: !record\n  fields:\n    a: int32\n\n" + P0, "R: !record\n  fields:\n    a: int32?\n\n" + P0, "warn"),
    ("field-int-to-long", "R: !record\n  fields:\n    a: int32\n\n" + P0, "R: !record\n  fields:\n    a: int64\n\n" + P0, "warn"),
    ("field-int-to-string", "R: !record\n  fields:\n    a: int32\n\n" + P0, "R: !record\n  fields:\n    a: string\n\n" + P0, "warn"),
    ("field-float-to-int", "R: !record\n  fields:\n    a: float32\n\n" + P0, "R: !record\n  fields:\n    a: int8\n\n" + P0, "warn"),
    ("field-optional-to-union", "R: !record\n  fields:\n    a: int32?\n\n" + P0, "R: !record\n  fields:\n    a: [null, int32, string]\n\n" + P0, "warn"),
    ("field-union-to-optional", "R: !record\n  fields:\n    a: [null, int32, string]\n\n" + P0, "R: !record\n  fields:\n    a: int32?\n\n" + P0, "warn"),
    ("union-type-added", "R: !record\n  fields:\n    a: [int32, string]\n\n" + P0, "R: !record\n  fields:\n    a: [int32, string, float32]\n\n" + P0, "warn"),
    ("union-type-removed", "R: !record\n  fields:\n    a: [int32, string, float32]\n\n" + P0, "R: !record\n  fields:\n    a: [int32, string]\n\n" + P0, "warn"),
    ("stream-step-added", "R: !record\n  fields:\n    a: int32\n\n" + P0, "R: !record\n  fields:\n    a: int32\n\n" + P0 + "    extra: !stream\n      items: R\n", "ok"),
    ("vector-step-added", "R: !record\n  fields:\n    a: int32\n\n" + P0, "R: !record\n  fields:\n    a: int32\n\n" + P0 + "    extra: R*\n", "ok"),
    ("optional-step-added", "R: !record\n  fields:\n    a: int32\n\n" + P0, "R: !record\n  fields:\n    a: int32\n\n" + P0 + "    extra: R?\n", "ok"),
    ("required-step-added", "R: !record\n  fields:\n    a: int32\n\n" + P0, "R: !record\n  fields:\n    a: int32\n\n" + P0 + "    extra: R\n", "err"),
    ("step-removed", "R: !record\n  fields:\n    a: int32\n\n" + P0, "R: !record\n  fields:\n    a: int32\n\nP: !protocol\n  sequence:\n    r: R\n", "err"),
    ("steps-reordered", "R: !record\n  fields:\n    a: int32\n\n" + P0, "R: !record\n  fields:\n    a: int32\n\nP: !protocol\n  sequence:\n    r: R\n    a: int32\n", "err"),
    ("enum-value-removed", "R: !enum\n  values: [p, q, r]\n\n" + P0, "R: !enum\n  values: [p, q]\n\n" + P0, "err"),
    ("enum-value-changed", "R: !enum\n  values:\n    p: 1\n    q: 2\n\n" + P0, "R: !enum\n  values:\n    p: 1\n    q: 3\n\n" + P0, "err"),
    ("enum-base-changed", "R: !enum\n  base: uint8\n  values: [p, q]\n\n" + P0, "R: !enum\n  base: uint16\n  values: [p, q]\n\n" + P0, "err"),
    ("enum-to-flags", "R: !enum\n  values:\n    p: 1\n    q: 2\n\n" + P0, "R: !flags\n  values:\n    p: 1\n    q: 2\n\n" + P0, "err"),
    ("enum-value-added", "R: !enum\n  values: [p, q]\n\n" + P0, "R: !enum\n  values: [p, q, r]\n\n" + P0, None),
    ("scalar-to-vector", "R: !record\n  fields:\n    a: int32\n\n" + P0, "R: !record\n  fields:\n    a: int32*\n\n" + P0, "err"),
    ("scalar-to-array", "R: !record\n  fields:\n    a: int32\n\n" + P0, "R: !record\n  fields:\n    a: int32[]\n\n" + P0, "err"),
    ("generic-parameter-count", "R<T>: !record\n  fields:\n    a: T\n\nP: !protocol\n  sequence:\n    a: int32\n    r: R<int32>\n",
     "R<T, U>: !record\n  fields:\n    a: T\n    b: U?\n\nP: !protocol\n  sequence:\n    a: int32\n    r: R<int32, int32>\n", "err"),
    ("generic-type-argument", "R<T>: !record\n  fields:\n    a: T\n\nP: !protocol\n  sequence:\n    a: int32\n    r: R<int32>\n",
     "R<T>: !record\n  fields:\n    a: T\n\nP: !protocol\n  sequence:\n    a: int32\n    r: R<string>\n", "err"),
    ("changed-definition-behind-second-instantiation-breaking",
     "Wrapper<T>: !record\n  fields:\n    v: T\n\nInner: !record\n  fields:\n    x: int32\n\nOuter: !record\n  fields:\n    a: Wrapper<int32>\n    b: Wrapper<Inner>\n\nP: !protocol\n  sequence:\n    o: Outer\n    c: int32\n",
     "Wrapper<T>: !record\n  fields:\n    v: T\n\nInner: !record\n  fields:\n    x: int32*\n\nOuter: !record\n  fields:\n    a: Wrapper<int32>\n    b: Wrapper<Inner>\n\nP: !protocol\n  sequence:\n    o: Outer\n    c: int32\n", "err"),
    ("changed-definition-behind-second-instantiation-warning",
     "Wrapper<T>: !record\n  fields:\n    v: T\n\nInner: !record\n  fields:\n    x: int32\n\nOuter: !record\n  fields:\n    a: Wrapper<int32>\n    b: Wrapper<Inner>\n\nP: !protocol\n  sequence:\n    o: Outer\n    c: int32\n",
     "Wrapper<T>: !record\n  fields:\n    v: T\n\nInner: !record\n  fields:\n    x: int64\n\nOuter: !record\n  fields:\n    a: Wrapper<int32>\n    b: Wrapper<Inner>\n\nP: !protocol\n  sequence:\n    o: Outer\n    c: int32\n", "warn"),
    ("changed-definition-behind-second-alias-instantiation",
     "Box<T>: T?\n\nInner: !record\n  fields:\n    x: int32\n\nOuter: !record\n  fields:\n    a: Box<int32>\n    b: Box<Inner>\n\nP: !protocol\n  sequence:\n    o: Outer\n",
     "Box<T>: T?\n\nInner: !record\n  fields:\n    x: string*\n\nOuter: !record\n  fields:\n    a: Box<int32>\n    b: Box<Inner>\n\nP: !protocol\n  sequence:\n    o: Outer\n", "err"),
    ("record-to-enum", "R: !record\n  fields:\n    a: int32\n\n" + P0, "R: !enum\n  values: [a]\n\n" + P0, "err"),
    ("protocol-removed", "R: !record\n  fields:\n    a: int32\n\n" + P0 + "\nQ: !protocol\n  sequence:\n    z: int32\n", "R: !record\n  fields:\n    a: int32\n\n" + P0, "warn"),
    ("vector-length-changed", "R: !record\n  fields:\n    a: int32*3\n\n" + P0, "R: !record\n  fields:\n    a: int32*4\n\n" + P0, "err"),
    ("array-dimension-renamed", "R: !record\n  fields:\n    a: int32[x, y]\n\n" + P0, "R: !record\n  fields:\n    a: int32[u, w]\n\n" + P0, None),
    ("map-value-changed", "R: !record\n  fields:\n    a: string->int32\n\n" + P0, "R: !record\n  fields:\n    a: string->int64\n\n" + P0, None),
    ("union-cases-reordered", "R: !record\n  fields:\n    a: [int32, string]\n\n" + P0, "R: !record\n  fields:\n    a: [string, int32]\n\n" + P0, None),
]
CFGJ = "json:\n  outputDir: ../out\n"


def clean(s):
    return re.sub(r"\x1b\[[0-9;]*m", "", s)


def evaluate(ctx, root, old_text, new_text):
    """-> None when one of the two models is not valid on its own; else dict(real class, coq case, outputs)"""
    for name, text, extra in (("old", old_text, CFGJ), ("newp", new_text, CFGJ), ("new", new_text, "versions:\n  v0: ../old\n")):
        d = os.path.join(root, name)
        os.makedirs(d, exist_ok=True)
        open(d + "/_package.yml", "w").write("namespace: App\n" + extra)
        open(d + "/m.yml", "w").write(text)
    for name in ("old", "newp"):
        rc, o, e = sh([ctx.yardl, "generate"], cwd=os.path.join(root, name), timeout=60)
        if rc != 0:
            return None
    rc, o, e = sh([ctx.yardl, "validate"], cwd=root + "/new", timeout=60)
    out = clean(o + e)
    crashed = rc not in (0, 1) or "panic" in out or "goroutine" in out
    cls = "crash" if crashed else ("err" if rc != 0 else ("warn" if "WRN" in out else "ok"))
    mo = evomodel.Env(json.load(open(root + "/old/../old/../old/../out/model.json"))) if False else None
    mo = evomodel.Env(json.load(open(os.path.join(root, "out_old.json")))) if os.path.exists(os.path.join(root, "out_old.json")) else None
    return {"class": cls, "output": out}


def imported_revisions_layer(ctx, same_package_class):
    """The changed definitions live in a library namespace `Lib` that the old and the new version of `App` import in two different
    revisions (two directories, same namespace name).  The verdict must be the one yardl gives when the same definitions are
    part of the package itself (same_package_class: label -> class, computed by the real yardl in the main layer)."""
    app = "P: !protocol\n  sequence:\n    a: int32\n    r: Lib.R\n"
    jobs = [(name, old[:-len(P0)], new[:-len(P0)], doc, app, app, None) for name, old, new, doc in EDITS
            if old.endswith(P0) and new.endswith(P0) and "P:" not in old[:-len(P0)] and "P:" not in new[:-len(P0)]]
    # an imported generic instantiated with a local type that is declared AFTER its user: the comparison walks the definitions in
    # dependency order, which here runs through the type argument of a reference into another namespace
    box = "Box<T>: !record\n  fields:\n    v: T\n    n: int32\n"
    appg = "Holder: !record\n  fields:\n    b: Lib.Box<Item>\n\nItem: !record\n  fields:\n    x: {X}\n\nP: !protocol\n  sequence:\n    a: int32\n    r: Holder\n"
    jobs.append(("imported-generic-local-argument-identical", box, box, "ok", appg.replace("{X}", "int32"), appg.replace("{X}", "int32"), "ok"))
    jobs.append(("imported-generic-local-argument-widened", box, box, "warn", appg.replace("{X}", "int32"), appg.replace("{X}", "int64"), "warn"))
    jobs.append(("imported-generic-local-argument-vector", box, box, "err", appg.replace("{X}", "int32"), appg.replace("{X}", "int32*"), "err"))

    def one(ij):
        i, (name, lo, ln, doc, app_old, app_new, _want) = ij
        root = os.path.join(ctx.scratch, "imp%d" % i)
        for d, ns, extra, text in (("libold", "Lib", "", lo), ("libnew", "Lib", "", ln),
                                   ("old", "App", "imports:\n  - ../libold\n", app_old),
                                   ("new", "App", "imports:\n  - ../libnew\nversions:\n  v0: ../old\n", app_new)):
            os.makedirs(os.path.join(root, d), exist_ok=True)
            open(os.path.join(root, d, "_package.yml"), "w").write("namespace: %s\n%s" % (ns, extra))
            open(os.path.join(root, d, "m.yml"), "w").write(text)
        for d in ("old",):
            rc, o, e = sh([ctx.yardl, "validate"], cwd=os.path.join(root, d), timeout=60)
            if rc != 0:
                return None
        rc, o, e = sh([ctx.yardl, "validate"], cwd=os.path.join(root, "new"), timeout=60)
        out = clean(o + e)
        crashed = rc not in (0, 1) or "panic" in out or "goroutine" in out
        return {"class": "crash" if crashed else ("err" if rc != 0 else ("warn" if "WRN" in out else "ok")), "output": out,
                "lib_old": lo, "lib_new": ln}
    with ThreadPoolExecutor(max_workers=12) as ex:
        res = list(ex.map(one, enumerate(jobs)))
    for (name, lo, ln, doc, app_old, app_new, want_fixed), r in zip(jobs, res):
        if r is None:
            ctx.count("imported_revisions", "old version invalid on its own")
            continue
        want = want_fixed or same_package_class.get("edit:" + name)
        ctx.case(("imported", name), sample={"edit": name, "imported": r["class"], "same_package": want, "documented": doc})
        ctx.count("imported_revisions", "agree" if want == r["class"] else "differ")
        if want is not None and r["class"] != want:
            ctx.report("imported-revision-verdict:" + name,
                       "edit '%s' applied to a definition of an imported namespace (old and new version import different revisions of "
                       "`Lib`): verdict %s, but %s when the same definitions are part of the package itself (documented: %s)"
                       % (name, r["class"], want, doc),
                       {"edit": name, "lib_old": lo, "lib_new": ln, "app_old": app_old, "app_new": app_new, "imported_verdict": r["class"], "same_package_verdict": want,
                        "documented": doc, "output": r["output"][-900:]})


def run(ctx):
    ctx.build_repo(need_hook=True)
    ok, failing, log = ctx.coq_props("C06")
    ctx.coverage["trusted_base"] = TRUSTED
    ctx.coverage["rule"] = ("%d documented edits (compatible / partially compatible / breaking / meaning-preserving) and random pairs of "
                            "%d types at %d positions (step, stream items, record field, used and unused alias, vector items, optional, "
                            "generic argument, map values, field of a streamed record); each pair of individually valid models validated "
                            "by the real yardl with `versions:`; verdict class (error / warning / silent) compared with the documentation "
                            "and with Model.Evolution.env_verdict evaluated in Coq on yardl's own model.json dumps; reflexivity checked on "
                            "random packages; non-trivial = each pair; distinct by (old, new)" % (len(EDITS), len(POOL), len(POSITIONS)))
    if not ok:
        ctx.report("proof:" + str(failing), "theorem/dependency no longer checks: %s" % failing,
                   {"broken": failing, "log": log[-3000:]}, no_input=True)
    quick = ctx.tier == "quick"
    rng = ctx.rng
    jobs = []       # (label, old text, new text, documented class or None)
    for name, old, new, doc in EDITS:
        jobs.append(("edit:" + name, old, new, doc))
    for _ in range(220 if quick else 2500):
        pos = rng.choice(list(POSITIONS))
        t1, t2 = rng.choice(POOL), rng.choice(POOL)
        if rng.random() < 0.08:
            t2 = t1
        tmpl = POSITIONS[pos]
        jobs.append(("pair:%s:%s=>%s" % (pos, t1, t2), BASE + tmpl.replace("{T}", "'%s'" % t1 if t1[0] != "[" else t1),
                     BASE + tmpl.replace("{T}", "'%s'" % t2 if t2[0] != "[" else t2), "ok" if t1 == t2 else None))
    # scalar <-> optional / union inside containers (every container x both directions)
    for pos in ("stream-items", "vector-items", "map-values", "step", "record-field"):
        for t1, t2 in (("int?", "int"), ("int", "int?"), ("[int, string]", "int"), ("int", "[int, string]"), ("Rec?", "RecAlias"),
                       ("int?", "AliasInt"), ("[null, int, string]", "int?"), ("int?", "[null, int, string]"), ("int*", "int?*"), ("int?*", "int*"),
                       ("int?", "Rec?"), ("int?", "date?"), ("int?", "bool?"), ("int?*", "bool?*"), ("int?*", "Rec?*"), ("int?", "int*?"),
                       ("Rec?*", "En?*"), ("int?*3", "date?*3")):
            tmpl = POSITIONS[pos]
            jobs.append(("pair:%s:%s=>%s" % (pos, t1, t2), BASE + tmpl.replace("{T}", "'%s'" % t1 if t1[0] != "[" else t1),
                         BASE + tmpl.replace("{T}", "'%s'" % t2 if t2[0] != "[" else t2), None))
    import c04
    for k in range(2 if quick else 10):
        text = ymodel.Gen(rng, namespace="App").build().yaml()
        jobs.append(("reflexive:random-package-%d" % k, text, text, "ok"))
        for _ in range(12 if quick else 40):
            e = c04.affecting_edit(text, rng)
            if e is not None:
                jobs.append(("edited-package:%d:%s" % (k, e[0]), text, e[1], None))

    def one(ij):
        i, (label, old, new, doc) = ij
        root = os.path.join(ctx.scratch, "e%d" % i)
        for name, text, extra in (("old", old, CFGJ.replace("../out", "../out_old")), ("newp", new, CFGJ.replace("../out", "../out_new")),
                                  ("new", new, "versions:\n  v0: ../old\n")):
            d = os.path.join(root, name)
            os.makedirs(d, exist_ok=True)
            open(d + "/_package.yml", "w").write("namespace: App\n" + extra)
            open(d + "/m.yml", "w").write(text)
        for name in ("old", "newp"):
            rc, o, e = sh([ctx.yardl, "generate"], cwd=os.path.join(root, name), timeout=60)
            if rc != 0:
                return None
        rc, o, e = sh([ctx.yardl, "validate"], cwd=root + "/new", timeout=60)
        out = clean(o + e)
        crashed = rc not in (0, 1) or "panic" in out or "goroutine" in out
        cls = "crash" if crashed else ("err" if rc != 0 else ("warn" if "WRN" in out else "ok"))
        try:
            eo = evomodel.Env(json.load(open(root + "/out_old/model.json")))
            en = evomodel.Env(json.load(open(root + "/out_new/model.json")))
            case = "(%s, %s, %s)" % (en.renames_from(eo), en.coq_env(), eo.coq_env())
        except evomodel.Unknown as ex:
            case = None
            out += "\nEXPANSION: %s" % ex
        # determinism: the verdict does not change from run to run
        rc2, o2, e2 = sh([ctx.yardl, "validate"], cwd=root + "/new", timeout=60)
        return {"class": cls, "output": out, "case": case, "same_again": clean(o2 + e2) == out and rc2 == rc}
    with ThreadPoolExecutor(max_workers=12) as ex:
        res = list(ex.map(one, enumerate(jobs)))
    live = [(j, r) for j, r in zip(jobs, res) if r is not None]
    ctx.count("pairs", "valid", len(live))
    ctx.count("pairs", "one side invalid on its own", len(jobs) - len(live))
    cases = [r["case"] for _, r in live if r["case"]]
    shards = [list(range(i, min(i + 25, len(cases)))) for i in range(0, len(cases), 25)]

    def ev(idx):
        body = ("From Coq Require Import List NArith ZArith Bool.\nImport ListNotations.\nOpen Scope N_scope.\n"
                "From YV Require Import Base.Wire Model.Binary Gen.Tables Model.Json Model.Schema Model.Evolution Proofs.EvolutionProofs.\n"
                "Definition cases : list (renames * eenv * eenv) := [\n " + ";\n ".join(cases[i] for i in idx) + "\n].\n"
                "Definition ST := Eval vm_compute in map (fun c => let '(r, n, o) := c in verdict_tag (env_verdict 40 r n o) + (if env_wf 40 n && env_wf 40 o then 0 else 10)) cases.\nPrint ST.\n")
        return Ctx.parse_nat_list(ctx.coq_eval("ev_%d" % idx[0], body, timeout=1500), "ST")
    with ThreadPoolExecutor(max_workers=10) as ex:
        st = [x for r in ex.map(ev, shards) for x in r]
    it = iter(st)
    imported_revisions_layer(ctx, {label: r["class"] for (label, _o, _n, _d), r in live})
    for (label, old, new, doc), r in live:
        code = next(it) if r["case"] else None
        model = {0: "ok", 1: "warn", 2: "err"}[code % 10] if r["case"] else None
        if code is not None:
            ctx.count("well_formedness_hypothesis_of_the_theorems", "holds" if code < 10 else "fails")
        ctx.case((old, new), sample={"pair": label[:90], "real": r["class"], "model": model, "documented": doc})
        ctx.count("real_verdict", r["class"])
        rep = {"pair": label, "old": old, "new": new, "real": r["class"], "model": model, "documented": doc, "output": r["output"][-900:]}
        kind = label.split(":")[0] + (":" + label.split(":")[1] if label.startswith("edit:") else "")
        if r["class"] == "crash":
            ctx.report("crash:" + kind, "comparing two valid models crashes yardl (%s)" % label[:120], rep)
            continue
        if not r["same_again"]:
            ctx.report("nondeterministic:" + kind, "two runs of `yardl validate` on the same pair of models print different verdicts (%s)" % label[:120], rep)
        if doc is not None and r["class"] != doc:
            ctx.report("documented-class:" + kind, "the documentation classifies '%s' as %s, yardl's verdict is %s" % (label[:100], doc, r["class"]), rep)
        if model is None:
            ctx.report("expansion:" + kind, "the harness cannot expand model.json for %s (correspondence broken)" % label[:100], rep, no_input=True)
        elif label.startswith("edited-package:"):
            # changes propagated through generic aliases are outside the model (DESIGN.md): agreement is only counted here
            ctx.count("edited_random_packages", "model agrees" if model == r["class"] else "model differs (real %s, model %s)" % (r["class"], model))
        elif model != r["class"]:
            ctx.report("model-differs:" + kind + ":" + (label.split(":")[1] if label.startswith("pair:") else ""),
                       "verdict of yardl (%s) differs from Model.Evolution.env_verdict (%s) on %s" % (r["class"], model, label[:120]), rep)


def replay(ctx, path):
    print(json.dumps(json.load(open(path)), indent=1)[:4000])
