"""C19 - computed fields mean the same thing in every target language."""
import json
import os
import re
import subprocess
from concurrent.futures import ThreadPoolExecutor

import genrun
import gentables
from vlib import Ctx, VERIF, PY_VT, sh
from ymodel import Package, INTW

LEVEL = "proof"
TRUSTED = [
    "Coq 8.16.1 kernel + vm_compute; theorems in coq/Props/C19.v (closed under the global context)",
    "coq/Gen/Tables.v (common_type, kinds, widths) is regenerated from the current Go sources on every run (translator: "
    "harness/lib/gentables.py + the verif-tagged hook `yardl-verif tables`)",
    "Model/Expr.v: hand-written typing/evaluation model for integer expressions (+ - * / unary minus), tied by generating records "
    "with computed fields, reading the static types out of generated C++/Python and running the generated Python and C++ methods",
    "Model/FloatExpr.v: float64 expressions (+ - * / unary minus) as Flocq binary64 operations, round to nearest even; tied by "
    "comparing the bit patterns computed by generated Python and generated C++ (g++ -O0, x86-64 SSE2 doubles) with the model; the "
    "theorems about it depend on the axioms of the standard library's real numbers (Print Assumptions: "
    "ClassicalDedekindReals.sig_not_dec, sig_forall_dec, FunctionalExtensionality.functional_extensionality_dep, Classical_Prop.classic), "
    "which Flocq's binary_float carries; Python floats raise ZeroDivisionError where C++ yields inf/nan: such cases are counted, not compared",
    "float32 / complex arithmetic, size()/indexing/switch and MATLAB evaluation are not modelled (MATLAB text only); harness",
]
INTS = ["int8", "uint8", "int16", "uint16", "int32", "uint32", "int64", "uint64", "size"]
COQP = gentables.COQ_PRIM
CPP_T = {"int8_t": "int8", "uint8_t": "uint8", "int16_t": "int16", "uint16_t": "uint16", "int32_t": "int32", "uint32_t": "uint32",
         "int64_t": "int64", "uint64_t": "uint64", "yardl::Size": "size", "float": "float32", "double": "float64",
         "std::complex<float>": "complexfloat32", "std::complex<double>": "complexfloat64"}
PY_T = {"yardl.Int8": "int8", "yardl.UInt8": "uint8", "yardl.Int16": "int16", "yardl.UInt16": "uint16", "yardl.Int32": "int32",
        "yardl.UInt32": "uint32", "yardl.Int64": "int64", "yardl.UInt64": "uint64", "yardl.Size": "size", "yardl.Float32": "float32",
        "yardl.Float64": "float64", "yardl.ComplexFloat": "complexfloat32", "yardl.ComplexDouble": "complexfloat64"}
OPS = {"+": "OAdd", "-": "OSub", "*": "OMul", "/": "ODiv"}


def lit_type(z):
    if z >= 0:
        for t in ("uint8", "uint16", "uint32", "uint64"):
            if z < 2 ** INTW[t][1]:
                return t
    else:
        for t in ("int8", "int16", "int32", "int64"):
            if z >= -2 ** (INTW[t][1] - 1):
                return t
    return None


class G:
    def __init__(self, rng, common):
        self.rng, self.common = rng, common

    def bin_type(self, a, b):
        c = self.common[a][b]
        if not c:
            return None
        return "int32" if c in ("int8", "uint8", "int16", "uint16") else c

    def gen(self, depth, allow_div):
        """returns (tree, type) with tree = ('f', i) | ('l', z) | ('n', t) | ('b', op, l, r)"""
        rng = self.rng
        for _ in range(50):
            if depth == 0 or rng.random() < 0.3:
                if rng.random() < 0.75:
                    i = rng.randrange(len(INTS))
                    return ("f", i), INTS[i]
                z = rng.choice([0, 1, 2, 3, 7, 100, 255, 256, 70000, -1, -3, -200])
                return ("l", z), lit_type(z)
            if rng.random() < 0.12:
                t, ty = self.gen(depth - 1, allow_div)
                if t[0] != "l":
                    return ("n", t), ty
                continue
            op = rng.choice(["+", "-", "*", "-", "/"] if allow_div else ["+", "-", "*", "-"])
            l, lt = self.gen(depth - 1, allow_div)
            r, rt = self.gen(depth - 1, allow_div)
            ty = self.bin_type(lt, rt)
            if ty:
                return ("b", op, l, r), ty
        return ("f", 4), "int32"


FN = ["f" + c for c in "abcdefghi"]


def yardl_expr(t):
    if t[0] == "f":
        return FN[t[1]]
    if t[0] == "l":
        return str(t[1]) if t[1] >= 0 else "(%d)" % t[1]
    if t[0] == "n":
        return "-(%s)" % yardl_expr(t[1])
    return "(%s %s %s)" % (yardl_expr(t[2]), t[1], yardl_expr(t[3]))


def coq_expr(t):
    if t[0] == "f":
        return "EField %d" % t[1]
    if t[0] == "l":
        return "ELit (%d)" % t[1]
    if t[0] == "n":
        return "ENeg (%s)" % coq_expr(t[1])
    return "EBin %s (%s) (%s)" % (OPS[t[1]], coq_expr(t[2]), coq_expr(t[3]))


def has(t, kind):
    if t[0] == kind:
        return True
    if t[0] == "n":
        return has(t[1], kind)
    if t[0] == "b":
        return (kind == "/" and t[1] == "/") or has(t[2], kind) or has(t[3], kind)
    return False


def div_safe(t, vs):
    """exact evaluation; None when some divisor is zero (C++ would trap)"""
    if t[0] == "f":
        return vs[t[1]]
    if t[0] == "l":
        return t[1]
    if t[0] == "n":
        x = div_safe(t[1], vs)
        return None if x is None else -x
    a, b = div_safe(t[2], vs), div_safe(t[3], vs)
    if a is None or b is None:
        return None
    if t[1] == "/":
        return None if b == 0 else a // b
    return {"+": a + b, "-": a - b, "*": a * b}[t[1]]


def exact(t, vs, trunc):
    if t[0] == "f":
        return vs[t[1]]
    if t[0] == "l":
        return t[1]
    if t[0] == "n":
        x = exact(t[1], vs, trunc)
        return None if x is None else -x
    a, b = exact(t[2], vs, trunc), exact(t[3], vs, trunc)
    if a is None or b is None:
        return None
    if t[1] == "/":
        if b == 0:
            return None
        q = abs(a) // abs(b)
        return (q if (a >= 0) == (b >= 0) else -q) if trunc else a // b
    return {"+": a + b, "-": a - b, "*": a * b}[t[1]]


def right_nested(t):
    """a right operand that is a binary expression of the same precedence as its parent (needs parentheses)"""
    if t[0] == "n":
        return right_nested(t[1])
    if t[0] != "b":
        return False
    prec = {"+": 0, "-": 0, "*": 1, "/": 1}
    r = t[3]
    if r[0] == "b" and prec[r[1]] == prec[t[1]] and t[1] in ("-", "/"):
        return True
    if r[0] == "b" and prec[r[1]] == prec[t[1]] and r[1] in ("-", "/") and t[1] in ("+", "*"):
        return False
    return right_nested(t[2]) or right_nested(t[3])


def run(ctx):
    ctx.build_repo(need_hook=True)
    ok, failing, log = ctx.coq_props("C19")
    ctx.coverage["trusted_base"] = TRUSTED
    ctx.coverage["rule"] = ("records with one field of each integer primitive and computed fields built from random, fully parenthesised "
                            "expression trees over fields and literals (+ - * /, unary minus; right-nested subtraction/division "
                            "over-represented); static types read from generated C++ return types and Python annotations; values computed "
                            "by the generated Python and C++ methods on edge and random field values; compared with Model.Expr inside Coq; "
                            "the common-type table is re-extracted from the Go sources; non-trivial = at least one operator; distinct by "
                            "(expression, values)")
    if not ok:
        ctx.report("proof:" + str(failing), "theorem/dependency no longer checks: %s" % failing,
                   {"broken": failing, "log": log[-3000:]}, no_input=True)
    quick = ctx.tier == "quick"
    rng = ctx.rng
    float_conversion_probe(ctx)
    float_expr_layer(ctx, 40 if quick else 160, 8 if quick else 30)
    float32_expr_layer(ctx, 20 if quick else 80, 6 if quick else 20)
    pow_layer(ctx)
    switch_layer(ctx)
    tables = json.loads(ctx.hook_call(["tables"]))
    g = G(rng, tables["common_type"])
    nrec, ncf = (3, 14) if quick else (10, 24)
    pkg = Package("Cfx")
    exprs = {}
    for r in range(nrec):
        rname = "Rc" + "abcdefghijklmnop"[r]
        lines = ["%s: !record" % rname, "  fields:"] + ["    %s: %s" % (FN[i], t) for i, t in enumerate(INTS)] + ["  computedFields:"]
        for c in range(ncf):
            t, ty = g.gen(rng.choice([1, 2, 2, 3]), allow_div=rng.random() < 0.3)
            if c in (4, 5):   # 64-bit quotients (exact-arithmetic oracle for Python)
                t, ty = (("b", "/", ("f", 6), ("f", 4)), "int64") if c == 4 else (("b", "/", ("f", 7), ("f", 5)), "uint64")
            if c < 4:   # the shapes that need parentheses on the right
                a, b, cc = rng.sample([4, 6, 0, 2, 1, 3], 3)
                op1, op2 = rng.choice([("-", "-"), ("-", "+"), ("/", "*"), ("-", "-")])
                t = ("b", op1, ("f", a), ("b", op2, ("f", b), ("f", cc)))
                ty = g.bin_type(INTS[a], g.bin_type(INTS[b], INTS[cc]) or "x") if g.bin_type(INTS[b], INTS[cc]) else None
                if not ty:
                    t, ty = ("b", "-", ("f", 4), ("b", "-", ("f", 2), ("f", 0))), "int32"
            if c == 6 and r == 0:   # fixed witnesses of the two recorded integer findings (reported on every run, whatever the seed)
                t, ty = ("n", ("f", 3)), "uint16"
            if c == 7 and r == 0:
                t, ty = ("b", "/", ("f", 4), ("f", 0)), "int32"
            if t[0] != "b" and t[0] != "n":
                t, ty = ("b", "+", t, ("l", 1)), g.bin_type(ty, "uint8")
                if not ty:
                    continue
            cname = "c" + "abcdefghijklmnopqrstuvwxyz"[c // 26] + "abcdefghijklmnopqrstuvwxyz"[c % 26]
            exprs[(rname, cname)] = (t, ty)
            lines.append("    %s: %s" % (cname, yardl_expr(t)))
        pkg.defs.append((rname, "\n".join(lines)))
    pkg.protocols.append(("Pz", [("s", __import__("ymodel").prim("int32"), False)]))
    gp = genrun.GenPackage(ctx, pkg, "cf", ndjson=False, cpp=True, extra_yaml="matlab:\n  outputDir: ../matlab\n")
    if not gp.generate():
        raise RuntimeError("yardl rejected the computed-field package:\n%s\n%s" % (gp.gen_out[-1500:], pkg.yaml()))
    # static types
    hdr = open(os.path.join(gp.dir, "cpp", "generated", "types.h")).read()
    pyt = open(os.path.join(gp.dir, "python", "cfx", "types.py")).read()
    decl = {}
    for (rname, cname), (t, ty) in exprs.items():
        C = cname[0].upper() + cname[1:]
        m = re.search(r"struct %s \{.*?\n  ([\w:<> ]+?) %s\(\) const \{" % (rname, C), hdr, re.S)
        mp = re.search(r"class %s\b.*?def %s\(self\) -> ([\w.]+):" % (rname, cname), pyt, re.S)
        ct = CPP_T.get(m.group(1).strip()) if m else None
        pt = PY_T.get(mp.group(1)) if mp else None
        decl[(rname, cname)] = (ct, pt)
        if ct != pt:
            ctx.report("static-type-differs-between-languages", "computed field %s.%s: C++ declares %s, Python %s"
                       % (rname, cname, m.group(1) if m else None, mp.group(1) if mp else None),
                       {"model": pkg.yaml(), "record": rname, "field": cname})
    # values
    valsets = []
    for _ in range(6 if quick else 20):
        vs = []
        for t in INTS:
            s, w = INTW[t]
            vs.append(rng.choice([0, 1, 2, 3, 5, 7, 11, 100, 127] + ([-1, -2, -7, -100] if s else [200, 255])))
        valsets.append(vs)
    valsets[0] = [2, 3, -7, 7, -7, 5, -100, 11, 3]
    big_from = len(valsets)
    for _ in range(3 if quick else 10):
        vs = []
        for t in INTS:
            sgn, w = INTW[t]
            hi = 2 ** (w - 1) - 1 if sgn else 2 ** w - 1
            vs.append(rng.choice([hi, hi - 1, hi // 3 + 1]) if w == 64 else rng.choice([3, 5, 7]))
        valsets.append(vs)
    # python
    pyprog = ["import sys, json", "sys.path.insert(0, %r)" % os.path.join(gp.dir, "python"), "import cfx", "out = {}"]
    for vi, vs in enumerate(valsets):
        for r in range(nrec):
            rname = "Rc" + "abcdefghijklmnop"[r]
            pyprog.append("r = cfx.%s(%s)" % (rname, ", ".join("%s=%d" % (FN[i], v) for i, v in enumerate(vs))))
            for (rn, cname) in exprs:
                if rn == rname:
                    pn = cname
                    pyprog.append("try:\n    out['%d %s %s'] = int(r.%s())\nexcept Exception as e:\n    out['%d %s %s'] = 'ERR:' + type(e).__name__"
                                  % (vi, rname, cname, pn, vi, rname, cname))
    pyprog.append("print(json.dumps(out))")
    open(os.path.join(gp.dir, "run.py"), "w").write("\n".join(pyprog))
    rc, o, e = sh([PY_VT, os.path.join(gp.dir, "run.py")], timeout=300)
    if rc != 0:
        raise RuntimeError("generated Python computed fields failed to run: " + e[-1500:])
    pyres = json.loads(o)
    # C++
    cpp = ['#include <iostream>', '#include "generated/types.h"', "int main() {"]
    for vi, vs in enumerate(valsets):
        if vi >= big_from:
            continue    # the large value sets are evaluated in Python only (C++ would overflow / trap)
        for r in range(nrec):
            rname = "Rc" + "abcdefghijklmnop"[r]
            cpp.append("  { cfx::%s r; %s" % (rname, " ".join("r.%s = %d%s;" % (FN[i], v, "LL" if v < 0 else "ULL") for i, v in enumerate(vs))))
            for (rn, cname) in exprs:
                if rn == rname and (not has(exprs[(rn, cname)][0], "/") or (
                        div_safe(exprs[(rn, cname)][0], vs) is not None and all(abs(v) < 1000 for v in vs))):
                    C = cname[0].upper() + cname[1:]
                    cpp.append('    std::cout << "%d %s %s " << +r.%s() << "\\n";' % (vi, rname, cname, C))
            cpp.append("  }")
    cpp += ["  return 0;", "}"]
    cdir = os.path.join(gp.dir, "cpp")
    open(os.path.join(cdir, "cf.cc"), "w").write("\n".join(cpp))
    rc, o, e = sh(["g++", "-std=c++17", "-O0", "-w", "-I", genrun.SHIMS, "-I", "generated", "cf.cc", "generated/types.cc", "-o", "cf"],
                  cwd=cdir, timeout=900)
    if rc != 0:
        ctx.report("cpp-compile", "generated C++ with computed fields does not compile", {"model": pkg.yaml(), "error": e[-2000:]})
        return
    rc, o, e = sh([os.path.join(cdir, "cf")], timeout=120)
    cppres = {}
    for ln in o.strip().split("\n"):
        a, b, c, v = ln.split()
        cppres["%s %s %s" % (a, b, c)] = int(v)
    # exact-arithmetic oracle for Python (unbounded integers): a division result must be the floor or the truncation
    # of the exact quotient - whichever convention - never something else
    for vi, vs in enumerate(valsets):
        for (rname, cname), (t, ty) in exprs.items():
            pv = pyres.get("%d %s %s" % (vi, rname, cname))
            if isinstance(pv, int) and has(t, "/") and not has(t, "n"):
                ef, et = exact(t, vs, False), exact(t, vs, True)
                ctx.count("python_exact_oracle", "checked")
                if ef is not None and pv not in (ef, et):
                    ctx.report("python-division-inexact", "generated Python evaluates `%s` to %s; the exact value is %s (floor) / %s "
                               "(truncation) for %s" % (yardl_expr(t), pv, ef, et, dict(zip(INTS, vs))),
                               {"expression": yardl_expr(t), "field_values": dict(zip(INTS, vs)), "python_value": pv,
                                "exact_floor": ef, "exact_trunc": et})
    # Coq
    cases, meta = [], []
    for vi, vs in enumerate(valsets[:big_from]):
        for (rname, cname), (t, ty) in exprs.items():
            key = "%d %s %s" % (vi, rname, cname)
            pv, cv = pyres.get(key), cppres.get(key)
            if isinstance(pv, str) or pv is None or cv is None:
                continue   # division by zero etc.
            d = decl[(rname, cname)][0]
            cases.append("([%s], [%s], %s, %s, (%d), (%d))" % ("; ".join(COQP[x] for x in INTS), "; ".join("(%d)" % v for v in vs),
                                                             coq_expr(t), ("Some " + COQP[d]) if d else "None", pv, cv))
            meta.append((rname, cname, t, vs, pv, cv, d))
    shards = [list(range(i, min(i + 250, len(cases)))) for i in range(0, len(cases), 250)]

    def ev(idx):
        body = ("From Coq Require Import List NArith ZArith Bool.\nImport ListNotations.\nOpen Scope Z_scope.\n"
                "From YV Require Import Model.Binary Gen.Tables Model.Expr.\n"
                "Definition cases : list ecase := [\n " + ";\n ".join(cases[i] for i in idx) + "\n].\n"
                "Definition ST := Eval vm_compute in map ecase_status cases.\nPrint ST.\n"
                "Definition GD := Eval vm_compute in map (fun c => if fst (ecase_guard c) then 1%N else 0%N) cases.\nPrint GD.\n"
                "Definition MV := Eval vm_compute in map (fun c => snd (ecase_guard c)) cases.\nPrint MV.\n")
        out = ctx.coq_eval("ec_%d" % idx[0], body)
        flat = " ".join(out.split())
        mv = re.search(r"MV = \[(.*?)\]", flat).group(1)
        mvs = [int(x.replace("%Z", "").replace("(", "").replace(")", "").strip()) for x in mv.split(";")] if mv.strip() else []
        return Ctx.parse_nat_list(out, "ST"), Ctx.parse_nat_list(out, "GD"), mvs
    with ThreadPoolExecutor(max_workers=8) as ex:
        res = list(ex.map(ev, shards))
    st = [x for r in res for x in r[0]]
    gd = [x for r in res for x in r[1]]
    mv = [x for r in res for x in r[2]]
    for (rname, cname, t, vs, pv, cv, d), s, gdd, m in zip(meta, st, gd, mv):
        ctx.count("guard_applies", str(bool(gdd)))
        ctx.count("has_division", str(has(t, "/")))
        ctx.case((yardl_expr(t), tuple(vs)), nontrivial=t[0] in ("b", "n"),
                 sample={"expression": yardl_expr(t), "declared_type": d, "field_values": dict(zip(INTS, vs)),
                         "python": pv, "cpp": cv, "mathematical": m if gdd else None})
        rep = {"model_record": rname, "computed_field": cname, "expression": yardl_expr(t), "field_values": dict(zip(INTS, vs)),
               "python_value": pv, "cpp_value": cv, "mathematical_value": m, "declared_type": d}
        if gdd and (pv != m or cv != m):
            # the guarded theorem applies: both targets must give the mathematical value
            key = "parenthesisation" if right_nested(t) else "wrong-value"
            ctx.report(key, "computed field `%s` evaluates to %s (Python) / %s (C++), mathematical value %s, for %s"
                       % (yardl_expr(t), pv, cv, m, dict(zip(INTS, vs))), dict(rep, model=pkg.yaml()))
        elif pv != cv and has(t, "/") and not has(t, "n"):
            ctx.report("integer-division-differs", "integer `/` differs between targets: `%s` is %s in Python (floor) and %s in C++ "
                       "(truncation) for %s" % (yardl_expr(t), pv, cv, dict(zip(INTS, vs))), rep)
        elif pv != cv and has(t, "n"):
            ctx.report("unsigned-negation-differs", "unary minus on an unsigned operand differs between targets: `%s` is %s in Python "
                       "and %s in C++ for %s" % (yardl_expr(t), pv, cv, dict(zip(INTS, vs))), rep)
        if s == 1:
            ctx.report("static-type-differs-from-model", "declared type %s of `%s` differs from Model.Expr.infer" % (d, yardl_expr(t)),
                       dict(rep, broken="correspondence Model.Expr.infer vs resolveComputedFields"), no_input=True)
        elif s in (2, 3) and not right_nested(t):
            ctx.report("model-differs:%s" % ("python" if s == 2 else "cpp"), "Model.Expr.eval_%s disagrees with the generated code on `%s`"
                       % ("py" if s == 2 else "cpp", yardl_expr(t)),
                       dict(rep, broken="correspondence Model.Expr.eval vs generated computed field"), no_input=True)


FD = ["da", "db", "dc", "dd"]


def float_expr_layer(ctx, n_exprs, n_valsets):
    """double-typed computed fields: random expression trees (+ - * /, unary minus) over four float64 fields, an int32 field
    and integer literals, every operator node having a double operand below it (so yardl types it float64); bit patterns of the
    values computed by generated Python and generated C++ compared with Model.FloatExpr.feval (Flocq binary64) inside Coq"""
    import struct
    rng = ctx.rng

    def has_double(t):
        return t[0] == "d" or (t[0] == "n" and has_double(t[1])) or (t[0] == "b" and (has_double(t[2]) or has_double(t[3])))

    def gen(depth):
        if depth == 0 or rng.random() < 0.25:
            r = rng.random()
            if r < 0.7:
                return ("d", rng.randrange(4))
            if r < 0.85:
                return ("i",)
            return ("l", rng.choice([0, 1, 2, 3, 7, 10, 100, 255, 70000, -1, -3]))
        if rng.random() < 0.12:
            return ("n", gen(depth - 1))
        return ("b", rng.choice("+-*//"), gen(depth - 1), gen(depth - 1))

    def ok(t):
        if t[0] == "n":
            return has_double(t) and ok(t[1])
        if t[0] == "b":
            return has_double(t) and ok(t[2]) and ok(t[3])
        return True

    def text(t):
        if t[0] == "d":
            return FD[t[1]]
        if t[0] == "i":
            return "ie"
        if t[0] == "l":
            return str(t[1]) if t[1] >= 0 else "(%d)" % t[1]
        if t[0] == "n":
            return "-(%s)" % text(t[1])
        return "(%s %s %s)" % (text(t[2]), t[1], text(t[3]))

    def coq(t, ie):
        if t[0] == "d":
            return "FField %d" % t[1]
        if t[0] == "i":
            return "FOfInt (%d)" % ie
        if t[0] == "l":
            return "FOfInt (%d)" % t[1]
        if t[0] == "n":
            return "FNeg (%s)" % coq(t[1], ie)
        return "FBin %s (%s) (%s)" % ({"+": "FAdd", "-": "FSub", "*": "FMul", "/": "FDiv"}[t[1]], coq(t[2], ie), coq(t[3], ie))
    trees = [("b", "/", ("d", 0), ("d", 1)), ("b", "/", ("d", 0), ("l", 2)), ("b", "/", ("i",), ("d", 1)),
             ("b", "-", ("d", 0), ("b", "/", ("d", 1), ("d", 2))), ("b", "/", ("d", 0), ("b", "*", ("d", 1), ("d", 2)))]
    while len(trees) < n_exprs:
        t = gen(rng.choice([1, 2, 2, 3]))
        if t[0] in ("b", "n") and ok(t):
            trees.append(t)
    names = ["f" + "abcdefghijklmnopqrstuvwxyz"[k // 26] + "abcdefghijklmnopqrstuvwxyz"[k % 26] for k in range(len(trees))]
    pkg = Package("Cfz")
    pkg.defs.append(("Rd", "Rd: !record\n  fields:\n" + "".join("    %s: float64\n" % f for f in FD) + "    ie: int32\n  computedFields:\n" +
                     "\n".join("    %s: %s" % (n, text(t)) for n, t in zip(names, trees))))
    pkg.protocols.append(("Pz", [("s", __import__("ymodel").prim("int32"), False)]))
    gp = genrun.GenPackage(ctx, pkg, "cfz", ndjson=False, cpp=True)
    if not gp.generate():
        raise RuntimeError("yardl rejected the floating-point computed-field package:\n%s\n%s" % (gp.gen_out[-1500:], pkg.yaml()))
    hdr = open(os.path.join(gp.dir, "cpp", "generated", "types.h")).read()
    for n, t in zip(names, trees):
        m = re.search(r"\n  ([\w:<> ]+?) %s\(\) const \{" % (n[0].upper() + n[1:]), hdr)
        if not m or m.group(1).strip() != "double":
            ctx.report("float-static-type", "computed field `%s` over float64 operands is declared %s in C++ (float64 expected)"
                       % (text(t), m.group(1) if m else None), {"expression": text(t), "model": pkg.yaml()})
            return
    EDGE = [0.0, -0.0, 1.0, 2.0, 7.0, -7.0, 0.1, 0.5, 1.0 / 3, 3.5, 1e16, 9007199254740993.0, 1e308, -1e308, 5e-324, 2.2250738585072014e-308,
            1.7976931348623157e308, float("inf"), float("-inf"), float("nan")]

    def bits(x):
        return struct.unpack("<Q", struct.pack("<d", x))[0]
    valsets = []
    for k in range(n_valsets):
        pool = EDGE[:13] if k % 3 else EDGE
        ds = [rng.choice(pool) if rng.random() < 0.6 else rng.uniform(-1000, 1000) for _ in range(4)]
        valsets.append((ds, rng.choice([0, 1, 2, 7, -3, 100, 16777217, -2147483648])))
    valsets[0] = ([7.0, 2.0, -7.0, 0.5], 7)
    prog = ["import sys, json, struct", "sys.path.insert(0, %r)" % os.path.join(gp.dir, "python"), "import cfz", "out = {}",
            "def bits(x):\n    x = float(x)\n    return -1 if x != x else struct.unpack('<Q', struct.pack('<d', x))[0]"]
    for vi, (ds, ie) in enumerate(valsets):
        prog.append("r = cfz.Rd(%s, ie=%d)" % (", ".join("%s=struct.unpack('<d', struct.pack('<Q', %d))[0]" % (f, bits(d)) for f, d in zip(FD, ds)), ie))
        for n in names:
            prog.append("try:\n    out['%d %s'] = bits(r.%s())\nexcept Exception as e:\n    out['%d %s'] = 'ERR:' + type(e).__name__" % (vi, n, n, vi, n))
    prog.append("print(json.dumps(out))")
    open(os.path.join(gp.dir, "runf.py"), "w").write("\n".join(prog))
    rc, o, e = sh([PY_VT, "-W", "ignore", os.path.join(gp.dir, "runf.py")], timeout=300)
    if rc != 0:
        raise RuntimeError("generated Python floating-point computed fields failed to run: " + e[-1500:])
    pyres = json.loads(o)
    cpp = ['#include <iostream>', '#include <cstring>', '#include <cstdint>', '#include <cmath>', '#include "generated/types.h"',
           "static long long bits(double x) { if (std::isnan(x)) return -1; uint64_t u; std::memcpy(&u, &x, 8); return (long long)u; }",
           "static double fromb(uint64_t u) { double x; std::memcpy(&x, &u, 8); return x; }", "int main() {"]
    for vi, (ds, ie) in enumerate(valsets):
        cpp.append("  { cfz::Rd r; %s r.ie = %d;" % (" ".join("r.%s = fromb(%dULL);" % (f, bits(d)) for f, d in zip(FD, ds)), ie))
        for n in names:
            cpp.append('    std::cout << "%d %s " << (unsigned long long)bits(r.%s()) << "\\n";' % (vi, n, n[0].upper() + n[1:]))
        cpp.append("  }")
    cpp += ["  return 0;", "}"]
    cdir = os.path.join(gp.dir, "cpp")
    open(os.path.join(cdir, "cfz.cc"), "w").write("\n".join(cpp))
    rc, o, e = sh(["g++", "-std=c++17", "-O0", "-w", "-I", genrun.SHIMS, "-I", "generated", "cfz.cc", "generated/types.cc", "-o", "cfz"],
                  cwd=cdir, timeout=900)
    if rc != 0:
        ctx.report("cpp-compile", "generated C++ with floating-point computed fields does not compile", {"model": pkg.yaml(), "error": e[-2000:]})
        return
    rc, o, e = sh([os.path.join(cdir, "cfz")], timeout=120)
    cppres = {}
    for ln in o.strip().split("\n"):
        a, b, v = ln.split()
        v = int(v)
        cppres["%s %s" % (a, b)] = -1 if v == 2 ** 64 - 1 else v
    cases, meta = [], []
    for vi, (ds, ie) in enumerate(valsets):
        for n, t in zip(names, trees):
            key = "%d %s" % (vi, n)
            pv, cv = pyres.get(key), cppres.get(key)
            if isinstance(pv, str):
                ctx.count("float_python_exception", pv)     # ZeroDivisionError: Python floats raise where C++ gives inf/nan
                continue
            cases.append("([%s], %s, (%d), (%d))" % ("; ".join(str(bits(d)) for d in ds), coq(t, ie), pv, cv))
            meta.append((n, t, ds, ie, pv, cv))
    shards = [list(range(i, min(i + 150, len(cases)))) for i in range(0, len(cases), 150)]

    def ev(idx):
        body = ("From Coq Require Import List NArith ZArith Bool.\nImport ListNotations.\nOpen Scope Z_scope.\n"
                "From YV Require Import Model.FloatExpr.\n"
                "Definition cases : list fcase := [\n " + ";\n ".join(cases[i] for i in idx) + "\n].\n"
                "Definition ST := Eval vm_compute in map fcase_status cases.\nPrint ST.\n")
        return Ctx.parse_nat_list(ctx.coq_eval("fc_%d" % idx[0], body, timeout=1500), "ST")
    with ThreadPoolExecutor(max_workers=8) as ex:
        st = [x for r in ex.map(ev, shards) for x in r]
    for (n, t, ds, ie, pv, cv), s_ in zip(meta, st):
        ctx.case(("float", text(t), tuple(bits(d) for d in ds), ie), nontrivial=True,
                 sample={"expression": text(t), "fields": dict(zip(FD, [repr(d) for d in ds]), ie=ie), "python_bits": pv, "cpp_bits": cv,
                         "agrees_with_model": s_ == 0})
        ctx.count("float_has_division", str("/" in text(t)))
        ctx.count("float_result", "nan" if pv == -1 else ("inf" if pv in (0x7FF0000000000000, 0xFFF0000000000000) else "finite"))
        if s_ != 0:
            who = {1: "generated Python", 2: "generated C++", 3: "generated Python and C++"}[s_]
            ctx.report("float-wrong-value:%d" % s_, "floating-point computed field `%s` on %s, ie=%d: %s differ(s) from the correctly "
                       "rounded value (python bits %s, c++ bits %s)" % (text(t), [repr(d) for d in ds], ie, who, pv, cv),
                       {"expression": text(t), "fields": dict(zip(FD, [repr(d) for d in ds])), "ie": ie, "python_bits": pv,
                        "cpp_bits": cv, "model": pkg.yaml()})


POW_EXPRS = ["(da * db) ** dc", "da * db ** dc", "(da / db) ** dc", "da / db ** dc", "(da + db) ** dc", "da + db ** dc", "(da ** db) ** dc",
             "da ** db ** dc", "(-da) ** dc", "(da * db) ** dc * da", "da ** (db * dc)", "da ** db * dc", "(da - db) ** dc / db",
             "(da * db) ** ia", "(ia * ib) ** dc"]


def pow_layer(ctx):
    """`**` in computed fields: products, quotients, sums and powers as the base or the exponent of a power, on small whole numbers
    (every intermediate value is an integer or a dyadic rational below 2^40, so pow is exact in every libm); the generated
    Python and C++ must both give the mathematical value, which is computed here with exact rationals from the SOURCE text"""
    from fractions import Fraction
    names = ["p" + "abcdefghijklmnopqrstuvwxyz"[k] for k in range(len(POW_EXPRS))]
    pkg = Package("Cpw")
    pkg.defs.append(("Rp", "Rp: !record\n  fields:\n    da: float64\n    db: float64\n    dc: float64\n    ia: int32\n    ib: int32\n  computedFields:\n" +
                     "\n".join("    %s: \"%s\"" % (n, e) for n, e in zip(names, POW_EXPRS))))
    pkg.protocols.append(("Pz", [("s", __import__("ymodel").prim("int32"), False)]))
    gp = genrun.GenPackage(ctx, pkg, "cpw", ndjson=False, cpp=True)
    if not gp.generate():
        raise RuntimeError("yardl rejected the power package:\n%s\n%s" % (gp.gen_out[-1500:], pkg.yaml()))
    valsets = [(2, 3, 2, 2, 3), (2, 4, 3, 3, 2), (3, 2, 2, 2, 2), (4, 2, 2, 1, 3), (-2, 4, 2, 2, 2)]

    def exact(expr, vs):
        env = dict(zip(("da", "db", "dc", "ia", "ib"), (Fraction(v) for v in vs)))
        class Num:
            def __init__(self, f): self.f = Fraction(f)
            def __add__(self, o): return Num(self.f + o.f)
            def __sub__(self, o): return Num(self.f - o.f)
            def __mul__(self, o): return Num(self.f * o.f)
            def __truediv__(self, o): return Num(self.f / o.f)
            def __neg__(self): return Num(-self.f)
            def __pow__(self, o):
                if o.f.denominator != 1 or abs(o.f) > 64:
                    raise OverflowError
                return Num(self.f ** int(o.f))
        try:
            v = eval(expr, {"__builtins__": {}}, {k_: Num(v_) for k_, v_ in env.items()}).f     # Python's precedence of ** over unary minus is yardl's
        except (OverflowError, ZeroDivisionError):
            return None
        return v if abs(v) < 2 ** 40 and (v.denominator & (v.denominator - 1)) == 0 else None
    prog = ["import sys, json", "sys.path.insert(0, %r)" % os.path.join(gp.dir, "python"), "import cpw", "out = {}"]
    for vi, vs in enumerate(valsets):
        prog.append("r = cpw.Rp(da=%d.0, db=%d.0, dc=%d.0, ia=%d, ib=%d)" % vs)
        for n in names:
            prog.append("try:\n    out['%d %s'] = float(r.%s()).hex()\nexcept Exception as e:\n    out['%d %s'] = 'ERR:' + type(e).__name__" % (vi, n, n, vi, n))
    prog.append("print(json.dumps(out))")
    open(os.path.join(gp.dir, "runp.py"), "w").write("\n".join(prog))
    rc, o, e = sh([PY_VT, "-W", "ignore", os.path.join(gp.dir, "runp.py")], timeout=300)
    if rc != 0:
        raise RuntimeError("generated Python power computed fields failed to run: " + e[-1500:])
    pyres = json.loads(o)
    cpp = ['#include <iostream>', '#include <cstdio>', '#include "generated/types.h"', "int main() {"]
    for vi, vs in enumerate(valsets):
        cpp.append("  { cpw::Rp r; r.da = %d; r.db = %d; r.dc = %d; r.ia = %d; r.ib = %d;" % vs)
        for n in names:
            cpp.append('    std::printf("%d %s %%a\\n", (double)r.%s());' % (vi, n, n[0].upper() + n[1:]))
        cpp.append("  }")
    cpp += ["  return 0;", "}"]
    cdir = os.path.join(gp.dir, "cpp")
    open(os.path.join(cdir, "cpw.cc"), "w").write("\n".join(cpp))
    rc, o, e = sh(["g++", "-std=c++17", "-O0", "-w", "-I", genrun.SHIMS, "-I", "generated", "cpw.cc", "generated/types.cc", "-o", "cpw"], cwd=cdir, timeout=900)
    if rc != 0:
        ctx.report("cpp-compile", "generated C++ with `**` computed fields does not compile", {"model": pkg.yaml(), "error": e[-2000:]})
        return
    rc, o, e = sh([os.path.join(cdir, "cpw")], timeout=120)
    cppres = {}
    for ln in o.strip().split("\n"):
        a, b, v = ln.split()
        cppres["%s %s" % (a, b)] = float.fromhex(v)
    for vi, vs in enumerate(valsets):
        for n, expr in zip(names, POW_EXPRS):
            want = exact(expr, vs)
            key = "%d %s" % (vi, n)
            pv = pyres.get(key)
            pvf = float.fromhex(pv) if isinstance(pv, str) and not pv.startswith("ERR") else None
            cv = cppres.get(key)
            if want is None:
                ctx.count("pow_cases", "outside the exact range")
                continue
            ctx.count("pow_cases", "exact")
            ctx.case(("pow", expr, vs), nontrivial=True, sample={"expression": expr, "values": dict(zip(("da", "db", "dc", "ia", "ib"), vs)),
                                                                 "mathematical": float(want), "python": pvf if pvf is not None else pv, "cpp": cv})
            if pvf != float(want) or cv != float(want):
                ctx.report("pow-wrong-value", "computed field `%s` on %s is %s in generated Python and %s in generated C++; the mathematical value is %s"
                           % (expr, dict(zip(("da", "db", "dc", "ia", "ib"), vs)), pvf if pvf is not None else pv, cv, want),
                           {"expression": expr, "values": dict(zip(("da", "db", "dc", "ia", "ib"), vs)), "python": pvf if pvf is not None else pv, "cpp": cv,
                            "mathematical": str(want), "model": pkg.yaml()})


SWITCH_MODEL = """Lookup: !record
  fields:
    items: int32*
    grid: int32[2, 3]
    pick: uint32?
    where: [uint8, uint64]
    txt: [int32, string]
  computedFields:
    pickedItem:
      !switch pick:
        uint32 p: items[p]
        null: items[0]
    pickedItemPlusOne:
      !switch pick:
        uint32 p: items[p] + 1
        null: 1
    pickedDirect:
      !switch pick:
        uint32 p: p
        null: 0
    gridCell:
      !switch where:
        uint8 r: grid[r, 1]
        uint64 c: grid[0, c]
    gridCellNamed:
      !switch where:
        uint8 r: grid[r, 2]
        _: grid[1, 0]
    sizeOrNumber:
      !switch txt:
        int32 n: n * 2
        string t: 7
    nested:
      !switch pick:
        uint32 p: items[items[p] - items[p]]
        null: -1

Pz: !protocol
  sequence:
    s: Lookup
"""


def switch_layer(ctx):
    """`!switch` over optionals and unions with declared pattern variables used as subscripts, operands and not at all: the values of
    the generated Python against the values read off the source by hand; the generated C++ must compile"""
    pkg = Package("Csw")
    pkg.protocols.append(("Pz", [("s", __import__("ymodel").prim("int32"), False)]))
    gp = genrun.GenPackage(ctx, pkg, "csw", ndjson=False, cpp=True, model_text=SWITCH_MODEL)
    if not gp.generate():
        raise RuntimeError("yardl rejected the switch package:\n%s" % gp.gen_out[-1500:])
    want = {  # (pick, where, txt) -> field -> value;  items = [10, 20, 30], grid = [[1, 2, 3], [4, 5, 6]]
        ("1", "csw.Uint8OrUint64.Uint8(1)", "csw.Int32OrString.Int32(21)"):
            {"picked_item": 20, "picked_item_plus_one": 21, "picked_direct": 1, "grid_cell": 5, "grid_cell_named": 6, "size_or_number": 42, "nested": 10},
        ("None", "csw.Uint8OrUint64.Uint64(2)", "csw.Int32OrString.String('x')"):
            {"picked_item": 10, "picked_item_plus_one": 1, "picked_direct": 0, "grid_cell": 3, "grid_cell_named": 4, "size_or_number": 7, "nested": -1},
        ("2", "csw.Uint8OrUint64.Uint8(0)", "csw.Int32OrString.Int32(-4)"):
            {"picked_item": 30, "picked_item_plus_one": 31, "picked_direct": 2, "grid_cell": 2, "grid_cell_named": 3, "size_or_number": -8, "nested": 10},
    }
    prog = ["import sys, json", "import numpy as np", "sys.path.insert(0, %r)" % os.path.join(gp.dir, "python"), "import csw", "out = {}"]
    for vi, ((pick, where, txt), fields) in enumerate(want.items()):
        prog.append("r = csw.Lookup(items=[10, 20, 30], grid=np.array([[1, 2, 3], [4, 5, 6]], dtype=np.int32), pick=%s, where=%s, txt=%s)" % (pick, where, txt))
        for f in fields:
            prog.append("try:\n    out['%d %s'] = int(r.%s())\nexcept Exception as e:\n    out['%d %s'] = 'ERR:' + type(e).__name__ + ': ' + str(e)[:80]" % (vi, f, f, vi, f))
    prog.append("print(json.dumps(out))")
    open(os.path.join(gp.dir, "runs.py"), "w").write("\n".join(prog))
    rc, o, e = sh([PY_VT, "-W", "ignore", os.path.join(gp.dir, "runs.py")], timeout=300)
    if rc != 0:
        ctx.report("switch-python-failed", "the generated Python of the switch package cannot be used: %s" % e.strip()[-200:], {"model": SWITCH_MODEL, "error": e[-1500:]})
        return
    res = json.loads(o)
    for vi, ((pick, where, txt), fields) in enumerate(want.items()):
        for f, v in fields.items():
            got = res.get("%d %s" % (vi, f))
            ctx.case(("switch", f, pick, where, txt), nontrivial=True, sample={"computed_field": f, "pick": pick, "where": where, "txt": txt, "python": got, "expected": v})
            if got != v:
                ctx.report("switch-wrong-value", "computed field `%s` (a !switch) with pick=%s, where=%s, txt=%s is %s in generated Python; the value "
                           "read off the model is %s" % (f, pick, where, txt, got, v),
                           {"computed_field": f, "pick": pick, "where": where, "txt": txt, "python": got, "expected": v, "model": SWITCH_MODEL})
    cdir = os.path.join(gp.dir, "cpp")
    rc, o, e = sh(["g++", "-std=c++17", "-O0", "-w", "-fsyntax-only", "-I", genrun.SHIMS, "-I", "generated", "generated/types.cc"], cwd=cdir, timeout=900)
    if rc != 0:
        ctx.report("switch-cpp-compile", "the generated C++ of `!switch` computed fields does not compile: %s" % re.sub(r"\s+", " ", e)[:300],
                   {"model": SWITCH_MODEL, "error": e[-2000:]})


def float32_expr_layer(ctx, n_exprs, n_valsets):
    """float32-typed computed fields over four float32 fields: generated C++ computes in `float`, generated Python holds the fields
    as Python floats and computes in double; both are compared with Model.FloatExpr (feval32, and feval on the widened operands);
    where the two values differ as real numbers the property is violated (known finding float32-arithmetic-in-double)"""
    import struct
    rng = ctx.rng
    FS = ["sa", "sb", "sc", "sd"]

    def gen(depth):
        if depth == 0 or rng.random() < 0.3:
            return ("d", rng.randrange(4))
        if rng.random() < 0.1:
            return ("n", gen(depth - 1))
        return ("b", rng.choice("+-*/"), gen(depth - 1), gen(depth - 1))

    def text(t):
        if t[0] == "d":
            return FS[t[1]]
        if t[0] == "n":
            return "-(%s)" % text(t[1])
        return "(%s %s %s)" % (text(t[2]), t[1], text(t[3]))

    def coq(t):
        if t[0] == "d":
            return "FField %d" % t[1]
        if t[0] == "n":
            return "FNeg (%s)" % coq(t[1])
        return "FBin %s (%s) (%s)" % ({"+": "FAdd", "-": "FSub", "*": "FMul", "/": "FDiv"}[t[1]], coq(t[2]), coq(t[3]))
    trees = [("b", "+", ("d", 0), ("d", 1)), ("b", "*", ("d", 0), ("d", 1)), ("b", "/", ("d", 0), ("d", 2))]
    while len(trees) < n_exprs:
        t = gen(rng.choice([1, 2, 2, 3]))
        if t[0] in ("b", "n"):
            trees.append(t)
    names = ["g" + "abcdefghijklmnopqrstuvwxyz"[k // 26] + "abcdefghijklmnopqrstuvwxyz"[k % 26] for k in range(len(trees))]
    pkg = Package("Cfw")
    pkg.defs.append(("Rs", "Rs: !record\n  fields:\n" + "".join("    %s: float32\n" % f for f in FS) + "  computedFields:\n" +
                     "\n".join("    %s: %s" % (n, text(t)) for n, t in zip(names, trees))))
    pkg.protocols.append(("Pz", [("s", __import__("ymodel").prim("int32"), False)]))
    gp = genrun.GenPackage(ctx, pkg, "cfw", ndjson=False, cpp=True)
    if not gp.generate():
        raise RuntimeError("yardl rejected the float32 computed-field package:\n%s\n%s" % (gp.gen_out[-1500:], pkg.yaml()))
    hdr = open(os.path.join(gp.dir, "cpp", "generated", "types.h")).read()
    for n, t in zip(names, trees):
        m = re.search(r"\n  ([\w:<> ]+?) %s\(\) const \{" % (n[0].upper() + n[1:]), hdr)
        if not m or m.group(1).strip() != "float":
            ctx.report("float-static-type", "computed field `%s` over float32 operands is declared %s in C++ (float32 expected)"
                       % (text(t), m.group(1) if m else None), {"expression": text(t), "model": pkg.yaml()})
            return
    EDGE = [0.0, 1.0, 2.0, 7.0, -7.0, 0.1, 0.2, 0.5, 1.0 / 3, 3.5, 16777216.0, 1e30, -1e30, 1e-40]

    def f32(x):
        return struct.unpack("<I", struct.pack("<f", x))[0]
    valsets = [[f32(rng.choice(EDGE) if rng.random() < 0.6 else rng.uniform(-1000, 1000)) for _ in range(4)] for _ in range(n_valsets)]
    valsets[0] = [f32(0.1), f32(0.2), f32(3.0), f32(7.0)]
    prog = ["import sys, json, struct", "sys.path.insert(0, %r)" % os.path.join(gp.dir, "python"), "import cfw", "out = {}",
            "def bits(x):\n    x = float(x)\n    return -1 if x != x else struct.unpack('<Q', struct.pack('<d', x))[0]"]
    for vi, vs in enumerate(valsets):
        prog.append("r = cfw.Rs(%s)" % ", ".join("%s=struct.unpack('<f', struct.pack('<I', %d))[0]" % (f, b) for f, b in zip(FS, vs)))
        for n in names:
            prog.append("try:\n    out['%d %s'] = bits(r.%s())\nexcept Exception as e:\n    out['%d %s'] = 'ERR:' + type(e).__name__" % (vi, n, n, vi, n))
    prog.append("print(json.dumps(out))")
    open(os.path.join(gp.dir, "runw.py"), "w").write("\n".join(prog))
    rc, o, e = sh([PY_VT, "-W", "ignore", os.path.join(gp.dir, "runw.py")], timeout=300)
    if rc != 0:
        raise RuntimeError("generated Python float32 computed fields failed to run: " + e[-1500:])
    pyres = json.loads(o)
    cpp = ['#include <iostream>', '#include <cstring>', '#include <cstdint>', '#include <cmath>', '#include "generated/types.h"',
           "static long long bits(float x) { if (std::isnan(x)) return -1; uint32_t u; std::memcpy(&u, &x, 4); return (long long)u; }",
           "static float fromb(uint32_t u) { float x; std::memcpy(&x, &u, 4); return x; }", "int main() {"]
    for vi, vs in enumerate(valsets):
        cpp.append("  { cfw::Rs r; %s" % " ".join("r.%s = fromb(%dU);" % (f, b) for f, b in zip(FS, vs)))
        for n in names:
            cpp.append('    std::cout << "%d %s " << bits(r.%s()) << "\\n";' % (vi, n, n[0].upper() + n[1:]))
        cpp.append("  }")
    cpp += ["  return 0;", "}"]
    cdir = os.path.join(gp.dir, "cpp")
    open(os.path.join(cdir, "cfw.cc"), "w").write("\n".join(cpp))
    rc, o, e = sh(["g++", "-std=c++17", "-O0", "-w", "-I", genrun.SHIMS, "-I", "generated", "cfw.cc", "generated/types.cc", "-o", "cfw"],
                  cwd=cdir, timeout=900)
    if rc != 0:
        ctx.report("cpp-compile", "generated C++ with float32 computed fields does not compile", {"model": pkg.yaml(), "error": e[-2000:]})
        return
    rc, o, e = sh([os.path.join(cdir, "cfw")], timeout=120)
    cppres = {}
    for ln in o.strip().split("\n"):
        a, b, v = ln.split()
        cppres["%s %s" % (a, b)] = int(v)
    cases, meta = [], []
    for vi, vs in enumerate(valsets):
        for n, t in zip(names, trees):
            key = "%d %s" % (vi, n)
            pv, cv = pyres.get(key), cppres.get(key)
            if isinstance(pv, str) or cv is None:
                ctx.count("float32_python_exception", str(pv))
                continue
            cases.append("([%s], %s, (%d), (%d))" % ("; ".join(map(str, vs)), coq(t), pv, cv))
            meta.append((n, t, vs, pv, cv))
    shards = [list(range(i, min(i + 150, len(cases)))) for i in range(0, len(cases), 150)]

    def ev(idx):
        body = ("From Coq Require Import List NArith ZArith Bool.\nImport ListNotations.\nOpen Scope Z_scope.\n"
                "From YV Require Import Model.FloatExpr.\n"
                "Definition cases : list f32case := [\n " + ";\n ".join(cases[i] for i in idx) + "\n].\n"
                "Definition ST := Eval vm_compute in map f32case_status cases.\nPrint ST.\n"
                "Definition SM := Eval vm_compute in map (fun c => if f32case_same c then 1%N else 0%N) cases.\nPrint SM.\n")
        out = ctx.coq_eval("f32_%d" % idx[0], body, timeout=1500)
        return Ctx.parse_nat_list(out, "ST"), Ctx.parse_nat_list(out, "SM")
    with ThreadPoolExecutor(max_workers=8) as ex:
        res = list(ex.map(ev, shards))
    st = [x for r in res for x in r[0]]
    sm = [x for r in res for x in r[1]]
    for (n, t, vs, pv, cv), s_, same in zip(meta, st, sm):
        ctx.case(("float32", text(t), tuple(vs)), nontrivial=True,
                 sample={"expression": text(t), "field_bits": vs, "python_double_bits": pv, "cpp_float_bits": cv,
                         "as_modelled": s_ == 0, "same_real_value": bool(same)})
        ctx.count("float32_same_value_in_both_languages", str(bool(same)))
        if s_ != 0:
            who = {1: "generated Python (double arithmetic on the widened operands expected)", 2: "generated C++ (float arithmetic expected)",
                   3: "generated Python and C++"}[s_]
            ctx.report("float32-model-differs:%d" % s_, "float32 computed field `%s` on bit patterns %s: %s differ(s) from Model.FloatExpr "
                       "(python double bits %s, c++ float bits %s)" % (text(t), vs, who, pv, cv),
                       {"expression": text(t), "field_bits": vs, "python_bits": pv, "cpp_bits": cv, "model": pkg.yaml(),
                        "broken": "correspondence Model.FloatExpr.feval32 / feval vs generated computed fields"}, no_input=True)
        elif not same:
            ctx.report("float32-arithmetic-in-double", "float32 computed field `%s` on %s is %s in generated C++ (float arithmetic) and %s in "
                       "generated Python (double arithmetic)" % (text(t), [struct.unpack("<f", struct.pack("<I", b))[0] for b in vs],
                       struct.unpack("<f", struct.pack("<I", cv))[0] if cv >= 0 else "nan", struct.unpack("<d", struct.pack("<Q", pv))[0] if pv >= 0 else "nan"),
                       {"expression": text(t), "field_bits": vs, "python_bits": pv, "cpp_bits": cv, "model": pkg.yaml()})


def float_conversion_probe(ctx):
    """integer operands that are exactly representable in the (floating point / complex) result type must convert
    exactly in every target: `fe + fz`, `fe as complexfloat64`, ... with fe = 2^24 + 1 (not representable in float32)"""
    pkg = Package("Cfy")
    exprs = {"ca": "fe + fz", "cb": "fe as complexfloat64", "cc": "fe as float64", "cd": "fe * fy", "ce": "fz + fe",
             "cf": "(fe as complexfloat64) + fz", "cg": "fe + fy"}
    pkg.defs.append(("Rf", "Rf: !record\n  fields:\n    fe: int32\n    fy: float64\n    fz: complexfloat64\n  computedFields:\n" +
                     "\n".join("    %s: %s" % kv for kv in exprs.items())))
    pkg.protocols.append(("Pz", [("s", __import__("ymodel").prim("int32"), False)]))
    gp = genrun.GenPackage(ctx, pkg, "cfy", ndjson=False, cpp=True)
    if not gp.generate():
        raise RuntimeError("yardl rejected the conversion probe: " + gp.gen_out[-800:])
    v = 16777217
    prog = ("import sys, json\nsys.path.insert(0, %r)\nimport cfy\nr = cfy.Rf(fe=%d, fy=1.0, fz=0j)\n"
            "print(json.dumps({k: complex(getattr(r, k)()).real for k in %r}))\n" % (os.path.join(gp.dir, "python"), v, sorted(exprs)))
    open(os.path.join(gp.dir, "p.py"), "w").write(prog)
    rc, o, e = sh([PY_VT, os.path.join(gp.dir, "p.py")], timeout=120)
    if rc != 0:
        raise RuntimeError("conversion probe (python) failed: " + e[-800:])
    py = json.loads(o)
    cdir = os.path.join(gp.dir, "cpp")
    cpp = ['#include <iostream>', '#include <iomanip>', '#include <complex>', '#include "generated/types.h"',
           "static double re(double x) { return x; } static double re(std::complex<double> x) { return x.real(); } "
           "static double re(std::complex<float> x) { return x.real(); } static double re(float x) { return x; }",
           "int main() { cfy::Rf r; r.fe = %d; r.fy = 1.0; r.fz = 0; std::cout << std::setprecision(17);" % v]
    for k in sorted(exprs):
        cpp.append('  std::cout << "%s " << re(r.%s()) << "\\n";' % (k, k[0].upper() + k[1:]))
    cpp.append("  return 0; }")
    open(os.path.join(cdir, "p.cc"), "w").write("\n".join(cpp))
    rc, o, e = sh(["g++", "-std=c++17", "-O0", "-w", "-I", genrun.SHIMS, "-I", "generated", "p.cc", "generated/types.cc", "-o", "p"], cwd=cdir, timeout=600)
    if rc != 0:
        raise RuntimeError("conversion probe (c++) does not compile: " + e[-1500:])
    rc, o, e = sh([os.path.join(cdir, "p")], timeout=60)
    cppv = {ln.split()[0]: float(ln.split()[1]) for ln in o.strip().split("\n")}
    for k in sorted(exprs):
        ctx.case(("floatconv", k), sample={"expression": exprs[k], "fe": v, "python_real": py[k], "cpp_real": cppv.get(k)})
        want = float(v + 1) if k == "cg" else float(v)
        if py[k] != want or cppv.get(k) != want:
            ctx.report("inexact-integer-conversion", "`%s` with fe = %d (exactly representable in the result type) gives real part %s in "
                       "Python and %s in C++" % (exprs[k], v, py[k], cppv.get(k)),
                       {"expression": exprs[k], "fe": v, "python": py[k], "cpp": cppv.get(k), "model": pkg.yaml()})


def replay(ctx, path):
    print(json.dumps(json.load(open(path)), indent=1)[:3000])
