"""C04 - every stream carries a schema that pins down its encoding."""
import json
import os
import re
from concurrent.futures import ThreadPoolExecutor

import schemamodel as sm
import ymodel
from vlib import Ctx, sh

LEVEL = "proof"
TRUSTED = [
    "Coq 8.16.1 kernel + vm_compute; theorems in coq/Props/C04.v",
    "Model/Schema.v: hand-written reading of protocolschema.go (closure, stripping, sort) and of the structural expansion of a "
    "type; tied on every run: schema_of applied to the environment yardl itself dumps (model.json) must equal the schema literal "
    "of the generated code, and the expansion must equal the structural types the codec checks (C01) encode with",
    "harness/lib/schemamodel.py: structural JSON -> Coq converter (refuses unknown keys); definition names in the schema text "
    "carry no namespace, the comparison erases it on the model side",
    "schema literals are read out of generated Python, C++ and MATLAB sources by regular expressions; MATLAB code is not executed",
]
CFG = ("cpp:\n  sourcesOutputDir: ../out/cpp\n  generateCMakeLists: false\npython:\n  outputDir: ../out/python\njson:\n  outputDir: ../out/json\n"
       "matlab:\n  outputDir: ../out/matlab\n")
PRIM_TOKENS = ["int8", "uint8", "int16", "uint16", "int32", "uint32", "int64", "uint64", "float32", "float64", "string", "bool",
               "complexfloat32", "date", "size"]


def literals(root, module):
    """protocol -> {language: schema literal}"""
    out = {}
    src = open(os.path.join(root, "python", module, "protocols.py")).read()
    for m in re.finditer(r'class (\w+)WriterBase\(abc\.ABC\):.*?schema = r"""(.*?)"""', src, re.S):
        out.setdefault(m.group(1), {})["python"] = m.group(2)
    src = open(os.path.join(root, "cpp", "protocols.cc")).read()
    for m in re.finditer(r'std::string (\w+)WriterBase::schema_ = ', src):
        # one or more adjacent raw string literals (the compiler concatenates them), up to the semicolon
        pos, parts = m.end(), []
        while True:
            mm = re.compile(r'\s*R"\((.*?)\)"', re.S).match(src, pos)
            if not mm:
                break
            parts.append(mm.group(1))
            pos = mm.end()
        if parts and re.compile(r"\s*;").match(src, pos):
            out.setdefault(m.group(1), {})["c++"] = "".join(parts)
    mdir = os.path.join(root, "matlab", "+" + module)
    if os.path.isdir(mdir):
        for f in os.listdir(mdir):
            m = re.fullmatch(r"(\w+)WriterBase\.m", f)
            if m:
                txt = open(os.path.join(mdir, f)).read()
                mm = re.search(r"function res = schema\(\)\s*res = string\('(.*?)'\);\s*end", txt, re.S)
                if mm:
                    out.setdefault(m.group(1), {})["matlab"] = mm.group(1).replace("''", "'")
    return out


def generate(ctx, d, ns, files, lib=None):
    os.makedirs(d + "/model", exist_ok=True)
    imports = ""
    if lib:
        os.makedirs(d + "/lib", exist_ok=True)
        open(d + "/lib/_package.yml", "w").write("namespace: %s\n" % lib[0])
        open(d + "/lib/lib.yml", "w").write(lib[1])
        imports = "imports:\n  - ../lib\n"
    open(d + "/model/_package.yml", "w").write("namespace: %s\n%s%s" % (ns, imports, CFG))
    for fn, text in files.items():
        open(os.path.join(d, "model", fn), "w").write(text)
    rc, o, e = sh([ctx.yardl, "generate"], cwd=d + "/model", timeout=120)
    if rc != 0:
        return None
    model = json.load(open(d + "/out/json/model.json"))
    return {"model": model, "lits": literals(d + "/out", ns.lower()), "files": files}


COMMENTED_MODEL = """# doc of R
R: !record
  fields:
    # doc of a
    a: int32
    # doc of arr
    arr: !array
      # doc of the items
      items: float32
      dimensions:
        # doc of dimension x
        x:
        # doc of dimension y
        y:
    # doc of fx
    fx: !array
      items: int32
      dimensions:
        # doc of dimension ra
        ra: 2
        # doc of dimension rb
        rb: 3
    lst: !array
      items: int32
      dimensions:
        # doc of p
        - p
        # doc of q
        - q
    u: !union
      # doc of case ci
      ci: int32
      # doc of case cs
      cs: string
    v: !vector
      # doc of the vector items
      items: int32
      # doc of the length
      length: 2
    m: !map
      # doc of keys
      keys: string
      # doc of values
      values: E
    g: !generic
      # doc of the generic name
      name: G
      args:
        # doc of the argument
        - int8
  computedFields:
    # doc of c
    c: a + 1

# doc of G
G<T>: !record
  fields:
    # doc of t
    t: T

# doc of E
E: !enum
  # doc of the base
  base: uint8
  values:
    # doc of p
    p: 1
    # doc of q
    q: 2

# doc of Fl
Fl: !flags
  values:
    # doc of first
    first: 1
    # doc of second
    second: 2
    # doc of both (a combined value declared AFTER its parts)
    both: 3
    none: 0

# doc of A
A: R

# doc of P
P: !protocol
  sequence:
    # doc of s
    s: A
    # doc of t
    t: !stream
      # doc of the stream items
      items: Fl
"""


def comments_everywhere(ctx):
    """documentation comments at every position that can carry one (definitions, fields, array dimensions in the three spellings,
    union cases, vector / map / generic parts, enum and flags values, steps, stream items): without comments, with them, with other
    wording - the embedded schema must be the same text"""
    ns = "Cm"
    variants = {"without": "\n".join(ln for ln in COMMENTED_MODEL.split("\n") if not ln.strip().startswith("#")) ,
                "with": COMMENTED_MODEL,
                "reworded": COMMENTED_MODEL.replace("# doc of", "# completely different words about")}
    res = {}
    for name, text in variants.items():
        res[name] = generate(ctx, os.path.join(ctx.scratch, "comments", name), ns, {"model.yml": text})
        if res[name] is None:
            raise RuntimeError("yardl rejected the commented model (%s)" % name)
    base = res["without"]["lits"].get("P", {})
    if set(base) != {"python", "c++", "matlab"} or len(set(base.values())) != 1:
        ctx.report("literal-differs", "the schema literal of protocol P of the commented model is not the same in all target languages "
                   "(one `yardl generate` run for C++, Python and MATLAB)", {"model": variants["without"], "literals": base})
    for name in ("with", "reworded"):
        lits = res[name]["lits"].get("P", {})
        ctx.count("neutral_edit", "comments-everywhere")
        ctx.case(("comments-everywhere", name), sample={"crafted": "comments at every position", "variant": name, "schema_unchanged": lits == base})
        if lits != base:
            leaked = [w for w in ("doc of", "different words") if any(w in v for v in lits.values())]
            ctx.report("neutral-edit-changes-schema:comments-everywhere", "documentation comments change the schema of protocol P (variant '%s'%s)"
                       % (name, ", comment text appears in the schema" if leaked else ""),
                       {"variant": name, "model": variants[name], "model_without_comments": variants["without"],
                        "before": base.get("python"), "after": lits.get("python")})


def crafted(ctx, scases, smeta):
    """shapes the random generator does not reach: two namespaces defining types with the same simple name (both used), and a
    schema longer than the string-literal limits of some compilers"""
    lib = ("Lib", "Item: !record\n  fields:\n    a: int32\n    s: Shape\n\nShape: !enum\n  values: [round, square]\n\n"
                  "Pair<A, B>: !record\n  fields:\n    a: A\n    b: B\n")
    main = ("Item: !record\n  fields:\n    z: string\n    w: Lib.Item\n\nShape: float64*3\n\n"
            "Ps: !protocol\n  sequence:\n    x: Lib.Item\n    y: Item\n    z: !stream\n      items: Lib.Pair<Shape, Lib.Shape>\n"
            "Pt: !protocol\n  sequence:\n    y: Item\n")
    fields = "\n".join("    %s: %s" % ("quiteALongFieldNameNumber%d" % i, ["int32", "float64*", "string?", "BigInner", "int8->BigInner"][i % 5])
                       for i in range(420))
    big = ("BigInner: !record\n  fields:\n    u: uint16\n\nBig: !record\n  fields:\n%s\n\nPbig: !protocol\n  sequence:\n    b: Big\n"
           "    c: !stream\n      items: Big\n" % fields)
    gen2 = ("Pair<T>: !record\n  fields:\n    a: T\n    b: T\n\nHeader: !record\n  fields:\n    h: int32\n\nSample: !record\n  fields:\n    v: float32\n\n"
            "Deep: !record\n  fields:\n    d: string\n\nBox<T>: T?\n\n"
            "Pg: !protocol\n  sequence:\n    a: Pair<Header>\n    b: Pair<Sample>\n    c: Pair<Pair<Deep>>\n    d: Box<int32>\n    e: !stream\n      items: Box<Deep>\n")
    for name, ns, files, libspec in (("same-simple-names", "App", {"m.yml": main}, lib), ("long-schema", "Bg", {"m.yml": big}, None),
                                     ("generic-instantiated-with-several-arguments", "Gn", {"m.yml": gen2}, None)):
        g = generate(ctx, os.path.join(ctx.scratch, "crafted", name), ns, files, lib=libspec)
        rep0 = {"namespace": ns, "model": files["m.yml"], "imported": libspec[1] if libspec else None, "crafted": name}
        if g is None:
            raise RuntimeError("yardl rejected the crafted package " + name)
        env, protos = sm.conv_env(g["model"])
        for pname in protos:
            lits = g["lits"].get(pname, {})
            ctx.count("crafted_schema_bytes:" + name, str(len(lits.get("python", "")) // 1000) + "k")
            if set(lits) != {"python", "c++", "matlab"} or len(set(lits.values())) != 1:
                ctx.report("literal-differs", "the schema literal of protocol %s is not the same in all target languages (%s)"
                           % (pname, {k_: len(v) for k_, v in lits.items()}), dict(rep0, protocol=pname, literals=lits))
                continue
            try:
                real = sm.conv_schema(lits["python"])
            except sm.Unknown as ex:
                ctx.report("schema-shape", "the schema of protocol %s has a shape the converter does not know: %s" % (pname, ex),
                           dict(rep0, protocol=pname, schema=lits["python"]))
                continue
            scases.append("(%s, %s, %s, None)" % (env, protos[pname], real))
            smeta.append((rep0, pname, lits["python"]))


def enum_vs_flags(ctx):
    """the same definition as !enum and as !flags: same schema text?  same NDJSON documents?"""
    from vlib import PY_VT
    res = {}
    for kind in ("enum", "flags"):
        d = os.path.join(ctx.scratch, "ef", kind)
        g = generate(ctx, d, "Ef", {"m.yml": "E: !%s\n  values:\n    a: 1\n    b: 2\n\nPe: !protocol\n  sequence:\n    e: E\n" % kind})
        if g is None:
            raise RuntimeError("yardl rejected the enum/flags probe")
        rc, o, e = sh([PY_VT, "-c", "import sys, io; sys.path.insert(0, %r); import ef\n"
                       "class B(io.StringIO):\n    def close(self): pass\n"
                       "b = B(); w = ef.NDJsonPeWriter(b); w.write_e(ef.E.A); w.close(); print(b.getvalue().split('\\n')[1])"
                       % (d + "/out/python")], timeout=120)
        res[kind] = (g["lits"]["Pe"]["python"], o.strip(), e[-300:])
    ctx.case(("enum-vs-flags",), sample={"probe": "enum vs flags", "same_schema": res["enum"][0] == res["flags"][0],
                                         "documents": [res["enum"][1], res["flags"][1]]})
    if res["enum"][0] == res["flags"][0] and res["enum"][1] != res["flags"][1]:
        ctx.report("enum-flags-same-schema", "changing E from !enum to !flags changes its NDJSON document from %s to %s but not the schema"
                   % (res["enum"][1], res["flags"][1]), {"schema": res["enum"][0], "documents": {k_: v[1] for k_, v in res.items()}})


def add_computed(pkg):
    out = []
    done = False
    for name, text in pkg.defs:
        if not done and re.match(r"^\w+(<[^>]*>)?: !record", text) and "computedFields" not in text:
            text = text.rstrip("\n") + "\n  computedFields:\n    vcfAdded: 7\n"
            done = True
        out.append(text)
    return pkg.yaml().replace("\n".join(t for _, t in pkg.defs), "\n".join(out)) if False else None, out, done


def yaml_with_defs(pkg, deftexts):
    saved = pkg.defs
    pkg.defs = [(n, t) for (n, _), t in zip(saved, deftexts)]
    try:
        return pkg.yaml()
    finally:
        pkg.defs = saved


def neutral_edits(pkg, rng):
    eds = {}
    for style in ("comments", "reorder", "split"):
        eds[style] = ymodel.respell(pkg, style, rng)
    _, texts, done = add_computed(pkg)
    if done:
        eds["computed-field"] = {"model.yml": yaml_with_defs(pkg, texts)}
    eds["unrelated-definition"] = {"model.yml": pkg.yaml() + "\nUnrelatedZz: !record\n  fields:\n    q: int32\n    r: string*\n\n"
                                   "UnrelatedProto: !protocol\n  sequence:\n    u: UnrelatedZz\n"}
    return eds


def affecting_edit(text, rng):
    """one random textual edit that may change an encoding (or may be rejected by yardl)"""
    kind = rng.choice(["prim", "prim", "swap-fields", "length", "optional"])
    lines = text.split("\n")
    if kind == "prim":
        occ = [(m.start(), m.group(0)) for m in re.finditer(r"(?<![\w.])(%s)(?![\w])" % "|".join(PRIM_TOKENS), text)]
        if not occ:
            return None
        pos, tok = rng.choice(occ)
        new = rng.choice([p for p in PRIM_TOKENS if p != tok])
        return "prim %s->%s" % (tok, new), text[:pos] + new + text[pos + len(tok):]
    if kind == "swap-fields":
        idx = [i for i in range(len(lines) - 1) if re.match(r"^    \w+: ", lines[i]) and re.match(r"^    \w+: ", lines[i + 1])
               and not lines[i].startswith("     ")]
        if not idx:
            return None
        i = rng.choice(idx)
        lines[i], lines[i + 1] = lines[i + 1], lines[i]
        return "swap adjacent fields/steps", "\n".join(lines)
    if kind == "length":
        occ = [m for m in re.finditer(r"\*(\d+)", text)]
        if not occ:
            return None
        m = rng.choice(occ)
        return "vector length", text[:m.start(1)] + str(int(m.group(1)) + 1) + text[m.end(1):]
    if kind == "optional":
        idx = [i for i in range(len(lines)) if re.match(r"^    \w+: [A-Za-z]\w*$", lines[i])]
        if not idx:
            return None
        i = rng.choice(idx)
        lines[i] = lines[i] + "?"
        return "make optional", "\n".join(lines)
    return None


def run(ctx):
    ctx.build_repo(need_hook=True)
    ok, failing, log = ctx.coq_props("C04")
    ctx.coverage["trusted_base"] = TRUSTED
    ctx.coverage["rule"] = ("random valid packages generated with the real yardl for C++/Python/MATLAB/JSON; per protocol: schema literal of "
                            "the three languages compared, Model.Schema.schema_of on yardl's own model.json compared with it inside Coq, "
                            "structural expansion compared with the types the codec checks use; per package 5 wire-neutral edits "
                            "(comments, definition order, file split, computed field, unrelated definition + protocol) and random "
                            "single textual edits whose effect on the encoding is decided by the model (wire changed => schema text "
                            "must change; model and real schema equality must agree); non-trivial = every protocol; distinct by "
                            "(package, protocol, edit)")
    if not ok:
        ctx.report("proof:" + str(failing), "theorem/dependency no longer checks: %s" % failing,
                   {"broken": failing, "log": log[-3000:]}, no_input=True)
    quick = ctx.tier == "quick"
    rng = ctx.rng
    comments_everywhere(ctx)
    scases, smeta = [], []
    ecases, emeta = [], []
    crafted(ctx, scases, smeta)
    enum_vs_flags(ctx)
    for k in range(3 if quick else 16):
        ns = "Sc" + "abcdefghijklmnopqrstuvwxyz"[k % 26] + ("x" * (k // 26))
        pkg = ymodel.Gen(rng, namespace=ns).build()
        base = generate(ctx, os.path.join(ctx.scratch, "p%d" % k, "orig"), ns, {"model.yml": pkg.yaml()})
        if base is None:
            raise RuntimeError("yardl rejected a generated package:\n" + pkg.yaml())
        rep0 = {"namespace": ns, "model": pkg.yaml()}
        try:
            env, protos = sm.conv_env(base["model"])
        except sm.Unknown as ex:
            ctx.report("model-json-shape", "model.json has a shape the converter does not know: %s" % ex, rep0, no_input=True)
            continue
        for pname, steps in pkg.protocols:
            lits = base["lits"].get(pname, {})
            ctx.count("languages_with_literal", ",".join(sorted(lits)))
            if set(lits) != {"python", "c++", "matlab"} or len(set(lits.values())) != 1:
                ctx.report("literal-differs", "the schema literal of protocol %s is not the same in all target languages (%s)"
                           % (pname, {k_: len(v) for k_, v in lits.items()}), dict(rep0, protocol=pname, literals=lits))
                continue
            try:
                real = sm.conv_schema(lits["python"])
            except sm.Unknown as ex:
                ctx.report("schema-shape", "the schema of protocol %s has a shape the converter does not know: %s" % (pname, ex),
                           dict(rep0, protocol=pname, schema=lits["python"]))
                continue
            csteps = "[" + "; ".join("(%s, %s)" % ("true" if st else "false", t.coq()) for n, t, st in steps) + "]"
            scases.append("(%s, %s, %s, Some %s)" % (env, protos[pname], real, csteps))
            smeta.append((rep0, pname, lits["python"]))
        # wire-neutral edits
        for name, files in neutral_edits(pkg, rng).items():
            ed = generate(ctx, os.path.join(ctx.scratch, "p%d" % k, "n-" + name), ns, files)
            ctx.count("neutral_edit", name)
            if ed is None:
                ctx.report("neutral-edit-rejected:" + name, "yardl rejects the package after the wire-neutral edit '%s'" % name,
                           dict(rep0, edit=name, files=files))
                continue
            for pname, _ in pkg.protocols:
                a, b = base["lits"].get(pname, {}), ed["lits"].get(pname, {})
                ctx.case(("neutral", k, pname, name), sample={"package": k, "protocol": pname, "edit": name, "schema_unchanged": a == b})
                if a != b:
                    ctx.report("neutral-edit-changes-schema:" + name, "the wire-neutral edit '%s' changes the schema of protocol %s"
                               % (name, pname), dict(rep0, edit=name, files=files, protocol=pname, before=a.get("python"), after=b.get("python")))
        # possibly wire-affecting edits
        text = pkg.yaml()
        tries = 0
        done = 0
        while done < (4 if quick else 10) and tries < 60:
            tries += 1
            e = affecting_edit(text, rng)
            if e is None:
                continue
            what, text2 = e
            ed = generate(ctx, os.path.join(ctx.scratch, "p%d" % k, "a%d" % tries), ns, {"model.yml": text2})
            if ed is None:
                ctx.count("affecting_edit_rejected_by_yardl", what.split()[0])
                continue
            done += 1
            ctx.count("affecting_edit", what.split()[0])
            try:
                env2, protos2 = sm.conv_env(ed["model"])
            except sm.Unknown as ex:
                ctx.report("model-json-shape", "model.json has a shape the converter does not know: %s" % ex, dict(rep0, edited=text2), no_input=True)
                continue
            for pname, _ in pkg.protocols:
                if pname not in protos2:
                    continue
                ecases.append("(%s, %s, %s, %s)" % (env, protos[pname], env2, protos2[pname]))
                emeta.append((rep0, pname, what, text2, base["lits"].get(pname, {}).get("python"), ed["lits"].get(pname, {}).get("python")))

    def ev(args):
        kind, idx = args
        cases, fn, ty = (scases, "scase_status", "scase") if kind == "s" else (ecases, "ecase_status", "ecase")
        body = ("From Coq Require Import List NArith ZArith Bool.\nImport ListNotations.\nOpen Scope N_scope.\n"
                "From YV Require Import Base.Wire Model.Binary Model.Json Model.Schema Model.SchemaCases.\n"
                "Definition cases : list %s := [\n " % ty + ";\n ".join(cases[i] for i in idx) + "\n].\n"
                "Definition ST := Eval vm_compute in map %s cases.\nPrint ST.\n" % fn)
        return Ctx.parse_nat_list(ctx.coq_eval("sc_%s%d" % (kind, idx[0]), body, timeout=1500), "ST")
    jobs = [("s", list(range(i, min(i + 8, len(scases))))) for i in range(0, len(scases), 8)]
    jobs += [("e", list(range(i, min(i + 6, len(ecases))))) for i in range(0, len(ecases), 6)]
    with ThreadPoolExecutor(max_workers=10) as ex:
        res = list(ex.map(ev, jobs))
    sst = [x for (kind, _), r in zip(jobs, res) if kind == "s" for x in r]
    est = [x for (kind, _), r in zip(jobs, res) if kind == "e" for x in r]
    for (rep0, pname, lit), s in zip(smeta, sst):
        ctx.case(("schema", rep0["namespace"], pname), sample={"protocol": pname, "schema_bytes": len(lit), "status": s})
        if s == 1:
            ctx.report("schema-differs", "the schema literal of protocol %s is not what Model.Schema.schema_of computes from model.json" % pname,
                       dict(rep0, protocol=pname, schema=lit))
        elif s == 2:
            ctx.report("expansion-differs", "the structural expansion of the steps of protocol %s differs between Model.Schema.resolve and "
                       "the types the codec checks use (correspondence broken)" % pname, dict(rep0, protocol=pname), no_input=True)
        elif s == 3:
            ctx.report("duplicate-names", "model.json defines a qualified name twice", dict(rep0, protocol=pname))
    for (rep0, pname, what, text2, a, b), s in zip(emeta, est):
        schema_eq, wire_eq, defined = bool(s & 1), bool(s & 2), bool(s & 4)
        ctx.case(("edit", rep0["namespace"], pname, text2), sample={"protocol": pname, "edit": what, "model_schema_equal": schema_eq,
                                                                   "wire_equal": wire_eq, "real_schema_equal": a == b})
        ctx.count("edit_outcome", "wire %s, schema %s" % ("same" if wire_eq else "changed", "same" if a == b else "changed"))
        rep = dict(rep0, protocol=pname, edit=what, edited_model=text2, schema_before=a, schema_after=b)
        if not defined:
            ctx.report("expansion-undefined", "Model.Schema.resolve is undefined on an accepted model (correspondence broken)", rep, no_input=True)
        elif (not wire_eq) and a == b:
            ctx.report("encoding-changes-schema-does-not", "the edit '%s' changes how protocol %s is encoded but its schema stays the same"
                       % (what, pname), rep)
        elif schema_eq != (a == b):
            ctx.report("schema-equality-differs", "model and implementation disagree on whether the edit '%s' changes the schema of %s"
                       % (what, pname), rep)
        elif schema_eq and not wire_eq:
            ctx.report("model-injectivity", "MODEL: equal schemas with different encodings (theorem C04_schema_pins_encoding contradicted?)", rep, no_input=True)


def replay(ctx, path):
    print(json.dumps(json.load(open(path)), indent=1)[:4000])
