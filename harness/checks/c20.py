"""C20 - watch mode converges to the output for the final package contents."""
import hashlib
import json
import os
import shutil
import subprocess
import time
from concurrent.futures import ThreadPoolExecutor

from vlib import sh

LEVEL = "proof"
TRUSTED = [
    "Coq 8.16.1 kernel; theorems in coq/Props/C20.v over Model/Watch.v (events: save, timer expiry, completion); which of the two "
    "step relations describes the code (regenerations serialized by a mutex or not, debounce shape, panic recovery) is "
    "regenerated from generatecommand.go by regular expressions on every run (Gen/Watch.v)",
    "outside the model: fsnotify delivery, timers, the file system, os.Chdir and the package-level koanf instance; a regeneration "
    "is modelled as reading the package at its start and writing at its end",
    "tie: edit schedules (slow regeneration overtaken by a fast one, invalid intermediate states, bursts) replayed against the real "
    "`yardl generate --watch`; after quiescence every file a one-shot generate of the final contents produces must be identical "
    "on disk and the watcher must still be running (timing-based sampling of interleavings)",
]
CFG = ("namespace: Wt\nimports:\n  - ../lib\ncpp:\n  sourcesOutputDir: ../out/cpp\n  generateCMakeLists: false\npython:\n  outputDir: ../out/python\n"
       "matlab:\n  outputDir: ../out/matlab\n")


def big_model(n, tag):
    recs = []
    for i in range(n):
        recs.append("Big%s%d: !record\n  fields:\n%s\n" % (tag, i, "\n".join(
            "    f%d: %s" % (j, ["int32", "float64*", "string?", "int8->string", "float32[x,y]"][j % 5]) for j in range(30))))
    return "\n".join(recs) + "\nP: !protocol\n  sequence:\n" + "\n".join("    s%d: Big%s%d" % (i, tag, i) for i in range(n)) + "\n"


def small_model(tag):
    return "Small%s: !record\n  fields:\n    a: int32\n    b%s: string\n\nP: !protocol\n  sequence:\n    s: Small%s\n" % (tag, tag.lower(), tag)


MODELS = {
    "big": big_model(400, "A"), "big2": big_model(300, "B"), "small": small_model("X"), "small2": small_model("Y"),
    "medium": big_model(40, "M"),
    "syntax-error": "Broken: !record\n  fields:\n   - [unclosed\n", "invalid": "Bad: !record\n  fields:\n    a: Nope\n",
    "uses-lib": "UsesLib: !record\n  fields:\n    a: Lib.Item\n    b: int32\n\nP: !protocol\n  sequence:\n    s: UsesLib\n",
    "panic-bait": "Pb: !record\n  fields:\n    v: int32*3\n  computedFields:\n    c: v[]\n",
}
# (name, [(seconds to wait before the save, model key)], final key)
SCHEDULES = [
    ("slow-overtaken-by-fast", [(0.0, "big"), (0.4, "small")]),
    ("two-slow-then-fast", [(0.0, "big"), (0.3, "big2"), (0.3, "small2")]),
    ("fast-then-slow", [(0.0, "small"), (0.05, "big2")]),
    ("invalid-intermediate-states", [(0.0, "syntax-error"), (0.3, "invalid"), (0.3, "panic-bait"), (0.3, "medium")]),
    ("burst", [(0.0, "small")] + [(0.004, k) for k in ("small2", "small", "medium", "small2", "small", "medium", "small2")] + [(0.002, "medium")]),
    ("slow-invalid-fast", [(0.0, "big"), (0.3, "invalid"), (0.2, "small2")]),
    # an imported package whose own import is broken for a while (the regeneration fails while resolving imports)
    ("broken-import-of-import", [(0.0, "lib/_package.yml=namespace: Lib\nimports:\n  - ../missing\n"), (0.4, "small"),
                                 (0.4, "lib/_package.yml=namespace: Lib\nimports:\n  - ../lib2\n"), (0.4, "uses-lib")]),
    # the command line carries configuration overrides: every regeneration must honour them, as the one-shot run does
    ("config-overrides", [(0.0, "small"), (0.4, "invalid"), (0.4, "medium")],
     ["-c", "python.generateNDJson=false", "-c", "cpp.generateNDJson=false"]),
    # two previous versions: the LAST save is in the directory of the second one and must regenerate (the compatibility code depends on it)
    ("edit-in-second-previous-version", [(0.0, "small"), (0.5, "v1/m.yml=" + small_model("X").replace("a: int32", "a: int8")), (0.8, "v2/m.yml=" + small_model("X").replace("a: int32", "a: int16"))],
     [], {"cfg": CFG + "versions:\n  v1: ../v1\n  v2: ../v2\n",
          "files": {"v1/_package.yml": "namespace: Wt\n", "v1/m.yml": small_model("X"), "v2/_package.yml": "namespace: Wt\n", "v2/m.yml": small_model("X")},
          "final": "small"}),
    # the manifest itself is saved while watching: an output that was switched off when the watcher started is switched on
    ("manifest-switches-cpp-ndjson-on", [(0.0, "small"), (0.5, "model/_package.yml=" + CFG), (0.6, "medium")], [],
     {"cfg": CFG.replace("  generateCMakeLists: false\n", "  generateCMakeLists: false\n  generateNDJson: false\n"), "files": {}, "final": "medium"}),
    ("unfetchable-import-of-import", [(0.0, "lib/_package.yml=namespace: Lib\nimports:\n  - ../lib2\n  - ftp://example.invalid/x\n"), (0.4, "small"),
                                      (0.4, "lib/_package.yml=namespace: Lib\nimports:\n  - 'https:'\n"), (0.4, "small2"),
                                      (0.4, "lib/_package.yml=namespace: Lib\nimports:\n  - ../lib2\n"), (0.4, "uses-lib")]),
]


LIB = "Item: !record\n  fields:\n    x: int32\n    d: Lib2.Deep\n"


def tree(root):
    h = {}
    for d, _, files in os.walk(root):
        for f in files:
            p = os.path.join(d, f)
            try:
                h[os.path.relpath(p, root)] = hashlib.sha256(open(p, "rb").read()).hexdigest()
            except OSError:
                pass
    return h


def one_shot(ctx, d, model, args=(), extra=None, edits=()):
    os.makedirs(d + "/model", exist_ok=True)
    os.makedirs(d + "/lib", exist_ok=True)
    open(d + "/lib/_package.yml", "w").write("namespace: Lib\nimports:\n  - ../lib2\n")
    open(d + "/lib/lib.yml", "w").write(LIB)
    os.makedirs(d + "/lib2", exist_ok=True)
    open(d + "/lib2/_package.yml", "w").write("namespace: Lib2\n")
    open(d + "/lib2/lib2.yml", "w").write("Deep: int32\n")
    open(d + "/model/_package.yml", "w").write(extra["cfg"] if extra else CFG)
    for rel, text in (extra or {}).get("files", {}).items():
        os.makedirs(os.path.dirname(os.path.join(d, rel)), exist_ok=True)
        open(os.path.join(d, rel), "w").write(text)
    for rel, text in edits:
        open(os.path.join(d, rel), "w").write(text)
    open(d + "/model/m.yml", "w").write(model)
    rc, o, e = sh([ctx.yardl, "generate"] + list(args), cwd=d + "/model", timeout=300)
    if rc != 0:
        raise RuntimeError("one-shot generate failed: " + (o + e)[-500:])
    return tree(d + "/out")


def scenario(ctx, idx, name, schedule, args=(), extra=None):
    d = os.path.join(ctx.scratch, "w%d" % idx)
    os.makedirs(d + "/model")
    os.makedirs(d + "/lib")
    open(d + "/lib/_package.yml", "w").write("namespace: Lib\nimports:\n  - ../lib2\n")
    open(d + "/lib/lib.yml", "w").write(LIB)
    os.makedirs(d + "/lib2")
    open(d + "/lib2/_package.yml", "w").write("namespace: Lib2\n")
    open(d + "/lib2/lib2.yml", "w").write("Deep: int32\n")
    open(d + "/model/_package.yml", "w").write(extra["cfg"] if extra else CFG)
    for rel, text in (extra or {}).get("files", {}).items():
        os.makedirs(os.path.dirname(os.path.join(d, rel)), exist_ok=True)
        open(os.path.join(d, rel), "w").write(text)
    open(d + "/model/m.yml", "w").write(MODELS["small2"] if not extra else MODELS[extra["final"]])
    log = open(d + "/watch.log", "wb")
    p = subprocess.Popen([ctx.yardl, "generate", "--watch"] + list(args), cwd=d + "/model", stdout=log, stderr=subprocess.STDOUT)
    try:
        t0 = time.time()
        while not os.path.exists(d + "/out/python/wt/types.py") and time.time() - t0 < 30:
            time.sleep(0.05)
        time.sleep(0.3)
        for delay, key in schedule:
            time.sleep(delay)
            if "=" in key and key.split("=", 1)[0].endswith(".yml"):
                rel, text = key.split("=", 1)
                with open(os.path.join(d, rel), "w") as f:
                    f.write(text)
            else:
                with open(d + "/model/m.yml", "w") as f:
                    f.write(MODELS[key])
        final = schedule[-1][1] if not extra else extra["final"]
        # quiescence: the tree does not change for 4 s (longer than the slowest regeneration), at least 6 s after the last save
        last, stable_since, t_end = None, time.time(), time.time()
        while True:
            time.sleep(0.5)
            cur = tree(d + "/out")
            if cur != last:
                last, stable_since = cur, time.time()
            if time.time() - stable_since >= 4 and time.time() - t_end >= 6:
                break
            if time.time() - t_end > 90:
                break
        alive = p.poll() is None
        return {"name": name, "dir": d, "tree": last, "alive": alive, "final": final, "schedule": schedule, "args": list(args), "extra": bool(extra)}
    finally:
        p.kill()
        p.wait()
        log.close()


def run(ctx):
    ctx.build_repo(need_hook=True)
    ok, failing, log = ctx.coq_props("C20")
    ctx.coverage["trusted_base"] = TRUSTED
    ctx.coverage["rule"] = ("%d edit schedules against the real `yardl generate --watch` in separate directories (a 2.5 s regeneration "
                            "overtaken by a 30 ms one, two slow ones then a fast one, fast then slow, syntax error / validation error / "
                            "panic-bait intermediate states, a burst of saves 2-4 ms apart, slow+invalid+fast); after quiescence every file "
                            "of a one-shot generate of the final contents must be identical on disk and the watcher alive; "
                            "non-trivial = each schedule; distinct by schedule" % len(SCHEDULES))
    if not ok:
        ctx.report("proof:" + str(failing), "theorem/dependency no longer checks: %s" % failing,
                   {"broken": failing, "log": log[-3000:]}, no_input=True)
    quick = ctx.tier == "quick"
    reps = 1 if quick else 3
    scheds = [(e[0], e[1], tuple(e[2]) if len(e) > 2 else (), e[3] if len(e) > 3 else None) for e in SCHEDULES]
    jobs = [(n, s, a, x) for r in range(reps) for (n, s, a, x) in scheds]
    jobs = [(k, n, s, a, x) for k, (n, s, a, x) in enumerate(jobs)]
    refs = {}
    for k, (n, s, a, x) in enumerate(scheds):
        key = s[-1][1] if not x else x["final"]
        rk = (key, a, n if x else None)
        if rk not in refs:
            edits = [tuple(kk.split("=", 1)) for _, kk in s if "=" in kk and kk.split("=", 1)[0].endswith(".yml")] if x else ()
            refs[rk] = one_shot(ctx, os.path.join(ctx.scratch, "ref_%d" % k), MODELS[key], a, x, edits)
    with ThreadPoolExecutor(max_workers=6) as ex:
        results = list(ex.map(lambda j: scenario(ctx, *j), jobs))
    for r in results:
        ref = refs[(r["final"], tuple(r["args"]), r["name"] if r.get("extra") else None)]
        differ = sorted(f for f in ref if r["tree"].get(f) != ref[f])
        stale = sorted(f for f in r["tree"] if f not in ref)
        ctx.case((r["name"], json.dumps(r["schedule"])), sample={"schedule": r["name"], "saves": len(r["schedule"]), "watcher_alive": r["alive"],
                                                                  "files_differing_from_one_shot": len(differ), "files_expected": len(ref)})
        ctx.count("schedule", r["name"])
        rep = {"schedule": r["schedule"], "command_line_arguments": r["args"], "models": {k: MODELS.get(k, k)[:400] for _, k in r["schedule"]}, "files_differ": differ[:20],
               "watch_log_tail": open(os.path.join(r["dir"], "watch.log"), "rb").read()[-600:].decode("utf-8", errors="replace")}
        if not r["alive"]:
            ctx.report("watcher-died:" + r["name"], "`yardl generate --watch` exited during the schedule '%s'" % r["name"], rep)
        if differ:
            ctx.report("stale-output:" + r["name"], "after the schedule '%s' went quiet, %d of %d files differ from a one-shot generate of the "
                       "final contents (e.g. %s)" % (r["name"], len(differ), len(ref), differ[0]), rep)


def replay(ctx, path):
    print(json.dumps(json.load(open(path)), indent=1)[:4000])
