"""C12 - output is a deterministic, idempotent function of the package."""
import hashlib
import json
import os
import shutil
from concurrent.futures import ThreadPoolExecutor

from vlib import sh

LEVEL = "proof"
TRUSTED = [
    "Coq 8.16.1 kernel + vm_compute; theorems in coq/Props/C12.v (closed under the global context)",
    "coq/Gen/MapSites.v: inventory of every range-over-map in the tooling, regenerated on every run with go/types "
    "(harness/go/sites, golang.org/x/tools/go/packages from the module cache)",
    "the classification of each site into a discipline (Model/Determinism.v:site_discipline) is by reading the code; it is exercised by "
    "repeated executions of the real CLI on packages that populate those maps with >= 3 entries (each execution randomises Go's map order)",
    "Go runtime sources of nondeterminism other than map iteration (goroutines: none in one-shot mode, time: watch mode only, "
    "filepath.Walk: lexical) are argued, not modelled; harness",
]

V0 = """Ha: !record
  fields:
    x: int
    y: float
Hb: !record
  fields:
    s: string
Pa: !protocol
  sequence:
    h: Ha
    s: !stream
      items: int
Pb: !protocol
  sequence:
    h: Hb
Pc: !protocol
  sequence:
    q: int
Pd: !protocol
  sequence:
    q: string
"""
V1 = """Ha: !record
  fields:
    x: long
    y: double
    z: string?
Hb: !record
  fields:
    s: string
    t: int?
Pa: !protocol
  sequence:
    h: Ha
    s: !stream
      items: long
"""
INVALID = """Ea: !enum
  values:
    a: 1
    b: 1
    c: 2
    d: 2
    e: 3
    f: 3
Ga<T1, T2, T3, T4>: !record
  fields:
    x: int
Ra: !record
  fields:
    u: [int, int]
    v: Nope
    w: Nada
    m: [float, float, float]
Rb: !record
  fields:
    k: Missing
"""
BIG = "\n".join(
    ["U%d: [%s]" % (i, ", ".join(["int", "string", "float", "bool", "long", "double", "uint", "ulong"][:i + 2])) for i in range(6)] +
    ["G%d<T>: !record\n  fields:\n    a: T\n    b: T*\n    c: U%d" % (i, i) for i in range(4)] +
    ["R%d: !record\n  fields:\n    g: G%d<int>\n    m: string->U%d\n    e: En%d" % (i, i % 4, i % 6, i % 3) for i in range(6)] +
    ["En%d: !enum\n  values:\n    - a%d\n    - b%d\n    - c%d" % (i, i, i, i) for i in range(3)] +
    ["Pr%d: !protocol\n  sequence:\n    r: R%d\n    s: !stream\n      items: U%d\n    t: G%d<string>" % (i, i, i, i % 4) for i in range(6)]) + "\n"
OUT_CFG = ("cpp:\n  sourcesOutputDir: ../out/cpp\npython:\n  outputDir: ../out/python\njson:\n  outputDir: ../out/json\n"
           "matlab:\n  outputDir: ../out/matlab\n")


def tree_hash(root):
    h = {}
    for d, _, files in os.walk(root):
        for f in sorted(files):
            p = os.path.join(d, f)
            h[os.path.relpath(p, root)] = hashlib.sha256(open(p, "rb").read()).hexdigest()
    return h


def mk(d, ns, files, extra=""):
    os.makedirs(d, exist_ok=True)
    open(os.path.join(d, "_package.yml"), "w").write("namespace: %s\n%s" % (ns, extra))
    for fn, text in files.items():
        open(os.path.join(d, fn), "w").write(text)


def run(ctx):
    ctx.build_repo(need_hook=True)
    ok, failing, log = ctx.coq_props("C12")
    ctx.coverage["trusted_base"] = TRUSTED
    ctx.coverage["rule"] = ("N executions (quick 8, thorough 48) of `yardl validate` and `yardl generate` (C++, Python, JSON, MATLAB) on 5 "
                            "packages chosen to populate every ranged map with >= 3 entries: an evolved package whose predecessor has 3 "
                            "removed protocols and changed records, an invalid package with 3 duplicate-value enum groups / 4 unused type "
                            "parameters / several errors, a large valid package (6 union arities, generics, maps) split over 3 files, an "
                            "importing package, and two invalid -c overrides; compared: exit status, complete stdout+stderr text, sha256 of "
                            "every output file; then a second generate must leave every mtime untouched; non-trivial = every case; distinct "
                            "by (package, command)")
    if not ok:
        ctx.report("proof:" + str(failing), "theorem/dependency no longer checks (a new range-over-map site? a changed one?): %s" % failing,
                   {"broken": failing, "log": log[-3000:]}, no_input=True)
    N = 8 if ctx.tier == "quick" else 48
    base = ctx.scratch
    # packages
    mk(base + "/evo/v0", "Ev", {"m.yml": V0})
    mk(base + "/evo/main", "Ev", {"m.yml": V1}, "versions:\n  v0: ../v0\n" + OUT_CFG)
    mk(base + "/inv/main", "Inv", {"a.yml": INVALID, "b.yml": "Rc: !record\n  fields:\n    q: Gone\n    r: [string, string]\n"}, OUT_CFG)
    parts = BIG.split("\n\n") if "\n\n" in BIG else None
    lines = BIG.split("\n")
    third = len(lines) // 3
    # split on definition boundaries
    defs, cur = [], []
    for ln in lines:
        if ln and not ln.startswith(" ") and cur:
            defs.append("\n".join(cur))
            cur = []
        cur.append(ln)
    defs.append("\n".join(cur))
    mk(base + "/big/main", "Big", {"z.yml": "\n".join(defs[0::3]) + "\n", "a.yml": "\n".join(defs[1::3]) + "\n",
                                   "m.yml": "\n".join(defs[2::3]) + "\n"}, OUT_CFG)
    mk(base + "/imp/lib", "Lib", {"m.yml": "T: int\nRl: !record\n  fields:\n    a: T\n"})
    mk(base + "/imp/lib2", "Libb", {"m.yml": "Tb: Lib.Rl*\n"}, "imports:\n  - ../lib\n")
    mk(base + "/imp/main", "Top", {"m.yml": "Pm: !protocol\n  sequence:\n    a: Lib.Rl\n    b: Libb.Tb\n"},
       "imports:\n  - ../lib2\n  - ../lib\n" + OUT_CFG)
    # many small model files (the order in which the files of a package are read must not reach the output)
    many = {"f%02d.yml" % i: "M%d: !record\n  fields:\n    a: int32\n    b: %s\n\nA%d: M%d*\n" % (i, "M%d?" % (i - 1) if i else "string", i, i)
            for i in range(14)}
    many["p.yml"] = "Pmany: !protocol\n  sequence:\n" + "".join("    s%d: A%d\n" % (i, i) for i in range(14))
    mk(base + "/many/main", "Many", many, OUT_CFG)
    jobs = []
    for pkgname in ("evo", "inv", "big", "imp", "many"):
        for cmd in (["validate"], ["generate"]):
            jobs.append((pkgname, cmd))
    jobs.append(("big", ["validate", "-c", "bogusone=1", "-c", "bogustwo=2", "-c", "bogusthree=3"]))

    def one(job):
        pkgname, cmd = job
        outs = []
        for i in range(N):
            d = os.path.join(base, pkgname, "main")
            o = os.path.join(base, pkgname, "out")
            if cmd[0] == "generate":
                shutil.rmtree(o, ignore_errors=True)
            rc, so, se = sh([ctx.yardl] + cmd, cwd=d, timeout=120)
            outs.append((rc, so + "\n--stderr--\n" + se, tree_hash(o) if cmd[0] == "generate" else {}))
        return job, outs
    with ThreadPoolExecutor(max_workers=4) as ex:
        # jobs on the same package share an output dir: run per package sequentially
        results = []
        for pk in ("evo", "inv", "big", "imp", "many"):
            results += list(map(one, [j for j in jobs if j[0] == pk]))
    for (pkgname, cmd), outs in results:
        distinct = {json.dumps(x, sort_keys=True) for x in outs}
        ctx.count("executions", pkgname + " " + cmd[0], len(outs))
        ctx.case((pkgname, tuple(cmd)), sample={"package": pkgname, "command": cmd, "executions": len(outs), "distinct_results": len(distinct),
                                               "exit": outs[0][0], "output_files": len(outs[0][2]), "text_len": len(outs[0][1])})
        if len(distinct) > 1:
            a, b = outs[0], next(x for x in outs if x != outs[0])
            what = "exit status" if a[0] != b[0] else ("diagnostics/stdout text" if a[1] != b[1] else "generated files")
            key = "config-override-error-order" if "-c" in cmd else "nondeterministic:%s:%s" % (pkgname, cmd[0])
            ctx.report(key, "%d executions of `yardl %s` on package '%s' gave %d different results (%s differ)"
                       % (len(outs), " ".join(cmd), pkgname, len(distinct), what),
                       {"package": pkgname, "command": cmd, "first": a[1][-600:], "other": b[1][-600:],
                        "files_differ": [k for k in a[2] if a[2].get(k) != b[2].get(k)][:10]})
    # idempotence: second generate leaves all mtimes untouched
    for pkgname in ("evo", "big", "imp", "many"):
        d = os.path.join(base, pkgname, "main")
        o = os.path.join(base, pkgname, "out")
        rc, so, se = sh([ctx.yardl, "generate"], cwd=d, timeout=120)
        stamp = {}
        for dd, _, files in os.walk(o):
            for f in files:
                p = os.path.join(dd, f)
                os.utime(p, ns=(10 ** 18, 10 ** 18))
                stamp[p] = os.lstat(p).st_mtime_ns
        for rep in range(2):
            rc, so, se = sh([ctx.yardl, "generate"], cwd=d, timeout=120)
            touched = [os.path.relpath(p, o) for p in stamp if os.lstat(p).st_mtime_ns != stamp[p]]
            ctx.case((pkgname, "regen", rep), sample={"package": pkgname, "regeneration": rep + 1, "files": len(stamp), "touched": len(touched)})
            if touched:
                ctx.report("regeneration-touches-files:" + pkgname, "regenerating the unchanged package '%s' rewrote %d of %d output files (%s)"
                           % (pkgname, len(touched), len(stamp), touched[:4]), {"package": pkgname, "touched": touched[:30]})
                break


def replay(ctx, path):
    print(json.dumps(json.load(open(path)), indent=1)[:3000])
