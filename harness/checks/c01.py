"""C01 - binary write/read round trip and wire-format conformance."""
import json
import os
from concurrent.futures import ThreadPoolExecutor

import codec
import codedcpp as cc
import ymodel
from vlib import Ctx

LEVEL = "proof"
TRUSTED = [
    "Coq 8.16.1 kernel + vm_compute; theorems in coq/Props/C01.v (Print Assumptions: closed under the global context)",
    "hand-written Gallina models Model/Binary.v (serializers.h/_binary.py/binary.md), Model/CodedCpp.v (coded_stream.h), Model/CodedPy.v (_binary.py coded streams) and Model/PyTyped.v (the serializer classes of _binary.py as programs over the coded stream), tied to the code by differential execution on generated packages and op scripts and, for PyTyped, by comparing call by call with the calls a spying CodedOutputStream records while generated Python writes (harness/py/gen_runner.py, class Spy)",
    "harness: package/value generators, reference encoder (re-checked against Model.Binary.enc inside Coq on every case), C++ shims for xtensor/date (shims/), g++ 12, CPython 3.11 + numpy (python3-vt)",
    "Model/ZigZagBits.v (and Model/VarintBits.v for the varint writer loops) transcribes the shift/xor zig-zag expressions of coded_stream.h, _binary.py and the MATLAB coded streams; zigzag_text_tie compares the texts on every run (C / Python / MATLAB operator semantics on fixed-width and unbounded integers are as modelled: arithmetic right shift of negatives, unsigned wrap-around)",
    "C++ object layout behind IsTriviallySerializable (memcpy = field concatenation) is an assumption validated only by the differential runs",
]


def cpp_writer_layer(ctx, n):
    driver = cc.build_driver(ctx, asan=True)
    rng = ctx.rng
    cases = []
    for i in range(n):
        ops = cc.gen_wscript(rng)
        for bs in rng.sample([10, 11, 12, 15, 16, 17, 20, 32, 64], 3):
            cases.append((bs, ops))
            ctx.count("cpp_writer_bufsize", str(bs))
    obs, n_ok, err = cc.run_writer_cases(ctx, driver, cases)
    if obs is None:
        bad = cases[min(n_ok, len(cases) - 1)]
        ctx.report("cpp-coded-out:crash", "coded_stream.h writer crashed (sanitizer/abort): " + err[-300:],
                   {"layer": "cpp-coded-out", "bufsize": bad[0], "ops": [cc.wop_text(o) for o in bad[1]], "stderr": err[-1500:]})
        return
    shards = [list(zip(cases, obs))[i:i + 300] for i in range(0, len(cases), 300)]

    def ev(ix_sh):
        ix, sh_ = ix_sh
        out = ctx.coq_eval("wcases_%d" % ix, cc.writer_cases_v([c for c, _ in sh_], [o for _, o in sh_]))
        return ix, Ctx.parse_nat_list(out, "MM"), Ctx.parse_nat_list(out, "MA")
    with ThreadPoolExecutor(max_workers=8) as ex:
        results = list(ex.map(ev, enumerate(shards)))
    mm, ma = [], []
    for ix, a, b in results:
        mm += [ix * 300 + k for k in a]
        ma += [ix * 300 + k for k in b]
    for (bs, ops), o in zip(cases, obs):
        ctx.case(("cpp-out", bs, tuple(cc.wop_text(x) for x in ops)),
                 sample={"layer": "cpp-coded-out", "bufsize": bs, "ops": [cc.wop_text(x) for x in ops],
                         "bytes": cc.hexs(o[0]), "chunks": o[1]})
    for k in ma[:3]:
        bs, ops = cases[k]
        ctx.report("cpp-coded-out:wrong-bytes", "CodedOutputStream(bufsize=%d) wrote bytes that differ from what its "
                   "operations denote: %s" % (bs, [cc.wop_text(x) for x in ops]),
                   {"layer": "cpp-coded-out", "bufsize": bs, "ops": [cc.wop_text(x) for x in ops], "observed": cc.hexs(obs[k][0])})
    if mm and not ma:
        bs, ops = cases[mm[0]]
        ctx.report("cpp-coded-out:model-differs", "machine model Model.CodedCpp.wfinish (flush points) disagrees with "
                   "coded_stream.h although the bytes are right",
                   {"layer": "cpp-coded-out", "bufsize": bs, "ops": [cc.wop_text(x) for x in ops], "observed_chunks": obs[mm[0]][1],
                    "broken": "correspondence Model.CodedCpp.wfinish vs coded_stream.h"}, no_input=True)


def py_writer_layer(ctx, n):
    """_binary.py CodedOutputStream against its machine model Model.CodedPy.pwfinish (flush points, chunking, exceptions)
    and against the concatenation of what the operations denote."""
    pyrt = cc.make_pyrt(ctx)
    rng = ctx.rng
    cases = []
    for i in range(n):
        hostile = i % 4 == 3
        ops = cc.gen_py_wscript(rng, hostile=hostile)
        for bs in rng.sample([10, 11, 12, 15, 16, 17, 20, 32, 64] + ([1, 3, 7] if hostile else []), 3):
            cases.append((bs, ops))
            ctx.count("py_writer_bufsize", str(bs))
            ctx.count("py_writer_script", "hostile" if hostile else "guarded")
    obs = cc.run_py_writer_cases(ctx, pyrt, cases)
    for o in obs:
        ctx.count("py_writer_outcome", o[2] or "ok")
    shards = [list(zip(cases, obs))[i:i + 300] for i in range(0, len(cases), 300)]

    def ev(ix_sh):
        ix, sh_ = ix_sh
        out = ctx.coq_eval("pwcases_%d" % ix, cc.py_writer_cases_v([c for c, _ in sh_], [o for _, o in sh_]))
        return ix, Ctx.parse_nat_list(out, "MM"), Ctx.parse_nat_list(out, "MA")
    with ThreadPoolExecutor(max_workers=8) as ex:
        results = list(ex.map(ev, enumerate(shards)))
    mm, ma = [], []
    for ix, a, b in results:
        mm += [ix * 300 + k for k in a]
        ma += [ix * 300 + k for k in b]
    for (bs, ops), o in zip(cases, obs):
        ctx.case(("py-out", bs, tuple(cc.py_wop_text(x) for x in ops)),
                 sample={"layer": "py-coded-out", "bufsize": bs, "ops": [cc.py_wop_text(x) for x in ops],
                         "bytes": cc.hexs(o[0]), "chunks": o[1], "exception": o[2]})
    ctx.coverage["traces_validated_against_impl"] = ctx.coverage.get("traces_validated_against_impl", 0) + len(cases)
    for k in ma[:3]:
        bs, ops = cases[k]
        ctx.report("py-coded-out:wrong-bytes", "_binary.CodedOutputStream(buffer_size=%d) wrote bytes that differ from what its "
                   "operations denote: %s" % (bs, [cc.py_wop_text(x) for x in ops]),
                   {"layer": "py-coded-out", "bufsize": bs, "ops": [cc.py_wop_text(x) for x in ops], "observed": cc.hexs(obs[k][0])})
    for k in [x for x in mm if x not in ma][:1]:
        bs, ops = cases[k]
        guarded = all(o[0] not in ("n",) and not (o[0] == "v" and o[1] >= 2 ** 64) for o in ops) and bs >= 10
        if guarded and obs[k][2]:
            ctx.report("py-coded-out:exception-on-guarded-script", "_binary.CodedOutputStream(buffer_size=%d) raised %s on a script "
                       "of the operations generated code uses: %s" % (bs, obs[k][2], [cc.py_wop_text(x) for x in ops]),
                       {"layer": "py-coded-out", "bufsize": bs, "ops": [cc.py_wop_text(x) for x in ops], "observed": obs[k][2]})
        else:
            ctx.report("py-coded-out:model-differs", "machine model Model.CodedPy.pwfinish (flush points, chunks, exception kind) "
                       "disagrees with _binary.py although the bytes are right",
                       {"layer": "py-coded-out", "bufsize": bs, "ops": [cc.py_wop_text(x) for x in ops], "observed_chunks": obs[k][1],
                        "observed_exception": obs[k][2],
                        "broken": "correspondence Model.CodedPy.pwfinish vs _binary.py CodedOutputStream (theorem C01_py_writer_refines no longer about the code)"},
                       no_input=True)


def typed_layer(ctx, n_pkgs, n_writes, cpp=True):
    pkgs = codec.build_packages(ctx, n_pkgs, "a", cpp=cpp, ndjson=False)
    try:
        cases, meta = [], []
        for gp in pkgs:
            if getattr(gp, "cpp_failed", False):
                ctx.report("cpp-compile:" + gp.name, "generated C++ does not compile for an accepted package",
                           {"layer": "typed", "model": gp.pkg.yaml(), "error": gp.cpp_err[-2000:]})
                continue
            for pname, steps in gp.pkg.protocols:
                schema = gp.schemas_[pname]
                for st in steps:
                    ctx.count("step_type_shapes", st[1].shape_sig(2))
                for _ in range(n_writes):
                    ws = ymodel.gen_writes(ctx.rng, steps)
                    body = ymodel.enc_steps(steps, ws)
                    stream = ymodel.enc_header(schema) + body
                    obs, flows = [], []
                    r = gp.py_call({"proto": pname, "fin": "binary", "fout": "binary", "data": stream.hex(), "mode": "copy"})
                    flows.append(("python copy_to (iterable writes)", r))
                    r2 = gp.py_call({"proto": pname, "fin": "binary", "fout": "binary", "data": stream.hex(), "mode": "list"})
                    flows.append(("python list writes", r2))
                    if cpp:
                        for b in (1, 3):
                            c = gp.cpp_call(pname, "binary", "binary", stream, batch=b)
                            flows.append(("c++ CopyTo batch=%d" % b, {"ok": c["ok"], "err": c["err"], "out": c["out"].hex()}))
                    bad = [(n, f) for n, f in flows if not f["ok"]]
                    for nme, f in bad[:1]:
                        ctx.report("typed:%s:error" % nme.split()[0],
                                   "%s failed on a valid reference stream: %s" % (nme, f.get("err", "")[:200]),
                                   {"layer": "typed", "flow": nme, "model": gp.pkg.yaml(), "namespace": gp.pkg.namespace, "protocol": pname,
                                    "stream_hex": stream.hex(), "error": f.get("err")})
                    if bad:
                        continue
                    cases.append((schema, steps, ws, body, [bytes.fromhex(f["out"]) for _, f in flows]))
                    meta.append((gp, pname, [n for n, _ in flows], stream))
        st = codec.eval_pcases(ctx, cases, "c01typed")
        for (schema, steps, ws, body, obs), (gp, pname, names, stream), s in zip(cases, meta, st):
            ctx.case(("typed", pname, body), nontrivial=len(body) > 0,
                     sample={"layer": "typed", "protocol": pname, "steps": [(n, t.spell, s_) for n, t, s_ in steps],
                             "stream_bytes": len(stream), "flows": names})
            if s == 1:
                raise RuntimeError("harness reference encoder disagrees with Model.Binary.enc_steps on %s" % pname)
            if s == 2:
                raise RuntimeError("generator produced an ill-typed value for %s" % pname)
            if s >= 3:
                ctx.report("typed:wrong-values", "%s: stream re-written by generated code does not decode to the values "
                           "written (protocol %s)" % (names[s - 3], pname),
                           {"layer": "typed", "flow": names[s - 3], "model": gp.pkg.yaml(), "namespace": gp.pkg.namespace, "protocol": pname,
                            "stream_hex": stream.hex(), "observed_hex": obs[s - 3].hex()})
    finally:
        codec.stop_packages(pkgs)


def coq_trace(tr):
    """the calls a spying CodedOutputStream recorded -> Model.CodedPy.pwop list (ensure_capacity(1) + unchecked byte = PWByte)"""
    from vlib import coq_bytes
    out, i = [], 0
    while i < len(tr):
        t = tr[i]
        if t[0] == "e" and t[1] == 1 and i + 1 < len(tr) and tr[i + 1][0] == "n":
            out.append("PWByte %d" % tr[i + 1][1])
            i += 2
            continue
        if t[0] == "e":
            out.append("PWEnsure %d" % t[1])
        elif t[0] == "n":
            out.append("PWByteNC %d" % t[1])
        elif t[0] == "v":
            out.append("PWVar %d" % t[1] if t[1] >= 0 else "PWFlush")
        elif t[0] == "f":
            out.append("PWFixed %d %d" % (t[1], t[2]))
        elif t[0] in ("B", "D"):
            bs = list(bytes.fromhex(t[1]))
            out.append(("PWBytes " if t[0] == "B" else "PWDirect ") + coq_bytes(bs))
        else:
            out.append("PWFlush")
        i += 1
    return out


def coq_rtrace(tr):
    """the calls a spying CodedInputStream recorded -> list (pop * rval)"""
    from vlib import coq_bytes
    out = []
    for t in tr:
        if t[0] == "b":
            out.append("(PByte, VNum %d)" % t[1])
        elif t[0] == "v":
            out.append("(PVar, VNum %d)" % t[1])
        elif t[0] == "f":
            out.append("(PFixed %d, VNum %d)" % (t[1], t[2]))
        else:
            out.append("(PBytes %d, VBytes %s)" % (t[1], coq_bytes(list(bytes.fromhex(t[2])))))
    return out


def trace_layer(ctx, n_pkgs, n_writes):
    """Model.PyTyped against the generated Python writers: the calls made on the coded output stream while the steps of a
    protocol are written (streams as one iterable and as one list), compared call by call with py_wops / py_stream_ops"""
    from vlib import coq_bytes
    pkgs = codec.build_packages(ctx, n_pkgs, "tr", cpp=False, ndjson=False)
    try:
        cases, meta, rcases, rmeta = [], [], [], []
        for gp in pkgs:
            for pname, steps in gp.pkg.protocols:
                schema = gp.schemas_[pname]
                for _ in range(n_writes):
                    ws = ymodel.gen_writes(ctx.rng, steps)
                    stream = ymodel.enc_header(schema) + ymodel.enc_steps(steps, ws)
                    for mode in ("copy", "list"):
                        r = gp.py_call({"proto": pname, "fin": "binary", "fout": "binary", "data": stream.hex(), "mode": mode, "trace": True})
                        if not r["ok"] or r.get("trace") is None:
                            continue    # reported by the typed layer
                        tr = r["trace"]
                        if tr and tr[-1] == ["F"]:
                            tr = tr[:-1]          # close() flushes
                        psteps = []
                        for (sn, t, is_stream), w in zip(steps, ws):
                            if is_stream:
                                items = [x for b in w for x in b]
                                batch = "BIter" if mode == "copy" else "BList"
                                psteps.append("PSStream (%s) [%s [%s]]" % (t.coq(), batch, "; ".join(ymodel.coq_val(x) for x in items)))
                            else:
                                psteps.append("PSVal (%s) (%s)" % (t.coq(), ymodel.coq_val(w)))
                        cases.append("(%s, [%s], [%s])" % (coq_bytes(list(schema.encode("utf-8"))), "; ".join(psteps), "; ".join(coq_trace(tr))))
                        meta.append((gp, pname, mode, stream, tr))
                        if mode == "copy" and r.get("rtrace") is not None:
                            rsteps = []
                            for (sn, t, is_stream), w in zip(steps, ws):
                                if is_stream:
                                    rsteps.append("RSStream (%s) [%s]" % (t.coq(), "; ".join("%d%%nat" % len(b) for b in w if b)))
                                else:
                                    rsteps.append("RSVal (%s)" % t.coq())
                            rcases.append("(%s, [%s], %s, [%s])" % (coq_bytes(list(schema.encode("utf-8"))), "; ".join(rsteps),
                                                                    coq_bytes(list(stream)), "; ".join(coq_rtrace(r["rtrace"]))))
                            rmeta.append((gp, pname, stream, r["rtrace"]))
                        for _, t, _ in steps:
                            ctx.count("trace_step_shape", t.shape_sig(1))
        shards = [list(range(i, min(i + 40, len(cases)))) for i in range(0, len(cases), 40)]

        def ev(idx):
            body = ("From Coq Require Import List NArith ZArith Bool.\nImport ListNotations.\nOpen Scope N_scope.\n"
                    "From YV Require Import Base.Wire Model.Binary Model.CodedCpp Model.CodedPy Model.PyTyped Model.PyTypedCases.\n"
                    "Definition cases : list trcase := [\n " + ";\n ".join(cases[i] for i in idx) + "\n].\n"
                    "Definition ST := Eval vm_compute in map trcase_status cases.\nPrint ST.\n")
            return Ctx.parse_nat_list(ctx.coq_eval("tr_%d" % idx[0], body, timeout=1500), "ST")
        with ThreadPoolExecutor(max_workers=8) as ex:
            st = [x for r in ex.map(ev, shards) for x in r]
        for (gp, pname, mode, stream, tr), s_ in zip(meta, st):
            ctx.case(("trace", pname, mode, stream), nontrivial=len(tr) > 0,
                     sample={"layer": "py-typed-trace", "protocol": pname, "mode": mode, "calls": len(tr), "agrees": s_ == 0})
            ctx.count("trace_calls", "<10" if len(tr) < 10 else ("<100" if len(tr) < 100 else ">=100"))
            if s_ != 0:
                ctx.report("py-typed-trace-differs", "the calls the generated Python writer of protocol %s (streams written as %s) makes on "
                           "the coded output stream part from Model.PyTyped.py_wops at call %d: observed %s"
                           % (pname, "one iterable" if mode == "copy" else "one list", s_ - 1, tr[max(0, s_ - 2):s_ + 1]),
                           {"layer": "py-typed-trace", "model": gp.pkg.yaml(), "namespace": gp.pkg.namespace, "protocol": pname, "mode": mode,
                            "stream_hex": stream.hex(), "observed_calls_around": tr[max(0, s_ - 3):s_ + 2],
                            "broken": "correspondence Model.PyTyped.py_wops vs the serializer classes of _binary.py "
                                      "(theorems C01_py_typed_writer_bytes / C01_py_typed_guarded no longer about the code)"},
                           no_input=True)
        # the reader side: the calls the generated Python reader makes on the coded input stream, with what they returned
        rshards = [list(range(i, min(i + 40, len(rcases)))) for i in range(0, len(rcases), 40)]

        def rev(idx):
            body = ("From Coq Require Import List NArith ZArith Bool.\nImport ListNotations.\nOpen Scope N_scope.\n"
                    "From YV Require Import Base.Wire Model.Binary Model.CodedCpp Model.CodedPy Model.PyTyped Model.PyTypedCases.\n"
                    "Definition cases : list rtcase := [\n " + ";\n ".join(rcases[i] for i in idx) + "\n].\n"
                    "Definition ST := Eval vm_compute in map rtcase_status cases.\nPrint ST.\n")
            return Ctx.parse_nat_list(ctx.coq_eval("rtr_%d" % idx[0], body, timeout=1500), "ST")
        with ThreadPoolExecutor(max_workers=8) as ex:
            rst = [x for r in ex.map(rev, rshards) for x in r]
        for (gp, pname, stream, tr), s_ in zip(rmeta, rst):
            ctx.case(("rtrace", pname, stream), nontrivial=len(tr) > 0,
                     sample={"layer": "py-typed-read-trace", "protocol": pname, "calls": len(tr), "agrees": s_ == 0})
            ctx.count("read_trace_calls", "<10" if len(tr) < 10 else ("<100" if len(tr) < 100 else ">=100"))
            if s_ != 0:
                ctx.report("py-typed-read-trace-differs", "the calls the generated Python reader of protocol %s makes on the coded input "
                           "stream (with what they return) part from the reader program Model.PyTypedRead.py_read at call %d: "
                           "observed %s" % (pname, s_ - 1, tr[max(0, s_ - 2):s_ + 1]),
                           {"layer": "py-typed-read-trace", "model": gp.pkg.yaml(), "namespace": gp.pkg.namespace, "protocol": pname,
                            "stream_hex": stream.hex(), "observed_calls_around": tr[max(0, s_ - 3):s_ + 2],
                            "broken": "correspondence Model.PyTypedRead.py_read vs the serializer classes of _binary.py "
                                      "(theorem C01_py_typed_roundtrip no longer about the code)"}, no_input=True)
    finally:
        codec.stop_packages(pkgs)


SPY_PRELUDE = r"""
#include <cstdio>
#include <cstdlib>
namespace yardl_spy {
inline FILE* out() {
  static FILE* f = [] { const char* p = std::getenv("YARDL_SPY"); return p ? std::fopen(p, "w") : nullptr; }();
  return f;
}
inline void log(const char* k, unsigned long long v) {
  if (FILE* f = out()) { std::fprintf(f, "%s %llu\n", k, v); std::fflush(f); }
}
inline void bytes(const char* k, void const* d, size_t n) {
  if (FILE* f = out()) {
    std::fprintf(f, "%s %zu ", k, n);
    auto p = static_cast<unsigned char const*>(d);
    for (size_t i = 0; i < n; i++) std::fprintf(f, "%02x", p[i]);
    std::fprintf(f, "\n");
    std::fflush(f);
  }
}
inline FILE* rout() {
  static FILE* f = [] { const char* p = std::getenv("YARDL_SPY_R"); return p ? std::fopen(p, "w") : nullptr; }();
  return f;
}
inline int& rdepth() { static int d = 0; return d; }
struct RGuard {
  const char* k; void const* p; size_t n; bool top;
  RGuard(const char* k_, void const* p_, size_t n_) : k(k_), p(p_), n(n_) { top = (rdepth()++ == 0); }
  ~RGuard() {
    --rdepth();
    FILE* f = rout();
    if (top && f && std::uncaught_exceptions() == 0) {
      std::fprintf(f, "%s %zu ", k, n);
      auto q = static_cast<unsigned char const*>(p);
      for (size_t i = 0; i < n; i++) std::fprintf(f, "%02x", q[i]);
      std::fprintf(f, "\n");
      std::fflush(f);
    }
  }
};
}  // namespace yardl_spy
"""
SPY_POINTS = [
    ("  void WriteByte(T const& v) {\n", '    yardl_spy::log("b", static_cast<unsigned long long>(static_cast<uint8_t>(v)));\n'),
    ("  void WriteVarInt(T value) {\n", '    yardl_spy::log(sizeof(T) == 4 ? "v32" : "v64", static_cast<unsigned long long>(value));\n'),
    ("  void WriteFixedInteger(T const& value) {\n", '    yardl_spy::bytes("f", &value, sizeof(value));\n'),
    ("  void WriteBytes(void const* data, size_t size_in_bytes) {\n", '    yardl_spy::bytes("B", data, size_in_bytes);\n'),
    ("  void Flush() {\n", '    yardl_spy::log("F", 0);\n'),
    # CodedInputStream: a guard logs what the outermost call returned when it leaves normally
    ("  void ReadByte(T& v) {\n", '    yardl_spy::RGuard _spy("b", &v, 1);\n'),
    ("  void ReadFixedInteger(T& value) {\n", '    yardl_spy::RGuard _spy("f", &value, sizeof(value));\n'),
    ("  void ReadVarInt32(uint32_t& value) {\n", '    yardl_spy::RGuard _spy("v32", &value, sizeof(value));\n'),
    ("  void ReadVarInt64(T& value) {\n", '    yardl_spy::RGuard _spy("v64", &value, sizeof(value));\n'),
    ("  void ReadBytes(void* data, size_t size_in_bytes) {\n", '    yardl_spy::RGuard _spy("B", data, size_in_bytes);\n'),
    ("  void VerifyFinished() {\n", '    yardl_spy::RGuard _spy("V", nullptr, 0);\n'),
]


def instrument_coded_stream(text):
    """a translator: the shipped coded_stream.h with one logging statement at the start of each of the five methods through which
    CodedOutputStream receives data; None when the header no longer has the shape this relies on"""
    for head, ins in SPY_POINTS:
        if text.count(head) != 1:
            return None
        text = text.replace(head, head + ins)
    marker = "namespace yardl::binary {"
    if text.count(marker) < 1:
        return None
    return text.replace(marker, SPY_PRELUDE + "\n" + marker, 1)


def has_big_map(v):
    """maps are written in the iteration order of std::unordered_map: traces with a map of two or more entries are not compared"""
    if isinstance(v, tuple):
        if v and v[0] == "map" and len(v[1]) >= 2:
            return True
        return any(has_big_map(x) for x in v[1:])
    if isinstance(v, list):
        return any(has_big_map(x) for x in v)
    return False


def coq_ctrace(lines):
    from vlib import coq_bytes
    out = []
    for ln in lines:
        t = ln.split()
        if not t:
            continue
        if t[0] == "b":
            out.append("WByte %s" % t[1])
        elif t[0] in ("v32", "v64"):
            out.append("WVar %s %s" % (t[0][1:], t[1]))
        elif t[0] == "f":
            bs = bytes.fromhex(t[2]) if len(t) > 2 else b""
            out.append("WFixed %s %d" % (t[1], int.from_bytes(bs, "little")))
        elif t[0] == "B":
            bs = bytes.fromhex(t[2]) if len(t) > 2 else b""
            out.append("WBytes " + coq_bytes(list(bs)))
        else:
            out.append("WFlush")
    while out and out[-1] == "WFlush":
        out.pop()
    return out


def coq_crtrace(lines):
    from vlib import coq_bytes
    out = []
    for ln in lines:
        t = ln.split()
        if not t:
            continue
        bs = bytes.fromhex(t[2]) if len(t) > 2 else b""
        if t[0] == "b":
            out.append("(RByte, VNum %d)" % bs[0])
        elif t[0] in ("v32", "v64"):
            out.append("(RVar %s, VNum %d)" % (t[0][1:], int.from_bytes(bs, "little")))
        elif t[0] == "f":
            out.append("(RFixed %s, VNum %d)" % (t[1], int.from_bytes(bs, "little")))
        elif t[0] == "B":
            out.append("(RBytes %s, VBytes %s)" % (t[1], coq_bytes(list(bs))))
        elif t[0] == "V":
            out.append("(RVerify, VUnit)")
    return out


def cpp_trace_layer(ctx, n_pkgs, n_writes):
    """Model.CppTyped against the generated C++ writers: the generated code is compiled against an instrumented copy of the
    shipped coded_stream.h (instrument_coded_stream) and the calls it logs while the translator copies reference streams (batch
    capacities 1 and 3) are compared call by call with cpp_wops / cpp_stream_ops inside Coq"""
    import genrun
    import subprocess
    from vlib import coq_bytes
    rng = ctx.rng
    cases, meta, rcases, rmeta = [], [], [], []
    for i in range(n_pkgs):
        pkg = ymodel.Gen(rng, namespace="Pkc" + "abcdefghijklmnopqrstuvwxyz"[i % 26]).build()
        gp = genrun.GenPackage(ctx, pkg, "pkg_ctr_%d" % i, ndjson=False, cpp=True, python=True)
        if not gp.generate():
            raise RuntimeError("yardl rejected a generated package:\n%s\n%s" % (gp.gen_out[-1500:], pkg.yaml()))
        gp.schemas_ = gp.schemas()
        hdr = os.path.join(gp.dir, "cpp", "generated", "yardl", "detail", "binary", "coded_stream.h")
        text = instrument_coded_stream(open(hdr).read())
        if text is None:
            ctx.report("cpp-spy-instrumentation", "coded_stream.h no longer has the methods the instrumentation looks for (WriteByte, WriteVarInt, "
                       "WriteFixedInteger, WriteBytes, Flush; ReadByte, ReadFixedInteger, ReadVarInt32, ReadVarInt64, ReadBytes, VerifyFinished)", {"broken": "translator instrument_coded_stream "
                       "(theorem C01_cpp_typed_writer_bytes not tied)"}, no_input=True)
            return
        open(hdr, "w").write(text)
        if not gp.cpp_build():
            continue     # reported by the typed layer (known C++ findings such as bool sequences)
        for pname, steps in pkg.protocols:
            schema = gp.schemas_[pname]
            for _ in range(n_writes):
                ws = ymodel.gen_writes(rng, steps)
                if any(has_big_map(w) for w in ws):
                    ctx.count("cpp_trace_skipped", "map with several entries (unordered_map order)")
                    continue
                stream = ymodel.enc_header(schema) + ymodel.enc_steps(steps, ws)
                for batch in (1, 3):
                    log, rlog = os.path.join(gp.dir, "spy.log"), os.path.join(gp.dir, "spy_r.log")
                    for f_ in (log, rlog):
                        if os.path.exists(f_):
                            os.remove(f_)
                    try:
                        p = subprocess.run([gp.tr, pname, "binary", "binary", str(batch)], input=stream, stdout=subprocess.PIPE,
                                           stderr=subprocess.PIPE, timeout=60, env=dict(os.environ, YARDL_SPY=log, YARDL_SPY_R=rlog))
                    except subprocess.TimeoutExpired:
                        continue
                    if p.returncode != 0 or not os.path.exists(log):
                        continue     # reported by the typed layer
                    tr = coq_ctrace(open(log).read().split("\n"))
                    csteps = []
                    for (sn, t, is_stream), w in zip(steps, ws):
                        if is_stream:
                            items = [x for b in w for x in b]
                            csteps.append("CSStream (%s) %d%%nat [%s]" % (t.coq(), batch, "; ".join(ymodel.coq_val(x) for x in items)))
                        else:
                            csteps.append("CSVal (%s) (%s)" % (t.coq(), ymodel.coq_val(w)))
                    cases.append("(%s, [%s], [%s])" % (coq_bytes(list(schema.encode("utf-8"))), "; ".join(csteps), "; ".join(tr)))
                    meta.append((gp, pname, batch, stream, tr))
                    if batch == 1 and os.path.exists(rlog):
                        rtr = coq_crtrace(open(rlog).read().split("\n"))
                        rsteps = []
                        for (sn, t, is_stream), w in zip(steps, ws):
                            if is_stream:
                                rsteps.append("CRStream (%s) %d%%nat" % (t.coq(), len([b for b in w if b])))
                            else:
                                rsteps.append("CRVal (%s)" % t.coq())
                        rcases.append("(%s, [%s], %s, [%s])" % (coq_bytes(list(schema.encode("utf-8"))), "; ".join(rsteps),
                                                                coq_bytes(list(stream)), "; ".join(rtr)))
                        rmeta.append((gp, pname, stream, rtr))
    shards = [list(range(i, min(i + 40, len(cases)))) for i in range(0, len(cases), 40)]

    def ev(idx):
        body = ("From Coq Require Import List NArith ZArith Bool.\nImport ListNotations.\nOpen Scope N_scope.\n"
                "From YV Require Import Base.Wire Model.Binary Model.CodedCpp Model.CppLayout Model.CppTyped.\n"
                "Definition cases : list ctrcase := [\n " + ";\n ".join(cases[i] for i in idx) + "\n].\n"
                "Definition ST := Eval vm_compute in map ctrcase_status cases.\nPrint ST.\n")
        return Ctx.parse_nat_list(ctx.coq_eval("ctr_%d" % idx[0], body, timeout=1500), "ST")
    with ThreadPoolExecutor(max_workers=8) as ex:
        st = [x for r in ex.map(ev, shards) for x in r]
    for (gp, pname, batch, stream, tr), s_ in zip(meta, st):
        ctx.case(("ctrace", pname, batch, stream), nontrivial=len(tr) > 0,
                 sample={"layer": "cpp-typed-trace", "protocol": pname, "batch": batch, "calls": len(tr), "agrees": s_ == 0})
        ctx.count("cpp_trace_calls", "<10" if len(tr) < 10 else ("<100" if len(tr) < 100 else ">=100"))
        ctx.count("cpp_trace_fast_paths", "with WriteBytes" if any(x.startswith("WBytes") for x in tr[4:]) else "without")
        if s_ != 0:
            ctx.report("cpp-typed-trace-differs", "the calls the generated C++ writer of protocol %s (batch capacity %d) makes on the coded output "
                       "stream part from Model.CppTyped.cpp_wops at call %d: observed %s" % (pname, batch, s_ - 1, tr[max(0, s_ - 2):s_ + 1]),
                       {"layer": "cpp-typed-trace", "model": gp.pkg.yaml(), "namespace": gp.pkg.namespace, "protocol": pname, "batch": batch,
                        "stream_hex": stream.hex(), "observed_calls_around": tr[max(0, s_ - 3):s_ + 2],
                        "broken": "correspondence Model.CppTyped.cpp_wops vs serializers.h / generated Write functions "
                                  "(theorem C01_cpp_typed_writer_bytes no longer about the code)"}, no_input=True)
    rshards = [list(range(i, min(i + 40, len(rcases)))) for i in range(0, len(rcases), 40)]

    def rev(idx):
        body = ("From Coq Require Import List NArith ZArith Bool.\nImport ListNotations.\nOpen Scope N_scope.\n"
                "From YV Require Import Base.Wire Model.Binary Model.CodedCpp Model.CppLayout Model.CppReadProg Model.CppTypedRead.\n"
                "Definition cases : list crtcase := [\n " + ";\n ".join(rcases[i] for i in idx) + "\n].\n"
                "Definition ST := Eval vm_compute in map crtcase_status cases.\nPrint ST.\n")
        return Ctx.parse_nat_list(ctx.coq_eval("crtr_%d" % idx[0], body, timeout=1500), "ST")
    with ThreadPoolExecutor(max_workers=8) as ex:
        rst = [x for r in ex.map(rev, rshards) for x in r]
    for (gp, pname, stream, rtr), s_ in zip(rmeta, rst):
        ctx.case(("crtrace", pname, stream), nontrivial=len(rtr) > 0,
                 sample={"layer": "cpp-typed-read-trace", "protocol": pname, "calls": len(rtr), "agrees": s_ == 0})
        ctx.count("cpp_read_trace_calls", "<10" if len(rtr) < 10 else ("<100" if len(rtr) < 100 else ">=100"))
        if s_ != 0:
            ctx.report("cpp-typed-read-trace-differs", "the calls the generated C++ reader of protocol %s makes on the coded input stream (with "
                       "what they return) part from the reader program Model.CppTypedRead.cpp_read at call %d: observed %s"
                       % (pname, s_ - 1, rtr[max(0, s_ - 2):s_ + 1]),
                       {"layer": "cpp-typed-read-trace", "model": gp.pkg.yaml(), "namespace": gp.pkg.namespace, "protocol": pname,
                        "stream_hex": stream.hex(), "observed_calls_around": rtr[max(0, s_ - 3):s_ + 2],
                        "broken": "correspondence Model.CppTypedRead.cpp_read vs serializers.h / generated Read functions "
                                  "(theorem C01_cpp_typed_roundtrip no longer about the code)"}, no_input=True)


def boundary_layer(ctx, offsets, cpp=True):
    """Values placed so that they start `d` bytes before a 64 KiB boundary of the stream (d in offsets):
    the writer's staging buffer and the reader's refill both happen inside / right at the value."""
    import edgepkg
    import genrun
    pkg, tested = edgepkg.build()
    gp = genrun.GenPackage(ctx, pkg, "edge", ndjson=False, cpp=cpp)
    if not gp.generate():
        raise RuntimeError("yardl rejected the Edge package: " + gp.gen_out[-1500:])
    schemas = gp.schemas()
    if cpp and not gp.cpp_build():
        ctx.report("cpp-compile:edge", "generated C++ does not compile for the Edge package",
                   {"layer": "boundary", "model": pkg.yaml(), "error": gp.cpp_err[-2000:]})
        cpp = False
    gp.py_start()
    rng = ctx.rng
    cases, meta = [], []
    try:
        for pname, steps in pkg.protocols:
            if pname not in tested:
                continue
            schema = schemas[pname]
            hdr = ymodel.enc_header(schema)
            for d in offsets:
                # choose pad length L with len(hdr) + len(varint(L)) + L == 65536 - d
                target = 65536 - d - len(hdr)
                L = target - 3
                assert len(ymodel.venc(L)) == 3
                ws = ymodel.gen_writes(rng, steps, size=3, max_items=3)
                ws[0] = ("seq", [("int", rng.randrange(256)) for _ in range(L)])
                body = ymodel.enc_steps(steps, ws)
                stream = hdr + body
                padlen = 3 + L
                flows = []
                for mode in ("copy", "list"):
                    r = gp.py_call({"proto": pname, "fin": "binary", "fout": "binary", "data": stream.hex(), "mode": mode})
                    flows.append(("python %s" % mode, r))
                if cpp:
                    c = gp.cpp_call(pname, "binary", "binary", stream, batch=2)
                    flows.append(("c++ CopyTo batch=2", {"ok": c["ok"], "err": c["err"], "out": c["out"].hex()}))
                ctx.count("boundary_offsets", str(d))
                ctx.count("boundary_types", pname)
                bad = [(n, f) for n, f in flows if not f["ok"]]
                for nme, f in bad:
                    lang = nme.split()[0]
                    key = "boundary:%s:%s:%s" % (lang, pname, f.get("err", "").split(":")[0][:40])
                    ctx.report(key, "%s raised %s writing/reading protocol %s with the value starting %d bytes before a "
                               "64 KiB boundary" % (nme, f.get("err", "")[:120], pname, d),
                               {"layer": "boundary", "flow": nme, "protocol": pname, "d": d, "pad_len": L,
                                "error": f.get("err"), "model": pkg.yaml(), "namespace": "Edge",
                                "tail_hex": body[padlen:].hex()})
                good = [(n, f) for n, f in flows if f["ok"]]
                obs = []
                for n, f in good:
                    o = bytes.fromhex(f["out"])
                    # strip header and pad (must be reproduced verbatim), keep the rest for the Coq model
                    if o[:len(hdr)] != hdr or o[len(hdr):len(hdr) + padlen] != body[:padlen]:
                        ctx.report("boundary:%s:%s:pad-corrupted" % (n.split()[0], pname),
                                   "%s corrupted header/padding bytes (protocol %s, d=%d)" % (n, pname, d),
                                   {"layer": "boundary", "flow": n, "protocol": pname, "d": d})
                        continue
                    obs.append(hdr + o[len(hdr) + padlen:])
                cases.append((schema, steps[1:], ws[1:], body[padlen:], obs))
                meta.append((pname, d, [n for n, _ in good]))
        st = codec.eval_pcases(ctx, cases, "c01bnd")
        for (schema, steps, ws, body, obs), (pname, d, names), s in zip(cases, meta, st):
            ctx.case(("boundary", pname, d, body), sample={"layer": "boundary", "protocol": pname, "d": d, "flows": names,
                                                          "tail_hex": body.hex()[:80]})
            if s in (1, 2):
                raise RuntimeError("harness reference/generator inconsistent with the Coq model on Edge.%s" % pname)
            if s >= 3:
                ctx.report("boundary:%s:%s:wrong-values" % (names[s - 3].split()[0], pname),
                           "%s: values after the 64 KiB boundary differ from what was written (protocol %s, d=%d)"
                           % (names[s - 3], pname, d),
                           {"layer": "boundary", "flow": names[s - 3], "protocol": pname, "d": d, "tail_hex": body.hex(),
                            "observed_tail_hex": obs[s - 3][len(ymodel.enc_header(schema)):].hex()})
    finally:
        gp.py_stop()


ZZ_TEXT = {   # the expressions Model/ZigZagBits.v transcribes (whitespace-normalised)
    "cpp:ZigZagEncode32": "return (static_cast<uint32_t>(v) << 1) ^ static_cast<uint32_t>(v >> 31);",
    "cpp:ZigZagEncode64": "return (static_cast<uint64_t>(v) << 1) ^ static_cast<uint64_t>(v >> 63);",
    "cpp:ZigZagDecode32": "return static_cast<int32_t>((n >> 1) ^ (~(n & 1) + 1));",
    "cpp:ZigZagDecode64": "return static_cast<int64_t>((n >> 1) ^ (~(n & 1) + 1));",
    "py:zigzag_encode": "int_val = int(value) return (int_val << 1) ^ (int_val >> 63)",
    "py:zigzag_decode": "return (value >> 1) ^ -(value & 1)",
    "matlab:zigzag_encode": "int_val = int64(value); res = bitxor(bitshift(int_val, 1), bitshift(int_val, -63));",
    "matlab:zigzag_decode": "value = uint64(value); res = bitxor(int64(bitshift(value, -1)), -int64(bitand(value, 1)));",
}


VARINT_TEXT = {   # the loops Model/VarintBits.v transcribes (whitespace-normalised)
    "cpp:WriteVarInt": "while (value > 0x7F) { *buffer_ptr_++ = static_cast<uint8_t>(value) | 0x80; value >>= 7; } "
                       "*buffer_ptr_++ = static_cast<uint8_t>(value);",
    "py:write_unsigned_varint": "int_val = int(value) # bitwise ops not supported on numpy types while True: if int_val < 0x80: "
                                "self.write_byte_no_check(int_val) return self.write_byte_no_check((int_val & 0x7F) | 0x80) int_val >>= 7",
    "py:read_unsigned_varint": "result = 0 shift = 0 while True: if self._last_read_count - self._offset < 1: self._fill_buffer(1) "
                               "byte = self._buffer[self._offset] self._offset += 1 result |= (byte & 0x7F) << shift "
                               "if byte < 0x80: return result shift += 7",
    "cpp:ReadVarIntegerFastFromArray": "value = 0; int shift = 0; while (true) { uint8_t byte = *local_buffer_ptr++; "
                                       "value |= static_cast<T>(byte & 0x7F) << shift; if ((byte & 0x80) == 0) { break; } shift += 7; }",
}


def varint_text_tie(ctx):
    """translator-level tie of Model.VarintBits (theorems C01_varint_bits_*): the varint writer loops of coded_stream.h and
    _binary.py are the transcribed ones.  A behavioural change is found by the writer layers that follow (they drive the real
    CodedOutputStream classes and compare bytes), so a text difference alone is reported without an input."""
    import re
    from vlib import REPO
    base = os.path.join(REPO, "tooling", "internal")
    norm = lambda t: " ".join(t.split())
    found = {}
    try:
        cpp = open(os.path.join(base, "cpp", "include", "detail", "binary", "coded_stream.h")).read()
        m = re.search(r"  void WriteVarInt\(T value\) \{\n(.*?)\n  \}\n", cpp, re.S)
        if m:
            found["cpp:WriteVarInt"] = norm(m.group(1))
        py = open(os.path.join(base, "python", "static_files", "_binary.py")).read()
        m = re.search(r"    def write_unsigned_varint\(.*?\) -> None:\n.*?self\.flush\(\)\n(.*?)\n\n    def ", py, re.S)
        if m:
            found["py:write_unsigned_varint"] = norm(m.group(1))
        m = re.search(r"    def read_unsigned_varint\(self\) -> int:\n(.*?)\n\n    def ", py, re.S)
        if m:
            found["py:read_unsigned_varint"] = norm(m.group(1))
        m = re.search(r"  static void ReadVarIntegerFastFromArray\(T& value, uint8_t\*& local_buffer_ptr\) \{\n(.*?)\n  \}\n", cpp, re.S)
        if m:
            found["cpp:ReadVarIntegerFastFromArray"] = norm(m.group(1))
    except OSError as e:
        found = {"error": str(e)}
    for key, want in VARINT_TEXT.items():
        got = found.get(key)
        ctx.count("varint_text", "as modelled" if got == want else "different")
        if got != want:
            ctx.report("varint-text:" + key, "the text of %s is not the loop Model.VarintBits transcribes" % key,
                       {"found": got, "modelled": want,
                        "broken": "correspondence Model.VarintBits vs %s (theorems C01_varint_bits_*)" % key}, no_input=True)


def zigzag_text_tie(ctx):
    """translator-level tie of Model.ZigZagBits: the shift/mask/xor expressions of the three runtimes are the ones the model
    transcribes (theorems C01_zigzag_bits_*).  When the Python text differs its return expression is evaluated on edge integers
    against the arithmetic zig-zag to look for a failing input; C++ differences are left to the byte layers that follow."""
    import re
    from vlib import REPO
    base = os.path.join(REPO, "tooling", "internal")
    norm = lambda t: " ".join(t.split())
    found = {}
    try:
        cpp = open(os.path.join(base, "cpp", "include", "detail", "binary", "coded_stream.h")).read()
        for m in re.finditer(r"static u?int(?:32|64)_t (ZigZag(?:En|De)code(?:32|64))\(u?int(?:32|64)_t \w+\) \{\n(.*?)\n  \}", cpp, re.S):
            found["cpp:" + m.group(1)] = norm(m.group(2))
        py = open(os.path.join(base, "python", "static_files", "_binary.py")).read()
        for m in re.finditer(r"    def (zigzag_(?:en|de)code)\((.*?)\) -> int:\n(.*?)\n\n", py, re.S):
            found["py:" + m.group(1)] = norm(m.group(3))
        for fn, name in (("CodedOutputStream.m", "zigzag_encode"), ("CodedInputStream.m", "zigzag_decode")):
            mt = open(os.path.join(base, "matlab", "static_files", "+binary", fn)).read()
            m = re.search(r"function res = %s\(~, value\)\n(.*?)\n        end" % name, mt, re.S)
            if m:
                found["matlab:" + name] = norm(m.group(1))
    except OSError as e:
        found = {"error": str(e)}
    zz = lambda v: 2 * v if v >= 0 else -2 * v - 1
    unzz = lambda n: n // 2 if n % 2 == 0 else -((n + 1) // 2)
    for key, want in ZZ_TEXT.items():
        got = found.get(key)
        ctx.count("zigzag_text", "as modelled" if got == want else "different")
        if got == want:
            continue
        broken = "correspondence Model.ZigZagBits vs %s (theorems C01_zigzag_bits_*)" % key
        if key.startswith("py:") and got:
            expr = got.split("return", 1)[-1].strip()
            edges = sorted(set(e + d for e in (0, 1, 2 ** 7, 2 ** 31, 2 ** 32, 2 ** 62, 2 ** 63 - 2) for d in (-2, -1, 0, 1)))
            ins = [x for e in edges for x in (e, -e - 1)] if key.endswith("encode") else [x for e in edges if e >= 0 for x in (e, 2 ** 64 - 1 - e)]
            for x in ins:
                try:
                    r = eval(expr, {"int_val": x, "value": x})
                except Exception as ex:           # noqa: BLE001
                    r = "exception %r" % ex
                exp = zz(x) if key.endswith("encode") else unzz(x)
                if r != exp:
                    ctx.report("zigzag:" + key, "%s(%d) = %s, zig-zag says %d" % (key, x, r, exp),
                               {"layer": "zigzag", "function": key, "input": x, "observed": str(r), "expected": exp, "text": got})
                    break
            else:
                ctx.report("zigzag-text:" + key, "the text of %s is not the expression Model.ZigZagBits transcribes" % key,
                           {"found": got, "modelled": want, "broken": broken}, no_input=True)
        else:
            ctx.report("zigzag-text:" + key, "the text of %s is not the expression Model.ZigZagBits transcribes" % key,
                       {"found": got, "modelled": want, "broken": broken}, no_input=True)


def run(ctx):
    ctx.build_repo(need_hook=True)
    ok, failing, log = ctx.coq_props("C01")
    ctx.coverage["trusted_base"] = TRUSTED
    ctx.coverage["rule"] = ("(1) writer op scripts x buffer sizes on the real CodedOutputStream; (2) random valid packages "
                            "(records, enums/flags, aliases, generics, unions, optionals, vectors, arrays, maps) generated by the "
                            "real yardl, random step values with edge integers / float bit patterns incl. NaN / UTF-8 / empty "
                            "containers, reference-encoded, re-written by generated Python (iterable and list paths) and generated "
                            "C++ (CopyTo batch 1 and 3); outputs decoded by the Coq model must equal the values written; "
                            "non-trivial = non-empty body; distinct by (protocol, body bytes)")
    if not ok:
        ctx.report("proof:" + str(failing), "theorem/dependency no longer checks: %s" % failing,
                   {"broken": failing, "log": log[-3000:]}, no_input=True)
    zigzag_text_tie(ctx)
    varint_text_tie(ctx)
    quick = ctx.tier == "quick"
    cpp_writer_layer(ctx, 60 if quick else 600)
    py_writer_layer(ctx, 80 if quick else 800)
    typed_layer(ctx, 3 if quick else 12, 6 if quick else 20)
    trace_layer(ctx, 2 if quick else 8, 4 if quick else 12)
    cpp_trace_layer(ctx, 1 if quick else 4, 4 if quick else 12)
    boundary_layer(ctx, [0, 1, 2, 5, 9] if quick else list(range(-2, 13)))



_run_inner = run


def run(ctx):          # noqa: F811
    _run_inner(ctx)
    import batchdriver
    batchdriver.run(ctx, "C01")

def replay(ctx, path):
    print(json.dumps(json.load(open(path)), indent=1)[:4000])
    print("replay: apply the recorded model/stream with harness/lib/genrun.py (see DESIGN.md)")
