"""C13 - alternative spellings of a model are the same model."""
import hashlib
import json
import os
import re

import ymodel
from vlib import sh

LEVEL = "proof"
TRUSTED = [
    "Coq 8.16.1 kernel + vm_compute; theorems in coq/Props/C13.v",
    "the primitive alias table is what the current front end resolves each candidate name to on a probe model, observed on every run (Gen/Tables.v), compared in Coq with the documented table",
    "Model/TypeSyntax.v: hand-written reading of convertType/applyTypeTail/itemCases and Unmarshal*YAML; tied on every run by the "
    "verif hook `types` (structure built by the real front end for random types in both spellings, compared inside Coq)",
    "the rest of the equivalence (comments, definition order, file layout, primitive aliases) is established by differential "
    "generation: the same package printed in 6 spellings, complete generated C++/Python/MATLAB/JSON trees and schemas compared",
    "harness (printers of the alternative spellings)",
]
CFG = ("cpp:\n  sourcesOutputDir: ../out/cpp\n  generateCMakeLists: false\npython:\n  outputDir: ../out/python\njson:\n  outputDir: ../out/json\n"
       "matlab:\n  outputDir: ../out/matlab\n")


def tree(root):
    h = {}
    for d, _, files in os.walk(root):
        for f in files:
            p = os.path.join(d, f)
            h[os.path.relpath(p, root)] = hashlib.sha256(open(p, "rb").read()).hexdigest()
    return h


def schemas(root, module):
    src = open(os.path.join(root, "python", module, "protocols.py")).read()
    return {m.group(1): m.group(2) for m in re.finditer(r'class (\w+)WriterBase\(abc\.ABC\):.*?schema = r"""(.*?)"""', src, re.S)}


def run(ctx):
    ctx.build_repo(need_hook=True)
    ok, failing, log = ctx.coq_props("C13")
    ctx.coverage["trusted_base"] = TRUSTED
    ctx.coverage["rule"] = ("random valid packages (records, enums/flags, aliases, generics, unions, optionals, vectors, arrays, maps) printed "
                            "in 5 spellings: as generated (short syntax), fully expanded YAML (!vector/!array/!map/!generic/[null,T]/!stream "
                            "flow forms), primitive aliases swapped (int<->int32 ...), definitions shuffled with comments, and split over 3 "
                            "files; each generated with the real yardl for C++/Python/MATLAB/JSON; acceptance must agree, syntax-only "
                            "alternatives must give byte-identical trees, reorder/split identical embedded schemas; non-trivial = package "
                            "has a protocol; distinct by (package, spelling)")
    if not ok:
        ctx.report("proof:" + str(failing), "theorem/dependency no longer checks: %s" % failing,
                   {"broken": failing, "log": log[-3000:]}, no_input=True)
    quick = ctx.tier == "quick"
    rng = ctx.rng
    type_structures(ctx, 150 if quick else 1500)
    every_alias(ctx)
    expression_spellings(ctx)
    inline_union_orders(ctx)
    length_literal_spellings(ctx)
    imported_generic_orders(ctx)
    for k in range(4 if quick else 24):
        ns = "Sp" + "abcdefghijklmnopqrstuvwxyz"[k % 26] + ("x" * (k // 26))
        pkg = ymodel.Gen(rng, namespace=ns).build()
        module = ns.lower()
        res = {}
        for style in ("original", "expanded", "aliases", "comments", "reorder", "split"):
            d = os.path.join(ctx.scratch, "p%d" % k, style)
            os.makedirs(d + "/model")
            open(d + "/model/_package.yml", "w").write("namespace: %s\n%s" % (ns, CFG))
            files = {"model.yml": pkg.yaml()} if style == "original" else ymodel.respell(pkg, style, rng)
            for fn, text in files.items():
                open(os.path.join(d, "model", fn), "w").write(text)
            rc, o, e = sh([ctx.yardl, "generate"], cwd=d + "/model", timeout=120)
            res[style] = (rc, (o + e)[-600:], tree(d + "/out") if rc == 0 else {}, schemas(d + "/out", module) if rc == 0 else {}, files)
            ctx.count("spelling", style)
            ctx.count("accepted:" + style, str(rc == 0))
        if res["original"][0] != 0:
            raise RuntimeError("yardl rejected a generated package: %s\n%s" % (res["original"][1], pkg.yaml()))
        base = res["original"]
        for style in ("expanded", "aliases", "comments", "reorder", "split"):
            rc, out, tr, sc, files = res[style]
            ctx.case((k, style, tuple(sorted(files.items()))), sample={"package": k, "spelling": style, "accepted": rc == 0,
                                                                      "files": len(tr), "identical_tree": tr == base[2],
                                                                      "identical_schemas": sc == base[3]})
            rep = {"spelling": style, "original": pkg.yaml(), "respelled": files, "namespace": ns}
            if rc != 0:
                ctx.report("rejected-spelling:" + style, "yardl accepts a package in short syntax but rejects the same package spelled "
                           "'%s': %s" % (style, out[-300:]), dict(rep, output=out))
                continue
            if style in ("expanded", "aliases", "comments") and tr != base[2]:
                diff = sorted(f for f in set(tr) | set(base[2]) if tr.get(f) != base[2].get(f))
                ctx.report("different-code:" + style, "the '%s' spelling of a package generates different code (%d files differ: %s)"
                           % (style, len(diff), diff[:4]), dict(rep, files_differ=diff[:20]))
            if sc != base[3]:
                bad = [p for p in base[3] if sc.get(p) != base[3][p]]
                ctx.report("different-schema:" + style, "the '%s' spelling of a package changes the embedded schema of protocol(s) %s"
                           % (style, bad[:3]), dict(rep, protocols=bad, schema_original=base[3].get(bad[0]) if bad else None,
                                                    schema_respelled=sc.get(bad[0]) if bad else None))


EXPR_SPELLINGS = [
    ("a - 1", "a-1", "( a )  -  1"), ("a * b + 1", "a*b+1", "(a * b) + 1"), ("0.5 * f - 1.5", "0.5*f-1.5", "(0.5 * f) - 1.5"),
    ("size(v) - 1", "size(v)-1", "size( v ) - 1"), ("v[a - 1]", "v[a-1]", "v[ a - 1 ]"), ("arr[0, 1] * 2", "arr[0,1]*2", "arr[ 0 , 1 ] * 2"),
    ("size(arr, 'x')", "size(arr,'x')", "size( arr , 'x' )"), ("(a as float64) / 2.0", "(a as float64)/2.0", "( a as float64 ) / 2.0"),
    ("-a", "-a", "-(a)"), ("a - b", "a-b", "(a) - (b)"), ("a - -1", "a- -1", "a - (-1)"), ("(a + b) * (a - b)", "(a+b)*(a-b)", "((a + b)) * ((a - b))"),
    ("a + 2 - 1", "a+2-1", "(a + 2) - 1"), ("f / 2.5 + 1e3", "f/2.5+1e3", "(f / 2.5) + 1e3"), ("a * -2", "a*-2", "a * (-2)"),
    ("size(arr, 0) + size(arr, 1)", "size(arr,0)+size(arr,1)", "size( arr, 0 ) + size( arr, 1 )"),
]


def expression_spellings(ctx):
    """computed-field expressions written with blanks around every operator, with none, and with redundant parentheses and blanks:
    one model, so one verdict and one generated tree"""
    res = {}
    for si, style in enumerate(("spaced", "compact", "redundant")):
        lines = ["R: !record", "  fields:", "    a: int32", "    b: int32", "    f: float64", "    v: int32*", "    arr: float32[x, y]",
                 "  computedFields:"]
        for i, sp in enumerate(EXPR_SPELLINGS):
            lines.append("    c%s: \"%s\"" % ("abcdefghijklmnopqrstuvwxyz"[i], sp[si]))
        lines += ["P: !protocol", "  sequence:", "    r: R"]
        d = os.path.join(ctx.scratch, "exprsp", style)
        os.makedirs(d + "/model")
        open(d + "/model/_package.yml", "w").write("namespace: Ex\n%s" % CFG)
        open(d + "/model/model.yml", "w").write("\n".join(lines) + "\n")
        rc, o, e = sh([ctx.yardl, "generate"], cwd=d + "/model", timeout=120)
        res[style] = (rc, (o + e)[-600:], tree(d + "/out") if rc == 0 else {}, "\n".join(lines) + "\n")
    base = res["spaced"]
    if base[0] != 0:
        raise RuntimeError("yardl rejected the expression-spelling package: " + base[1])
    for style in ("compact", "redundant"):
        rc, out, tr, text = res[style]
        ctx.case(("expr-spelling", style), sample={"crafted": "computed-field expressions, %s spelling" % style, "accepted": rc == 0,
                                                   "identical_tree": tr == base[2]})
        rep = {"spaced_spelling": base[3], "respelled": text, "spelling": style}
        if rc != 0:
            ctx.report("rejected-spelling:expression-" + style, "yardl accepts computed-field expressions written with blanks around the "
                       "operators but rejects the same expressions in the %s spelling: %s" % (style, out[-300:]), dict(rep, output=out))
        elif tr != base[2]:
            diff = sorted(f for f in set(tr) | set(base[2]) if tr.get(f) != base[2].get(f))
            ctx.report("different-code:expression-" + style, "the %s spelling of computed-field expressions generates different code "
                       "(%d files differ: %s)" % (style, len(diff), diff[:4]), dict(rep, files_differ=diff[:20]))


def inline_union_orders(ctx):
    """the same inline `!union {tag: type}` used as the item type of a vector / stream / map and as a plain field, in definitions
    that do not depend on each other: the order of the definitions (and their distribution over files) is not part of the model"""
    u = "!union {count: int32, ratio: float32}"
    a = "Series: !record\n  fields:\n    points: !vector {items: %s}\n    byName: !map {keys: string, values: %s}\n" % (u, u)
    b = "Single: !record\n  fields:\n    point: %s\n    n: int32\n" % u
    p = "Pq: !protocol\n  sequence:\n    s: Series\n    t: Single\n    u: !stream {items: %s}\n" % u
    variants = {"container-first": {"model.yml": a + "\n" + b + "\n" + p}, "scalar-first": {"model.yml": b + "\n" + a + "\n" + p},
                "protocol-first": {"model.yml": p + "\n" + a + "\n" + b},
                "split": {"a_series.yml": a, "b_single.yml": b, "c_proto.yml": p}, "split-reversed": {"z_series.yml": a, "b_single.yml": b, "a_proto.yml": p}}
    res = {}
    for name, files in variants.items():
        d = os.path.join(ctx.scratch, "unionorders", name)
        os.makedirs(d + "/model")
        open(d + "/model/_package.yml", "w").write("namespace: Uo\n%s" % CFG)
        for fn, text in files.items():
            open(os.path.join(d, "model", fn), "w").write(text)
        rc, o, e = sh([ctx.yardl, "generate"], cwd=d + "/model", timeout=120)
        res[name] = (rc, (o + e)[-600:], schemas(d + "/out", "uo") if rc == 0 else {})
    base = res["scalar-first"]
    for name, (rc, out, sc) in res.items():
        ctx.case(("inline-union-order", name), sample={"crafted": "one inline !union in a container and as a scalar", "order": name, "accepted": rc == 0,
                                                       "identical_schemas": sc == base[2]})
        rep = {"order": name, "files": variants[name], "reference_order": variants["scalar-first"]}
        if (rc == 0) != (base[0] == 0):
            ctx.report("rejected-spelling:definition-order", "a model that uses one inline !union both inside a container and as a plain field is %s in "
                       "the order '%s' and %s in the order 'scalar-first': %s" % ("accepted" if rc == 0 else "rejected", name,
                                                                                  "accepted" if base[0] == 0 else "rejected", (out if rc else base[1])[-300:]),
                       dict(rep, output=out, reference_output=base[1]))
        elif rc == 0 and sc != base[2]:
            ctx.report("different-schema:definition-order", "the order '%s' of the definitions changes the embedded schema" % name, rep)


def length_literal_spellings(ctx):
    """the length of a fixed vector written in the short syntax (`T*N`) and in the expanded one (`!vector {items, length}`) with
    the same literal - decimal, leading zero, hexadecimal, octal, binary: one verdict, one generated tree"""
    for lit in ("3", "010", "0x10", "0o7", "0b101", "00"):
        res = {}
        for style, text in (("short", "V: !record\n  fields:\n    v: float32*%s\n    w: 'int8*%s'\n" % (lit, lit)),
                            ("expanded", "V: !record\n  fields:\n    v: !vector {items: float32, length: %s}\n    w: !vector\n      items: int8\n      length: %s\n" % (lit, lit))):
            d = os.path.join(ctx.scratch, "lenlit", lit, style)
            os.makedirs(d + "/model")
            open(d + "/model/_package.yml", "w").write("namespace: Ll\n%s" % CFG)
            open(d + "/model/model.yml", "w").write(text + "\nP: !protocol\n  sequence:\n    v: V\n")
            rc, o, e = sh([ctx.yardl, "generate"], cwd=d + "/model", timeout=120)
            res[style] = (rc, (o + e)[-400:], tree(d + "/out") if rc == 0 else {}, text)
        a, b = res["short"], res["expanded"]
        ctx.case(("length-literal", lit), sample={"crafted": "vector length literal %s" % lit, "accepted": [a[0] == 0, b[0] == 0], "identical_tree": a[2] == b[2]})
        rep = {"literal": lit, "short_spelling": a[3], "expanded_spelling": b[3], "short_output": a[1], "expanded_output": b[1]}
        if (a[0] == 0) != (b[0] == 0):
            ctx.report("rejected-spelling:length-literal", "the vector length `%s` is %s in the short syntax and %s in the expanded syntax"
                       % (lit, "accepted" if a[0] == 0 else "rejected", "accepted" if b[0] == 0 else "rejected"), rep)
        elif a[0] == 0 and a[2] != b[2]:
            diff = sorted(f for f in set(a[2]) | set(b[2]) if a[2].get(f) != b[2].get(f))
            ctx.report("different-code:length-literal", "the vector length `%s` means different lengths in the short and in the expanded syntax "
                       "(%d generated files differ: %s)" % (lit, len(diff), diff[:4]), dict(rep, files_differ=diff[:20]))


def every_alias(ctx):
    """one package that uses EVERY documented primitive alias (scalar field, vector item, map key/value, enum base, union case,
    stream step), spelled with the aliases and with the names the documentation says they stand for: same verdict, same code"""
    pairs = sorted(ymodel.PRIM_ALIASES.items())
    res = {}
    for style in ("alias", "canonical"):
        def nm(a):
            return a if style == "alias" else ymodel.PRIM_ALIASES[a]
        lines = ["R: !record", "  fields:"]
        for a, _ in pairs:
            lines += ["    s%s: %s" % (a.capitalize(), nm(a)), "    v%s: %s*" % (a.capitalize(), nm(a)), "    o%s: %s?" % (a.capitalize(), nm(a))]
        for a, _ in pairs:
            if a in ("byte", "int", "uint", "long", "ulong"):
                lines += ["E%s: !enum" % a.capitalize(), "  base: %s" % nm(a), "  values:", "    - x", "    - y"]
                lines += ["M%s: string->%s" % (a.capitalize(), nm(a))]
        lines += ["P: !protocol", "  sequence:", "    r: R"]
        for a, _ in pairs:
            lines += ["    u%s: [%s, string]" % (a.capitalize(), nm(a)), "    t%s: !stream" % a.capitalize(), "      items: %s" % nm(a)]
        d = os.path.join(ctx.scratch, "everyalias", style)
        os.makedirs(d + "/model")
        open(d + "/model/_package.yml", "w").write("namespace: Ea\n%s" % CFG)
        open(d + "/model/model.yml", "w").write("\n".join(lines) + "\n")
        rc, o, e = sh([ctx.yardl, "generate"], cwd=d + "/model", timeout=120)
        res[style] = (rc, (o + e)[-600:], tree(d + "/out") if rc == 0 else {}, "\n".join(lines) + "\n")
    a, c = res["alias"], res["canonical"]
    ctx.case(("every-alias",), sample={"crafted": "every documented alias in every position", "accepted": [a[0] == 0, c[0] == 0],
                                       "identical_tree": a[2] == c[2]})
    rep = {"alias_spelling": a[3], "canonical_spelling": c[3]}
    if c[0] != 0:
        raise RuntimeError("yardl rejected the canonical spelling of the every-alias package: " + c[1])
    if a[0] != 0:
        ctx.report("rejected-spelling:every-alias", "yardl accepts a package spelled with canonical primitive names but rejects the "
                   "same package spelled with the documented aliases: %s" % a[1][-300:], dict(rep, output=a[1]))
    elif a[2] != c[2]:
        diff = sorted(f for f in set(a[2]) | set(c[2]) if a[2].get(f) != c[2].get(f))
        ctx.report("different-code:every-alias", "a package spelled with the documented primitive aliases generates different code "
                   "from the same package spelled with the names they stand for (%d files differ: %s)" % (len(diff), diff[:4]),
                   dict(rep, files_differ=diff[:20]))


def type_structures(ctx, n):
    """the structure the YAML front end builds for random types in the short and in the expanded spelling (verif hook
    `types`), against Model.TypeSyntax.conv_short / conv_expanded evaluated in Coq"""
    import typesyntax as ts
    from vlib import Ctx
    trees = [ts.gen(ctx.rng, ctx.rng.choice([1, 2, 3, 4])) for _ in range(n)]
    lines = []
    for t in trees:
        lines.append(json.dumps(ts.short(t)))
        lines.append(ts.expanded(t))
    out = [json.loads(l) for l in ctx.hook_call(["types"], input="\n".join(lines) + "\n").splitlines() if l.strip()]
    cases, meta = [], []
    for i, t in enumerate(trees):
        a, b = out[2 * i], out[2 * i + 1]
        rep = {"short": ts.short(t), "expanded": ts.expanded(t), "structure_short": a, "structure_expanded": b}
        if "error" in a or "error" in b:
            ctx.report("spelling-rejected", "the front end rejects a spelling of a type: short %r -> %s; expanded %r -> %s"
                       % (ts.short(t), a.get("error", "ok"), ts.expanded(t), b.get("error", "ok")), rep)
            continue
        cases.append("(%s, %s, %s)" % (ts.coq_sh(t), ts.coq_gty(a["type"]), ts.coq_gty(b["type"])))
        meta.append(rep)
    shards = [list(range(i, min(i + 100, len(cases)))) for i in range(0, len(cases), 100)]
    st = []
    for idx in shards:
        body = ("From Coq Require Import List NArith Bool.\nImport ListNotations.\nOpen Scope N_scope.\n"
                "From YV Require Import Base.Wire Model.Binary Model.Json Model.TypeSyntax.\n"
                "Definition cases : list tcase := [\n " + ";\n ".join(cases[i] for i in idx) + "\n].\n"
                "Definition ST := Eval vm_compute in map tcase_status cases.\nPrint ST.\n")
        st += Ctx.parse_nat_list(ctx.coq_eval("ts_%d" % idx[0], body, timeout=900), "ST")
    for rep, s_ in zip(meta, st):
        ctx.case(("type-structure", rep["short"]), sample={"short": rep["short"], "expanded": rep["expanded"],
                                                            "same_structure": rep["structure_short"] == rep["structure_expanded"]})
        ctx.count("type_structure", "same" if rep["structure_short"] == rep["structure_expanded"] else "different")
        if s_ == 1:
            ctx.report("short-syntax-structure", "the structure built for the short spelling %r is not Model.TypeSyntax.conv_short (correspondence broken)" % rep["short"], rep)
        elif s_ == 2:
            ctx.report("expanded-syntax-structure", "the structure built for the expanded spelling %r is not Model.TypeSyntax.conv_expanded" % rep["expanded"], rep)
        if rep["structure_short"] != rep["structure_expanded"]:
            ctx.report("spellings-differ-in-structure", "the front end builds different types for %r and its expanded spelling %r" % (rep["short"], rep["expanded"]), rep)


def imported_generic_orders(ctx):
    """a local type used only as a type argument of a generic defined in an IMPORTED package, declared before / after its
    user or in another file: acceptance, schemas and importability of the generated Python must not depend on the order"""
    from vlib import PY_VT
    lib = "Pair<A, B>: !record\n  fields:\n    a: A\n    b: B\n\nBox<T>: T?\n"
    holder = "Holder: !record\n  fields:\n    p: Lib.Pair<Wrap<int>, Sample>\n    q: Lib.Box<Sample>\n"
    wrap = "Wrap<T>: !record\n  fields:\n    v: T*\n"
    sample = "Sample: !record\n  fields:\n    x: float\n"
    proto = "Pq: !protocol\n  sequence:\n    h: Holder\n    s: !stream\n      items: Lib.Pair<Sample, int>\n"
    orders = {"defs-first": {"m.yml": "\n".join([wrap, sample, holder, proto])},
              "use-first": {"m.yml": "\n".join([proto, holder, sample, wrap])},
              "split": {"a.yml": holder, "b.yml": proto + "\n" + wrap, "c.yml": sample}}
    res = {}
    for name, files in orders.items():
        d = os.path.join(ctx.scratch, "impgen", name)
        os.makedirs(d + "/lib")
        os.makedirs(d + "/main")
        open(d + "/lib/_package.yml", "w").write("namespace: Lib\n")
        open(d + "/lib/l.yml", "w").write(lib)
        open(d + "/main/_package.yml", "w").write("namespace: App\nimports:\n  - ../lib\npython:\n  outputDir: ../out/python\n")
        for fn, text in files.items():
            open(os.path.join(d, "main", fn), "w").write(text)
        rc, o, e = sh([ctx.yardl, "generate"], cwd=d + "/main", timeout=120)
        imp = None
        if rc == 0:
            irc, io, ie = sh([PY_VT, "-c", "import sys; sys.path.insert(0, %r); import app" % (d + "/out/python")], timeout=120)
            imp = (irc, ie[-300:])
        res[name] = (rc, (o + e)[-400:], schemas(d + "/out", "app") if rc == 0 else {}, imp)
        ctx.case(("impgen", name), sample={"case": "imported generic with local type arguments", "order": name, "accepted": rc == 0,
                                           "python_imports": imp[0] == 0 if imp else None})
    base = res["defs-first"]
    for name, (rc, out, sc, imp) in res.items():
        if (rc == 0) != (base[0] == 0):
            ctx.report("order-dependent-acceptance", "a package using an imported generic with local type arguments is %s in order '%s' "
                       "but %s in order 'defs-first': %s" % ("accepted" if rc == 0 else "rejected", name,
                                                             "accepted" if base[0] == 0 else "rejected", out[-250:]),
                       {"order": name, "files": orders[name], "output": out})
        elif rc == 0 and sc != base[2]:
            ctx.report("order-dependent-schema", "definition order '%s' changes an embedded schema" % name, {"order": name, "files": orders[name]})
        elif rc == 0 and imp and imp[0] != 0:
            ctx.report("generated-python-does-not-import", "generated Python for order '%s' fails at import: %s" % (name, imp[1][-200:]),
                       {"order": name, "files": orders[name], "error": imp[1]})


def replay(ctx, path):
    print(json.dumps(json.load(open(path)), indent=1)[:4000])
