"""C03 - streams are portable across target languages and formats."""
import json

import codec
import ymodel

LEVEL = "proof"
TRUSTED = [
    "Coq 8.16.1 kernel + vm_compute; theorems in coq/Props/C03.v (closed under the global context)",
    "Model/Binary.v (enc = C++ writer, enc_py = Python writer, dec = both readers) hand-written, tied by differential runs",
    "the NDJSON legs (binary->NDJSON->binary across languages) are checked end to end against the binary model: the JSON mapping itself "
    "is not modelled in Coq here (see C02); finite floats only; C++ date/time TEXT goes through the harness's date shim",
    "MATLAB cannot be executed (text only, see C14); HDF5 cannot be built; harness, shims, g++, CPython/numpy",
]
def crafted_package():
    """unions whose tagged/untagged decision needs ALL pairs of cases to be compared, nullable unions, records with
    optional fields, maps with string and non-string keys"""
    from ymodel import T, prim, Package
    pkg = Package("Xun")
    d = pkg.defs
    d.append(("Rk", "Rk: !record\n  fields:\n    a: int32\n    o: string?\n    n: [null, int32, float32]"))
    rk = T("rec", "Rk", name="Rk", fields=[("a", prim("int32")), ("o", T("opt", "string?", e=prim("string"))),
                                           ("n", T("union", "[null, int32, float32]", has_null=True,
                                                   cases=[prim("int32"), prim("float32")], tags=[]))])
    d.append(("Sm", "Sm: string->int32"))
    sm = T("map", "Sm", k=prim("string"), e=prim("int32"))
    d.append(("Im", "Im: int32->string"))
    im = T("map", "Im", k=prim("int32"), e=prim("string"))
    d.append(("Vi", "Vi: int64*"))
    vi = T("vec", "Vi", e=prim("int64"))
    d.append(("En", "En: !enum\n  values:\n    - p\n    - q"))
    en = T("enum", "En", base="int32", name="En", symbols=[("p", 0), ("q", 1)], is_flags=False)
    # keys and cases reached through aliases: the JSON kind must be that of the underlying type
    d.append(("Ks", "Ks: string"))
    d.append(("Ki", "Ki: uint16"))
    d.append(("Am", "Am: Ks->int32"))
    am = T("map", "Am", k=prim("string"), e=prim("int32"))
    d.append(("Aim", "Aim: Ki->Ks"))
    aim = T("map", "Aim", k=prim("uint16"), e=prim("string"))
    d.append(("Fl", "Fl: !flags\n  base: uint16\n  values:\n    fa: 1\n    fb: 2\n    fab: 3\n    fc: 8"))
    fl = T("enum", "Fl", base="uint16", name="Fl", symbols=[("fa", 1), ("fb", 2), ("fab", 3), ("fc", 8)], is_flags=True)
    # members that cover several bits, declared BEFORE their parts, and two members that overlap partially
    d.append(("Fm", "Fm: !flags\n  base: uint8\n  values:\n    rw: 3\n    r: 1\n    w: 2\n    low: 12\n    mid: 24"))
    fm = T("enum", "Fm", base="uint8", name="Fm", symbols=[("rw", 3), ("r", 1), ("w", 2), ("low", 12), ("mid", 24)], is_flags=True)
    # nullable field types reached through aliases (the field must still be omitted / read as null when absent)
    d.append(("Label", "Label: string?"))
    d.append(("MaybeNum", "MaybeNum: [null, int64, float64]"))      # not the inline union of Rk.n: see the C08 finding
    d.append(("Ral", "Ral: !record\n  fields:\n    id: int32\n    label: Label\n    num: MaybeNum\n    plain: string?"))
    ral = T("rec", "Ral", name="Ral", fields=[("id", prim("int32")), ("label", T("opt", "Label", e=prim("string"))),
                                             ("num", T("union", "MaybeNum", has_null=True, cases=[prim("int64"), prim("float64")], tags=[])),
                                             ("plain", T("opt", "string?", e=prim("string")))])
    d.append(("Rka", "Rka: Rk"))
    rka = T("rec", "Rka", name="Rk", fields=rk.fields)

    def U(cases, has_null=False):
        return T("union", "[" + ", ".join((["null"] if has_null else []) + [c.spell for c in cases]) + "]", has_null=has_null,
                 cases=cases, tags=[])
    steps = [("ua", U([prim("int32"), prim("string"), prim("float32")]), True),      # number, string, number
             ("ub", U([rk, prim("float64"), sm]), True),                             # object, number, object
             ("uc", U([prim("bool"), vi, en, im]), True),                            # bool, array, string|number, array
             ("ud", U([prim("string"), prim("datetime"), prim("int32")], has_null=True), True),
             ("ue", U([sm, im, vi]), False),
             ("uf", rk, True),
             ("ug", U([rka, am]), True),                                             # object, object (key type is an alias of string)
             ("uh", U([vi, aim, prim("string")]), True),                             # array, array (key type is an alias of uint16), string
             ("ui", U([am, aim]), True),
             ("uj", U([fl, prim("int32"), prim("string")]), True),                   # flags are arrays of symbols OR a number
             ("uk", U([fl, prim("string")], has_null=True), True),
             ("ul", ral, True),
             ("um", fm, True),
             ("un", U([fm, prim("string")]), True)]                                             # object, array
    pkg.protocols.append(("Pu", steps))
    return pkg


CHAINS = [
    ("py(bin->bin) -> c++(bin->bin)", [("py", "binary", "binary"), ("cpp", "binary", "binary")]),
    ("c++(bin->bin) -> py(bin->bin)", [("cpp", "binary", "binary"), ("py", "binary", "binary")]),
    ("c++(bin->ndjson) -> py(ndjson->bin)", [("cpp", "binary", "ndjson"), ("py", "ndjson", "binary")]),
    ("py(bin->ndjson) -> c++(ndjson->bin)", [("py", "binary", "ndjson"), ("cpp", "ndjson", "binary")]),
    ("py(bin->ndjson) -> py(ndjson->bin)", [("py", "binary", "ndjson"), ("py", "ndjson", "binary")]),
    ("c++(bin->ndjson) -> c++(ndjson->bin)", [("cpp", "binary", "ndjson"), ("cpp", "ndjson", "binary")]),
    ("py(bin->ndjson) -> c++(ndjson->ndjson) -> py(ndjson->bin)", [("py", "binary", "ndjson"), ("cpp", "ndjson", "ndjson"), ("py", "ndjson", "binary")]),
    ("py(bin->bin, batches incl. empty ones) -> c++(bin->bin)", [("py*", "binary", "binary"), ("cpp", "binary", "binary")]),
]


def hop(gp, pname, lang, fin, fout, data):
    """data: bytes for binary, str for ndjson. returns (ok, out, err)"""
    if lang in ("py", "py*"):
        r = gp.py_call({"proto": pname, "fin": fin, "fout": fout, "data": data.hex() if fin == "binary" else data,
                        "mode": "copy" if lang == "py" else "chunks_empty", "k": 2})
        out = bytes.fromhex(r["out"]) if (fout == "binary") else r["out"]
        return r["ok"], out, r.get("err", "")
    c = gp.cpp_call(pname, fin, fout, data if fin == "binary" else data.encode("utf-8"), batch=2)
    out = c["out"] if fout == "binary" else c["out"].decode("utf-8", errors="replace")
    return c["ok"], out, c["err"]


def run(ctx):
    ctx.build_repo(need_hook=True)
    ok, failing, log = ctx.coq_props("C03")
    ctx.coverage["trusted_base"] = TRUSTED
    ctx.coverage["rule"] = ("random valid packages generated by the real yardl for C++ and Python (binary + NDJSON); random step values "
                            "(finite floats) reference-encoded; each stream is pushed through 7 chains of generated translators that cross "
                            "languages and formats; the final binary stream must decode (Coq model) to the values written; non-trivial = "
                            "non-empty body; distinct by (protocol, body, chain)")
    if not ok:
        ctx.report("proof:" + str(failing), "theorem/dependency no longer checks: %s" % failing,
                   {"broken": failing, "log": log[-3000:]}, no_input=True)
    quick = ctx.tier == "quick"
    pkgs = codec.build_packages(ctx, 2 if quick else 8, "x", cpp=True, ndjson=True)
    import genrun
    cp = genrun.GenPackage(ctx, crafted_package(), "xun", ndjson=True, cpp=True)
    if not cp.generate():
        raise RuntimeError("yardl rejected the crafted union package: " + cp.gen_out[-800:])
    cp.schemas_ = cp.schemas()
    if not cp.cpp_build():
        cp.cpp_failed = True
    cp.py_start()
    pkgs.append(cp)
    try:
        cases, meta = [], []
        for gp in pkgs:
            if getattr(gp, "cpp_failed", False):
                ctx.report("cpp-compile:" + gp.name, "generated C++ (binary+NDJSON) does not compile for an accepted package",
                           {"model": gp.pkg.yaml(), "error": gp.cpp_err[-2000:]})
                continue
            for pname, steps in gp.pkg.protocols:
                for _ in range(4 if quick else 10):
                    ws = ymodel.gen_writes(ctx.rng, steps, finite=True)
                    body = ymodel.enc_steps(steps, ws)
                    stream = ymodel.enc_header(gp.schemas_[pname]) + body
                    outs, names = [], []
                    for cname, hops in CHAINS:
                        data, good = stream, True
                        for lang, fin, fout in hops:
                            okh, data, err = hop(gp, pname, lang, fin, fout, data)
                            if not okh:
                                what = (err.strip().split("\n")[-1])[:160]
                                ctx.report("chain-error:%s:%s->%s:%s" % (lang, fin, fout, what.split(":")[0][:30]),
                                           "chain `%s` failed at %s(%s->%s): %s (protocol %s)" % (cname, lang, fin, fout, what, pname),
                                           {"chain": cname, "hop": [lang, fin, fout], "model": gp.pkg.yaml(), "namespace": gp.pkg.namespace,
                                            "protocol": pname, "stream_hex": stream.hex(), "error": err[-600:]})
                                good = False
                                break
                        ctx.count("chain", cname + (" ok" if good else " FAILED"))
                        if good:
                            outs.append(data)
                            names.append(cname)
                    cases.append((gp.schemas_[pname], steps, ws, body, outs))
                    meta.append((gp, pname, names, stream))
        st = codec.eval_pcases(ctx, cases, "c03")
        for (schema, steps, ws, body, outs), (gp, pname, names, stream), s in zip(cases, meta, st):
            ctx.case(("c03", pname, body), nontrivial=len(body) > 0,
                     sample={"protocol": pname, "steps": [(n, t.spell, s_) for n, t, s_ in steps], "chains_completed": names})
            if s in (1, 2):
                raise RuntimeError("harness reference/generator inconsistent with the Coq model on %s" % pname)
            if s >= 3:
                ctx.report("values-changed:" + names[s - 3], "values are not preserved by chain `%s` (protocol %s)" % (names[s - 3], pname),
                           {"chain": names[s - 3], "model": gp.pkg.yaml(), "namespace": gp.pkg.namespace, "protocol": pname,
                            "stream_hex": stream.hex(), "final_hex": outs[s - 3].hex()})
    finally:
        codec.stop_packages(pkgs)


def replay(ctx, path):
    print(json.dumps(json.load(open(path)), indent=1)[:4000])
