"""C11 - generation is all-or-nothing with respect to validation."""
import hashlib
import json
import os
import re
import shutil

from vlib import REPO, sh

LEVEL = "proof"
TRUSTED = [
    "Coq 8.16.1 kernel + vm_compute; theorems in coq/Props/C11.v (closed under the global context)",
    "coq/Gen/GenerateImpl.v: the ordered phase list of generateImpl, re-extracted from generatecommand.go on every run by "
    "harness/lib/gentables.py (a textual translator: call order, error checks, classification of calls by name)",
    "what happens INSIDE the validation phase (validatePackage, imports, previous versions, evolution) and inside the writers is not "
    "modelled: it is exercised on the real CLI with recursive hash+mtime snapshots of every output directory; write-site inventory by grep",
]

BASE = """Hdr: !record
  fields:
    a: int
    b: string

P: !protocol
  sequence:
    h: Hdr
    s: !stream
      items: float
"""
BAD_MODELS = {
    "duplicate-field": "R: !record\n  fields:\n    x: int\n    x: int\n",
    "unknown-type": "R: !record\n  fields:\n    x: Nope\n",
    "bad-case-type": "lower: !record\n  fields:\n    x: int\n",
    "cycle": "A: !record\n  fields:\n    b: B\nB: !record\n  fields:\n    a: A\n",
    "dup-union-case": "R: !record\n  fields:\n    u: [int, int]\n",
    "map-key": "K: !record\n  fields:\n    x: int\nR: !record\n  fields:\n    m: K->int\n",
    "bad-enum-value": "E: !enum\n  base: uint8\n  values:\n    a: 300\n",
    "yaml-syntax": "R: !record\n  fields:\n    x: [int\n",
    "computed-field-type": "R: !record\n  fields:\n    s: string\n  computedFields:\n    c: s + 1\n",
    "generic-arity": "G<T>: !record\n  fields:\n    t: T\nR: !record\n  fields:\n    g: G<int, int>\n",
}
CONFIGS = {
    "all": "cpp:\n  sourcesOutputDir: ../out/cpp\npython:\n  outputDir: ../out/python\njson:\n  outputDir: ../out/json\nmatlab:\n  outputDir: ../out/matlab\n",
    "json": "json:\n  outputDir: ../out/json\n",
    "py+json": "python:\n  outputDir: ../out/python\njson:\n  outputDir: ../out/json\n",
    "cpp-noextras": "cpp:\n  sourcesOutputDir: ../out/cpp\n  generateHDF5: false\n  generateNDJson: false\n  generateCMakeLists: false\n",
}


def snapshot(root):
    out = {}
    for d, _, files in os.walk(root):
        for f in files:
            p = os.path.join(d, f)
            st = os.lstat(p)
            h = hashlib.sha1(open(p, "rb").read()).hexdigest() if not os.path.islink(p) else os.readlink(p)
            out[os.path.relpath(p, root)] = (h, st.st_mtime_ns)
    return out


def write_pkg(d, ns, model, config="", imports=(), versions=()):
    os.makedirs(d, exist_ok=True)
    y = "namespace: %s\n" % ns
    if imports:
        y += "imports:\n" + "".join("  - %s\n" % i for i in imports)
    if versions:
        y += "versions:\n" + "".join("  %s: %s\n" % lv for lv in versions)
    open(os.path.join(d, "_package.yml"), "w").write(y + config)
    open(os.path.join(d, "model.yml"), "w").write(model)


def scenarios(rng, quick):
    """yield (name, builder(dir) -> None) ; every scenario is an INVALID package rooted at <dir>/main"""
    kinds = list(BAD_MODELS)
    for k in kinds:
        yield "main:" + k, (lambda d, cfg, k=k: write_pkg(d + "/main", "Main", BASE + BAD_MODELS[k], cfg))
    for k in (["unknown-type", "duplicate-field", "computed-field-type"] if quick else kinds):
        yield "main-2nd-document:" + k, (lambda d, cfg, k=k: write_pkg(d + "/main", "Main", BASE + "---\n" + BAD_MODELS[k], cfg))
        def bdoc(d, cfg, k=k):
            write_pkg(d + "/lib", "Lib", "T: int\n---\n# second document\n" + BAD_MODELS[k])
            write_pkg(d + "/main", "Main", BASE, cfg, imports=["../lib"])
        yield "import-2nd-document:" + k, bdoc
    for k in (["unknown-type", "yaml-syntax", "duplicate-field", "cycle", "computed-field-type", "generic-arity"] if quick else kinds):
        def b(d, cfg, k=k):
            write_pkg(d + "/lib", "Lib", "T: int\n" + BAD_MODELS[k])
            write_pkg(d + "/main", "Main", BASE, cfg, imports=["../lib"])
        yield "import:" + k, b
        def b2(d, cfg, k=k):
            write_pkg(d + "/lib", "Lib", "T: int\n" + BAD_MODELS[k])
            write_pkg(d + "/mid", "Mid", "M: Lib.T\n", imports=["../lib"])
            write_pkg(d + "/main", "Main", BASE + "X: Mid.M\n", cfg, imports=["../mid"])
        yield "import2:" + k, b2
    for pos, n in ((0, 1), (0, 2), (1, 3), (2, 3)) if not quick else ((0, 1), (0, 2), (1, 3)):
        for k in (["unknown-type", "yaml-syntax"] if quick else ["unknown-type", "yaml-syntax", "cycle", "dup-union-case"]):
            def b(d, cfg, pos=pos, n=n, k=k):
                vs = []
                for i in range(n):
                    write_pkg(d + "/v%d" % i, "Main", BASE + (BAD_MODELS[k] if i == pos else ""))
                    vs.append(("v%d" % i, "../v%d" % i))
                write_pkg(d + "/main", "Main", BASE, cfg, versions=vs)
            yield "version%d/%d:%s" % (pos, n, k), b
    def ev(d, cfg):
        write_pkg(d + "/v0", "Main", BASE.replace("a: int", "a: Hdr2").replace("P: !protocol", "Hdr2: !record\n  fields:\n    z: int\n\nP: !protocol"))
        write_pkg(d + "/main", "Main", BASE, cfg, versions=[("v0", "../v0")])
    yield "evolution:incompatible-field", ev
    def ev2(d, cfg):
        write_pkg(d + "/v0", "Main", BASE)
        write_pkg(d + "/v1", "Main", BASE.replace("items: float", "items: string"))
        write_pkg(d + "/main", "Main", BASE, cfg, versions=[("v0", "../v0"), ("v1", "../v1")])
    yield "evolution:incompatible-step-2nd-version", ev2
    def ev3(d, cfg):
        # the incompatible version is listed FIRST, later ones are fine
        write_pkg(d + "/v0", "Main", BASE.replace("items: float", "items: float*"))      # scalar <-> vector: documented breaking change
        write_pkg(d + "/v1", "Main", BASE)
        write_pkg(d + "/v2", "Main", BASE)
        write_pkg(d + "/main", "Main", BASE, cfg, versions=[("v0", "../v0"), ("v1", "../v1"), ("v2", "../v2")])
    yield "breaking-evolution:1st-of-3-versions", ev3
    def ev4(d, cfg):
        write_pkg(d + "/v0", "Main", BASE)
        write_pkg(d + "/v1", "Main", BASE.replace("items: float", "items: float*"))
        write_pkg(d + "/v2", "Main", BASE)
        write_pkg(d + "/main", "Main", BASE, cfg, versions=[("v0", "../v0"), ("v1", "../v1"), ("v2", "../v2")])
    yield "breaking-evolution:2nd-of-3-versions", ev4
    def ev5(d, cfg):
        write_pkg(d + "/v0", "Main", BASE)
        write_pkg(d + "/v1", "Main", BASE.replace("items: float", "items: float*"))
        write_pkg(d + "/main", "Main", BASE, cfg, versions=[("v0", "../v0"), ("v1", "../v1")])
    yield "breaking-evolution:last-of-2-versions", ev5
    yield "package:bad-namespace", (lambda d, cfg: write_pkg(d + "/main", "main_ns", BASE, cfg))
    yield "package:unknown-key", (lambda d, cfg: write_pkg(d + "/main", "Main", BASE, cfg + "bogus: 1\n"))
    yield "package:missing-import-dir", (lambda d, cfg: write_pkg(d + "/main", "Main", BASE, cfg, imports=["../nothere"]))
    def dupl(d, cfg):
        write_pkg(d + "/v0", "Main", BASE)
        write_pkg(d + "/main", "Main", BASE, cfg, versions=[("v0", "../v0"), ("v0", "../v0")])
    yield "package:duplicate-version-label", dupl


def write_site_inventory():
    """every file of the tooling that can create/modify/delete files, by textual scan"""
    pat = re.compile(r"\b(os\.(WriteFile|Create|MkdirAll|Mkdir|Remove|RemoveAll|Symlink|Rename|OpenFile)|WriteFileIfNeeded|CopyEmbeddedStaticFiles)\(")
    found = {}
    for d, _, files in os.walk(os.path.join(REPO, "tooling")):
        for f in files:
            if f.endswith(".go") and not f.endswith("_test.go"):
                p = os.path.join(d, f)
                n = len(pat.findall(open(p).read()))
                if n:
                    found[os.path.relpath(p, os.path.join(REPO, "tooling"))] = n
    return found


ALLOWED_WRITE_DIRS = ("internal/cpp/", "internal/python/", "internal/matlab/", "internal/iocommon/", "internal/cmd/generatecommand.go",
                      "internal/cmd/initcommand.go", "pkg/packaging/cache.go")


def rule_catalogue_layer(ctx):
    """Every violation of a language rule in the catalogue of the C09 check (definition-level violations and ill-formed type
    expressions in a record field), as the main package with all four outputs configured and an EMPTY output tree (a populated one
    can hide a partial run: unchanged files are not rewritten).  These packages are invalid by the rules of the language, whatever
    `yardl validate` says: generate must exit 1 and create nothing."""
    import c09
    from concurrent.futures import ThreadPoolExecutor
    jobs = [("def:" + k, c09.BASE + text + c09.USE) for k, text in c09.BAD_DEFS]
    jobs += [("type:" + k, c09.BASE + c09.POSITIONS["record-field"].replace("{T}", t) + c09.USE) for k, t in c09.BAD_TYPES]
    # the same violations in a second / third YAML document of the model file (documents of one file are one namespace)
    jobs += [("doc2:" + k, c09.BASE + c09.USE + "---\n" + text) for k, text in c09.BAD_DEFS[::3]]
    jobs += [("doc3:" + k, c09.BASE + "---\n" + c09.USE + "---\n" + c09.POSITIONS["record-field"].replace("{T}", t)) for k, t in c09.BAD_TYPES[::4]]

    def one(ij):
        i, (name, model) = ij
        d = os.path.join(ctx.scratch, "rc%d" % i)
        os.makedirs(d + "/out")
        write_pkg(d + "/main", "Main", model, CONFIGS["all"])
        rc, o, e = sh([ctx.yardl, "generate"], cwd=d + "/main", timeout=120)
        after = snapshot(d + "/out")
        shutil.rmtree(d, ignore_errors=True)
        return rc, sorted(after), (o + e)[-800:]
    with ThreadPoolExecutor(max_workers=12) as ex:
        res = list(ex.map(one, enumerate(jobs)))
    for (name, model), (rc, created, out) in zip(jobs, res):
        ctx.count("scenario", "rule-catalogue")
        ctx.count("exit", str(rc))
        ctx.case(("rule", name), nontrivial=True, sample={"scenario": "rule-catalogue:" + name, "config": "all", "outputs_populated_before": False,
                                                          "exit": rc, "files_changed": len(created)})
        if rc != 1 or created:
            ctx.report("not-all-or-nothing:rule:" + name.split(":")[1],
                       "`yardl generate` on a package that violates a language rule (%s) exited %d and created %d output files (%s)"
                       % (name, rc, len(created), created[:3]),
                       {"scenario": "rule-catalogue:" + name, "model": model, "config": CONFIGS["all"], "exit": rc, "created": created[:20], "output": out})


def run(ctx):
    ctx.build_repo(need_hook=True)
    ok, failing, log = ctx.coq_props("C11")
    ctx.coverage["trusted_base"] = TRUSTED
    ctx.coverage["rule"] = ("invalid packages: one of 10 rule violations / YAML errors placed in the main package, a direct or transitive "
                            "import, a previous version (any position among 1-3 versions), the evolution check, or the manifest; x 4 output "
                            "configurations x {empty, populated by a previous valid run} output trees; `yardl generate` must exit 1 and the "
                            "recursive (sha1, mtime) snapshot of the output tree must be unchanged; non-trivial = populated outputs or a "
                            "nested error position; distinct by (scenario, configuration, initial state)")
    if not ok:
        ctx.report("proof:" + str(failing), "theorem/dependency no longer checks (the phase order of generateImpl changed?): %s" % failing,
                   {"broken": failing, "log": log[-3000:]}, no_input=True)
    quick = ctx.tier == "quick"
    rng = ctx.rng
    inv = write_site_inventory()
    ctx.coverage["write_site_inventory"] = inv
    for f in inv:
        if not f.startswith(ALLOWED_WRITE_DIRS):
            ctx.report("write-site:" + f, "a file-system write site appeared outside the generator back ends: tooling/%s (it may run "
                       "before validation has completed)" % f, {"file": f, "inventory": inv, "broken": "write-site inventory"}, no_input=True)
    rule_catalogue_layer(ctx)
    n = 0
    for name, build in scenarios(rng, quick):
        for cname, cfg in (list(CONFIGS.items()) if not quick else rng.sample(list(CONFIGS.items()), 2)):
            for populated in (False, True):
                n += 1
                d = os.path.join(ctx.scratch, "s%d" % n)
                os.makedirs(d)
                if populated:
                    write_pkg(d + "/main", "Main", BASE, cfg)
                    rc, o, e = sh([ctx.yardl, "generate"], cwd=d + "/main", timeout=120)
                    if rc != 0:
                        raise RuntimeError("the valid base package does not generate: " + (o + e)[-600:])
                    shutil.rmtree(d + "/main")
                else:
                    os.makedirs(d + "/out")
                build(d, cfg)
                # the oracle for "invalid" is yardl's own validator: C11 is about generate relative to validation
                vrc, vo, ve = sh([ctx.yardl, "validate"], cwd=d + "/main", timeout=120)
                ctx.count("validate_exit", str(vrc))
                surely_invalid = not (name.endswith("map-key") or name.startswith("evolution"))
                if vrc == 0 and not surely_invalid:
                    ctx.count("skipped_validate_accepts", name)
                    shutil.rmtree(d, ignore_errors=True)
                    continue
                before = snapshot(d + "/out")
                rc, o, e = sh([ctx.yardl, "generate"], cwd=d + "/main", timeout=120)
                after = snapshot(d + "/out")
                changed = sorted(k for k in set(before) | set(after) if before.get(k) != after.get(k))
                ctx.count("scenario", name.split(":")[0])
                ctx.count("config", cname)
                ctx.count("exit", str(rc))
                ctx.case((name, cname, populated), nontrivial=populated or not name.startswith("main"),
                         sample={"scenario": name, "config": cname, "outputs_populated_before": populated, "exit": rc,
                                 "files_changed": len(changed)})
                if rc != 1 or changed:
                    where = name.split(":")[0].rstrip("0123456789/")
                    key = "swallowed-import-error" if (rc == 0 and where.startswith("import") and "yaml-syntax" in name) else \
                        "not-all-or-nothing:%s" % where
                    ctx.report(key, "`yardl generate` on an invalid package (%s, config %s, outputs %s) exited %d and changed %d output "
                               "files (%s)" % (name, cname, "populated" if populated else "empty", rc, len(changed), changed[:3]),
                               {"scenario": name, "config": cfg, "populated": populated, "exit": rc, "changed": changed[:20],
                                "output": (o + e)[-800:]})
                shutil.rmtree(d, ignore_errors=True)


def replay(ctx, path):
    print(json.dumps(json.load(open(path)), indent=1)[:3000])
