"""C17 - stream contents do not depend on batching, and items are independent."""
import json

import codec
import re
import edgepkg
import genrun
import ymodel

LEVEL = "proof"
TRUSTED = [
    "Coq 8.16.1 kernel + vm_compute; theorems in coq/Props/C17.v (closed under the global context)",
    "hand-written models Model/Binary.v, Model/Batch.v (ReadBlock / ReadBlocksIntoVector / ReaderBase loop), Model/InPlace.v "
    "(what each C++ reader does with the old contents of its destination), tied to the code by differential runs of generated C++ "
    "(CopyTo with several batch capacities, one reused variable per step) and generated Python (list / iterable / chunked writes)",
    "harness, shims for xtensor/date, g++ 12, CPython 3.11 + numpy",
]
PY_MODES = [("copy", None), ("list", None), ("single", None), ("chunks", 2), ("iter", None)]


def flows_for(gp, pname, stream, batches, cpp=True):
    flows = []
    for mode, k in PY_MODES:
        cmd = {"proto": pname, "fin": "binary", "fout": "binary", "data": stream.hex(), "mode": mode}
        if k:
            cmd["k"] = k
        flows.append(("python write mode %s" % mode, gp.py_call(cmd)))
    # the Python NDJSON reader ends a stream at the first line that belongs to another step: items that are null, empty or
    # otherwise look like "nothing" are items.  (Errors of the NDJSON path itself are the business of C02: only a completed
    # round trip is judged here, by the items it delivers.)
    nd = gp.py_call({"proto": pname, "fin": "binary", "fout": "ndjson", "data": stream.hex(), "mode": "copy"}) if gp.ndjson else {"ok": False}
    if nd["ok"]:       # only the crafted Edge package (exactly representable numbers; nullable, empty and defaulted stream items)
        for mode in ("copy", "single"):
            back = gp.py_call({"proto": pname, "fin": "ndjson", "fout": "binary", "data": nd["out"], "mode": mode})
            if back["ok"]:
                flows.append(("python ndjson reader, write mode %s" % mode, back))
    if cpp:
        for b in batches:
            c = gp.cpp_call(pname, "binary", "binary", stream, batch=b)
            flows.append(("c++ CopyTo capacity=%d" % b, {"ok": c["ok"], "err": c["err"], "out": c["out"].hex()}))
        if gp.ndjson:
            # the NDJSON reader has no batch method of its own: it goes through the fallback Read<Step>Impl(std::vector&) of protocols.cc
            nd = gp.cpp_call(pname, "binary", "ndjson", stream, batch=1)
            if not nd["ok"]:
                flows.append(("c++ binary->ndjson", {"ok": False, "err": nd["err"], "out": ""}))
            else:
                for b in batches[:4]:
                    c = gp.cpp_call(pname, "ndjson", "binary", nd["out"], batch=b)
                    flows.append(("c++ ndjson reader (fallback batch read) CopyTo capacity=%d" % b, {"ok": c["ok"], "err": c["err"], "out": c["out"].hex()}))
    return flows


FALLBACK_BODY = ("size_t i = 0; while (true) { if (i == values.size()) { values.resize(i + 1); } if (!%s(values[i])) { values.resize(i); "
                 "return false; } i++; if (i == values.capacity()) { return true; } }")


def fallback_text_tie(ctx, gp):
    """translator-level tie of Model.Fallback: the fallback batch read that yardl wrote into protocols.cc for every stream step
    is, statement by statement, the loop the model transcribes (theorems C17_cpp_fallback_batch / _any_capacity)"""
    import os
    src = open(os.path.join(gp.dir, "cpp", "generated", "protocols.cc")).read()
    found = 0
    for m in re.finditer(r"// fallback implementation\nbool (\w+)::(Read\w+Impl)\(std::vector<[^\n]*>& values\) \{\n(.*?)\n\}\n", src, re.S):
        found += 1
        body = " ".join(m.group(3).split())
        ctx.count("fallback_text", "as modelled" if body == FALLBACK_BODY % m.group(2) else "different")
        if body != FALLBACK_BODY % m.group(2):
            ctx.report("fallback-text-differs", "the fallback batch read %s::%s in the generated protocols.cc is not the loop Model.Fallback "
                       "transcribes (theorems C17_cpp_fallback_batch / C17_cpp_fallback_any_capacity are no longer about the code)"
                       % (m.group(1), m.group(2)), {"generated": m.group(3), "modelled": FALLBACK_BODY % m.group(2),
                                                    "broken": "correspondence Model.Fallback.fb vs protocols.go (fallback implementation)"}, no_input=True)
    if not found:
        ctx.report("fallback-text-differs", "no fallback batch read was found in the generated protocols.cc",
                   {"broken": "correspondence Model.Fallback.fb vs protocols.go (fallback implementation)"}, no_input=True)


def crafted_items(rng):
    """consecutive items that differ in map keys, optional presence, vector length, union case"""
    S = lambda s: ("str", list(s.encode()))
    I = lambda z: ("int", z)
    maps = [("map", [(S("a"), I(1))]), ("map", [(S("b"), I(2))]), ("map", [(S("a"), I(3)), (S("c"), I(4))]),
            ("map", []), ("map", [(S("c"), I(5))])]
    vmaps = [("seq", [maps[0], maps[1]]), ("seq", [maps[1]]), ("seq", [maps[3], maps[2], maps[0]]), ("seq", [])]
    F = lambda x: ("bits", x)
    recs = [("seq", [I(1), S("long string value"), ("some", F(0x3FF0000000000000))]), ("seq", [I(2), S(""), ("none",)]),
            ("seq", [I(-3), S("x"), ("some", F(0))]), ("seq", [I(0), S("yy"), ("none",)])]
    us = [("case", 1, S("abc")), ("none",), ("case", 0, I(7)), ("case", 1, S("")), ("none",), ("case", 0, I(-1))]
    vs = [("seq", [S("a"), S("bb"), S("ccc")]), ("seq", [S("z")]), ("seq", []), ("seq", [S("q"), S("r")])]
    os_ = [("some", recs[0]), ("none",), ("some", recs[1]), ("some", recs[2]), ("none",)]
    gens = [("seq", [("some", I(5)), I(1)]), ("seq", [("none",), I(2)]), ("seq", [("some", I(7)), I(3)]), ("seq", [("none",), I(4)]),
            ("seq", [("none",), I(5)])]
    return {"IMaps": [maps, vmaps], "IShapes": [recs, us, vs, os_], "IGen": [gens]}


def run(ctx):
    ctx.build_repo(need_hook=True)
    ok, failing, log = ctx.coq_props("C17")
    ctx.coverage["trusted_base"] = TRUSTED
    ctx.coverage["rule"] = ("stream steps of random packages and of the hand-written Edge package (consecutive items differing in map "
                            "keys / optional presence / vector length / union case), reference-encoded in random block partitions, "
                            "re-written by generated Python in 5 write groupings and by generated C++ CopyTo with capacities "
                            "{1,2,3,7,64}; every output must decode (inside Coq) to the items written; non-trivial = a stream step "
                            "with >= 2 items; distinct by (protocol, body bytes)")
    if not ok:
        ctx.report("proof:" + str(failing), "theorem/dependency no longer checks: %s" % failing,
                   {"broken": failing, "log": log[-3000:]}, no_input=True)
    quick = ctx.tier == "quick"
    batches = [1, 2, 3, 7, 64]
    rng = ctx.rng
    cases, meta = [], []
    # ---- Edge package: crafted consecutive items
    pkg, _ = edgepkg.build()
    edge = genrun.GenPackage(ctx, pkg, "edge", ndjson=True, cpp=True)
    if not edge.generate():
        raise RuntimeError("yardl rejected the Edge package: " + edge.gen_out[-1500:])
    edge.schemas_ = edge.schemas()
    edge_cpp = edge.cpp_build()
    if not edge_cpp:
        ctx.report("cpp-compile:edge", "generated C++ does not compile for the Edge package",
                   {"model": pkg.yaml(), "error": edge.cpp_err[-2000:]})
    fallback_text_tie(ctx, edge)
    edge.py_start()
    pkgs = codec.build_packages(ctx, 2 if quick else 8, "g", cpp=True, ndjson=False)
    try:
        crafted = crafted_items(rng)
        for pname, steps in pkg.protocols:
            if pname not in crafted:
                continue
            for rep in range(3 if quick else 10):
                ws = []
                for items in crafted[pname]:
                    its = list(items)
                    if rep:
                        rng.shuffle(its)
                    ws.append(ymodel.partition(rng, its))
                body = ymodel.enc_steps(steps, ws)
                stream = ymodel.enc_header(edge.schemas_[pname]) + body
                cases.append((edge.schemas_[pname], steps, ws, body, None))
                meta.append((edge, pname, stream, edge_cpp))
        for gp in pkgs:
            if getattr(gp, "cpp_failed", False):
                ctx.report("cpp-compile:" + gp.name, "generated C++ does not compile for an accepted package",
                           {"model": gp.pkg.yaml(), "error": gp.cpp_err[-2000:]})
            for pname, steps in gp.pkg.protocols:
                if not any(s[2] for s in steps):
                    continue
                for _ in range(3 if quick else 8):
                    ws = ymodel.gen_writes(rng, steps, max_items=rng.choice([3, 5, 9]))
                    body = ymodel.enc_steps(steps, ws)
                    stream = ymodel.enc_header(gp.schemas_[pname]) + body
                    cases.append((gp.schemas_[pname], steps, ws, body, None))
                    meta.append((gp, pname, stream, not getattr(gp, "cpp_failed", False)))
        final, fmeta = [], []
        for (schema, steps, ws, body, _), (gp, pname, stream, cpp) in zip(cases, meta):
            flows = flows_for(gp, pname, stream, batches, cpp=cpp)
            for s, w in zip(steps, ws):
                if s[2]:
                    ctx.count("stream_items", str(min(9, sum(len(b) for b in w))))
                    ctx.count("stream_blocks", str(min(9, len(w))))
            bad = [(n, f) for n, f in flows if not f["ok"]]
            for nme, f in bad[:1]:
                ctx.report("flow-error:%s" % nme.split()[0], "%s failed on a valid stream: %s" % (nme, f.get("err", "")[:200]),
                           {"flow": nme, "model": gp.pkg.yaml(), "namespace": gp.pkg.namespace, "protocol": pname,
                            "stream_hex": stream.hex(), "error": f.get("err")})
            good = [(n, f) for n, f in flows if f["ok"]]
            final.append((schema, steps, ws, body, [bytes.fromhex(f["out"]) for _, f in good]))
            fmeta.append((gp, pname, stream, [n for n, _ in good]))
        st = codec.eval_pcases(ctx, final, "c17")
        for (schema, steps, ws, body, obs), (gp, pname, stream, names), s in zip(final, fmeta, st):
            nitems = max([sum(len(b) for b in w) for stp, w in zip(steps, ws) if stp[2]] + [0])
            ctx.case(("c17", pname, body), nontrivial=nitems >= 2,
                     sample={"protocol": pname, "steps": [(n, t.spell, s_) for n, t, s_ in steps], "flows": names,
                             "partitions": [[len(b) for b in w] for stp, w in zip(steps, ws) if stp[2]]})
            if s in (1, 2):
                raise RuntimeError("harness reference/generator inconsistent with the Coq model on %s" % pname)
            if s >= 3:
                ctx.report("wrong-items:%s" % names[s - 3].split()[0],
                           "%s: the items read back differ from the items written (protocol %s)" % (names[s - 3], pname),
                           {"flow": names[s - 3], "model": gp.pkg.yaml(), "namespace": gp.pkg.namespace, "protocol": pname,
                            "stream_hex": stream.hex(), "observed_hex": obs[s - 3].hex()})
    finally:
        edge.py_stop()
        codec.stop_packages(pkgs)



_run_inner = run


def run(ctx):          # noqa: F811
    _run_inner(ctx)
    import batchdriver
    batchdriver.run(ctx, "C17")

def replay(ctx, path):
    print(json.dumps(json.load(open(path)), indent=1)[:4000])
