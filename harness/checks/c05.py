"""C05 - accepted schema evolution preserves data across versions."""
import json
import os
import re
import subprocess
from concurrent.futures import ThreadPoolExecutor

import evomodel
import genrun
import ymodel
from vlib import Ctx, coq_bytes, sh

LEVEL = "proof"
TRUSTED = [
    "Coq 8.16.1 kernel + vm_compute; theorems in coq/Props/C05.v over Model/Convert.v (the documented conversion of a value "
    "between two versions of a type) and Model/Binary.v (the codec)",
    "tie: streams of the previous version, reference-encoded by the harness, are read by the C++ code generated for the new "
    "version and re-written (and vice versa with Version::<label>); the output is decoded inside Coq with the destination types "
    "and schema and compared with the converted values; documented runtime errors must make the translator fail",
    "only the C++ backend implements evolution; values are generated inside the domain of the model: integers, integer <-> "
    "floating point (bit patterns around the type limits, halfway cases, inf, NaN), no number<->string, no floating-point width "
    "or complex conversions; harness/lib/evomodel.py expands model.json",
    "g++ with the xtensor/date shims of /verif/shims",
]
MAIN = r'''
#include <iostream>
#include <string>
#include "generated/binary/protocols.h"
int main(int argc, char** argv) {
  std::ios::sync_with_stdio(false);
  std::string proto = argv[1], ver = argv[2];
  try {
%(dispatch)s
    return 4;
  } catch (std::exception const& e) {
    std::cout.flush();
    std::cerr << "ERR: " << e.what() << std::endl;
    return 3;
  }
}
'''
CASE = r'''    if (proto == "%(p)s") {
      %(ns)s::Version v = %(ns)s::Version::Current;
%(vers)s
      %(ns)s::binary::%(p)sReader r(std::cin);
      %(ns)s::binary::%(p)sWriter w(std::cout, v);
      r.CopyTo(w);
      r.Close();
      w.Close();
      std::cout.flush();
      return 0;
    }
'''
V0 = '''
Rec: !record
  fields:
    a: int32
    b: string
    c: float64?
    gone: int16

Plain: !record
  fields:
    x: uint8
    y: string*

OldName: !record
  fields:
    k: int32

Color: !enum
  values: [red, green]

Item: int32

P: !protocol
  sequence:
    unchanged: Plain
    intToLong: int32
    toOptional: int32
    fromOptional: string?
    toUnion: int32
    fromUnion: [int32, string]
    optToUnion: int32?
    unionToOpt: [null, int32, string]
    unionGrow: [int32, string]
    unionReorder: [int32, string, Plain]
    rec: Rec
    recs: Rec*
    recStream: !stream
      items: Rec
    longs: !stream
      items: int32
    renamed: OldName
    color: Color
    items: !stream
      items: Item
    optRec: Rec?
    vecOptChanged: int32?*
    vecOptToScalar: string?*
    vecScalarToOpt: int32*
    vecToUnion: int32*
    vecFromUnion: IntOrStr*
    streamOptChanged: !stream
      items: int32?
    streamFromUnion: !stream
      items: [int32, string]
    vecOfRecWithOpt: RecO*

RecO: !record
  fields:
    o: int32?
    u: [int32, string]

IntOrStr: [int32, string]

Shrink: !protocol
  sequence:
    u: [int32, string, float32]

NumA: !protocol
  sequence:
    x: uint32

NumB: !protocol
  sequence:
    x: int32

NumC: !protocol
  sequence:
    x: int64

NumD: !protocol
  sequence:
    xs: !stream
      items: uint64

NumE: !protocol
  sequence:
    r: NumRec

NumRec: !record
  fields:
    f: uint16
    g: uint8

FltA: !protocol
  sequence:
    x: float32

FltB: !protocol
  sequence:
    x: float64

FltC: !protocol
  sequence:
    x: int32

FltD: !protocol
  sequence:
    xs: !stream
      items: int64

FltF: !protocol
  sequence:
    x: float64
    y: float32
'''
V1 = '''
Rec: !record
  fields:
    b: string
    a: int64
    added: string?
    required: int32

Plain: !record
  fields:
    x: uint8
    y: string*

NewName: !record
  fields:
    k: int32

OldName: NewName

Color: !enum
  values: [red, green, blue]

Item: [int32, Plain]

P: !protocol
  sequence:
    unchanged: Plain
    intToLong: int64
    toOptional: int32?
    fromOptional: string
    toUnion: [int32, string]
    fromUnion: int32
    optToUnion: [null, int32, string]
    unionToOpt: int32?
    unionGrow: [int32, string, float32]
    unionReorder: [Plain, string, int32]
    extraStream: !stream
      items: Plain
    rec: Rec
    recs: Rec*
    recStream: !stream
      items: Rec
    longs: !stream
      items: int64
    renamed: NewName
    color: Color
    items: !stream
      items: Item
    optRec: Rec?
    vecOptChanged: int64?*
    vecOptToScalar: string*
    vecScalarToOpt: int32?*
    vecToUnion: IntOrStr*
    vecFromUnion: int32*
    streamOptChanged: !stream
      items: int64?
    streamFromUnion: !stream
      items: int32
    vecOfRecWithOpt: RecO*
    extraOptional: Plain?
    extraVector: int32*

RecO: !record
  fields:
    o: int64?
    u: int32

IntOrStr: [int32, string]

Shrink: !protocol
  sequence:
    u: [string, int32]

NumA: !protocol
  sequence:
    x: int32

NumB: !protocol
  sequence:
    x: uint32

NumC: !protocol
  sequence:
    x: int16

NumD: !protocol
  sequence:
    xs: !stream
      items: int64

NumE: !protocol
  sequence:
    r: NumRec

NumRec: !record
  fields:
    f: int16
    g: int8

FltA: !protocol
  sequence:
    x: int32

FltB: !protocol
  sequence:
    x: int64

FltC: !protocol
  sequence:
    x: float32

FltD: !protocol
  sequence:
    xs: !stream
      items: float64

FltF: !protocol
  sequence:
    x: uint8
    y: int16
'''
V2 = V1.replace("    required: int32\n", "    required: int32\n    third: uint8?\n")\
       .replace("    toUnion: [int32, string]\n", "    toUnion: [int32, string, bool]\n")


# a generic type instantiated twice; the definition that changes is reached only through the type argument of the second
# instantiation (the schema of each version must list it, or old streams are taken for current ones)
G0 = """Image<T>: !record
  fields:
    data: T*
    w: int32

Pixel: !record
  fields:
    v: uint8

Voxel: !record
  fields:
    v: int16
    gone: uint8

Gp: !protocol
  sequence:
    a: Image<Pixel>
    b: Image<Voxel>
    s: !stream
      items: Image<Voxel>
"""
G1 = G0.replace("    v: int16\n    gone: uint8\n", "    v: int32\n    extra: float32?\n")


# three versions that all differ, listed NEWEST FIRST in `versions:` (the labels need not be sorted)
N0 = """Pn: !record
  fields:
    x: float32
    s: string

Np: !protocol
  sequence:
    n: int32
    one: Pn
    pts: Pn*
    st: !stream
      items: Pn
"""
N1 = N0.replace("    n: int32\n", "    n: int64\n")
N2 = N1.replace("    x: float32\n    s: string\n", "    s: string\n    x: float32\n    extra: int16?\n")
# a record of two floats is trivially serializable in C++; its fields change order (a documented compatible change), so a vector of
# it may not be copied as memory when the other version is read or written (known finding `compat-memcpy-fast-path`)
T0 = """Pt: !record
  fields:
    x: float32
    y: float32

Tq: !protocol
  sequence:
    pts: Pt*
"""
T1 = T0.replace("    x: float32\n    y: float32\n", "    y: float32\n    x: float32\n")


def small_int(rng, signed, w):
    if w == 1:
        return rng.randint(0, 1)
    return rng.choice([0, 1, 2, 7, 100, 127] + ([-1, -5, -128] if signed else []))


def edge_int(rng, signed, w):
    if w == 1:
        return rng.randint(0, 1)
    hi = 2 ** (w - 1) - 1 if signed else 2 ** w - 1
    lo = -2 ** (w - 1) if signed else 0
    c = [0, 1, 100, 2 ** 7 - 1, 2 ** 7, 2 ** 15 - 1, 2 ** 15, 2 ** 31 - 1, 2 ** 31, 3000000000, 2 ** 63 - 1, 2 ** 63 + 5, hi, lo, -1, -129, -2 ** 15 - 1]
    return rng.choice([x for x in c if lo <= x <= hi])


F32_EDGE = [0.0, -0.0, 0.5, -0.5, 1.5, 2.5, -2.5, 3.4999, 100.25, 255.0, 255.5, 256.0, -1.0, 32767.0, 32767.5, -32768.0, -32768.5,
            16777216.0, 2147483520.0, 2147483648.0, -2147483648.0, -2147483904.0, 4294967296.0, 1e20, float("inf"), float("-inf"), float("nan")]
F64_EDGE = F32_EDGE + [2147483647.0, 2147483647.4, 2147483647.5, -2147483648.5, 4503599627370497.5, 9007199254740993.0,
                       9223372036854774784.0, 9223372036854775808.0, -9223372036854775808.0, -9223372036854777856.0, 1e300]


def gen_numbers(rng, steps):
    """values for the integer <-> floating-point protocols: bit patterns around the limits of the integer types, halfway cases,
    infinities and NaN; integers around the precision of the floating-point types"""
    import struct

    def val(t):
        if t.kind == "prim" and t.p == "float32":
            x = rng.choice(F32_EDGE) if rng.random() < 0.8 else rng.uniform(-70000, 70000)
            return ("bits", struct.unpack("<I", struct.pack("<f", x))[0])
        if t.kind == "prim" and t.p == "float64":
            x = rng.choice(F64_EDGE) if rng.random() < 0.8 else rng.uniform(-1e10, 1e10)
            return ("bits", struct.unpack("<Q", struct.pack("<d", x))[0])
        s_, w = ymodel.INTW[t.p]
        hi = 2 ** (w - 1) - 1 if s_ else 2 ** w - 1
        lo = -2 ** (w - 1) if s_ else 0
        c = [0, 1, -1, 3, 255, 16777216, 16777217, 16777219, 2 ** 31 - 1, -2 ** 31, 2 ** 53, 2 ** 53 + 1, 2 ** 53 + 3, 2 ** 63 - 1, -2 ** 63, hi, lo]
        return ("int", rng.choice([x for x in c if lo <= x <= hi]))
    ws = []
    for n, t, st, _ in steps:
        if st:
            items = [val(t) for _ in range(rng.choice([0, 1, 3]))]
            ws.append(ymodel.partition(rng, items))
        else:
            ws.append(val(t))
    return ws


def gen_small(rng, steps, edges=False, numbers=False):
    if numbers:
        return gen_numbers(rng, steps)
    saved = ymodel.gen_int
    ymodel.gen_int = edge_int if edges else small_int
    try:
        return ymodel.gen_writes(rng, [(n, t, st) for n, t, st, _ in steps], finite=True)
    finally:
        ymodel.gen_int = saved


class Versioned:
    """a chain of versions of one package; C++ generated and built for the last one with all earlier ones listed"""

    def __init__(self, ctx, name, texts, newest_first=False):
        self.ctx, self.name, self.texts = ctx, name, texts
        self.newest_first = newest_first
        self.root = os.path.join(ctx.scratch, name)
        self.envs, self.schemas = [], []
        n = len(texts)
        for i, text in enumerate(texts):
            d = os.path.join(self.root, "v%d" % i)
            os.makedirs(d, exist_ok=True)
            last = i == n - 1
            cfg = "namespace: Evo\njson:\n  outputDir: ../json%d\npython:\n  outputDir: ../py%d\n" % (i, i)
            open(d + "/_package.yml", "w").write(cfg)
            open(d + "/m.yml", "w").write(text)
            rc, o, e = sh([ctx.yardl, "generate"], cwd=d, timeout=120)
            if rc != 0:
                raise RuntimeError("version %d of %s is not valid on its own: %s" % (i, name, (o + e)[-500:]))
            self.envs.append(evomodel.Env(json.load(open(os.path.join(self.root, "json%d/model.json" % i)))))
            src = open(os.path.join(self.root, "py%d/evo/protocols.py" % i)).read()
            self.schemas.append({m.group(1): m.group(2) for m in re.finditer(r'class (\w+)WriterBase\(abc\.ABC\):.*?schema = r"""(.*?)"""', src, re.S)})
        d = os.path.join(self.root, "cur")
        os.makedirs(d, exist_ok=True)
        order = list(range(n - 1))
        if getattr(self, "newest_first", False):
            order.reverse()          # the labels need not be listed in sorted order
        vers = "".join("  v%d: ../v%d\n" % (i, i) for i in order)
        open(d + "/_package.yml", "w").write("namespace: Evo\nversions:\n%scpp:\n  sourcesOutputDir: ../cpp/generated\n  generateCMakeLists: false\n"
                                             "  generateHDF5: false\n  generateNDJson: false\n  overrideArrayHeader: ndarray_shim.h\n" % vers)
        open(d + "/m.yml", "w").write(texts[-1])
        rc, o, e = sh([ctx.yardl, "generate"], cwd=d, timeout=120)
        self.gen_out = re.sub(r"\x1b\[[0-9;]*m", "", o + e)
        self.accepted = rc == 0

    def build(self):
        protos = [q.split(".")[-1] for q, _ in self.envs[-1].protos]
        n = len(self.texts)
        cases = []
        for p in protos:
            vers = "".join('      if (ver == "v%d") v = evo::Version::v%d;\n' % (i, i) for i in range(n - 1))
            cases.append(CASE % {"p": p, "ns": "evo", "vers": vers})
        cdir = os.path.join(self.root, "cpp")
        open(cdir + "/main.cc", "w").write(MAIN % {"dispatch": "".join(cases)})
        srcs = ["main.cc", "generated/protocols.cc", "generated/types.cc", "generated/binary/protocols.cc"]

        def comp(src):
            obj = src.replace("/", "_") + ".o"
            rc, o, e = sh(["g++", "-std=c++17", "-O0", "-w", "-I", genrun.SHIMS, "-I", "generated", "-c", src, "-o", obj], cwd=cdir, timeout=900)
            return rc, src, e, obj
        with ThreadPoolExecutor(max_workers=4) as ex:
            rs = list(ex.map(comp, srcs))
        bad = [(s, e) for rc, s, e, _ in rs if rc != 0]
        if bad:
            self.cpp_err = "\n".join("%s:\n%s" % (s, e[-2500:]) for s, e in bad)
            return False
        rc, o, e = sh(["g++"] + [r[3] for r in rs] + ["-o", "tr"], cwd=cdir, timeout=300)
        if rc != 0:
            self.cpp_err = e[-2500:]
            return False
        self.tr = cdir + "/tr"
        return True

    def run(self, proto, ver, data):
        try:
            p = subprocess.run([self.tr, proto, ver], input=data, stdout=subprocess.PIPE, stderr=subprocess.PIPE, timeout=60)
        except subprocess.TimeoutExpired:
            return False, b"", "timeout"
        return p.returncode == 0, p.stdout, p.stderr.decode(errors="replace")[-400:]


def run(ctx):
    ctx.build_repo(need_hook=True)
    ok, failing, log = ctx.coq_props("C05")
    ctx.coverage["trusted_base"] = TRUSTED
    ctx.coverage["rule"] = ("a chain of three versions of a package covering the documented compatible and partially compatible edits "
                            "(field added / removed / reordered / retyped, scalar <-> optional, scalar <-> union, optional <-> union, union "
                            "grown / reordered / shrunk, rename through an alias, enum value added, steps added, streams and vectors of "
                            "changed records); for every older version and every protocol: random values of the old version are "
                            "reference-encoded, read by the newest C++ reader and re-written (upgrade), random values of the newest version "
                            "are written for Version::<old> (downgrade); outputs decoded in Coq with the destination types and compared "
                            "with Model.Convert.conv; non-trivial = every run; distinct by (direction, versions, protocol, values)")
    if not ok:
        ctx.report("proof:" + str(failing), "theorem/dependency no longer checks: %s" % failing,
                   {"broken": failing, "log": log[-3000:]}, no_input=True)
    quick = ctx.tier == "quick"
    rng = ctx.rng
    chains = [("chain", [V0, V1, V2]), ("generics", [G0, G1]), ("newestfirst", [N0, N1, N2]), ("trivialrec", [T0, T1])]
    cases, meta = [], []
    for name, texts in chains:
        vp = Versioned(ctx, name, texts, newest_first=(name == "newestfirst"))
        rep0 = {"versions": texts}
        if not vp.accepted:
            ctx.report("chain-rejected", "yardl rejects the chain of documented compatible edits: %s" % vp.gen_out[-300:], dict(rep0, output=vp.gen_out))
            continue
        if not vp.build():
            ctx.report("cpp-compile", "generated C++ with compatibility serializers does not compile: %s"
                       % re.sub(r"\s+", " ", vp.cpp_err)[:300], dict(rep0, error=vp.cpp_err))
            continue
        n = len(texts)
        cur = vp.envs[-1]
        for i in range(n - 1):
            old = vp.envs[i]
            rn_up = cur.renames_from(old)
            for q, _ in old.protos:
                p = q.split(".")[-1]
                try:
                    so, sn = evomodel.proto_steps(old, p), evomodel.proto_steps(cur, p)
                except evomodel.Unknown:
                    continue
                for _ in range(4 if quick else 25):
                    # upgrade: old stream -> newest reader -> newest writer
                    ws = gen_small(rng, so, edges=p.startswith("Num"), numbers=p.startswith("Flt"))
                    steps_o = [(a, b, c) for a, b, c, _ in so]
                    stream = ymodel.enc_header(vp.schemas[i][p]) + ymodel.enc_steps(steps_o, ws)
                    okk, out, err = vp.run(p, "Current", stream)
                    src = "[" + "; ".join("(%s, %s)" % (e_, ymodel.coq_write((a, b, c), w)) for (a, b, c, e_), w in zip(so, ws)) + "]"
                    dst = "[" + "; ".join(e_ for _, _, _, e_ in sn) + "]"
                    cases.append("(%s, %s, %s, %s, %s, %s)" % (rn_up, src, dst, coq_bytes(vp.schemas[-1][p].encode()), coq_bytes(out), "false" if okk else "true"))
                    meta.append(("upgrade v%d->v%d" % (i, n - 1), p, rep0, stream, out, err))
                    # downgrade: newest values -> writer for Version::v<i>
                    ws = gen_small(rng, sn, edges=p.startswith("Num"), numbers=p.startswith("Flt"))
                    steps_n = [(a, b, c) for a, b, c, _ in sn]
                    stream = ymodel.enc_header(vp.schemas[-1][p]) + ymodel.enc_steps(steps_n, ws)
                    okk, out, err = vp.run(p, "v%d" % i, stream)
                    src = "[" + "; ".join("(%s, %s)" % (e_, ymodel.coq_write((a, b, c), w)) for (a, b, c, e_), w in zip(sn, ws)) + "]"
                    dst = "[" + "; ".join(e_ for _, _, _, e_ in so) + "]"
                    cases.append("(%s, %s, %s, %s, %s, %s)" % (rn_up, src, dst, coq_bytes(vp.schemas[i][p].encode()), coq_bytes(out), "false" if okk else "true"))
                    meta.append(("downgrade v%d->v%d" % (n - 1, i), p, rep0, stream, out, err))
    shards = [list(range(i, min(i + 10, len(cases)))) for i in range(0, len(cases), 10)]

    def ev(idx):
        body = ("From Coq Require Import List NArith ZArith Bool.\nImport ListNotations.\nOpen Scope N_scope.\n"
                "From YV Require Import Base.Wire Model.Binary Gen.Tables Model.Json Model.Schema Model.Evolution Model.Convert Model.ConvertCases.\n"
                "Definition cases : list ccase := [\n " + ";\n ".join(cases[i] for i in idx) + "\n].\n"
                "Definition ST := Eval vm_compute in map ccase_status cases.\nPrint ST.\n")
        return Ctx.parse_nat_list(ctx.coq_eval("cv_%d" % idx[0], body, timeout=1500), "ST")
    with ThreadPoolExecutor(max_workers=10) as ex:
        st = [x for r in ex.map(ev, shards) for x in r]
    names = {1: "a documented runtime error was due but a stream was produced", 2: "the translator failed where the model gives a value",
             3: "the output does not decode to the converted values", 4: "harness generated ill-typed source values"}
    for (what, p, rep0, stream, out, err), s in zip(meta, st):
        ctx.case((what, p, stream), sample={"direction": what, "protocol": p, "bytes_in": len(stream), "bytes_out": len(out), "status": s})
        ctx.count("direction", what)
        ctx.count("status", str(s))
        if s >= 1000:
            ctx.report("%s:%s:step-%d-differs" % (what.split()[0], p, s - 1000), "%s of protocol %s: destination step %d does not hold the converted "
                       "value" % (what, p, s - 1000), dict(rep0, direction=what, protocol=p, input_hex=stream.hex(), output_hex=out.hex(), stderr=err))
        elif s >= 100:
            ctx.report("%s:%s:error-due-at-step-%d" % (what.split()[0], p, s - 100), "%s of protocol %s: the model has a runtime error (or no conversion) "
                       "at destination step %d but the translator produced a stream" % (what, p, s - 100),
                       dict(rep0, direction=what, protocol=p, input_hex=stream.hex(), output_hex=out.hex(), stderr=err))
        elif s != 0:
            ctx.report("%s:%s:%d" % (what.split()[0], p, s), "%s of protocol %s: %s%s" % (what, p, names.get(s, s), (" (" + err.strip()[-120:] + ")") if err.strip() else ""),
                       dict(rep0, direction=what, protocol=p, input_hex=stream.hex(), output_hex=out.hex(), stderr=err), no_input=(s == 4))


def replay(ctx, path):
    print(json.dumps(json.load(open(path)), indent=1)[:4000])
