"""C16 - a truncated stream is reported, never mistaken for a complete one."""
import json
import os
from concurrent.futures import ThreadPoolExecutor

import codedcpp as cc
from vlib import VERIF, Ctx

LEVEL = "proof"
TRUSTED = [
    "Coq 8.16.1 kernel + vm_compute (no native_compute); theorems in coq/Props/C16.v, Print Assumptions: closed under the global context",
    "hand-written Gallina models coq/Model/CodedCpp.v (coded_stream.h) tied to the code by differential execution (harness/cpp/coded_driver.cc compiled against /repo's header, -fsanitize=address)",
    "python harness (generators, comparison glue), g++ 12, libstdc++ istream semantics",
]


def shard(lst, n):
    return [lst[i:i + n] for i in range(0, len(lst), n)]


def cpp_reader_layer(ctx, n_scripts, bufsizes):
    """Coded-stream level: every cut position of generated scripts x buffer sizes."""
    driver = cc.build_driver(ctx, asan=True)
    rng = ctx.rng
    cases = []
    meta = []
    # corpus first
    cdir = os.path.join(VERIF, "corpus", "C16")
    if os.path.isdir(cdir):
        for fn in sorted(os.listdir(cdir)):
            c = json.load(open(os.path.join(cdir, fn)))
            if c.get("layer") == "cpp-coded-in":
                cases.append((c["bufsize"], c["input"], [tuple(o) for o in c["ops"]]))
                meta.append("corpus:" + fn)
    for i in range(n_scripts):
        ops, data = cc.gen_script(rng)
        cuts = list(range(len(data) + 1)) if len(data) <= 48 else sorted(set(
            [0, 1, len(data) - 1, len(data)] + [rng.randrange(len(data)) for _ in range(24)]))
        for bs in rng.sample(bufsizes, min(3, len(bufsizes))):
            # cuts that coincide with a buffer boundary are always included
            cs = set(cuts) | {k for k in range(0, len(data) + 1, bs)}
            for cut in sorted(cs):
                full = cut == len(data)
                cases.append((bs, data[:cut], ops + ([("V", None)] if full else [])))
                meta.append("gen")
                ctx.count("cpp_reader_bufsize", str(bs))
                ctx.count("cpp_reader_cut", "complete" if full else ("empty" if cut == 0 else (
                    "at-buffer-boundary" if cut % bs == 0 else "inside")))
    for (bs, data, ops) in cases:
        for o in ops:
            ctx.count("cpp_reader_ops", o[0])
    obs, n_ok, err = cc.run_reader_cases(ctx, driver, cases)
    if obs is None:
        bad = cases[min(n_ok, len(cases) - 1)]
        ctx.report("cpp-coded-in:crash", "coded_stream.h reader crashed (sanitizer/abort) on a script: " + err[-400:],
                   {"layer": "cpp-coded-in", "bufsize": bad[0], "input": bad[1], "ops": bad[2], "stderr": err[-1500:]})
        return
    # evaluate the models inside Coq, sharded
    shards = shard(list(zip(cases, obs)), 400)

    def ev(ix_sh):
        ix, sh_ = ix_sh
        text = cc.reader_cases_v([c for c, _ in sh_], [o for _, o in sh_])
        out = ctx.coq_eval("rcases_%d" % ix, text)
        return ix, Ctx.parse_nat_list(out, "MM"), Ctx.parse_nat_list(out, "MA")

    with ThreadPoolExecutor(max_workers=8) as ex:
        results = list(ex.map(ev, enumerate(shards)))
    mm, ma = [], []
    for ix, m1, m2 in results:
        mm += [ix * 400 + k for k in m1]
        ma += [ix * 400 + k for k in m2]
    for (bs, data, ops), o in zip(cases, obs):
        ctx.case(("cpp-in", bs, tuple(data), tuple(ops)), nontrivial=len(ops) > 0,
                 sample={"layer": "cpp-coded-in", "bufsize": bs, "input_hex": cc.hexs(data),
                         "ops": [cc.op_text(x) for x in ops], "observed": o})
    ctx.coverage["traces_validated_against_impl"] = ctx.coverage.get("traces_validated_against_impl", 0) + len(cases)
    for k in ma[:3]:
        bs, data, ops = cases[k]
        cut_kind = "empty input" if not data else ("cut at a multiple of the buffer size" if len(data) % bs == 0 else "cut inside a buffer")
        ctx.report("cpp-coded-in:wrong-result",
                   "CodedInputStream(bufsize=%d) on %d input bytes (%s), script %s returned %s; the byte-level contract "
                   "(abstract reader) says otherwise" % (bs, len(data), cut_kind, [cc.op_text(x) for x in ops], obs[k]),
                   {"layer": "cpp-coded-in", "bufsize": bs, "input": data, "ops": [list(x) for x in ops], "observed": obs[k],
                    "broken": "correspondence Model.CodedCpp.arun vs coded_stream.h (theorem C16_cpp_truncated no longer describes the code)"})
    if mm and not ma:
        k = mm[0]
        bs, data, ops = cases[k]
        ctx.report("cpp-coded-in:model-differs",
                   "machine model Model.CodedCpp.rrun disagrees with coded_stream.h although the abstract contract holds",
                   {"layer": "cpp-coded-in", "bufsize": bs, "input": data, "ops": [list(x) for x in ops], "observed": obs[k],
                    "broken": "correspondence Model.CodedCpp.rrun vs coded_stream.h"}, no_input=True)


def py_reader_layer(ctx, n_scripts, bufsizes):
    """The Python CodedInputStream against the abstract byte-list reader (no machine model yet)."""
    pyrt = cc.make_pyrt(ctx)
    rng = ctx.rng
    cases = []
    for i in range(n_scripts):
        ops, data = cc.gen_script(rng)
        cuts = list(range(len(data) + 1)) if len(data) <= 48 else sorted(set(
            [0, 1, len(data) - 1, len(data)] + [rng.randrange(len(data)) for _ in range(24)]))
        for bs in rng.sample(bufsizes, min(2, len(bufsizes))):
            cs = set(cuts) | {k for k in range(0, len(data) + 1, bs)}
            for cut in sorted(cs):
                cases.append((bs, data[:cut], ops))
                ctx.count("py_reader_bufsize", str(bs))
                ctx.count("py_reader_cut", "complete" if cut == len(data) else ("empty" if cut == 0 else (
                    "at-buffer-boundary" if cut % bs == 0 else "inside")))
    obs = cc.run_py_reader_cases(ctx, pyrt, cases, rng)
    for o in obs:
        for t in o:
            if t == "EOF" or t.startswith("ERR:"):
                ctx.count("py_reader_error_kind", t)
    shards = shard(list(zip(cases, obs)), 400)

    def ev(ix_sh):
        ix, sh_ = ix_sh
        out = ctx.coq_eval("pycases_%d" % ix, cc.py_reader_cases_v([c for c, _ in sh_], [o for _, o in sh_]))
        return ix, Ctx.parse_nat_list(out, "MA")

    with ThreadPoolExecutor(max_workers=8) as ex:
        results = list(ex.map(ev, enumerate(shards)))
    ma = []
    for ix, m in results:
        ma += [ix * 400 + k for k in m]
    for (bs, data, ops), o in zip(cases, obs):
        ctx.case(("py-in", bs, tuple(data), tuple(ops)), nontrivial=len(ops) > 0,
                 sample={"layer": "py-coded-in", "bufsize": bs, "input_hex": cc.hexs(data),
                         "ops": [cc.py_op_text(x) for x in ops], "observed": o})
    ctx.coverage["traces_validated_against_impl"] = ctx.coverage.get("traces_validated_against_impl", 0) + len(cases)
    for k in ma[:3]:
        bs, data, ops = cases[k]
        ctx.report("py-coded-in:wrong-result",
                   "_binary.CodedInputStream(buffer_size=%d) on %d input bytes, script %s returned %s; the byte-level "
                   "contract (abstract reader) says otherwise" % (bs, len(data), [cc.py_op_text(x) for x in ops], obs[k]),
                   {"layer": "py-coded-in", "bufsize": bs, "input": data, "ops": [list(x) for x in ops], "observed": obs[k],
                    "broken": "correspondence Model.CodedCpp.arun vs _binary.py CodedInputStream"})


def run(ctx):
    ctx.build_repo(need_hook=False)
    ok, failing, log = ctx.coq_props("C16")
    ctx.coverage["trusted_base"] = TRUSTED
    ctx.coverage["rule"] = ("reader scripts (byte, varint32/64, fixed 1/2/4/8, raw bytes) with edge integers, encoded, cut at "
                            "EVERY prefix length (plus every multiple of the buffer size), run on the real CodedInputStream for "
                            "several buffer sizes; non-trivial = at least one operation; distinct by (bufsize, input, script)")
    if not ok:
        ctx.report("proof:" + str(failing), "theorem/dependency no longer checks: %s" % failing,
                   {"broken": failing, "log": log[-3000:]}, no_input=True)
    quick = ctx.tier == "quick"
    cpp_reader_layer(ctx, 40 if quick else 400, [1, 2, 3, 4, 5, 7, 8, 10, 11, 16, 17, 64])
    py_reader_layer(ctx, 30 if quick else 300, [8, 9, 10, 11, 16, 17, 64])


def replay(ctx, path):
    r = json.load(open(path))["replay"]
    driver = cc.build_driver(ctx, asan=True)
    case = (r["bufsize"], r["input"], [tuple(o) for o in r["ops"]])
    obs, n_ok, err = cc.run_reader_cases(ctx, driver, [case])
    print("observed:", obs, err)
    if obs is None:
        ctx.report("cpp-coded-in:crash", "crash on replay", r)
        return
    out = ctx.coq_eval("replay", cc.reader_cases_v([case], obs))
    if Ctx.parse_nat_list(out, "MA"):
        ctx.report("cpp-coded-in:wrong-result", "replayed case still disagrees with the abstract reader: %s" % obs, r)
