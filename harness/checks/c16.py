"""C16 - a truncated stream is reported, never mistaken for a complete one."""
import json
import os
from concurrent.futures import ThreadPoolExecutor

import codedcpp as cc
from vlib import VERIF, Ctx

LEVEL = "proof"
TRUSTED = [
    "Coq 8.16.1 kernel + vm_compute (no native_compute); theorems in coq/Props/C16.v, Print Assumptions: closed under the global context",
    "hand-written Gallina models coq/Model/CodedCpp.v (coded_stream.h) tied to the code by differential execution (harness/cpp/coded_driver.cc compiled against /repo's header, -fsanitize=address)",
    "hand-written Gallina model coq/Model/CodedPy.v (_binary.py CodedInputStream over a BytesIO; exception kinds included) tied to the code by differential execution (harness/py/coded_driver.py on a copy of /repo's static_files); fixed-size reads no larger than the buffer",
    "python harness (generators, comparison glue), g++ 12, libstdc++ istream semantics",
]


def shard(lst, n):
    return [lst[i:i + n] for i in range(0, len(lst), n)]


def cpp_reader_layer(ctx, n_scripts, bufsizes):
    """Coded-stream level: every cut position of generated scripts x buffer sizes."""
    driver = cc.build_driver(ctx, asan=True)
    rng = ctx.rng
    cases = []
    meta = []
    # corpus first
    cdir = os.path.join(VERIF, "corpus", "C16")
    if os.path.isdir(cdir):
        for fn in sorted(os.listdir(cdir)):
            c = json.load(open(os.path.join(cdir, fn)))
            if c.get("layer") == "cpp-coded-in":
                cases.append((c["bufsize"], c["input"], [tuple(o) for o in c["ops"]]))
                meta.append("corpus:" + fn)
    for i in range(n_scripts):
        ops, data = cc.gen_script(rng)
        cuts = list(range(len(data) + 1)) if len(data) <= 48 else sorted(set(
            [0, 1, len(data) - 1, len(data)] + [rng.randrange(len(data)) for _ in range(24)]))
        for bs in rng.sample(bufsizes, min(3, len(bufsizes))):
            # cuts that coincide with a buffer boundary are always included
            cs = set(cuts) | {k for k in range(0, len(data) + 1, bs)}
            for cut in sorted(cs):
                full = cut == len(data)
                cases.append((bs, data[:cut], ops + ([("V", None)] if full else [])))
                meta.append("gen")
                ctx.count("cpp_reader_bufsize", str(bs))
                ctx.count("cpp_reader_cut", "complete" if full else ("empty" if cut == 0 else (
                    "at-buffer-boundary" if cut % bs == 0 else "inside")))
    for (bs, data, ops) in cases:
        for o in ops:
            ctx.count("cpp_reader_ops", o[0])
    obs, n_ok, err = cc.run_reader_cases(ctx, driver, cases)
    if obs is None:
        bad = cases[min(n_ok, len(cases) - 1)]
        ctx.report("cpp-coded-in:crash", "coded_stream.h reader crashed (sanitizer/abort) on a script: " + err[-400:],
                   {"layer": "cpp-coded-in", "bufsize": bad[0], "input": bad[1], "ops": bad[2], "stderr": err[-1500:]})
        return
    # evaluate the models inside Coq, sharded
    shards = shard(list(zip(cases, obs)), 400)

    def ev(ix_sh):
        ix, sh_ = ix_sh
        text = cc.reader_cases_v([c for c, _ in sh_], [o for _, o in sh_])
        out = ctx.coq_eval("rcases_%d" % ix, text)
        return ix, Ctx.parse_nat_list(out, "MM"), Ctx.parse_nat_list(out, "MA")

    with ThreadPoolExecutor(max_workers=8) as ex:
        results = list(ex.map(ev, enumerate(shards)))
    mm, ma = [], []
    for ix, m1, m2 in results:
        mm += [ix * 400 + k for k in m1]
        ma += [ix * 400 + k for k in m2]
    for (bs, data, ops), o in zip(cases, obs):
        ctx.case(("cpp-in", bs, tuple(data), tuple(ops)), nontrivial=len(ops) > 0,
                 sample={"layer": "cpp-coded-in", "bufsize": bs, "input_hex": cc.hexs(data),
                         "ops": [cc.op_text(x) for x in ops], "observed": o})
    ctx.coverage["traces_validated_against_impl"] = ctx.coverage.get("traces_validated_against_impl", 0) + len(cases)
    for k in ma[:3]:
        bs, data, ops = cases[k]
        cut_kind = "empty input" if not data else ("cut at a multiple of the buffer size" if len(data) % bs == 0 else "cut inside a buffer")
        ctx.report("cpp-coded-in:wrong-result",
                   "CodedInputStream(bufsize=%d) on %d input bytes (%s), script %s returned %s; the byte-level contract "
                   "(abstract reader) says otherwise" % (bs, len(data), cut_kind, [cc.op_text(x) for x in ops], obs[k]),
                   {"layer": "cpp-coded-in", "bufsize": bs, "input": data, "ops": [list(x) for x in ops], "observed": obs[k],
                    "broken": "correspondence Model.CodedCpp.arun vs coded_stream.h (theorem C16_cpp_truncated no longer describes the code)"})
    if mm and not ma:
        k = mm[0]
        bs, data, ops = cases[k]
        ctx.report("cpp-coded-in:model-differs",
                   "machine model Model.CodedCpp.rrun disagrees with coded_stream.h although the abstract contract holds",
                   {"layer": "cpp-coded-in", "bufsize": bs, "input": data, "ops": [list(x) for x in ops], "observed": obs[k],
                    "broken": "correspondence Model.CodedCpp.rrun vs coded_stream.h"}, no_input=True)


def py_reader_layer(ctx, n_scripts, bufsizes):
    """The Python CodedInputStream against its machine model (Model/CodedPy.v: exception kinds included) and
    against the abstract byte-list reader."""
    pyrt = cc.make_pyrt(ctx)
    rng = ctx.rng
    cases = []
    for i in range(n_scripts):
        ops, data = cc.gen_script(rng)
        cuts = list(range(len(data) + 1)) if len(data) <= 48 else sorted(set(
            [0, 1, len(data) - 1, len(data)] + [rng.randrange(len(data)) for _ in range(24)]))
        for bs in rng.sample(bufsizes, min(2, len(bufsizes))):
            cs = set(cuts) | {k for k in range(0, len(data) + 1, bs)}
            for cut in sorted(cs):
                cases.append((bs, data[:cut], ops))
                ctx.count("py_reader_bufsize", str(bs))
                ctx.count("py_reader_cut", "complete" if cut == len(data) else ("empty" if cut == 0 else (
                    "at-buffer-boundary" if cut % bs == 0 else "inside")))
    obs = cc.run_py_reader_cases(ctx, pyrt, cases, rng)
    for o in obs:
        for t in o:
            if t == "EOF" or t.startswith("ERR:"):
                ctx.count("py_reader_error_kind", t)
    shards = shard(list(zip(cases, obs)), 400)

    def ev(ix_sh):
        ix, sh_ = ix_sh
        out = ctx.coq_eval("pycases_%d" % ix, cc.py_reader_cases_v([c for c, _ in sh_], [o for _, o in sh_]))
        return ix, Ctx.parse_nat_list(out, "MM"), Ctx.parse_nat_list(out, "MA")

    with ThreadPoolExecutor(max_workers=8) as ex:
        results = list(ex.map(ev, enumerate(shards)))
    ma, mm = [], []
    for ix, m_, a_ in results:
        mm += [ix * 400 + k for k in m_]
        ma += [ix * 400 + k for k in a_]
    for (bs, data, ops), o in zip(cases, obs):
        ctx.case(("py-in", bs, tuple(data), tuple(ops)), nontrivial=len(ops) > 0,
                 sample={"layer": "py-coded-in", "bufsize": bs, "input_hex": cc.hexs(data),
                         "ops": [cc.py_op_text(x) for x in ops], "observed": o})
    ctx.coverage["traces_validated_against_impl"] = ctx.coverage.get("traces_validated_against_impl", 0) + len(cases)
    for k in [x for x in mm if x not in ma][:3]:
        bs, data, ops = cases[k]
        ctx.report("py-coded-in:machine-model-differs",
                   "_binary.CodedInputStream(buffer_size=%d) on %d input bytes, script %s returned %s; the machine model "
                   "Model.CodedPy.prun (which the refinement theorems are about) says otherwise, while the byte-level "
                   "contract is still met on this input" % (bs, len(data), [cc.py_op_text(x) for x in ops], obs[k]),
                   {"layer": "py-coded-in", "bufsize": bs, "input": data, "ops": [list(x) for x in ops], "observed": obs[k],
                    "broken": "correspondence Model.CodedPy.prun vs _binary.py CodedInputStream (theorem C16_py_reader_refines no longer about the code)"},
                   no_input=True)
    for k in ma[:3]:
        bs, data, ops = cases[k]
        ctx.report("py-coded-in:wrong-result",
                   "_binary.CodedInputStream(buffer_size=%d) on %d input bytes, script %s returned %s; the byte-level "
                   "contract (abstract reader) says otherwise" % (bs, len(data), [cc.py_op_text(x) for x in ops], obs[k]),
                   {"layer": "py-coded-in", "bufsize": bs, "input": data, "ops": [list(x) for x in ops], "observed": obs[k],
                    "broken": "correspondence Model.CodedPy.parun vs _binary.py CodedInputStream"})


def typed_layer(ctx, n_pkgs, n_streams, max_cuts):
    """Generated readers on every prefix of reference streams: an error must be reported, and what was
    delivered before it (NDJSON lines, flushed per value) must be a prefix of the complete output."""
    import codec
    import ymodel
    from vlib import coq_bytes
    crafted_ndjson_cuts(ctx)
    pkgs = codec.build_packages(ctx, n_pkgs, "t", cpp=True, ndjson=True, gen_kwargs={"n_protocols": 2, "steps": (2, 3)})
    rng = ctx.rng
    hcases = []
    try:
        for gp in pkgs:
            cpp = not getattr(gp, "cpp_failed", False)
            if not cpp:
                ctx.report("cpp-compile:" + gp.name, "generated C++ does not compile for an accepted package",
                           {"model": gp.pkg.yaml(), "error": gp.cpp_err[-2000:]})
            for pname, steps in gp.pkg.protocols:
                for _ in range(n_streams):
                    ws = ymodel.gen_writes(rng, steps, finite=True, size=2, max_items=3)
                    stream = ymodel.enc_header(gp.schemas_[pname]) + ymodel.enc_steps(steps, ws)
                    # Python: binary -> binary (the writer's buffer is flushed by the runner when the reader raises), so that
                    # defects of the Python NDJSON converters do not pollute this check; C++: binary -> NDJSON lines
                    full = gp.py_call({"proto": pname, "fin": "binary", "fout": "binary", "data": stream.hex(), "mode": "copy"})
                    if not full["ok"]:
                        ctx.report("typed:python:complete-stream-refused", "python refused a complete stream: " + full.get("err", "")[:150],
                                   {"model": gp.pkg.yaml(), "namespace": gp.pkg.namespace, "protocol": pname, "stream_hex": stream.hex()})
                        continue
                    full_lines = full["out"]
                    ndjson_cuts(ctx, gp, pname, steps, stream)
                    hl = len(ymodel.enc_header(gp.schemas_[pname]))
                    cuts = set(range(hl, len(stream))) if len(stream) - hl <= max_cuts else set(
                        rng.sample(range(hl, len(stream)), max_cuts))
                    cuts |= {0, 3, 7, hl - 1}
                    cfull = None
                    if cpp:
                        c = gp.cpp_call(pname, "binary", "ndjson", stream)
                        cfull = c["out"].decode(errors="replace").split("\n") if c["ok"] else None
                        if not c["ok"]:
                            ctx.report("typed:c++:complete-stream-refused", "c++ refused a complete stream: " + c["err"][:150],
                                       {"model": gp.pkg.yaml(), "namespace": gp.pkg.namespace, "protocol": pname, "stream_hex": stream.hex()})
                    for cut in sorted(cuts):
                        pre = stream[:cut]
                        r = gp.py_call({"proto": pname, "fin": "binary", "fout": "binary", "data": pre.hex(), "mode": "copy"})
                        obs = [("python", r["ok"], r["out"], full_lines, r.get("err", ""))]
                        if cut >= hl:
                            # the form the documentation shows: `with Reader(stream) as r:` - the error must escape the block
                            rw = gp.py_call({"proto": pname, "fin": "binary", "fout": "binary", "data": pre.hex(), "mode": "with_read"})
                            ctx.count("typed_error_kind:python-with", (rw.get("err", "").strip().split(":")[0] or "ok")[:40] if not rw["ok"] else "ACCEPTED")
                            if rw["ok"]:
                                ctx.report("typed:python:accepted-truncated:with-block", "a `with Binary%sReader(...) as r:` block that reads every step "
                                           "finished without an error on a stream cut at byte %d of %d (protocol %s)" % (pname, cut, len(stream), pname),
                                           {"layer": "typed", "reader": "python, context-manager form", "model": gp.pkg.yaml(), "namespace": gp.pkg.namespace,
                                            "protocol": pname, "stream_hex": stream.hex(), "cut": cut})
                        if r.get("hang"):
                            ctx.report("typed:python:hang", "python reader neither completed nor reported an error (no answer within the "
                                       "runner's time limit) on a stream cut at byte %d of %d (protocol %s)" % (cut, len(stream), pname),
                                       {"layer": "typed", "reader": "python", "model": gp.pkg.yaml(), "namespace": gp.pkg.namespace,
                                        "protocol": pname, "stream_hex": stream.hex(), "cut": cut})
                        if cpp and cfull is not None and (cut % 2 == 0 or len(cuts) < 40):
                            c = gp.cpp_call(pname, "binary", "ndjson", pre)
                            obs.append(("c++", c["ok"], c["out"].decode(errors="replace").split("\n"), cfull, c["err"]))
                        ctx.count("typed_cut_region", "header" if cut < hl else "body")
                        for lang, okk, lines, ref, err in obs:
                            if lang == "python":
                                delivered = [lines]
                                is_prefix = ref.startswith(lines)
                            else:
                                delivered = [x for x in lines if x]
                                is_prefix = delivered == [x for x in ref if x][:len(delivered)]
                            ctx.case(("typed-cut", lang, pname, pre), sample={"layer": "typed", "reader": lang, "protocol": pname,
                                     "cut": cut, "of": len(stream), "reported_error": not okk, "values_delivered": max(0, len(delivered) - 1)})
                            ctx.count("typed_error_kind:" + lang, (err.strip().split(":")[0] or "ok")[:40] if not okk else "ACCEPTED")
                            crashed = lang == "c++" and not okk and "ERR:" not in err
                            if okk or not is_prefix or crashed:
                                what = ("completed normally" if okk else
                                        ("crashed instead of reporting an error (%s)" % err[-80:] if crashed else
                                         "delivered values that were never written"))
                                ctx.report("typed:%s:%s" % (lang, "accepted-truncated" if okk else ("crash" if crashed else "wrong-values-before-error")),
                                           "%s reader %s on a stream cut at byte %d of %d (protocol %s)" % (lang, what, cut, len(stream), pname),
                                           {"layer": "typed", "reader": lang, "model": gp.pkg.yaml(), "namespace": gp.pkg.namespace,
                                            "protocol": pname, "stream_hex": stream.hex(), "cut": cut, "delivered": delivered[-3:]})
                        if len(hcases) < 400:
                            hcases.append((gp.schemas_[pname], steps, pre))
        # the model refuses every strict prefix too (ties Model.Binary.dec_protocol to what was just observed)
        shards = [hcases[k:k + 100] for k in range(0, len(hcases), 100)]

        def ev(ix_sh):
            ix, sh_ = ix_sh
            items = ["(%s, [%s], %s, false)" % (coq_bytes(s.encode()), "; ".join(ymodel.coq_step(x) for x in st), coq_bytes(d))
                     for s, st, d in sh_]
            body = ("From Coq Require Import List NArith ZArith.\nFrom YV Require Import Base.Wire Model.Binary Model.CodedCases Model.BinaryCases.\n"
                    "Import ListNotations.\nOpen Scope N_scope.\nDefinition cases : list hcase := [\n " + ";\n ".join(items) +
                    "\n].\nDefinition MM := Eval vm_compute in mismatches hcase_ok cases.\nPrint MM.\n")
            return Ctx.parse_nat_list(ctx.coq_eval("tc_%d" % ix, body, timeout=1500), "MM")
        with ThreadPoolExecutor(max_workers=8) as ex:
            for mm in ex.map(ev, enumerate(shards)):
                if mm:
                    raise RuntimeError("Model.Binary.dec_protocol accepts a strict prefix (contradicts theorem truncated_refused?)")
    finally:
        codec.stop_packages(pkgs)


def big_payload_layer(ctx, n_cuts):
    """single values larger than the 64 KiB buffers (array payload, long string) cut inside the payload"""
    import edgepkg
    import genrun
    import ymodel
    pkg, tested = edgepkg.build()
    gp = genrun.GenPackage(ctx, pkg, "edgebig", ndjson=False, cpp=True)
    if not gp.generate():
        raise RuntimeError("yardl rejected the Edge package: " + gp.gen_out[-800:])
    schemas = gp.schemas()
    cpp = gp.cpp_build()
    gp.py_start()
    rng = ctx.rng
    try:
        for pname, big in (("BArr", ("arr", [20000], [("bits", rng.randrange(1, 2 ** 32)) for _ in range(20000)])),
                           ("BStr", ("str", [97 + (i % 26) for i in range(70000)]))):
            steps = dict(pkg.protocols)[pname]
            ws = [("seq", [("int", 1), ("int", 2)]), big, ("int", -5)]
            stream = ymodel.enc_header(schemas[pname]) + ymodel.enc_steps(steps, ws)
            full = gp.py_call({"proto": pname, "fin": "binary", "fout": "binary", "data": stream.hex(), "mode": "copy"})
            if not full["ok"]:
                ctx.report("bigpayload:python:complete-stream-refused", "python refused a complete stream with a >64KiB value: " + full.get("err", ""),
                           {"protocol": pname})
                continue
            n = len(stream)
            cuts = sorted(set([n - 1, n - 2, n - 3, n - 65536, n - 65537, n - 65535, 65536, 65537, 131072] +
                              [rng.randrange(n - 70000, n) for _ in range(n_cuts)] + [rng.randrange(200, n) for _ in range(n_cuts // 2)]))
            for cut in cuts:
                if not (0 < cut < n):
                    continue
                pre = stream[:cut]
                r = gp.py_call({"proto": pname, "fin": "binary", "fout": "binary", "data": pre.hex(), "mode": "copy"})
                res = [("python", r["ok"], full["out"].startswith(r["out"]), r.get("err", ""))]
                if r.get("hang"):
                    ctx.report("bigpayload:python:hang", "python reader neither completed nor reported an error on a stream with a >64 KiB "
                               "value cut at byte %d of %d (protocol %s)" % (cut, n, pname),
                               {"layer": "big-payload", "reader": "python", "protocol": pname, "cut": cut, "of": n})
                if cpp:
                    c = gp.cpp_call(pname, "binary", "binary", pre)
                    res.append(("c++", c["ok"], True, c["err"]))
                for lang, okk, is_prefix, err in res:
                    ctx.case(("big-cut", lang, pname, cut), sample={"layer": "big-payload", "reader": lang, "protocol": pname, "cut": cut,
                                                                    "of": n, "reported_error": not okk})
                    crashed = lang == "c++" and not okk and "ERR:" not in err
                    if okk or not is_prefix or crashed:
                        ctx.report("bigpayload:%s:%s" % (lang, "accepted-truncated" if okk else ("crash" if crashed else "wrong-values-before-error")),
                                   "%s reader %s on a stream with a >64 KiB value cut at byte %d of %d (protocol %s)"
                                   % (lang, "completed normally" if okk else ("crashed" if crashed else "delivered values that were never written"),
                                      cut, n, pname), {"layer": "big-payload", "reader": lang, "protocol": pname, "cut": cut, "of": n})
    finally:
        gp.py_stop()


def ndjson_cuts(ctx, gp, pname, steps, stream):
    """NDJSON streams cut at a line boundary, read by the generated Python reader.  NDJSON has no end marker, so dropping the last items
    of trailing streams cannot be noticed by any reader; but when a dropped line belongs to a step that is NOT a stream, that step's
    value is gone and the reader must report it (Python writes a line for every non-stream step, `null` included)."""
    nd = gp.py_call({"proto": pname, "fin": "binary", "fout": "ndjson", "data": stream.hex(), "mode": "copy"})
    if not nd["ok"]:
        return                      # errors of the NDJSON writer are the business of C02
    lines = [ln for ln in nd["out"].split("\n") if ln]
    stream_steps = {n for n, _t, st in steps if st}
    for k in range(1, len(lines)):
        try:
            dropped = {next(iter(json.loads(ln).keys())) for ln in lines[k:]}
        except Exception:  # noqa: BLE001
            return
        must_fail = bool(dropped - stream_steps)
        r = gp.py_call({"proto": pname, "fin": "ndjson", "fout": "binary", "data": "\n".join(lines[:k]) + "\n", "mode": "copy"})
        ctx.count("ndjson_line_cut", "a non-stream step is lost" if must_fail else "only items of trailing streams are lost")
        ctx.case(("ndjson-cut", pname, k, nd["out"]), sample={"layer": "typed", "reader": "python ndjson", "protocol": pname, "lines_kept": k,
                                                              "of": len(lines), "reported_error": not r["ok"], "a_non_stream_step_is_lost": must_fail})
        # the same stream cut INSIDE line k: no proper prefix of a JSON document line is a document, so the reader must fail
        ln = lines[k]
        for pos in sorted(set(range(max(1, len(ln) - 12), len(ln))) | {len(ln) // 2}):
            rp = gp.py_call({"proto": pname, "fin": "ndjson", "fout": "binary", "data": "\n".join(lines[:k]) + "\n" + ln[:pos], "mode": "copy"})
            ctx.count("ndjson_line_cut", "inside a line")
            if rp["ok"]:
                ctx.report("typed:python-ndjson:accepted-truncated:mid-line", "the python NDJSON reader completed normally on a stream whose line %d "
                           "is cut after %d of %d characters (`%s`, protocol %s)" % (k, pos, len(ln), ln[:pos][-40:], pname),
                           {"layer": "typed", "reader": "python ndjson", "model": gp.pkg.yaml(), "namespace": gp.pkg.namespace, "protocol": pname,
                            "ndjson": nd["out"], "line": k, "characters_kept": pos})
                break
        if must_fail and r["ok"]:
            ctx.report("typed:python-ndjson:accepted-truncated", "the python NDJSON reader completed normally on a stream cut after line %d of %d "
                       "although the lines of the step(s) %s were lost (protocol %s)" % (k, len(lines), sorted(dropped - stream_steps), pname),
                       {"layer": "typed", "reader": "python ndjson", "model": gp.pkg.yaml(), "namespace": gp.pkg.namespace, "protocol": pname,
                        "ndjson": nd["out"], "lines_kept": k, "lost_steps": sorted(dropped - stream_steps)})


def crafted_ndjson_cuts(ctx):
    """a protocol whose steps after the first are streams and nullable scalars: the shape in which a lost line is easiest to overlook"""
    import genrun
    import ymodel
    from ymodel import T, prim, Package
    pkg = Package("Ndc")
    opt = T("opt", "string?", e=prim("string"))
    un = T("union", "[null, int32, string]", has_null=True, cases=[prim("int32"), prim("string")], tags=["int32", "string"])
    steps = [("h", prim("int32"), False), ("s", prim("int32"), True), ("c", opt, False), ("t", prim("float64"), True), ("u", un, False)]
    pkg.protocols.append(("Pn", steps))
    steps_m = [("h", prim("int32"), False), ("s", prim("int32"), True)]        # the stream is the last step: nothing after it can complain
    pkg.protocols.append(("Pm", steps_m))
    gp = genrun.GenPackage(ctx, pkg, "ndcut", ndjson=False, cpp=False)
    if not gp.generate():
        raise RuntimeError("yardl rejected the NDJSON-cut package: " + gp.gen_out[-800:])
    gp.schemas_ = gp.schemas()
    gp.py_start()
    try:
        S = lambda s_: ("str", list(s_.encode()))
        for c, u in ((("some", S("note")), ("case", 0, ("int", 7))), (("none",), ("none",)), (("some", S("")), ("case", 1, S("x")))):
            ws = [("int", 5), [[("int", 1234), ("int", 2)], [("int", 98765)]], c, [[("bits", 0x40934A4584F4C6E7)]], u]
            try:
                stream = ymodel.enc_header(gp.schemas_["Pn"]) + ymodel.enc_steps(steps, ws)
            except Exception:  # noqa: BLE001
                ws = ymodel.gen_writes(ctx.rng, steps, finite=True, size=2, max_items=3)
                stream = ymodel.enc_header(gp.schemas_["Pn"]) + ymodel.enc_steps(steps, ws)
            ndjson_cuts(ctx, gp, "Pn", steps, stream)
        ws_m = [("int", 5), [[("int", 1234), ("int", 98765)], [("int", 4321)]]]
        ndjson_cuts(ctx, gp, "Pm", steps_m, ymodel.enc_header(gp.schemas_["Pm"]) + ymodel.enc_steps(steps_m, ws_m))
    finally:
        gp.py_stop()


def run(ctx):
    ctx.build_repo(need_hook=True)
    ok, failing, log = ctx.coq_props("C16")
    ctx.coverage["trusted_base"] = TRUSTED
    ctx.coverage["rule"] = ("reader scripts (byte, varint32/64, fixed 1/2/4/8, raw bytes) with edge integers, encoded, cut at "
                            "EVERY prefix length (plus every multiple of the buffer size), run on the real CodedInputStream for "
                            "several buffer sizes; non-trivial = at least one operation; distinct by (bufsize, input, script)")
    if not ok:
        ctx.report("proof:" + str(failing), "theorem/dependency no longer checks: %s" % failing,
                   {"broken": failing, "log": log[-3000:]}, no_input=True)
    quick = ctx.tier == "quick"
    cpp_reader_layer(ctx, 40 if quick else 400, [1, 2, 3, 4, 5, 7, 8, 10, 11, 16, 17, 64])
    py_reader_layer(ctx, 30 if quick else 300, [8, 9, 10, 11, 16, 17, 64])
    typed_layer(ctx, 1 if quick else 5, 2 if quick else 5, 60 if quick else 400)
    big_payload_layer(ctx, 16 if quick else 120)


def replay(ctx, path):
    r = json.load(open(path))["replay"]
    driver = cc.build_driver(ctx, asan=True)
    case = (r["bufsize"], r["input"], [tuple(o) for o in r["ops"]])
    obs, n_ok, err = cc.run_reader_cases(ctx, driver, [case])
    print("observed:", obs, err)
    if obs is None:
        ctx.report("cpp-coded-in:crash", "crash on replay", r)
        return
    out = ctx.coq_eval("replay", cc.reader_cases_v([case], obs))
    if Ctx.parse_nat_list(out, "MA"):
        ctx.report("cpp-coded-in:wrong-result", "replayed case still disagrees with the abstract reader: %s" % obs, r)
