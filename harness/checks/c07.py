"""C07 - protocol step order is enforced by generated readers and writers."""
import itertools
import json
import os
import re
import subprocess
from concurrent.futures import ThreadPoolExecutor

import genrun
from vlib import Ctx, VERIF, PY_VT, sh
from ymodel import Package, prim

LEVEL = "proof"
TRUSTED = [
    "Coq 8.16.1 kernel + vm_compute; theorems in coq/Props/C07.v (closed under the global context)",
    "Model/ProtoSM.v: hand-written machines for the generated C++ / Python / MATLAB base classes as functions of the protocol shape, "
    "tied to the code by driving the real generated Python and C++ base classes (stub implementations) with ALL call sequences up to a "
    "length bound for ALL shapes up to a length bound, and by parsing the guards/assignments out of the generated MATLAB text",
    "MATLAB is never executed by MATLAB/Octave (not in the sandbox): the public methods of the generated base classes are run by "
    "the translator harness/lib/matlabsm.py (interpreter for exactly the statement forms the generator emits, refuses anything else) "
    "on call histories incl. empty batches, and their guard tables are parsed from the text; harness; g++; CPython",
]
LET = "abcdefghijklmnopqrstuvwxyz"


def step_name(i):
    return "s" + LET[i // 26] + LET[i % 26]


def cap(name):
    return name[0].upper() + name[1:]


def build_package(shapes):
    pkg = Package("Smx")
    for k, shp in enumerate(shapes):
        pkg.protocols.append(("P%s" % LET[k // 26] + LET[k % 26] if False else "Q" + LET[k // 26] + LET[k % 26],
                              [(step_name(i), prim("int32"), s) for i, s in enumerate(shp)]))
    return pkg


def cpp_driver(pkg):
    ns = "smx"
    out = ['#include <deque>', '#include <iostream>', '#include <sstream>', '#include <string>', '#include "generated/protocols.h"', ""]
    disp_w, disp_r = [], []
    for pname, steps in pkg.protocols:
        w = ["class SW_%s : public %s::%sWriterBase {" % (pname, ns, pname), " public:"]
        r = ["class SR_%s : public %s::%sReaderBase {" % (pname, ns, pname), " public:", "  std::deque<bool> ans;",
             "  bool next() { bool m = ans.front(); ans.pop_front(); return m; }"]
        for i, (sn, t, st) in enumerate(steps):
            C = cap(sn)
            if st:
                w += ["  void Write%sImpl(int32_t const&) override {}" % C, "  void End%sImpl() override {}" % C]
                r += ["  bool Read%sImpl(int32_t& v) override { v = 0; return next(); }" % C,
                      "  bool Read%sImpl(std::vector<int32_t>& vs) override { vs.resize(1); return next(); }" % C]
            else:
                w += ["  void Write%sImpl(int32_t const&) override {}" % C]
                r += ["  void Read%sImpl(int32_t& v) override { v = 0; }" % C]
        w += ["  void CloseImpl() override {}", "};"]
        r += ["  void CloseImpl() override {}", "};"]
        out += w + r
        cw = ['    if (proto == "%s" && kind == "w") { SW_%s x; std::string t; while (ls >> t) { int i = t.size() > 1 ? std::stoi(t.substr(1)) : 0;'
              % (pname, pname), "      switch (t[0]) {"]
        cr = ['    if (proto == "%s" && kind == "r") { SR_%s x; std::string t; while (ls >> t) { bool more = t.find(":1") != std::string::npos; '
              'int i = t.size() > 1 ? std::stoi(t.substr(1)) : 0; int32_t v; std::vector<int32_t> vs; vs.reserve(4);' % (pname, pname),
              "      switch (t[0]) {"]
        for i, (sn, t, st) in enumerate(steps):
            C = cap(sn)
            if st:
                cw += ["        case 'I': if (i == %d) { x.Write%s(1); goto okw_%s; } break;" % (i, C, pname)]
                cw += ["        case 'B': if (i == %d) { x.Write%s(std::vector<int32_t>{1, 2}); goto okw_%s; } break;" % (i, C, pname)]
                cw += ["        case 'E': if (i == %d) { x.End%s(); goto okw_%s; } break;" % (i, C, pname)]
                cr += ["        case 'I': if (i == %d) { x.ans.clear(); x.ans.push_back(more); x.Read%s(v); goto okr_%s; } break;" % (i, C, pname)]
                cr += ["        case 'B': if (i == %d) { x.ans.clear(); x.ans.push_back(more); x.Read%s(vs); goto okr_%s; } break;" % (i, C, pname)]
            else:
                cw += ["        case 'V': if (i == %d) { x.Write%s(1); goto okw_%s; } break;" % (i, C, pname)]
                cr += ["        case 'V': if (i == %d) { x.Read%s(v); goto okr_%s; } break;" % (i, C, pname)]
        # several `case` labels with the same character are not allowed: build if-chains instead
        out_w, out_r = [], []
        for lines, dst, lab in ((cw, out_w, "okw"), (cr, out_r, "okr")):
            dst.append(lines[0])
            for ln in lines[2:]:
                m = re.match(r"\s*case '(.)': (.*) break;", ln)
                dst.append("      if (t[0] == '%s') { %s }" % (m.group(1), m.group(2).replace("goto %s_%s;" % (lab, pname), "n++; continue;")))
            dst.append("      if (t[0] == 'C') { x.Close(); n++; continue; }")
            dst.append('      throw std::runtime_error("no such call");')
            dst.append("    } std::cout << \"1 \" << n << std::endl; continue; }")
        disp_w += out_w
        disp_r += out_r
    out += ["int main() {", "  std::string line;", "  while (std::getline(std::cin, line)) {", "    std::istringstream ls(line);",
            "    std::string proto, kind; ls >> proto >> kind; int n = 0;", "    try {"]
    out += ["  " + x for x in disp_w + disp_r]
    out += ['      std::cout << "? 0" << std::endl;', "    } catch (std::exception const&) { std::cout << \"0 \" << n << std::endl; }", "  }", "  return 0;", "}"]
    return "\n".join(out) + "\n"


def seqs(alphabet, maxlen, rng, cap_n):
    out = []
    for L in range(1, maxlen + 1):
        allq = list(itertools.product(alphabet, repeat=L))
        if len(allq) > cap_n:
            allq = rng.sample(allq, cap_n)
        out += allq
    return out


def valid_seq_w(shp, rng):
    s = []
    for i, st in enumerate(shp):
        if st:
            s += [("I", i)] * rng.randint(0, 2) + [("B", i)] * rng.randint(0, 1) + [("E", i)]
        else:
            s.append(("V", i))
    return s + [("C", 0)]


def run(ctx):
    ctx.build_repo(need_hook=True)
    ok, failing, log = ctx.coq_props("C07")
    ctx.coverage["trusted_base"] = TRUSTED
    ctx.coverage["rule"] = ("ALL protocol shapes (stream / non-stream patterns) up to 3 steps plus random longer ones; for each, ALL call "
                            "sequences up to a length bound over the API alphabet (write / batch write / end / read / batch read with both "
                            "answers of the underlying stream / get iterable / exhaust iterable / close) plus valid complete sequences with "
                            "a second close, driven on the real generated Python and C++ base classes with stub implementations; the "
                            "generated MATLAB base classes interpreted from their text on the same kind of histories (stream writes "
                            "with empty and non-empty batches, has/read with both answers) and their guard tables parsed; accept/reject (and end markers written) compared with "
                            "Model.ProtoSM inside Coq; non-trivial = at least 2 calls; distinct by (machine, shape, calls)")
    if not ok:
        ctx.report("proof:" + str(failing), "theorem/dependency no longer checks: %s" % failing,
                   {"broken": failing, "log": log[-3000:]}, no_input=True)
    stream_surface_probe(ctx)
    quick = ctx.tier == "quick"
    rng = ctx.rng
    shapes = [tuple(s) for n in (1, 2, 3) for s in itertools.product([False, True], repeat=n)]
    for _ in range(4 if quick else 12):
        shapes.append(tuple(rng.random() < 0.5 for _ in range(rng.randint(4, 7))))
    pkg = build_package(shapes)
    gp = genrun.GenPackage(ctx, pkg, "sm", ndjson=False, cpp=True,
                           extra_yaml="matlab:\n  outputDir: ../matlab\n")
    if not gp.generate():
        raise RuntimeError("yardl rejected the state-machine package: " + gp.gen_out[-1500:])
    concrete_with_layer(ctx, gp, pkg, shapes)
    cdir = os.path.join(gp.dir, "cpp")
    open(os.path.join(cdir, "smdriver.cc"), "w").write(cpp_driver(pkg))
    rc, o, e = sh(["g++", "-std=c++17", "-O0", "-w", "-I", genrun.SHIMS, "-I", "generated", "smdriver.cc", "generated/protocols.cc",
                   "generated/types.cc", "-o", "smdriver"], cwd=cdir, timeout=900)
    if rc != 0:
        raise RuntimeError("state machine driver does not compile against the generated C++:\n" + e[-3000:])
    maxlen = 4 if quick else 6
    capn = 150 if quick else 1500
    cases = []   # (machine, shape, calls(list of tuples), proto)
    for (pname, steps), shp in zip(pkg.protocols, shapes):
        n = len(shp)
        wa = [("C", 0)] + [x for i in range(n) for x in ([("I", i), ("B", i), ("E", i)] if shp[i] else [("V", i)])]
        ra = [("C", 0)] + [x for i in range(n) for x in ([("I", i, 0), ("I", i, 1), ("B", i, 0), ("B", i, 1)] if shp[i] else [("V", i)])]
        pwa = [("C", 0)] + [(("S", i) if shp[i] else ("V", i)) for i in range(n)]
        pra = [("C", 0)] + [x for i in range(n) for x in ([("G", i), ("X", i), ("A", i)] if shp[i] else [("V", i)])]
        small = n <= 3
        for q in seqs(wa, maxlen if small else 3, rng, capn) + [tuple(valid_seq_w(shp, rng) + [("C", 0)]) for _ in range(3)]:
            cases.append(("cppw", shp, list(q), pname))
        for q in seqs(ra, maxlen if small else 3, rng, capn):
            cases.append(("cppr", shp, list(q), pname))
        for q in seqs(pwa, maxlen + 1 if small else 4, rng, capn):
            cases.append(("pyw", shp, list(q), pname))
        # valid python writer sequences followed by one and two closes
        v = [(("S", i) if s else ("V", i)) for i, s in enumerate(shp)]
        cases.append(("pyw", shp, v + [("C", 0)], pname))
        cases.append(("pyw", shp, v + [("C", 0), ("C", 0)], pname))
        for q in seqs(pra, maxlen + 1 if small else 4, rng, capn):
            # an iterable can only be exhausted after it was obtained (and once)
            live, okq = set(), True
            for c in q:
                if c[0] == "G":
                    live.add(c[1])
                elif c[0] in ("X", "A"):
                    if c[1] not in live:
                        okq = False
                        break
                    live.discard(c[1])
            if okq:
                cases.append(("pyr", shp, list(q), pname))
        # MATLAB: the generated text is run by the translator harness/lib/matlabsm.py; a stream write comes with a non-empty (I)
        # and with an empty (Z) batch
        mwa = [("C", 0)] + [x for i in range(n) for x in ([("I", i), ("Z", i), ("E", i)] if shp[i] else [("V", i)])]
        mra = [("C", 0)] + [x for i in range(n) for x in ([("H", i, 0), ("H", i, 1), ("R", i)] if shp[i] else [("V", i)])]
        for q in seqs(mwa, maxlen if small else 3, rng, capn) + [tuple(valid_seq_w(shp, rng) + [("C", 0)]) for _ in range(2)]:
            cases.append(("matw", shp, [(("I", c[1]) if c[0] == "B" else c) for c in q], pname))
        for q in seqs(mra, maxlen if small else 3, rng, capn):
            cases.append(("matr", shp, list(q), pname))
    # ---- run C++
    cpp_in, cpp_idx = [], []
    for k, (m, shp, q, pname) in enumerate(cases):
        if m in ("cppw", "cppr"):
            toks = []
            for c in q:
                if c[0] == "C":
                    toks.append("C")
                elif len(c) == 3:
                    toks.append("%s%d:%d" % (c[0], c[1], c[2]))
                else:
                    toks.append("%s%d" % (c[0], c[1]))
            cpp_in.append("%s %s %s" % (pname, "w" if m == "cppw" else "r", " ".join(toks)))
            cpp_idx.append(k)
    rc, o, e = sh([os.path.join(cdir, "smdriver")], input="\n".join(cpp_in) + "\n", timeout=600)
    outs = o.split("\n")
    if rc != 0 or len(outs) < len(cpp_in):
        raise RuntimeError("C++ state machine driver failed: rc=%s %s" % (rc, e[-500:]))
    observed = {}
    for k, ln in zip(cpp_idx, outs):
        observed[k] = (ln.split()[0] == "1", 0)
    # ---- run Python
    py = subprocess.Popen([PY_VT, os.path.join(VERIF, "harness/py/sm_runner.py"), os.path.join(gp.dir, "python"), "smx"],
                          stdin=subprocess.PIPE, stdout=subprocess.PIPE, stderr=subprocess.PIPE, text=True)
    py_cases = [(k, c) for k, c in enumerate(cases) if c[0] in ("pyw", "pyr")]
    inp = "\n".join(json.dumps({"proto": c[3], "kind": "w" if c[0] == "pyw" else "r", "calls": [list(x) for x in c[2]]})
                    for _, c in py_cases) + "\n"
    po, pe = py.communicate(inp, timeout=900)
    plines = po.strip().split("\n")
    if len(plines) < len(py_cases):
        raise RuntimeError("python state machine runner failed: " + pe[-1500:])
    for (k, c), ln in zip(py_cases, plines):
        r = json.loads(ln)
        observed[k] = (r["accepted"], r["ends"])

    # ---- run the MATLAB text
    import matlabsm
    mdir0 = os.path.join(gp.dir, "matlab", "+smx")
    mtext, mat_unreadable = {}, set()
    for k, (m, shp, q, pname) in enumerate(cases):
        if m not in ("matw", "matr"):
            continue
        steps = dict(pkg.protocols)[pname]
        key = (pname, m)
        if key in mat_unreadable:
            continue
        try:
            if key not in mtext:
                mtext[key] = open(os.path.join(mdir0, pname + ("WriterBase.m" if m == "matw" else "ReaderBase.m"))).read()
            mach = matlabsm.Machine(mtext[key])
            calls = []
            for c in q:
                sn = steps[c[1]][0] if c[0] != "C" else None
                if c[0] == "C":
                    calls.append(("close", False, None))
                elif m == "matw":
                    calls.append(({"V": "write_", "I": "write_", "Z": "write_", "E": "end_"}[c[0]] + sn, c[0] == "Z", None))
                elif c[0] == "H":
                    calls.append(("has_" + sn, False, {"has_%s_" % sn: bool(c[2])}))
                else:
                    calls.append(("read_" + sn, False, None))
            observed[k] = (mach.run(calls), 0)
        except matlabsm.MatlabShapeError as ex:
            mat_unreadable.add(key)
            ctx.report("matlab-text-unreadable:" + m, "the generated MATLAB %s base class of protocol %s has a statement the translator "
                       "harness/lib/matlabsm.py does not know: %s" % ("writer" if m == "matw" else "reader", pname, ex),
                       {"protocol": pname, "shape": list(shp), "error": str(ex),
                        "broken": "translation of the generated MATLAB text (Model.ProtoSM.mat%s_step not tied)" % m[3]}, no_input=True)
    cases = [c for k, c in enumerate(cases) if k in observed]
    observed = {i: observed[k] for i, k in enumerate(sorted(observed))}

    # ---- Coq comparison
    def coq_case(k):
        m, shp, q, pname = cases[k]
        shs = "[" + "; ".join("true" if s else "false" for s in shp) + "]"
        acc, ends = observed[k]
        a = "true" if acc else "false"
        if m == "cppw":
            cs = "; ".join({"V": "WVal %d", "I": "WItem %d", "B": "WItem %d", "E": "WEnd %d"}[c[0]] % c[1] if c[0] != "C" else "WClose" for c in q)
            return "CppW %s [%s] %s" % (shs, cs, a)
        if m == "cppr":
            def rc_(c):
                if c[0] == "C":
                    return "RClose"
                if c[0] == "V":
                    return "RVal %d" % c[1]
                return "%s %d %s" % ("RItem" if c[0] == "I" else "RBatch", c[1], "true" if c[2] else "false")
            return "CppR %s [%s] %s" % (shs, "; ".join(rc_(c) for c in q), a)
        if m == "pyw":
            cs = "; ".join(("PWClose" if c[0] == "C" else ("PWVal %d" if c[0] == "V" else "PWStream %d") % c[1]) for c in q)
            return "PyW %s [%s] %s %d" % (shs, cs, a, ends)
        if m == "matw":
            cs = "; ".join({"V": "WVal %d", "I": "WItem %d", "Z": "WItem %d", "E": "WEnd %d"}[c[0]] % c[1] if c[0] != "C" else "WClose" for c in q)
            return "MatW %s [%s] %s" % (shs, cs, a)
        if m == "matr":
            def mc_(c):
                if c[0] == "C":
                    return "MClose"
                if c[0] == "H":
                    return "MHas %d %s" % (c[1], "true" if c[2] else "false")
                return ("MVal %d" if c[0] == "V" else "MRead %d") % c[1]
            return "MatR %s [%s] %s" % (shs, "; ".join(mc_(c) for c in q), a)
        cs = "; ".join(("PRClose" if c[0] == "C" else {"V": "PRVal %d", "G": "PRGet %d", "X": "PRExhaust %d", "A": "PRAbandon %d"}[c[0]] % c[1]) for c in q)
        return "PyR %s [%s] %s" % (shs, cs, a)
    idxs = list(range(len(cases)))
    shards = [idxs[i:i + 500] for i in range(0, len(idxs), 500)]

    def ev(sh_):
        body = ("From Coq Require Import List Arith.\nImport ListNotations.\nFrom YV Require Import Model.ProtoSM Model.ProtoSMCases.\n"
                "Definition cases : list smcase := [\n " + ";\n ".join(coq_case(k) for k in sh_) + "\n].\n"
                "Definition MM := Eval vm_compute in sm_mismatches 0 cases.\nPrint MM.\n")
        return [sh_[j] for j in Ctx.parse_nat_list(ctx.coq_eval("sm_%d" % sh_[0], body), "MM")]
    with ThreadPoolExecutor(max_workers=10) as ex:
        mism = [k for r in ex.map(ev, shards) for k in r]
    for k, (m, shp, q, pname) in enumerate(cases):
        ctx.count("machine", m)
        ctx.count("shape_len", str(len(shp)))
        ctx.count("accepted:" + m, str(observed[k][0]))
        ctx.case((m, shp, tuple(q)), nontrivial=len(q) >= 2,
                 sample={"machine": m, "shape": ["stream" if s else "value" for s in shp], "calls": [list(c) for c in q],
                         "accepted": observed[k][0], "end_markers": observed[k][1]})
    # model-free oracle: an accepted Python writer sequence never writes more end-of-stream markers than it has stream steps
    for k, (m, shp, q, pname) in enumerate(cases):
        if m == "pyw" and observed[k][0] and observed[k][1] > sum(1 for s in shp if s):
            ctx.report("python-writer-double-close",
                       "generated Python writer wrote %d end-of-stream markers for a protocol with %d stream steps: shape %s calls %s "
                       "(a second close() after a trailing stream ends the stream again; the byte stream is then not a valid stream)"
                       % (observed[k][1], sum(1 for s in shp if s), ["S" if s else "V" for s in shp], q),
                       {"machine": m, "shape": list(shp), "calls": [list(c) for c in q], "end_markers": observed[k][1]})
    for k in mism:
        m, shp, q, pname = cases[k]
        acc, ends = observed[k]
        # property-level judgement (no model): is this sequence in order?  use the structural spec for writers
        key = "sm-mismatch:%s" % m
        if m == "pyw" and acc and q.count(("C", 0)) >= 2:
            key = "python-writer-double-close"
        ctx.report(key, "generated %s state machine and Model.ProtoSM disagree: shape %s calls %s -> accepted=%s ends=%d"
                   % (m, ["S" if s else "V" for s in shp], q, acc, ends),
                   {"machine": m, "shape": list(shp), "calls": [list(c) for c in q], "accepted": acc, "end_markers": ends,
                    "broken": "correspondence Model.ProtoSM vs generated base class"})
    overflow_probe(ctx)
    # ---- MATLAB text
    mdir = os.path.join(gp.dir, "matlab", "+smx")
    rows = []
    for (pname, steps), shp in zip(pkg.protocols, shapes):
        for kind, fn, tab in (("w", pname + "WriterBase.m", "mat_writer_table"), ("r", pname + "ReaderBase.m", "mat_reader_table")):
            text = open(os.path.join(mdir, fn)).read()
            table = []
            for i, (sn, t, st) in enumerate(steps):
                def guard_next(meth):
                    mm = re.search(r"function [^\n]*\b%s\(self[^\n]*\n(.*?)\n    end\n" % meth, text, re.S)
                    body = mm.group(1)
                    g = re.search(r"if self\.state_ ~= (\d+)", body)
                    nx = re.findall(r"self\.state_ = (\d+);", body)
                    return int(g.group(1)), (int(nx[-1]) if nx else int(g.group(1)))
                if kind == "w":
                    if st:
                        table += [(1, i) + guard_next("write_" + sn), (2, i) + guard_next("end_" + sn)]
                    else:
                        table.append((0, i) + guard_next("write_" + sn))
                else:
                    if st:
                        table += [(5, i) + guard_next("has_" + sn), (6, i) + guard_next("read_" + sn)]
                    else:
                        table.append((4, i) + guard_next("read_" + sn))
            mm = re.search(r"function close\(self\)\n(.*?)\n    end\n", text, re.S)
            g = re.search(r"self\.state_ ~= (\d+)", mm.group(1))
            table.append((3, 0, int(g.group(1)), int(g.group(1))))
            rows.append((tab, shp, table, pname, kind))
            ctx.case(("matlab", kind, shp), sample={"machine": "matlab-" + kind, "shape": ["stream" if s else "value" for s in shp],
                                                    "parsed_table": table})
    body = ("From Coq Require Import List Arith.\nImport ListNotations.\nFrom YV Require Import Model.ProtoSM Model.ProtoSMCases.\n"
            "Definition R := Eval vm_compute in [\n " + ";\n ".join(
                "table_eqb (%s [%s]) [%s]" % (tab, "; ".join("true" if s else "false" for s in shp),
                                              "; ".join("(%d, %d, %d, %d)" % r for r in table)) for tab, shp, table, _, _ in rows) +
            "\n].\nPrint R.\n")
    out = " ".join(ctx.coq_eval("mat", body).split())
    vals = re.search(r"R = \[(.*?)\]", out).group(1).split(";")
    for v, (tab, shp, table, pname, kind) in zip(vals, rows):
        if v.strip() != "true":
            ctx.report("matlab-table:%s" % kind, "guards/assignments parsed from generated MATLAB %s base class of shape %s differ from "
                       "Model.ProtoSMCases.%s" % ("writer" if kind == "w" else "reader", ["S" if s else "V" for s in shp], tab),
                       {"shape": list(shp), "parsed": table, "broken": "correspondence " + tab}, no_input=True)


SURFACE_ITEMS = [
    "Rcf", "int32", "'int32?'", "[int32, string]", "[null, int32, string]", "!union {ca: int32, cb: string}", "!union {cn: null, ca: int32, cb: string}",
    "!vector {items: int32}", "!vector {items: !union {ca: int32, cb: string}}", "!vector {items: int32, length: 2}", "'string*'",
    "!array {items: float32}", "!array {items: !union {fa: int32, fb: float32}, dimensions: 2}", "'float32[]'", "'float32[2, 3]'",
    "!map {keys: string, values: !union {ca: int32, cb: string}}", "'string->int32'", "Rs", "Es", "'Gs<int32>'",
    "!generic {name: Gs, args: [!union {ca: int32, cb: string}]}", "'Rs?'", "As", "Au",
]


def stream_surface_probe(ctx):
    """Whether a step is a stream is read from the MODEL SOURCE here (the `!stream` tag), for item types of every constructor and
    spelling, and compared with the API the three generators emit: an end-of-stream call exists exactly for the stream steps."""
    defs = ("Rcf: !record\n  fields:\n    a: int32\n  computedFields:\n    c: a + 1\n\nRs: !record\n  fields:\n    a: int32\n\nEs: !enum\n  values: [p, q]\n\nGs<T>: !record\n  fields:\n    v: T\n\n"
            "As: !vector\n  items: !union {ca: int32, cb: string}\n\nAu: !union {ra: int32, rb: Rs}\n\n")
    lines, want = ["Pz: !protocol", "  sequence:"], {}
    for i, it in enumerate(SURFACE_ITEMS):
        lines += ["    %s: !stream" % step_name(2 * i), "      items: %s" % it, "    %s: %s" % (step_name(2 * i + 1), it)]
        want[step_name(2 * i)], want[step_name(2 * i + 1)] = True, False
    pkg = Package("Sfx")
    gp = genrun.GenPackage(ctx, pkg, "surface", ndjson=False, cpp=True, extra_yaml="matlab:\n  outputDir: ../matlab\n",
                           model_text=defs + "\n".join(lines) + "\n")
    if not gp.generate():
        raise RuntimeError("yardl rejected the stream-surface package: " + gp.gen_out[-1500:])
    py = open(os.path.join(gp.dir, "python", "sfx", "protocols.py")).read()
    hdr = open(os.path.join(gp.dir, "cpp", "generated", "protocols.h")).read()
    mw = open(os.path.join(gp.dir, "matlab", "+sfx", "PzWriterBase.m")).read()
    mr = open(os.path.join(gp.dir, "matlab", "+sfx", "PzReaderBase.m")).read()
    for st, is_stream in want.items():
        item = SURFACE_ITEMS[(int(LET.index(st[1])) * 26 + LET.index(st[2])) // 2]
        m = re.search(r"def write_%s\(self, value: ([^\n]*)\) -> None:" % st, py)
        if m is None and re.search(r"def write_%s\(self" % st, py) is not None:
            ctx.report("stream-surface-unreadable:python", "the signature of write_%s in the generated Python protocols.py has a form the probe "
                       "does not know" % st, {"step": st, "broken": "translator: stream-ness of a generated Python write method"}, no_input=True)
            continue
        seen = {"python": bool(m and "Iterable[" in m.group(1).split(",")[0]),
                "c++": re.search(r"\bvoid End%s\(\);" % cap(st), hdr) is not None,
                "matlab-writer": re.search(r"function end_%s\(self\)" % st, mw) is not None,
                "matlab-reader": re.search(r"function more = has_%s\(self\)" % st, mr) is not None}
        present = {"python": re.search(r"def write_%s\(self" % st, py) is not None and re.search(r"def read_%s\(self" % st, py) is not None,
                   "c++": re.search(r"\bvoid Write%s\(" % cap(st), hdr) is not None and re.search(r"\bRead%s\(" % cap(st), hdr) is not None,
                   "matlab": re.search(r"function write_%s\(self" % st, mw) is not None and re.search(r"= read_%s\(self" % st, mr) is not None}
        for lang, okp in present.items():
            if not okp:
                ctx.report("step-missing:%s" % lang, "step `%s` (item type `%s`) of the protocol has no write/read method in the generated %s API"
                           % (st, item, lang), {"step": st, "item_type": item, "declared_stream": is_stream, "model": defs + "\n".join(lines) + "\n"})
        ctx.case(("surface", st, item), sample={"machine": "api-surface", "item_type": item, "declared_stream": is_stream, "generated": seen})
        for lang, got in seen.items():
            if got != is_stream:
                ctx.report("stream-surface:%s" % lang, "step `%s` with item type `%s` is %s in the model but the generated %s API treats it as %s"
                           % (st, item, "a stream" if is_stream else "a single value", lang, "a stream" if got else "a single value"),
                           {"step": st, "item_type": item, "declared_stream": is_stream, "generated": seen, "model": defs + "\n".join(lines) + "\n"})


WITH_DRIVER = r"""
import sys, io, json
sys.path.insert(0, sys.argv[1])
import smx
cases = json.loads(sys.argv[2])          # [(protocol, [is_stream, ...])]
out = []
for pname, shape in cases:
    W, R = getattr(smx, "Binary%sWriter" % pname), getattr(smx, "Binary%sReader" % pname)
    names = ["s" + "abcdefghijklmnopqrstuvwxyz"[i // 26] + "abcdefghijklmnopqrstuvwxyz"[i % 26] for i in range(len(shape))]
    b = io.BytesIO()
    with W(b) as w:
        for n, st in zip(names, shape):
            getattr(w, "write_" + n)([1, 2, 3] if st else 7)
    data = b.getvalue()
    def run(k, drain_last):
        # read the first k steps inside a with-block (streams drained, except the last one read when drain_last is False)
        try:
            with R(io.BytesIO(data)) as r:
                for i in range(k):
                    v = getattr(r, "read_" + names[i])()
                    if shape[i] and (drain_last or i < k - 1):
                        for _ in v:
                            pass
            return "ok"
        except Exception as e:
            return type(e).__name__
    n = len(shape)
    for k in range(n + 1):
        out.append([pname, k, True, run(k, True)])
        if k and shape[k - 1]:
            out.append([pname, k, False, run(k, False)])
print(json.dumps(out))
"""


def concrete_with_layer(ctx, gp, pkg, shapes):
    """The concrete generated Python binary readers in the form the documentation shows: leaving the `with` block is the close.
    A complete stream is written, then the first k steps are read inside `with Reader(...) as r:`; leaving the block must raise
    ProtocolError unless every step was read and every stream drained."""
    cases = [(pname, list(shp)) for (pname, _), shp in list(zip(pkg.protocols, shapes))[:14]]
    drv = os.path.join(gp.dir, "with_driver.py")
    open(drv, "w").write(WITH_DRIVER)
    rc, o, e = sh([PY_VT, drv, os.path.join(gp.dir, "python"), json.dumps(cases)], timeout=300)
    if rc != 0:
        ctx.report("python-with-driver-failed", "the concrete generated Python writers/readers could not be driven: %s" % e.strip()[-200:],
                   {"error": e[-1500:], "broken": "driver of the concrete Python readers"}, no_input=True)
        return
    for pname, k, drained, res in json.loads(o):
        shape = dict(cases)[pname]
        complete = k == len(shape) and drained
        ctx.case(("pywith", pname, k, drained), sample={"machine": "python concrete reader in a with-block", "shape": ["stream" if s_ else "value" for s_ in shape],
                                                        "steps_read": k, "last_stream_drained": drained, "outcome": res})
        if complete and res != "ok":
            ctx.report("python-with:complete-history-rejected", "leaving `with Binary%sReader(...)` after reading every step raised %s" % (pname, res),
                       {"protocol": pname, "shape": shape, "steps_read": k, "outcome": res, "model": pkg.yaml()})
        if not complete and res == "ok":
            ctx.report("python-with:incomplete-history-accepted", "leaving `with Binary%sReader(...)` after reading %d of %d steps%s raised nothing: "
                       "closing succeeded although not every step was completed" % (pname, k, len(shape), "" if drained else " (last stream not drained)"),
                       {"protocol": pname, "shape": shape, "steps_read": k, "last_stream_drained": drained, "model": pkg.yaml()})


def overflow_probe(ctx):
    """the witnesses of C07_cpp_{writer,reader}_overflow_refuted on the real generated C++"""
    shapes = [tuple([False] * 128), tuple([False] * 256)]
    pkg = build_package(shapes)
    gp = genrun.GenPackage(ctx, pkg, "smbig", ndjson=False, cpp=True, python=False)
    if not gp.generate():
        raise RuntimeError("yardl rejected the 128/256-step protocols: " + gp.gen_out[-800:])
    cdir = os.path.join(gp.dir, "cpp")
    open(os.path.join(cdir, "smdriver.cc"), "w").write(cpp_driver(pkg))
    rc, o, e = sh(["g++", "-std=c++17", "-O0", "-w", "-I", genrun.SHIMS, "-I", "generated", "smdriver.cc", "generated/protocols.cc",
                   "generated/types.cc", "-o", "smdriver"], cwd=cdir, timeout=900)
    if rc != 0:
        raise RuntimeError("overflow probe does not compile:\n" + e[-2000:])
    (p128, _), (p256, _) = pkg.protocols
    lines = ["%s r %s C" % (p128, " ".join("V%d" % i for i in range(128))),
             "%s r %s V0" % (p128, " ".join("V%d" % i for i in range(128))),
             "%s w %s C" % (p256, " ".join("V%d" % i for i in range(256))),
             "%s w %s V0" % (p256, " ".join("V%d" % i for i in range(256)))]
    rc, o, e = sh([os.path.join(cdir, "smdriver")], input="\n".join(lines) + "\n", timeout=120)
    res = [ln.split()[0] == "1" for ln in o.strip().split("\n")]
    ctx.case(("overflow", tuple(res)), sample={"machine": "cpp overflow probe", "results": res})
    expect = [True, False, True, False]
    if res != expect:
        ctx.report("cpp-state-byte-overflow",
                   "C++ reader with 128 steps / writer with 256 steps: complete in-order sequence + Close accepted=%s/%s, first step "
                   "accepted again=%s/%s (uint8_t state_ wraps)" % (res[0], res[2], res[1], res[3]),
                   {"results": res, "expected": expect})


def replay(ctx, path):
    print(json.dumps(json.load(open(path)), indent=1)[:3000])
