"""C14 - all target languages follow the same serialization plan."""
import json
import os
from concurrent.futures import ThreadPoolExecutor

import codec
import genrun
import plans
import schemamodel as sm
import ymodel
from vlib import Ctx, sh

LEVEL = "proof"
TRUSTED = [
    "Coq 8.16.1 kernel + vm_compute; theorems in coq/Props/C14.v",
    "harness/lib/plans.py: translators from generated code to Model.Binary.ty - Python (binary.py, ndjson.py) through the Python "
    "AST, MATLAB (+binary/*.m) and C++ (binary/protocols.cc + types.h) through a small expression parser and regular expressions; "
    "they refuse constructs they do not know; MATLAB array shapes are reversed (column-major runtime)",
    "the meaning of each runtime serializer class/function (VectorSerializer, WriteVector, ...) is the one Model.Binary gives the "
    "corresponding type constructor: tied for Python and C++ by the codec checks (C01/C03), NOT tied for MATLAB (never executed)",
    "Model/Schema.v structural expansion, tied by C04",
    "Model/CppLayout.v: sizeof/alignof/offsetof of the generated C++ types after the Itanium ABI on x86-64 with libstdc++ "
    "(std::array<T,0> one byte; FixedNDArray = its elements, as in the shim - the real xtensor_fixed is not installed), and the value "
    "of IsTriviallySerializable; tied by a probe compiled with g++ against the generated code (trait, sizeof, offsetof per record) "
    "and by running crafted and random records through generated C++ and Python; that the object bytes of bool, 8-bit integers, "
    "IEEE floats and std::complex are their little-endian encoding is assumed (x86-64)",
]
CFG = ("cpp:\n  sourcesOutputDir: ../out/cpp\n  generateCMakeLists: false\n  generateHDF5: false\npython:\n  outputDir: ../out/python\n"
       "json:\n  outputDir: ../out/json\nmatlab:\n  outputDir: ../out/matlab\n")
BACKENDS = ["python-binary", "python-ndjson", "matlab-binary", "c++-binary"]


LAYOUT_PRIMS = ["bool", "int8", "uint8", "int16", "uint16", "int32", "uint32", "int64", "uint64", "size",
                "float32", "float64", "complexfloat32", "complexfloat64"]


def padding_package(rng=None, n_random=0):
    """records whose in-memory layout has padding (the C++ memcpy fast path must not be taken for them), packed ones (it may),
    zero-length fixed vectors / arrays (they occupy a byte in C++ and none in the stream), and n_random random records over the
    types Model.CppLayout models plus a few it does not (string, vector, optional: the trait must be false)"""
    from ymodel import T, prim, Package
    pkg = Package("Pad")
    d = pkg.defs
    recs = []

    def rec(name, fields):
        d.append((name, "%s: !record\n  fields:\n%s" % (name, "\n".join("    %s: %s" % (n, ymodel.yq(t.spell)) for n, t in fields))))
        r = T("rec", name, name=name, fields=fields)
        recs.append(r)
        return r

    def fixvec(t, n):
        return T("fixvec", "%s*%d" % (t.spell, n), e=t, n=n)

    def fixarr(t, dims):
        return T("fixarr", "%s[%s]" % (t.spell, ", ".join(map(str, dims))), dims=list(dims), e=t)

    def vec(t):
        return T("vec", t.spell + "*", e=t)
    ra = rec("Ra", [("a", prim("int8")), ("b", prim("float32"))])
    rb = rec("Rb", [("a", prim("uint8")), ("b", prim("float64")), ("c", prim("uint8"))])
    rc = rec("Rc", [("a", prim("float32")), ("b", prim("complexfloat64")), ("c", prim("int8"))])
    rd = rec("Rd", [("a", prim("float32")), ("b", prim("float32"))])        # packed: the fast path is legitimate
    re_ = rec("Re", [("x", ra), ("y", prim("uint8"))])
    # zero-length members: sizeof(std::array<T,0>) = 1, no byte in the stream
    rz1 = rec("Rz1", [("a", fixvec(prim("uint8"), 0)), ("b", prim("uint8"))])
    rz2 = rec("Rz2", [("a", prim("int8")), ("b", fixvec(prim("float32"), 0)), ("c", prim("bool"))])
    rz3 = rec("Rz3", [("a", fixarr(prim("uint8"), [2, 0])), ("b", prim("uint8")), ("c", fixvec(rd, 0))])
    rz4 = rec("Rz4", [("a", fixvec(prim("uint8"), 3)), ("b", rz1), ("c", fixarr(prim("int8"), [1, 1]))])
    steps = [("a", vec(ra), False), ("b", rb, True), ("c", vec(rc), False), ("d", vec(rd), False),
             ("e", fixvec(re_, 3), True), ("z1", rz1, False), ("z2", vec(rz2), False), ("z3", rz3, False),
             ("z4", fixvec(rz4, 2), False), ("z5", fixvec(prim("float64"), 0), False),
             # arrays whose elements are records: numpy's aligned structured dtypes have the same padding as the C++ structs
             ("na", T("dynarr", "Ra[]", e=ra), False), ("nb", fixarr(rb, [2]), False), ("nc", T("arr", "Rc[,]", rank=2, e=rc), False),
             ("nd", T("dynarr", "Rd[]", e=rd), False), ("ne", fixarr(re_, [2, 2]), False), ("nz", T("arr", "Rz4[x]", rank=1, e=rz4), False)]
    if rng is not None:
        for i in range(n_random):
            fields = []
            # half of the records draw their scalars from one size class, so that packed layouts are common
            cls = rng.choice([None, ["bool", "int8", "uint8"], ["float32", "complexfloat32"], ["float64", "complexfloat64"]])
            for j in range(rng.randint(1, 5)):
                r_ = rng.random()
                if cls is not None and r_ < 0.8:
                    t = prim(rng.choice(cls))
                    if rng.random() < 0.3:
                        t = fixvec(t, rng.choice([0, 1, 2, 3])) if rng.random() < 0.6 else fixarr(t, [rng.choice([0, 1, 2]), rng.choice([1, 2])])
                elif r_ < 0.55:
                    t = prim(rng.choice(LAYOUT_PRIMS if rng.random() < 0.5 else
                                        ["bool", "int8", "uint8", "float32", "float64", "complexfloat32", "complexfloat64"]))
                elif r_ < 0.7:
                    t = rng.choice(recs)
                elif r_ < 0.82:
                    t = fixvec(prim(rng.choice(LAYOUT_PRIMS)) if rng.random() < 0.7 else rng.choice(recs), rng.choice([0, 1, 2, 3]))
                elif r_ < 0.92:
                    t = fixarr(prim(rng.choice(LAYOUT_PRIMS)), [rng.choice([0, 1, 2, 3]) for _ in range(rng.randint(1, 2))])
                else:
                    t = rng.choice([prim("string"), vec(prim("uint8")), T("opt", "float32?", e=prim("float32"))])
                fields.append(("f%d" % j, t))
            r = rec("Rr%d" % i, fields)
            layout_only = any(t.kind in ("vec", "opt") or (t.kind == "prim" and t.p == "string") for _, t in fields)
            wrap = rng.choice(["plain", "vec", "dynarr", "arr"]) if not layout_only else rng.choice(["plain", "vec"])
            steps.append(("r%d" % i, {"plain": r, "vec": vec(r), "dynarr": T("dynarr", r.spell + "[]", e=r),
                                      "arr": T("arr", r.spell + "[,]", rank=2, e=r)}[wrap], False))
    # nullable unions with several cases, named and inline: the tag byte counts the null case, the case classes of a target
    # language may number their cases differently
    d.append(("Un", "Un: [null, int32, int64]"))
    un = T("union", "Un", has_null=True, cases=[prim("int32"), prim("int64")], tags=["int32", "int64"])
    ui = T("union", "[null, float32, string, uint8]", has_null=True, cases=[prim("float32"), prim("string"), prim("uint8")], tags=["float32", "string", "uint8"])
    steps += [("un", un, False), ("uns", vec(un), False), ("ust", un, True), ("ui", ui, True)]
    pkg.protocols.append(("Ppad", steps))
    pkg.records = recs
    return pkg


def layout_probe(ctx, gp):
    """compile a probe against the generated C++ that prints, per record, the trait, sizeof and every offsetof;
    returns {record name: (trait, sizeof, [offsets])}"""
    ns = gp.pkg.namespace.lower()
    lines = ['#include "generated/binary/protocols.cc"', "#include <cstdio>", "#include <cstddef>",
             "#pragma GCC diagnostic ignored \"-Winvalid-offsetof\"", "int main() {"]
    for r in gp.pkg.records:
        offs = "".join(', (unsigned long)offsetof(%s::%s, %s)' % (ns, r.name, n) for n, _ in r.fields)
        lines.append('  std::printf("%s %%d %%lu%s\\n", (int)yardl::binary::IsTriviallySerializable<%s::%s>::value, '
                     '(unsigned long)sizeof(%s::%s)%s);' % (r.name, " %lu" * len(r.fields), ns, r.name, ns, r.name, offs))
    lines.append("  return 0;\n}")
    cdir = os.path.join(gp.dir, "cpp")
    open(os.path.join(cdir, "probe.cc"), "w").write("\n".join(lines) + "\n")
    rc, o, e = sh(["g++", "-std=c++17", "-O0", "-w", "-I", genrun.SHIMS, "-I", "generated", "probe.cc", "generated/types.cc",
                   "generated/protocols.cc", "-o", "probe"], cwd=cdir, timeout=900)
    if rc != 0:
        return None, e[-2000:]
    rc, o, e = sh([os.path.join(cdir, "probe")], cwd=cdir, timeout=60)
    out = {}
    for ln in o.split("\n"):
        t = ln.split()
        if t:
            out[t[0]] = (int(t[1]), int(t[2]), [int(x) for x in t[3:]])
    return out, ""


def numpy_layout_layer(ctx, gp):
    """Model.PyTyped.np_layout / py_fast against numpy: itemsize, alignment and packed itemsize of the aligned structured dtype
    the generated Python builds for every record of the crafted package (get_dtype), and whether the fast path applies"""
    from vlib import PY_VT
    names = [r.name for r in gp.pkg.records]
    prog = ("import sys, json\nsys.path.insert(0, %r)\nimport %s as m\nfrom numpy.lib import recfunctions\nout = {}\n"
            "for n in %r:\n    dt = m.get_dtype(getattr(m, n))\n    pk = recfunctions.repack_fields(dt, align=False, recurse=True)\n"
            "    out[n] = [dt.itemsize, dt.alignment, pk.itemsize, dt.hasobject]\nprint(json.dumps(out))\n"
            % (os.path.join(gp.dir, "python"), gp.module, names))
    open(os.path.join(gp.dir, "npprobe.py"), "w").write(prog)
    rc, o, e = sh([PY_VT, os.path.join(gp.dir, "npprobe.py")], timeout=120)
    if rc != 0:
        ctx.report("numpy-probe", "the numpy dtype probe failed on the generated Python package: " + e[-300:],
                   {"model": gp.pkg.yaml(), "error": e[-1500:], "broken": "correspondence Model.PyTyped.np_layout vs numpy"}, no_input=True)
        return
    probe = json.loads(o)
    items = []
    for r in gp.pkg.records:
        sz, al, pk, hasobj = probe[r.name]
        items.append("(%s, %d, %d, %d, %s)" % (r.coq(), sz, al, pk, "true" if hasobj else "false"))
    body = ("From Coq Require Import List NArith ZArith Bool.\nImport ListNotations.\nOpen Scope N_scope.\n"
            "From YV Require Import Base.Wire Model.Binary Model.CodedCpp Model.CodedPy Model.PyTyped Model.PlanCases.\n"
            "Definition cases : list npcase := [\n " + ";\n ".join(items) + "\n].\n"
            "Definition ST := Eval vm_compute in map npcase_status cases.\nPrint ST.\n")
    st = Ctx.parse_nat_list(ctx.coq_eval("nplayout", body, timeout=900), "ST")
    for r, s_ in zip(gp.pkg.records, st):
        sz, al, pk, hasobj = probe[r.name]
        ctx.case(("np-layout", r.name, r.coq()), sample={"record": r.name, "numpy_itemsize": sz, "numpy_alignment": al, "packed_itemsize": pk,
                                                          "has_object_fields": bool(hasobj), "status": s_})
        ctx.count("numpy_layout_agreement", {0: "itemsize+alignment+packed size", 1: "not modelled (object / non-numeric member)"}.get(s_, "DIFFERS"))
        ctx.count("numpy_padding", "padded" if sz != pk else "no padding")
        if s_ >= 2:
            ctx.report("numpy-layout-differs:%d" % s_, "Model.PyTyped.np_layout and numpy disagree on the aligned dtype of record %s %s: numpy says "
                       "itemsize=%d alignment=%d packed=%d" % (r.name, [(n, t.spell) for n, t in r.fields], sz, al, pk),
                       {"model": gp.pkg.yaml(), "record": r.name, "numpy": {"itemsize": sz, "alignment": al, "packed": pk},
                        "broken": "correspondence Model.PyTyped.np_layout vs numpy (theorem C14_python_array_fast_path_sound no longer "
                                  "about the code)"}, no_input=True)


def layout_layer(ctx, gp):
    """Model.CppLayout against the compiler: trait value, sizeof and offsetof of every record of the crafted package"""
    probe, err = layout_probe(ctx, gp)
    if probe is None:
        ctx.report("layout-probe-compile", "the probe for IsTriviallySerializable/sizeof/offsetof does not compile against the "
                   "generated C++ (trait specializations moved or renamed?)", {"model": gp.pkg.yaml(), "error": err,
                   "broken": "correspondence Model.CppLayout vs generated binary/protocols.cc"}, no_input=True)
        return
    items = []
    for r in gp.pkg.records:
        tr, sz, offs = probe[r.name]
        items.append("(%s, %s, %d, [%s])" % (r.coq(), "true" if tr else "false", sz, "; ".join(map(str, offs))))
    body = ("From Coq Require Import List NArith ZArith Bool.\nImport ListNotations.\nOpen Scope N_scope.\n"
            "From YV Require Import Base.Wire Model.Binary Model.CppLayout Model.PlanCases.\n"
            "Definition cases : list laycase := [\n " + ";\n ".join(items) + "\n].\n"
            "Definition ST := Eval vm_compute in map laycase_status cases.\nPrint ST.\n")
    st = Ctx.parse_nat_list(ctx.coq_eval("layout", body, timeout=900), "ST")
    for r, s_ in zip(gp.pkg.records, st):
        tr, sz, offs = probe[r.name]
        ctx.case(("layout", r.name, r.coq()), sample={"record": r.name, "trait": bool(tr), "sizeof": sz, "offsets": offs, "status": s_})
        ctx.count("layout_trait", "trivially-serializable" if tr else "field-by-field")
        ctx.count("layout_model_agreement", {0: "trait+sizeof+offsets", 1: "trait only (a member type has no layout in the model)"}.get(s_, "DIFFERS"))
        if s_ >= 2:
            what = {2: "the value of IsTriviallySerializable", 3: "sizeof", 4: "offsetof"}.get(s_, "?")
            ctx.report("layout-model-differs:%d" % s_, "Model.CppLayout and the compiler disagree on %s of record %s %s: the compiler says "
                       "trait=%d sizeof=%d offsets=%s" % (what, r.name, [(n, t.spell) for n, t in r.fields], tr, sz, offs),
                       {"model": gp.pkg.yaml(), "record": r.name, "compiler": {"trait": tr, "sizeof": sz, "offsets": offs},
                        "broken": "correspondence Model.CppLayout (ts true / layout / offsets_of) vs g++ on the generated C++ "
                                  "(theorem C14_memcpy_fast_path_sound no longer about the code)"}, no_input=True)


def run(ctx):
    ctx.build_repo(need_hook=True)
    ok, failing, log = ctx.coq_props("C14")
    ctx.coverage["trusted_base"] = TRUSTED
    ctx.coverage["rule"] = ("random valid packages generated with the real yardl for C++/Python(+NDJSON)/MATLAB/JSON; per protocol the "
                            "serializer construction of every step (and, recursively, of every record, alias and generic it uses) is "
                            "translated out of the generated code of 4 backends and compared inside Coq with the structural type the "
                            "schema prescribes (Model.Schema.wire on yardl's model.json); writer and reader plans of each backend must "
                            "coincide; NDJSON union tag decisions compared with Model.Json.simple_union; a crafted package with padded "
                            "records goes through generated C++ and Python and the bytes are compared with the reference encoder; "
                            "non-trivial = every (protocol, backend); distinct by (package, protocol, backend)")
    if not ok:
        ctx.report("proof:" + str(failing), "theorem/dependency no longer checks: %s" % failing,
                   {"broken": failing, "log": log[-3000:]}, no_input=True)
    quick = ctx.tier == "quick"
    rng = ctx.rng
    cases, meta, uchecks = [], [], []
    for k in range(4 if quick else 20):
        ns = "Pl" + "abcdefghijklmnopqrstuvwxyz"[k % 26] + ("x" * (k // 26))
        pkg = ymodel.Gen(rng, namespace=ns).build()
        d = os.path.join(ctx.scratch, "p%d" % k)
        os.makedirs(d + "/model")
        open(d + "/model/_package.yml", "w").write("namespace: %s\n%s" % (ns, CFG))
        open(d + "/model/model.yml", "w").write(pkg.yaml())
        rc, o, e = sh([ctx.yardl, "generate"], cwd=d + "/model", timeout=120)
        if rc != 0:
            raise RuntimeError("yardl rejected a generated package:\n%s\n%s" % ((o + e)[-800:], pkg.yaml()))
        rep0 = {"namespace": ns, "model": pkg.yaml()}
        env, protos = sm.conv_env(json.load(open(d + "/out/json/model.json")))
        names = [p for p, _ in pkg.protocols]
        mod = ns.lower()
        per = {}
        for b in BACKENDS:
            try:
                if b == "python-binary":
                    per[b] = plans.PyPlans(os.path.join(d, "out/python", mod, "binary.py"), "_binary").protocols(names)
                elif b == "python-ndjson":
                    pp = plans.PyPlans(os.path.join(d, "out/python", mod, "ndjson.py"), "_ndjson")
                    per[b] = {p: [(st, "(jty_erase %s)" % t) for st, t, _ in v] for p, v in pp.protocols(names).items()}
                    uchecks += [(rep0, u) for u in pp.union_checks]
                    # JSON keys of the steps are the model's step names
                    for p, v in pp.protocols(names).items():
                        want = [n for n, _, _ in dict(pkg.protocols)[p]]
                        if [key for _, _, key in v] != want:
                            ctx.report("ndjson-step-names", "python NDJSON writes steps %s of %s under the keys %s"
                                       % (want, p, [key for _, _, key in v]), dict(rep0, protocol=p))
                elif b == "matlab-binary":
                    per[b] = plans.MatlabPlans(os.path.join(d, "out/matlab"), mod).protocols(names)
                else:
                    per[b] = plans.CppPlans(os.path.join(d, "out/cpp"), mod).protocols(names)
            except plans.PlanError as ex:
                ctx.report("plan-unreadable:" + b, "the %s code of a generated package does not have the shape the plan translator knows "
                           "(or writer and reader disagree): %s" % (b, ex), dict(rep0, backend=b, error=str(ex)), no_input=True)
                per[b] = None
        for p in names:
            bs = [b for b in BACKENDS if per[b] is not None]
            pls = ["[" + "; ".join("(%s, %s)" % ("true" if st else "false", t) for st, t in per[b][p]) + "]" for b in bs]
            cases.append("(%s, %s, [%s])" % (env, protos[p], "; ".join(pls)))
            meta.append((rep0, p, bs, {b: per[b][p] for b in bs}))
            for _, t, _ in dict(pkg.protocols)[p]:
                ctx.count("step_type_shape", t.shape_sig(1))

    def ev(idx):
        body = ("From Coq Require Import List NArith ZArith Bool.\nImport ListNotations.\nOpen Scope N_scope.\n"
                "From YV Require Import Base.Wire Model.Binary Gen.Tables Model.Json Model.Schema Model.SchemaCases Model.PlanCases.\n"
                "Definition cases : list plcase := [\n " + ";\n ".join(cases[i] for i in idx) + "\n].\n"
                "Definition ST := Eval vm_compute in map plcase_status cases.\nPrint ST.\n")
        return Ctx.parse_nat_list(ctx.coq_eval("pl_%d" % idx[0], body, timeout=1500), "ST")
    shards = [list(range(i, min(i + 6, len(cases)))) for i in range(0, len(cases), 6)]
    with ThreadPoolExecutor(max_workers=10) as ex:
        st = [x for r in ex.map(ev, shards) for x in r]
    for (rep0, p, bs, pls), s in zip(meta, st):
        for b in bs:
            ctx.case(("plan", rep0["namespace"], p, b), sample={"protocol": p, "backend": b, "steps": len(pls[b]), "status": s})
        if s == 100:
            ctx.report("expansion-undefined", "Model.Schema.resolve is undefined on an accepted model (correspondence broken)",
                       dict(rep0, protocol=p), no_input=True)
        elif s != 0:
            b = bs[s - 1]
            ctx.report("plan-deviates:" + b, "the %s code of protocol %s does not serialize its steps as the schema prescribes" % (b, p),
                       dict(rep0, protocol=p, backend=b, plan=pls[b]))
    if uchecks:
        body = ("From Coq Require Import List NArith ZArith Bool.\nImport ListNotations.\nOpen Scope N_scope.\n"
                "From YV Require Import Base.Wire Model.Binary Gen.Tables Model.Json.\n"
                "Definition ST := Eval vm_compute in map (fun b : bool => if b then 0 else 1) [\n " + ";\n ".join(u for _, u in uchecks) + "\n].\nPrint ST.\n")
        ust = Ctx.parse_nat_list(ctx.coq_eval("pl_unions", body, timeout=900), "ST")
        for (rep0, u), s in zip(uchecks, ust):
            ctx.case(("union-flag", u), sample={"ndjson_union_tag_decision_agrees": s == 0})
            if s != 0:
                ctx.report("ndjson-tag-decision", "generated Python NDJSON code decides tagged/untagged for a union differently from "
                           "Model.Json.simple_union on the regenerated kind table", dict(rep0, check=u))
    # dynamic: padded records through generated C++ and Python
    gp = genrun.GenPackage(ctx, padding_package(rng, 12 if quick else 60), "pad", ndjson=False, cpp=True)
    if not gp.generate():
        raise RuntimeError("yardl rejected the padding package: " + gp.gen_out[-800:])
    gp.schemas_ = gp.schemas()
    if not gp.cpp_build():
        ctx.report("cpp-compile:pad", "generated C++ of the padding package does not compile", {"model": gp.pkg.yaml(), "error": gp.cpp_err[-2000:]})
    else:
        layout_layer(ctx, gp)
        numpy_layout_layer(ctx, gp)
        gp.py_start()
        bcases, bmeta = [], []
        try:
            for pname, steps in gp.pkg.protocols:
                for _ in range(3 if quick else 10):
                    ws = ymodel.gen_writes(rng, steps, finite=True)
                    body = ymodel.enc_steps(steps, ws)
                    stream = ymodel.enc_header(gp.schemas_[pname]) + body
                    for lang in ("c++", "python"):
                        if lang == "c++":
                            c = gp.cpp_call(pname, "binary", "binary", stream)
                            okk, out, err = c["ok"], c["out"], c["err"]
                        else:
                            r = gp.py_call({"proto": pname, "fin": "binary", "fout": "binary", "data": stream.hex(), "mode": "copy"})
                            okk, out, err = r["ok"], bytes.fromhex(r["out"]), r.get("err", "")
                        if not okk:
                            ctx.report("padded-record-layout:" + lang, "%s fails on records with padded in-memory layout: %s" % (lang, err.strip()[-160:]),
                                       {"backend": lang, "model": gp.pkg.yaml(), "protocol": pname, "stream_hex": stream.hex()})
                            continue
                        bcases.append((gp.schemas_[pname], steps, ws, body, [out]))
                        bmeta.append((lang, pname, stream, out))
        finally:
            gp.py_stop()
        for (lang, pname, stream, out), s_ in zip(bmeta, codec.eval_pcases(ctx, bcases, "c14pad")):
            ctx.case(("pad", lang, stream), sample={"crafted": "padded records", "backend": lang, "bytes": len(stream), "status": s_})
            if s_ != 0:
                ctx.report("padded-record-layout:" + lang, "what %s writes for records with padded in-memory layout does not decode (field by "
                           "field, as the schema prescribes) to the values written" % lang,
                           {"backend": lang, "model": gp.pkg.yaml(), "protocol": pname, "stream_hex": stream.hex(), "output_hex": out.hex()})


def replay(ctx, path):
    print(json.dumps(json.load(open(path)), indent=1)[:4000])
