"""C14 - all target languages follow the same serialization plan."""
import json
import os
from concurrent.futures import ThreadPoolExecutor

import codec
import genrun
import plans
import schemamodel as sm
import ymodel
from vlib import Ctx, sh

LEVEL = "proof"
TRUSTED = [
    "Coq 8.16.1 kernel + vm_compute; theorems in coq/Props/C14.v",
    "harness/lib/plans.py: translators from generated code to Model.Binary.ty - Python (binary.py, ndjson.py) through the Python "
    "AST, MATLAB (+binary/*.m) and C++ (binary/protocols.cc + types.h) through a small expression parser and regular expressions; "
    "they refuse constructs they do not know; MATLAB array shapes are reversed (column-major runtime)",
    "the meaning of each runtime serializer class/function (VectorSerializer, WriteVector, ...) is the one Model.Binary gives the "
    "corresponding type constructor: tied for Python and C++ by the codec checks (C01/C03), NOT tied for MATLAB (never executed)",
    "Model/Schema.v structural expansion, tied by C04; the C++ memcpy fast path (IsTriviallySerializable) is covered dynamically "
    "only (crafted records with padding, bytes compared with the reference encoder)",
]
CFG = ("cpp:\n  sourcesOutputDir: ../out/cpp\n  generateCMakeLists: false\n  generateHDF5: false\npython:\n  outputDir: ../out/python\n"
       "json:\n  outputDir: ../out/json\nmatlab:\n  outputDir: ../out/matlab\n")
BACKENDS = ["python-binary", "python-ndjson", "matlab-binary", "c++-binary"]


def padding_package():
    """records whose in-memory layout has padding: the C++ memcpy fast path must not be taken for them"""
    from ymodel import T, prim, Package
    pkg = Package("Pad")
    d = pkg.defs

    def rec(name, fields):
        d.append((name, "%s: !record\n  fields:\n%s" % (name, "\n".join("    %s: %s" % (n, t.spell) for n, t in fields))))
        return T("rec", name, name=name, fields=fields)
    ra = rec("Ra", [("a", prim("int8")), ("b", prim("float32"))])
    rb = rec("Rb", [("a", prim("uint8")), ("b", prim("float64")), ("c", prim("uint8"))])
    rc = rec("Rc", [("a", prim("float32")), ("b", prim("complexfloat64")), ("c", prim("int8"))])
    rd = rec("Rd", [("a", prim("float32")), ("b", prim("float32"))])        # packed: the fast path is legitimate
    re_ = rec("Re", [("x", ra), ("y", prim("uint8"))])

    def vec(t):
        return T("vec", t.spell + "*", e=t)
    pkg.protocols.append(("Ppad", [("a", vec(ra), False), ("b", rb, True), ("c", vec(rc), False), ("d", vec(rd), False),
                                   ("e", T("fixvec", "Re*3", e=re_, n=3), True)]))
    return pkg


def run(ctx):
    ctx.build_repo(need_hook=True)
    ok, failing, log = ctx.coq_props("C14")
    ctx.coverage["trusted_base"] = TRUSTED
    ctx.coverage["rule"] = ("random valid packages generated with the real yardl for C++/Python(+NDJSON)/MATLAB/JSON; per protocol the "
                            "serializer construction of every step (and, recursively, of every record, alias and generic it uses) is "
                            "translated out of the generated code of 4 backends and compared inside Coq with the structural type the "
                            "schema prescribes (Model.Schema.wire on yardl's model.json); writer and reader plans of each backend must "
                            "coincide; NDJSON union tag decisions compared with Model.Json.simple_union; a crafted package with padded "
                            "records goes through generated C++ and Python and the bytes are compared with the reference encoder; "
                            "non-trivial = every (protocol, backend); distinct by (package, protocol, backend)")
    if not ok:
        ctx.report("proof:" + str(failing), "theorem/dependency no longer checks: %s" % failing,
                   {"broken": failing, "log": log[-3000:]}, no_input=True)
    quick = ctx.tier == "quick"
    rng = ctx.rng
    cases, meta, uchecks = [], [], []
    for k in range(4 if quick else 20):
        ns = "Pl" + "abcdefghijklmnopqrstuvwxyz"[k % 26] + ("x" * (k // 26))
        pkg = ymodel.Gen(rng, namespace=ns).build()
        d = os.path.join(ctx.scratch, "p%d" % k)
        os.makedirs(d + "/model")
        open(d + "/model/_package.yml", "w").write("namespace: %s\n%s" % (ns, CFG))
        open(d + "/model/model.yml", "w").write(pkg.yaml())
        rc, o, e = sh([ctx.yardl, "generate"], cwd=d + "/model", timeout=120)
        if rc != 0:
            raise RuntimeError("yardl rejected a generated package:\n%s\n%s" % ((o + e)[-800:], pkg.yaml()))
        rep0 = {"namespace": ns, "model": pkg.yaml()}
        env, protos = sm.conv_env(json.load(open(d + "/out/json/model.json")))
        names = [p for p, _ in pkg.protocols]
        mod = ns.lower()
        per = {}
        for b in BACKENDS:
            try:
                if b == "python-binary":
                    per[b] = plans.PyPlans(os.path.join(d, "out/python", mod, "binary.py"), "_binary").protocols(names)
                elif b == "python-ndjson":
                    pp = plans.PyPlans(os.path.join(d, "out/python", mod, "ndjson.py"), "_ndjson")
                    per[b] = {p: [(st, "(jty_erase %s)" % t) for st, t, _ in v] for p, v in pp.protocols(names).items()}
                    uchecks += [(rep0, u) for u in pp.union_checks]
                    # JSON keys of the steps are the model's step names
                    for p, v in pp.protocols(names).items():
                        want = [n for n, _, _ in dict(pkg.protocols)[p]]
                        if [key for _, _, key in v] != want:
                            ctx.report("ndjson-step-names", "python NDJSON writes steps %s of %s under the keys %s"
                                       % (want, p, [key for _, _, key in v]), dict(rep0, protocol=p))
                elif b == "matlab-binary":
                    per[b] = plans.MatlabPlans(os.path.join(d, "out/matlab"), mod).protocols(names)
                else:
                    per[b] = plans.CppPlans(os.path.join(d, "out/cpp"), mod).protocols(names)
            except plans.PlanError as ex:
                ctx.report("plan-unreadable:" + b, "the %s code of a generated package does not have the shape the plan translator knows "
                           "(or writer and reader disagree): %s" % (b, ex), dict(rep0, backend=b, error=str(ex)), no_input=True)
                per[b] = None
        for p in names:
            bs = [b for b in BACKENDS if per[b] is not None]
            pls = ["[" + "; ".join("(%s, %s)" % ("true" if st else "false", t) for st, t in per[b][p]) + "]" for b in bs]
            cases.append("(%s, %s, [%s])" % (env, protos[p], "; ".join(pls)))
            meta.append((rep0, p, bs, {b: per[b][p] for b in bs}))
            for _, t, _ in dict(pkg.protocols)[p]:
                ctx.count("step_type_shape", t.shape_sig(1))

    def ev(idx):
        body = ("From Coq Require Import List NArith ZArith Bool.\nImport ListNotations.\nOpen Scope N_scope.\n"
                "From YV Require Import Base.Wire Model.Binary Gen.Tables Model.Json Model.Schema Model.SchemaCases Model.PlanCases.\n"
                "Definition cases : list plcase := [\n " + ";\n ".join(cases[i] for i in idx) + "\n].\n"
                "Definition ST := Eval vm_compute in map plcase_status cases.\nPrint ST.\n")
        return Ctx.parse_nat_list(ctx.coq_eval("pl_%d" % idx[0], body, timeout=1500), "ST")
    shards = [list(range(i, min(i + 6, len(cases)))) for i in range(0, len(cases), 6)]
    with ThreadPoolExecutor(max_workers=10) as ex:
        st = [x for r in ex.map(ev, shards) for x in r]
    for (rep0, p, bs, pls), s in zip(meta, st):
        for b in bs:
            ctx.case(("plan", rep0["namespace"], p, b), sample={"protocol": p, "backend": b, "steps": len(pls[b]), "status": s})
        if s == 100:
            ctx.report("expansion-undefined", "Model.Schema.resolve is undefined on an accepted model (correspondence broken)",
                       dict(rep0, protocol=p), no_input=True)
        elif s != 0:
            b = bs[s - 1]
            ctx.report("plan-deviates:" + b, "the %s code of protocol %s does not serialize its steps as the schema prescribes" % (b, p),
                       dict(rep0, protocol=p, backend=b, plan=pls[b]))
    if uchecks:
        body = ("From Coq Require Import List NArith ZArith Bool.\nImport ListNotations.\nOpen Scope N_scope.\n"
                "From YV Require Import Base.Wire Model.Binary Gen.Tables Model.Json.\n"
                "Definition ST := Eval vm_compute in map (fun b : bool => if b then 0 else 1) [\n " + ";\n ".join(u for _, u in uchecks) + "\n].\nPrint ST.\n")
        ust = Ctx.parse_nat_list(ctx.coq_eval("pl_unions", body, timeout=900), "ST")
        for (rep0, u), s in zip(uchecks, ust):
            ctx.case(("union-flag", u), sample={"ndjson_union_tag_decision_agrees": s == 0})
            if s != 0:
                ctx.report("ndjson-tag-decision", "generated Python NDJSON code decides tagged/untagged for a union differently from "
                           "Model.Json.simple_union on the regenerated kind table", dict(rep0, check=u))
    # dynamic: padded records through generated C++ and Python
    gp = genrun.GenPackage(ctx, padding_package(), "pad", ndjson=False, cpp=True)
    if not gp.generate():
        raise RuntimeError("yardl rejected the padding package: " + gp.gen_out[-800:])
    gp.schemas_ = gp.schemas()
    if not gp.cpp_build():
        ctx.report("cpp-compile:pad", "generated C++ of the padding package does not compile", {"model": gp.pkg.yaml(), "error": gp.cpp_err[-2000:]})
    else:
        gp.py_start()
        bcases, bmeta = [], []
        try:
            for pname, steps in gp.pkg.protocols:
                for _ in range(3 if quick else 10):
                    ws = ymodel.gen_writes(rng, steps, finite=True)
                    body = ymodel.enc_steps(steps, ws)
                    stream = ymodel.enc_header(gp.schemas_[pname]) + body
                    for lang in ("c++", "python"):
                        if lang == "c++":
                            c = gp.cpp_call(pname, "binary", "binary", stream)
                            okk, out, err = c["ok"], c["out"], c["err"]
                        else:
                            r = gp.py_call({"proto": pname, "fin": "binary", "fout": "binary", "data": stream.hex(), "mode": "copy"})
                            okk, out, err = r["ok"], bytes.fromhex(r["out"]), r.get("err", "")
                        if not okk:
                            ctx.report("padded-record-layout:" + lang, "%s fails on records with padded in-memory layout: %s" % (lang, err.strip()[-160:]),
                                       {"backend": lang, "model": gp.pkg.yaml(), "protocol": pname, "stream_hex": stream.hex()})
                            continue
                        bcases.append((gp.schemas_[pname], steps, ws, body, [out]))
                        bmeta.append((lang, pname, stream, out))
        finally:
            gp.py_stop()
        for (lang, pname, stream, out), s_ in zip(bmeta, codec.eval_pcases(ctx, bcases, "c14pad")):
            ctx.case(("pad", lang, stream), sample={"crafted": "padded records", "backend": lang, "bytes": len(stream), "status": s_})
            if s_ != 0:
                ctx.report("padded-record-layout:" + lang, "what %s writes for records with padded in-memory layout does not decode (field by "
                           "field, as the schema prescribes) to the values written" % lang,
                           {"backend": lang, "model": gp.pkg.yaml(), "protocol": pname, "stream_hex": stream.hex(), "output_hex": out.hex()})


def replay(ctx, path):
    print(json.dumps(json.load(open(path)), indent=1)[:4000])
