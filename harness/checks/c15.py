"""C15 - readers refuse streams of a different schema or format."""
import json
import os
import resource
from concurrent.futures import ThreadPoolExecutor

import genrun
import ymodel
from ymodel import T, prim, Package
from vlib import Ctx, coq_bytes

LEVEL = "proof"
TRUSTED = [
    "Coq 8.16.1 kernel + vm_compute; theorems in coq/Props/C15.v (closed under the global context) - binary format only",
    "Model/Binary.v dec_header/dec_protocol is a hand-written reading of header.h / _binary.py BinaryProtocolReader, tied by "
    "differential runs: near-identical protocol pairs and every single-byte substitution / deletion / insertion in a valid header",
    "NDJSON header handling is NOT modelled in Coq: it is compared against a JSON-equality oracle in the harness (search, not proof)",
    "harness, shims, g++, CPython",
]


def variant(i):
    """near-identical models; returns (Package, steps) - protocol is always P"""
    pkg = Package("Vv")
    d = pkg.defs
    ebase = "uint8" if i == 11 else "int32"
    flags = i in (3, 13)
    evals = {0: [("a", 0), ("b", 1)], 4: [("a", 0), ("b", 2)], 3: [("a", 1), ("b", 2)], 12: [("a", 1), ("b", 2)],
             13: [("a", 1), ("b", 2)]}.get(i, [("a", 0), ("b", 1)])
    d.append(("E", "E: %s\n%s  values:\n%s" % ("!flags" if flags else "!enum", "  base: uint8\n" if i == 11 else "",
                                                "\n".join("    %s: %d" % kv for kv in evals))))
    en = T("enum", "E", base=ebase, name="E", symbols=evals, is_flags=flags)
    xt = prim("int64") if i == 1 else prim("int32")
    xn = "xx" if i == 2 else "x"
    yt = T("opt", "string?", e=prim("string")) if i == 9 else prim("string")
    d.append(("R", "R: !record\n  fields:\n    %s: %s\n    y: %s\n    e: E" % (xn, xt.spell, ymodel.yq(yt.spell))))
    rec = T("rec", "R", name="R", fields=[(xn, xt), ("y", yt), ("e", en)])
    ft = prim("float64") if i == 6 else prim("float32")
    u = T("union", "[string, int32]" if i == 7 else "[int32, string]", has_null=False,
          cases=[prim("string"), prim("int32")] if i == 7 else [prim("int32"), prim("string")], tags=[])
    steps = [("hh" if i == 5 else "h", rec, False)]
    if i == 10:
        steps.append(("s", T("vec", "float32*", e=ft), False))
    elif i == 14:
        steps.append(("s", T("fixarr", "float32[3]", dims=[3], e=ft), False))
    elif i == 15:
        steps.append(("s", T("fixarr", "float32[4]", dims=[4], e=ft), False))
    elif i == 16:
        steps.append(("s", T("arr", "!array {items: float32, dimensions: 1}", rank=1, e=ft), False))
    elif i == 17:
        steps.append(("s", T("fixarr", "float32[2, 2]", dims=[2, 2], e=ft), False))
    elif i == 18:
        steps.append(("s", T("arr", "float32[,]", rank=2, e=ft), False))
    else:
        steps.append(("s", ft, True))
    steps.append(("t", u, False))
    if i == 8:
        steps.append(("z", prim("bool"), False))
    pkg.protocols.append(("P", steps))
    return pkg, steps


VARIANTS = [0, 1, 2, 4, 5, 6, 7, 8, 9, 10, 11, 12, 13, 14, 15, 16, 17, 18]   # 14-18: array lengths / ranks   # 12/13: enum vs flags with identical values


def limit_mem():
    resource.setrlimit(resource.RLIMIT_AS, (6 * 2 ** 30, 6 * 2 ** 30))


REACH = {
    # a wire-affecting difference ({T}) inside a named type that the protocol reaches only along the given path
    "generic-argument": "Sample: !record\n  fields:\n    value: {T}\n\nTagged<X>: !record\n  fields:\n    v: X\n    n: int32\n\nP: !protocol\n  sequence:\n    s: Tagged<Sample>\n",
    "alias-of-generic-instance": "Sample: !record\n  fields:\n    value: {T}\n\nTagged<X>: !record\n  fields:\n    v: X\n\nAl: Tagged<Sample>\n\nP: !protocol\n  sequence:\n    s: Al\n",
    "nested-generic-argument": "Sample: !record\n  fields:\n    value: {T}\n\nTagged<X>: !record\n  fields:\n    v: X\n\nP: !protocol\n  sequence:\n    s: Tagged<Tagged<Sample>>\n",
    "generic-argument-in-container": "Sample: !record\n  fields:\n    value: {T}\n\nTagged<X>: !record\n  fields:\n    v: X\n\nP: !protocol\n  sequence:\n    s: !stream\n      items: !generic {name: Tagged, args: [!map {keys: string, values: !vector {items: Sample}}]}\n",
    "generic-alias-argument": "Sample: !record\n  fields:\n    value: {T}\n\nMaybe<X>: X?\n\nP: !protocol\n  sequence:\n    s: Maybe<Sample>\n",
    "union-case-in-generic-argument": "Sample: !record\n  fields:\n    value: {T}\n\nTagged<X>: !record\n  fields:\n    v: X\n\nP: !protocol\n  sequence:\n    s: !generic {name: Tagged, args: [[int8, Sample]]}\n",
    "field-of-field": "Sample: !record\n  fields:\n    value: {T}\n\nOuter: !record\n  fields:\n    o: Sample*\n\nP: !protocol\n  sequence:\n    s: Outer?\n",
    "alias-chain": "Sample: {T}\n\nA1: Sample\n\nA2: A1*\n\nP: !protocol\n  sequence:\n    s: A2\n",
    # the same kind of difference inside DOCUMENTED definitions (comments are stripped from the schema by a rewrite of the model,
    # which must not lose anything else)
    "documented-enum-base": "# what a sample is\nSample: !enum\n  base: {T}\n  values:\n    # the first one\n    p: 1\n    # the second one\n    q: 2\n\nP: !protocol\n  sequence:\n    s: Sample\n",
    "documented-flags-base": "# what a sample is\nSample: !flags\n  base: {T}\n  values:\n    # the first one\n    - p\n    - q\n\nP: !protocol\n  sequence:\n    s: Sample*\n",
    "documented-record-field": "# what a sample is\nSample: !record\n  fields:\n    # the value\n    value: {T}\n    # more\n    n: int8\n\nP: !protocol\n  sequence:\n    # the step\n    s: Sample*\n",
    "documented-array-items": "Sample: !record\n  fields:\n    # an array\n    arr: !array\n      items: {T}\n      dimensions:\n        # rows\n        x: 2\n        # columns\n        y: 3\n\nP: !protocol\n  sequence:\n    s: Sample\n",
    "documented-alias": "# an alias\nSample: {T}\n\n# a user\nUser: !record\n  fields:\n    # f\n    f: Sample?\n\nP: !protocol\n  sequence:\n    s: !stream\n      # items\n      items: User\n",
    "enum-as-generic-argument": "Sample: !enum\n  base: {T}\n  values: [p, q]\n\nTagged<X>: !record\n  fields:\n    v: X\n\nP: !protocol\n  sequence:\n    s: Tagged<Sample>\n",
}
REACH_DRIVER = """
import sys, io
sys.path.insert(0, sys.argv[1])
import rx
if sys.argv[2] == 'w':
    b = io.BytesIO()
    w = rx.BinaryPWriter(b)
    try:
        w.close()
    except Exception:
        pass
    open(sys.argv[3], 'wb').write(b.getvalue())
else:
    try:
        r = rx.BinaryPReader(io.BytesIO(open(sys.argv[3], 'rb').read()))
        print('ACCEPTED')
    except Exception as e:
        print('REFUSED', type(e).__name__)
"""


def reachability_layer(ctx):
    """two models that differ only inside a named type the protocol reaches along an indirect path (generic arguments, aliases,
    containers): the reader generated for one must refuse the header the writer generated for the other puts on a stream"""
    from vlib import sh, PY_VT
    drv = os.path.join(ctx.scratch, "reach_driver.py")
    open(drv, "w").write(REACH_DRIVER)
    for path, tmpl in REACH.items():
        dirs = {}
        for side, t in (("a", "int32"), ("b", "uint32")):
            d = os.path.join(ctx.scratch, "reach_%s_%s" % (path, side))
            os.makedirs(d + "/model")
            open(d + "/model/_package.yml", "w").write("namespace: Rx\npython:\n  outputDir: ../python\n")
            open(d + "/model/model.yml", "w").write(tmpl.replace("{T}", t))
            rc, o, e = sh([ctx.yardl, "generate"], cwd=d + "/model", timeout=120)
            if rc != 0:
                raise RuntimeError("yardl rejected the reachability model %s: %s" % (path, (o + e)[-600:]))
            dirs[side] = d
        for wside, rside in (("a", "b"), ("b", "a"), ("a", "a")):
            f = os.path.join(ctx.scratch, "reach_%s_%s.bin" % (path, wside))
            sh([PY_VT, drv, dirs[wside] + "/python", "w", f], timeout=120)
            rc, o, e = sh([PY_VT, drv, dirs[rside] + "/python", "r", f], timeout=120)
            accepted = o.startswith("ACCEPTED")
            ctx.count("pair_reader", "python/binary-header")
            ctx.case(("reach", path, wside, rside), nontrivial=wside != rside,
                     sample={"kind": "indirectly-reached type differs", "path": path, "writer": wside, "reader": rside, "accepted": accepted})
            rep = {"path": path, "writer_model": tmpl.replace("{T}", "int32" if wside == "a" else "uint32"),
                   "reader_model": tmpl.replace("{T}", "int32" if rside == "a" else "uint32"), "reader_output": (o + e)[-400:]}
            if wside == rside and not accepted:
                ctx.report("own-refused:reach:" + path, "the generated Python reader refuses the header written by its own writer (%s)" % path, rep)
            if wside != rside and accepted:
                ctx.report("foreign-accepted:reach:" + path, "two models differ only in `value: int32` / `value: uint32` inside a type the "
                           "protocol reaches through %s; the reader generated for one accepts the stream header written under the other" % path, rep)


def run(ctx):
    ctx.build_repo(need_hook=True)
    ok, failing, log = ctx.coq_props("C15")
    ctx.coverage["trusted_base"] = TRUSTED
    ctx.coverage["rule"] = ("(1) every ordered pair of 18 near-identical protocols (quick: 12) (one field type / name / enum value / enum-vs-flags / "
                            "step name / stream-vs-vector / union order / optional / extra step / enum base changed): a valid stream of "
                            "A given to the generated Python and C++ readers of B, binary and NDJSON; (2) every single-byte "
                            "substitution (3 values), deletion and insertion (2 values) at every position of a valid binary header, and of "
                            "sampled positions of an NDJSON header; refusal must happen before any value is delivered; non-trivial = "
                            "input differs from a valid own stream; distinct by input bytes and reader")
    if not ok:
        ctx.report("proof:" + str(failing), "theorem/dependency no longer checks: %s" % failing,
                   {"broken": failing, "log": log[-3000:]}, no_input=True)
    quick = ctx.tier == "quick"
    rng = ctx.rng
    reachability_layer(ctx)
    ids = VARIANTS if not quick else [0, 1, 2, 4, 6, 7, 9, 12, 13, 14, 15, 16]
    gps = {}
    for i in ids:
        pkg, steps = variant(i)
        gp = genrun.GenPackage(ctx, pkg, "var%d" % i, ndjson=True, cpp=True)
        if not gp.generate():
            raise RuntimeError("yardl rejected variant %d: %s" % (i, gp.gen_out[-800:]))
        gp.schemas_ = gp.schemas()
        gp.steps = steps
        gps[i] = gp
    cpp_ids = ids if not quick else [0, 1, 12, 13]
    with ThreadPoolExecutor(max_workers=4) as ex:
        oks = list(ex.map(lambda i: gps[i].cpp_build(), cpp_ids))
    for i, okb in zip(cpp_ids, oks):
        if not okb:
            ctx.report("cpp-compile:var%d" % i, "generated C++ does not compile", {"error": gps[i].cpp_err[-1500:]})
    cpp_ids = [i for i, okb in zip(cpp_ids, oks) if okb]
    for gp in gps.values():
        gp.py_start()
    hcases, hmeta = [], []
    try:
        # streams of every variant (binary by reference encoder, NDJSON through its own Python writer)
        streams = {}
        for i, gp in gps.items():
            ws = ymodel.gen_writes(rng, gp.steps, finite=True)
            b = ymodel.enc_header(gp.schemas_["P"]) + ymodel.enc_steps(gp.steps, ws)
            r = gp.py_call({"proto": "P", "fin": "binary", "fout": "ndjson", "data": b.hex(), "mode": "copy"})
            if not r["ok"]:
                raise RuntimeError("own stream refused by variant %d: %s" % (i, r.get("err")))
            streams[i] = (b, r["out"])
        # ---- (1) pairs
        for i in ids:
            for j in ids:
                b, nd = streams[i]
                same_schema = gps[i].schemas_["P"] == gps[j].schemas_["P"]
                readers = [("python", "binary", b.hex()), ("python", "ndjson", nd)]
                if j in cpp_ids:
                    readers += [("c++", "binary", b), ("c++", "ndjson", nd.encode())]
                for lang, fmt, data in readers:
                    if lang == "python":
                        r = gps[j].py_call({"proto": "P", "fin": fmt, "fout": "ndjson", "data": data, "mode": "copy"})
                        accepted, delivered = r["ok"], [ln for ln in r["out"].split("\n")[1:] if ln]
                    else:
                        c = gps[j].cpp_call("P", fmt, "ndjson", data)
                        accepted, delivered = c["ok"], [ln for ln in c["out"].decode(errors="replace").split("\n")[1:] if ln]
                    ctx.count("pair_reader", "%s/%s" % (lang, fmt))
                    ctx.case(("pair", i, j, lang, fmt), nontrivial=i != j,
                             sample={"kind": "pair", "writer_variant": i, "reader_variant": j, "reader": lang, "format": fmt,
                                     "accepted": accepted, "values_delivered": len(delivered)})
                    if i == j:
                        if not accepted:
                            ctx.report("own-stream-refused:%s:%s" % (lang, fmt), "variant %d refuses its own %s stream" % (i, fmt),
                                       {"variant": i, "reader": lang, "format": fmt})
                        continue
                    if fmt == "binary" and lang == "python":
                        hcases.append((gps[j].schemas_["P"], gps[j].steps, b, accepted))
                        hmeta.append(("pair %d->%d" % (i, j), lang))
                    if same_schema:
                        # identical schema text (enum vs flags): binary encodings coincide, NDJSON encodings do not
                        if accepted and fmt == "ndjson":
                            ctx.report("enum-flags-same-schema",
                                       "%s NDJSON reader of variant %d accepted a stream of variant %d: `!enum` and `!flags` with the "
                                       "same symbols and values have the same schema but different NDJSON encodings" % (lang, j, i),
                                       {"writer_variant": i, "reader_variant": j, "reader": lang, "format": fmt, "stream": nd})
                        continue
                    if accepted or delivered:
                        ctx.report("foreign-accepted:%s:%s:%d->%d" % (lang, fmt, i, j),
                                   "%s %s reader of variant %d %s a stream written under variant %d (schemas differ)"
                                   % (lang, fmt, j, "accepted" if accepted else "delivered values from", i),
                                   {"writer_variant": i, "reader_variant": j, "reader": lang, "format": fmt,
                                    "model_writer": gps[i].pkg.yaml(), "model_reader": gps[j].pkg.yaml(),
                                    "stream_hex": b.hex() if fmt == "binary" else None, "stream": nd if fmt == "ndjson" else None,
                                    "delivered": delivered[:3]})
        # ---- (2) header corruptions (binary)
        gp0 = gps[ids[0]]
        b0, nd0 = streams[ids[0]]
        hlen = len(ymodel.enc_header(gp0.schemas_["P"]))
        muts = []
        step = 1 if not quick else 3
        for pos in sorted(set(range(0, min(hlen, 12))) | set(range(0, hlen, step))):     # magic and version bytes: always all of them
            for v in {b0[pos] ^ 1, b0[pos] ^ 0x80, 0, 2}:
                if v != b0[pos]:
                    muts.append(("sub", pos, b0[:pos] + bytes([v]) + b0[pos + 1:]))
            muts.append(("del", pos, b0[:pos] + b0[pos + 1:]))
            for v in (0, 0x41):
                muts.append(("ins", pos, b0[:pos] + bytes([v]) + b0[pos:]))
        for kind, pos, data in muts:
            r = gp0.py_call({"proto": "P", "fin": "binary", "fout": "ndjson", "data": data.hex(), "mode": "copy"})
            acc_py, del_py = r["ok"], [ln for ln in r["out"].split("\n")[1:] if ln]
            res = [("python", acc_py, del_py)]
            if ids[0] in cpp_ids and (not quick or pos % 9 == 0 or pos < 12):     # magic and version bytes: always, in both languages
                c = genrun_cpp_limited(gp0, "P", "binary", "ndjson", data)
                res.append(("c++", c["ok"], [ln for ln in c["out"].decode(errors="replace").split("\n")[1:] if ln]))
            region = "magic" if pos < 5 else ("version" if pos < 9 else "schema")
            ctx.count("header_mutation", "%s/%s" % (kind, region))
            for lang, acc, dl in res:
                ctx.case(("hdr", kind, pos, data, lang),
                         sample={"kind": "header-" + kind, "pos": pos, "region": region, "reader": lang, "accepted": acc})
                if acc or dl:
                    ctx.report("corrupt-header-accepted:%s:%s" % (lang, region),
                               "%s binary reader accepted / delivered values from a stream whose header has a %s at byte %d (%s)"
                               % (lang, kind, pos, region),
                               {"reader": lang, "kind": kind, "pos": pos, "stream_hex": data.hex(), "model": gp0.pkg.yaml()})
            hcases.append((gp0.schemas_["P"], gp0.steps, data, acc_py))
            hmeta.append(("header %s@%d" % (kind, pos), "python"))
        # ---- NDJSON header corruptions against the JSON-equality oracle
        line0, rest = nd0.split("\n", 1)
        expected = json.loads(line0)
        positions = list(range(0, len(line0), 7 if quick else 2))
        for pos in positions:
            for kind, mut in (("sub", line0[:pos] + chr(ord(line0[pos]) ^ 1) + line0[pos + 1:]),
                              ("del", line0[:pos] + line0[pos + 1:]), ("ins", line0[:pos] + "0" + line0[pos:])):
                try:
                    obj = json.loads(mut)
                    legit = (obj == expected and json.dumps(obj, sort_keys=True) == json.dumps(expected, sort_keys=True))
                except Exception:  # noqa: BLE001
                    legit = False
                data = mut + "\n" + rest
                r = gp0.py_call({"proto": "P", "fin": "ndjson", "fout": "ndjson", "data": data, "mode": "copy"})
                ctx.count("ndjson_header_mutation", kind)
                ctx.case(("ndhdr", kind, pos, "python"), sample={"kind": "ndjson-header-" + kind, "pos": pos, "accepted": r["ok"],
                                                                "legitimately_equal": legit})
                if r["ok"] and not legit:
                    ctx.report("corrupt-ndjson-header-accepted:python",
                               "python NDJSON reader accepted a header line that differs from its own as JSON (%s at %d)" % (kind, pos),
                               {"reader": "python", "kind": kind, "pos": pos, "header": mut})
        # ---- model agreement (binary)
        shards = [list(zip(hcases, hmeta))[k:k + 150] for k in range(0, len(hcases), 150)]

        def ev(ix_sh):
            ix, sh_ = ix_sh
            items = ["(%s, [%s], %s, %s)" % (coq_bytes(s.encode()), "; ".join(ymodel.coq_step(x) for x in st), coq_bytes(d),
                                             "true" if a else "false") for (s, st, d, a), _ in sh_]
            body = ("From Coq Require Import List NArith ZArith.\nFrom YV Require Import Base.Wire Model.Binary Model.CodedCases Model.BinaryCases.\n"
                    "Import ListNotations.\nOpen Scope N_scope.\nDefinition cases : list hcase := [\n " + ";\n ".join(items) +
                    "\n].\nDefinition MM := Eval vm_compute in mismatches hcase_ok cases.\nPrint MM.\n")
            return ix, Ctx.parse_nat_list(ctx.coq_eval("hc_%d" % ix, body, timeout=1500), "MM")
        with ThreadPoolExecutor(max_workers=10) as ex:
            res = list(ex.map(ev, enumerate(shards)))
        for ix, mm in res:
            for k in mm[:2]:
                (s, st, d, a), (what, lang) = shards[ix][k]
                ctx.report("model-differs:header", "Model.Binary.dec_protocol and the %s reader disagree on acceptance (%s): "
                           "implementation accepted=%s" % (lang, what, a),
                           {"what": what, "stream_hex": d.hex(), "accepted_by_impl": a,
                            "broken": "correspondence Model.Binary.dec_protocol vs BinaryProtocolReader"}, no_input=not a)
    finally:
        for gp in gps.values():
            gp.py_stop()


def genrun_cpp_limited(gp, proto, fin, fout, data):
    import subprocess
    try:
        p = subprocess.run([gp.tr, proto, fin, fout, "1"], input=data, stdout=subprocess.PIPE, stderr=subprocess.PIPE,
                           timeout=60, preexec_fn=limit_mem)
    except subprocess.TimeoutExpired:
        return {"ok": False, "rc": -999, "err": "timeout", "out": b""}
    return {"ok": p.returncode == 0, "rc": p.returncode, "err": p.stderr.decode(errors="replace")[-300:], "out": p.stdout}


def replay(ctx, path):
    print(json.dumps(json.load(open(path)), indent=1)[:4000])
