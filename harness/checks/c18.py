"""C18 - package imports resolve correctly for every import graph."""
import itertools
import json
import os
import re
import shutil
from concurrent.futures import ThreadPoolExecutor

from vlib import Ctx, sh

LEVEL = "proof"
TRUSTED = [
    "Coq 8.16.1 kernel + vm_compute; theorems in coq/Props/C18.v (closed under the global context)",
    "Model/Packages.v is a hand-written reading of packageinfo.go:collectPackages (+ flattenNamespaces order), tied to the real CLI "
    "on synthesised directory trees (exit status, error kind, file named, emitted namespace order in model.json)",
    "local directory imports only (git/https imports need a network and are not modelled); harness",
]


def perms_subsets(nodes):
    out = []
    for k in range(len(nodes) + 1):
        out += list(itertools.permutations(nodes, k))
    return out


def pdir(lay, d):
    return lay[d] if lay else "p%d" % d


def gen_layout(rng, n):
    """where each package directory lives: flat (None), or spread over nested groups with directory names shared between
    groups, so that one relative import string (`../p5`) means different packages for importers in different groups"""
    if rng.random() < 0.4:
        return None
    groups = ["", "ga", "gb", "ga/gc"]
    grp = {d: rng.choice(groups) for d in range(n)}
    label = {d: d for d in range(n)}
    for d in rng.sample(range(n), max(1, n // 3)):
        others = [e for e in range(n) if grp[e] != grp[d]]
        if others:
            e = rng.choice(others)
            if not any(x != d and grp[x] == grp[d] and label[x] == label[e] for x in range(n)):
                label[d] = label[e]
    return {d: os.path.join(grp[d], "p%d" % label[d]) for d in range(n)}


def materialise(base, tree, nsmap, missing=(), lay=None):
    """tree: {dir: [imports]}, nsmap: {dir: ns}. Each package defines T<d> and uses every imported T."""
    for d, imps in tree.items():
        if d in missing:
            continue
        p = os.path.join(base, pdir(lay, d))
        os.makedirs(p)
        lines = ["namespace: N%d" % nsmap[d]]
        if imps:
            lines.append("imports:")
            lines += ["  - " + os.path.relpath(os.path.join(base, pdir(lay, i)), p) for i in imps]
        if d == 0:
            lines += ["json:", "  outputDir: ../out"]
        open(os.path.join(p, "_package.yml"), "w").write("\n".join(lines) + "\n")
        m = ["T%d: int" % d]
        uses = [i for i in dict.fromkeys(imps) if i != d and i not in missing and nsmap[i] != nsmap[d]]
        if uses:
            m += ["U%d: !record" % d, "  fields:"] + ["    f%d: N%d.T%d" % (i, nsmap[i], i) for i in uses]
        open(os.path.join(p, "m.yml"), "w").write("\n".join(m) + "\n")


def classify(rc, out, base=None, lay=None):
    if rc == 0:
        return 0, 0
    if lay:
        m = re.search(r"(/[^\s:'\"]+)/_package\.yml", out)
        back = {os.path.normpath(os.path.join(base, v)): k for k, v in lay.items()}
        d = back.get(os.path.normpath(m.group(1)), 0) if m else 0
    else:
        m = re.search(r"p(\d+)/_package\.yml", out)
        d = int(m.group(1)) if m else 0
    if "import cycle detected" in out:
        return 1, d
    if "conflicts with" in out:
        return 2, d
    if "reached maximum number of recursive imports" in out:
        return 3, d
    if "not found" in out or "is missing" in out:
        return 4, d
    return 9, d


def run_case(ctx, idx, tree, nsmap, missing=(), lay=None):
    base = os.path.join(ctx.scratch, "g%d" % idx)
    materialise(base, tree, nsmap, missing, lay)
    import subprocess
    try:
        rc, o, e = sh([ctx.yardl, "generate", "--verbose"], cwd=os.path.join(base, pdir(lay, 0)), timeout=20)
    except subprocess.TimeoutExpired:
        shutil.rmtree(base, ignore_errors=True)
        return -999, 8, 0, [], [], "TIMEOUT after 20 s"
    out = o + e
    kind, d = classify(rc, out, base, lay)
    order, parsed = [], []
    if rc == 0:
        mj = json.load(open(os.path.join(base, pdir(lay, 0), "..", "out", "model.json")))
        order = [int(n["name"][1:]) for n in mj["namespaces"]]
        parsed = re.findall(r"Parsed namespace N(\d+)", out)
    shutil.rmtree(base, ignore_errors=True)
    return rc, kind, d, order, parsed, out


def usability_layer(ctx, rng, quick):
    """Types of imported packages are USABLE from the importing package: for accepted graphs the generated Python of the root
    package must import (every namespace it reaches must be bound in it), whatever the order of the import lists.  Graphs: a root
    that imports three packages in every order while one of them also imports another of them (6 x 6), chains, and random DAGs."""
    from vlib import PY_VT
    graphs = []
    for perm in itertools.permutations([1, 2, 3]):
        for a in (1, 2, 3):
            for b in (1, 2, 3):
                if a != b:
                    graphs.append({0: list(perm), 1: [], 2: [], 3: [], a: [b]})
    graphs += [{0: [1], 1: [2], 2: [3], 3: []}, {0: [1, 2], 1: [3], 2: [3], 3: []}, {0: [2, 1], 1: [3], 2: [3, 1], 3: []}]
    for _ in range(6 if quick else 60):
        n = rng.randint(3, 6)
        g = {i: [j for j in rng.sample(range(i + 1, n), rng.randint(0, n - i - 1))] for i in range(n)}
        if not g[0]:
            g[0] = [1]
        graphs.append(g)

    def one(ig):
        i, tree = ig
        base = os.path.join(ctx.scratch, "use%d" % i)
        nsmap = {d: d for d in tree}
        materialise(base, tree, nsmap)
        with open(os.path.join(base, pdir(None, 0), "_package.yml"), "a") as f:
            f.write("python:\n  outputDir: ../outpy\n")
        rc, o, e = sh([ctx.yardl, "generate"], cwd=os.path.join(base, pdir(None, 0)), timeout=60)
        if rc != 0:
            shutil.rmtree(base, ignore_errors=True)
            return rc, (o + e)[-600:], None
        pyroot = os.path.join(base, pdir(None, 0), "..", "outpy")
        rc2, o2, e2 = sh([PY_VT, "-c", "import sys; sys.path.insert(0, %r); import n0; print('IMPORTED')" % pyroot], timeout=120)
        shutil.rmtree(base, ignore_errors=True)
        return 0, "", (rc2 == 0 and "IMPORTED" in o2, e2[-600:])
    with ThreadPoolExecutor(max_workers=12) as ex:
        res = list(ex.map(one, enumerate(graphs)))
    # generic types of an imported package instantiated with types of the importing package: the argument is a dependency of the
    # user (declared later here), and a cycle through such an argument is a cycle
    lib = "Box<T>: !record\n  fields:\n    v: T\n    n: int32\n\nPair<A, B>: !record\n  fields:\n    a: A\n    b: B*\n"
    crafted = [("imported-generic-local-argument-declared-later", True,
                "Holder: !record\n  fields:\n    b: Lib.Box<Item>\n    p: Lib.Pair<int32, Other>\n\nItem: !record\n  fields:\n    x: int32\n\nOther: !enum\n  values: [p, q]\n\n"
                "P: !protocol\n  sequence:\n    h: Holder\n"),
               ("cycle-through-imported-generic-argument", False, "Node: !record\n  fields:\n    next: Lib.Box<Node>\n"),
               ("cycle-through-imported-generic-argument-2", False, "Na: !record\n  fields:\n    b: Lib.Pair<int32, Nb>\n\nNb: !record\n  fields:\n    a: Na?\n")]
    for cname, valid, text in crafted:
        base = os.path.join(ctx.scratch, "useg_" + cname)
        os.makedirs(base + "/lib")
        os.makedirs(base + "/root")
        open(base + "/lib/_package.yml", "w").write("namespace: Lib\n")
        open(base + "/lib/l.yml", "w").write(lib)
        open(base + "/root/_package.yml", "w").write("namespace: Root\nimports:\n  - ../lib\npython:\n  outputDir: ../outpy\njson:\n  outputDir: ../outjson\n")
        open(base + "/root/m.yml", "w").write(text)
        rc, o, e = sh([ctx.yardl, "generate"], cwd=base + "/root", timeout=60)
        rep = {"imported": lib, "root": text, "case": cname, "output": (o + e)[-600:]}
        ctx.case(("usable-generic", cname), nontrivial=True, sample={"crafted": cname, "exit": rc})
        if valid:
            if rc != 0:
                ctx.report("valid-graph-rejected", "yardl rejects a valid use of an imported generic type: " + (o + e)[-200:], rep)
                continue
            rc2, o2, e2 = sh([PY_VT, "-c", "import sys; sys.path.insert(0, %r); import root; print('IMPORTED')" % (base + "/outpy")], timeout=120)
            if rc2 != 0 or "IMPORTED" not in o2:
                ctx.report("imported-types-unusable:python", "the Python generated for a package that instantiates an imported generic type with "
                           "its own types cannot be imported: %s" % e2.strip()[-160:], dict(rep, error=e2[-600:]))
            mj = json.load(open(base + "/outjson/model.json"))
            names = [list(t.values())[0]["name"] if isinstance(list(t.values())[0], dict) else None
                     for ns_ in mj["namespaces"] if ns_["name"] == "Root" for t in ns_.get("types", [])]
            if "Item" in names and "Holder" in names and names.index("Item") > names.index("Holder"):
                ctx.report("dependency-after-dependent", "within the importing namespace a type used as the argument of an imported generic "
                           "type is emitted after its user (order %s)" % names, dict(rep, order=names))
        elif rc == 0 or "cycle" not in (o + e):
            ctx.report("cycle-not-reported", "a reference cycle that runs through the type argument of an imported generic type is not "
                       "reported (exit %d)" % rc, rep)
    # two imported packages (and the root) define a type of the same simple name and refer to their own one without qualification
    pk = {"sensor": ("Sensor", [], "Header: !record\n  fields:\n    id: int32\n\nFrame: !record\n  fields:\n    header: Header\n    data: float32*\n"),
          "display": ("Display", [], "Header: !record\n  fields:\n    title: string\n\nPanel: !record\n  fields:\n    header: Header\n    w: uint16\n"),
          "other": ("Other", [], "Lonely: int32\n")}
    roots = {"app": "Header: !record\n  fields:\n    app: bool\n\nTop: !record\n  fields:\n    header: Header\n    f: Sensor.Frame\n    p: Display.Panel\n\nP: !protocol\n  sequence:\n    t: Top\n",
             "app-unqualified-foreign": "Top: !record\n  fields:\n    l: Lonely\n    f: Sensor.Frame\n"}
    for rname, rtext in roots.items():
        for order in (["sensor", "display", "other"], ["display", "other", "sensor"], ["other", "display", "sensor"]):
            base = os.path.join(ctx.scratch, "same_%s_%s" % (rname, "".join(o_[0] for o_ in order)))
            for dname, (ns, imps, text) in pk.items():
                os.makedirs(os.path.join(base, dname))
                open(os.path.join(base, dname, "_package.yml"), "w").write("namespace: %s\n" % ns)
                open(os.path.join(base, dname, "m.yml"), "w").write(text)
            os.makedirs(base + "/root")
            open(base + "/root/_package.yml", "w").write("namespace: App\nimports:\n" + "".join("  - ../%s\n" % o_ for o_ in order) + "json:\n  outputDir: ../outjson\n")
            open(base + "/root/m.yml", "w").write(rtext)
            rc, o, e = sh([ctx.yardl, "generate"], cwd=base + "/root", timeout=60)
            rep = {"packages": {k_: v_[2] for k_, v_ in pk.items()}, "root": rtext, "import_order": order, "output": (o + e)[-500:]}
            ctx.case(("same-name", rname, tuple(order)), nontrivial=True, sample={"crafted": rname, "import_order": order, "exit": rc})
            if rname == "app-unqualified-foreign":
                if rc == 0:
                    ctx.report("foreign-type-resolved-unqualified", "an unqualified reference to a type that only an imported package defines "
                               "(`Lonely`, defined in namespace Other) is accepted", rep)
                continue
            if rc != 0:
                ctx.report("valid-graph-rejected", "yardl rejects packages that define types of the same simple name in different namespaces: "
                           + (o + e)[-200:], rep)
                continue
            mj = json.load(open(base + "/outjson/model.json"))
            want = {("Sensor", "Frame"): "Sensor.Header", ("Display", "Panel"): "Display.Header", ("App", "Top"): "App.Header"}
            for ns_ in mj["namespaces"]:
                for t_ in ns_.get("types", []):
                    rec = t_.get("record")
                    if rec and (ns_["name"], rec["name"]) in want:
                        got = [f["type"] for f in rec["fields"] if f["name"] == "header"][0]
                        if got != want[(ns_["name"], rec["name"])]:
                            ctx.report("reference-resolved-to-other-namespace", "the unqualified reference `Header` in %s.%s is resolved to %s "
                                       "(import order %s)" % (ns_["name"], rec["name"], got, order), dict(rep, record="%s.%s" % (ns_["name"], rec["name"]), resolved=got))
    for tree, (rc, out, imp) in zip(graphs, res):
        ctx.count("usability_graphs", "generated" if rc == 0 else "rejected")
        if rc != 0:
            ctx.report("valid-graph-rejected", "yardl rejects an acyclic import graph of distinct namespaces: " + out[-200:], {"imports": tree, "output": out})
            continue
        ctx.case(("usable", sorted(tree.items())), nontrivial=True, sample={"imports": tree, "python_of_root_imports": imp[0]})
        if not imp[0]:
            ctx.report("imported-types-unusable:python", "the Python generated for the root of an accepted import graph cannot be imported "
                       "(a namespace it reaches is not bound): %s" % imp[1].strip()[-160:], {"imports": tree, "error": imp[1],
                                                                                            "note": "every package defines T<d> and a record using T of each import"})


def coq_case(tree, nsmap, missing, kind, d, order):
    t = "; ".join("(%d, (%d, [%s]))" % (k, nsmap[k], ";".join(map(str, v))) for k, v in tree.items() if k not in missing)
    return "([%s], 0, %d, %d, [%s])" % (t, kind, d, ";".join(map(str, order)))


def run(ctx):
    ctx.build_repo(need_hook=True)
    ok, failing, log = ctx.coq_props("C18")
    ctx.coverage["trusted_base"] = TRUSTED
    ctx.coverage["rule"] = ("directory trees synthesised for import graphs: ALL directed graphs (self-loops, every import-list order) on "
                            "<= 3 packages (sampled in the quick tier), plus random graphs on up to 14 packages with chains around the "
                            "nesting limit, two directories claiming one namespace, and missing directories; each run through the real "
                            "`yardl generate`; verdict kind, file named by the error and emitted namespace order compared with "
                            "Model.Packages inside Coq; every package uses a type of each of its imports; non-trivial = at least one "
                            "import; distinct by (tree, namespaces)")
    if not ok:
        ctx.report("proof:" + str(failing), "theorem/dependency no longer checks: %s" % failing,
                   {"broken": failing, "log": log[-3000:]}, no_input=True)
    quick = ctx.tier == "quick"
    rng = ctx.rng
    usability_layer(ctx, rng, quick)
    cases = []
    # exhaustive small graphs
    for n in (1, 2, 3):
        nodes = list(range(n))
        opts = perms_subsets(nodes)
        allg = list(itertools.product(opts, repeat=n))
        def acyclic(g):
            return all(j > i for i in range(n) for j in g[i])
        if quick and len(allg) > 260:
            # stratified: cyclic graphs dominate the space; keep every acyclic one and sample the rest
            ac = [g for g in allg if acyclic(g)]
            allg = ac + rng.sample([g for g in allg if not acyclic(g)], 160)
        elif len(allg) > 4200:
            allg = rng.sample(allg, 4200)
        for g in allg:
            cases.append(({i: list(g[i]) for i in nodes}, {i: i for i in nodes}, (), gen_layout(rng, n) if n == 3 else None))
    # random larger graphs, chains near the limit, conflicts, missing
    for _ in range(60 if quick else 600):
        n = rng.choice([4, 5, 6, 9, 11, 12, 14])
        tree = {i: [] for i in range(n)}
        kind = rng.choice(["dag", "chain", "cyc", "conflict", "missing", "deepdiamond"])
        nsmap = {i: i for i in range(n)}
        missing = ()
        if kind in ("chain", "deepdiamond"):
            L = rng.choice([9, 10, 11, 12]) if n >= 12 else n - 1
            L = min(L, n - 1)
            for i in range(L):
                tree[i].append(i + 1)
            if kind == "deepdiamond" and L >= 2:
                # the end of the chain is also imported directly by the root, before or after the chain
                tree[0] = [L, 1] if rng.random() < 0.5 else [1, L]
        else:
            for i in range(n):
                for j in range(i + 1, n):
                    if rng.random() < 0.35:
                        tree[i].append(j)
                rng.shuffle(tree[i])
        if kind == "cyc":
            a, b = sorted(rng.sample(range(n), 2))
            tree[b].append(a)
        if kind == "conflict" and n >= 3:
            a, b = rng.sample(range(1, n), 2)
            nsmap[b] = nsmap[a]
            if rng.random() < 0.7:      # usually both claimants are reachable (directly or through another package)
                for x in (a, b):
                    src = rng.choice([0] + [i for i in range(1, min(a, b)) if i not in (a, b)])
                    if x not in tree[src]:
                        tree[src].insert(rng.randrange(len(tree[src]) + 1), x)
        if kind == "missing":
            missing = (rng.randrange(1, n),)
        cases.append((tree, nsmap, missing, gen_layout(rng, n)))
    # order independence, observed directly: every random case is paired with a copy whose import lists are permuted
    n_base = len(cases)
    perm_of = {}
    for k in range(n_base):
        tree, nsmap, missing, lay = cases[k]
        if any(len(v) > 1 for v in tree.values()):
            t2 = {d: rng.sample(v, len(v)) for d, v in tree.items()}
            if t2 != tree:
                perm_of[len(cases)] = k
                cases.append((t2, nsmap, missing, lay))
    # the witness of theorem C18_order_refuted: package 11 imported directly and at the end of a 9-deep chain
    def t3(first, second):
        t = {0: [first, second], 11: []}
        for i in range(1, 10):
            t[i] = [11] if i == 9 else [i + 1]
        return t
    w1, w2 = len(cases), len(cases) + 1
    cases.append((t3(11, 1), {i: i for i in range(12)}, (), None))
    cases.append((t3(1, 11), {i: i for i in range(12)}, (), None))
    perm_of[w2] = w1
    results = []
    with ThreadPoolExecutor(max_workers=12) as ex:
        results = list(ex.map(lambda ic: run_case(ctx, ic[0], *ic[1]), enumerate(cases)))
    for k2, k1 in perm_of.items():
        r1, r2 = results[k1], results[k2]
        ctx.count("order_pairs", "same verdict" if (r1[0] == 0) == (r2[0] == 0) else "different verdict")
        if (r1[0] == 0) != (r2[0] == 0) or (r1[0] == 0 and sorted(r1[3]) != sorted(r2[3])):
            depth = 3 in (r1[1], r2[1])
            ctx.report("depth-limit-order-dependence" if depth else "order-dependence",
                       "the same import graph is accepted or rejected depending on the order of an import list "
                       "(verdicts %d / %d)" % (r1[1], r2[1]),
                       {"imports_a": cases[k1][0], "imports_b": cases[k2][0], "namespaces": cases[k1][1],
                        "verdict_a": r1[1], "verdict_b": r2[1], "layout": cases[k1][3]})
    items = []
    for (tree, nsmap, missing, lay), (rc, kind, d, order, parsed, out) in zip(cases, results):
        ctx.count("directory_layout", "flat" if not lay else ("nested, a directory name shared between groups"
                                                              if len(set(os.path.basename(v) for v in lay.values())) < len(lay) else "nested"))
        ctx.count("verdict", {0: "ok", 1: "cycle", 2: "conflict", 3: "depth", 4: "missing"}.get(kind, "other"))
        ctx.count("packages", str(len(tree)))
        ctx.case((sorted(tree.items()), sorted(nsmap.items()), missing, tuple(sorted(lay.items())) if lay else None),
                 nontrivial=any(tree.values()),
                 sample={"imports": tree, "namespaces": nsmap, "missing": list(missing), "layout": lay, "exit": rc,
                         "verdict": kind, "emitted_order": order})
        if rc == -999:
            ctx.report("load-does-not-terminate", "yardl did not terminate within 20 s on an import graph",
                       {"imports": tree, "namespaces": nsmap, "missing": list(missing), "layout": lay})
            continue
        if rc == 0:
            # model-free oracle: exactly the reachable packages, each once, every package after its imports
            reach, stack = set(), [0]
            while stack:
                x = stack.pop()
                if x not in reach:
                    reach.add(x)
                    stack += tree[x]
            pos = {n: i for i, n in enumerate(order)}
            okset = sorted(order) == sorted(nsmap[x] for x in reach) and len(set(order)) == len(order)
            oktopo = okset and all(pos[nsmap[j]] < pos[nsmap[i]] for i in reach for j in tree[i] if j != i)
            if not okset:
                ctx.report("loaded-set-wrong", "the namespaces loaded (%s) are not exactly the reachable packages, once each" % order,
                           {"imports": tree, "namespaces": nsmap, "yardl_order": order, "layout": lay})
            elif not oktopo:
                ctx.report("dependency-after-dependent", "a package was emitted before a package it imports (order %s)" % order,
                           {"imports": tree, "namespaces": nsmap, "yardl_order": order, "layout": lay})
        if rc not in (0, 1):
            ctx.report("cli-crash", "yardl exited with status %d on an import graph" % rc,
                       {"imports": tree, "namespaces": nsmap, "missing": list(missing), "output": out[-1500:], "layout": lay})
        if kind == 9:
            ctx.report("unclassified-error", "yardl reported an error that is none of cycle/conflict/depth/missing: " + out[-200:],
                       {"imports": tree, "namespaces": nsmap, "missing": list(missing), "output": out[-1500:], "layout": lay})
        if rc == 0 and len(parsed) != len(set(parsed)):
            ctx.report("parsed-twice", "a namespace was parsed more than once", {"imports": tree, "parsed": parsed})
        items.append(coq_case(tree, nsmap, missing, kind, d, order))
    shards = [items[k:k + 300] for k in range(0, len(items), 300)]

    def ev(ix_sh):
        ix, sh_ = ix_sh
        body = ("From Coq Require Import List NArith.\nImport ListNotations.\nOpen Scope N_scope.\nFrom YV Require Import Model.Packages.\n"
                "Definition cases : list ccase := [\n " + ";\n ".join(sh_) + "\n].\n"
                "Definition MM := Eval vm_compute in cmismatches 0 cases.\nPrint MM.\n")
        return ix, Ctx.parse_nat_list(ctx.coq_eval("cc_%d" % ix, body), "MM")
    with ThreadPoolExecutor(max_workers=8) as ex:
        res = list(ex.map(ev, enumerate(shards)))
    for ix, mm in res:
        for k in mm[:3]:
            tree, nsmap, missing, lay = cases[ix * 300 + k]
            rc, kind, d, order, parsed, out = results[ix * 300 + k]
            # property-level judgement without the model: is the verdict right for this graph?
            ctx.report("model-differs", "Model.Packages.load and yardl disagree on an import graph (yardl: exit %d, verdict %d, "
                       "dir %d, order %s)" % (rc, kind, d, order),
                       {"imports": tree, "namespaces": nsmap, "missing": list(missing), "layout": lay, "yardl_exit": rc, "yardl_verdict": kind,
                        "yardl_order": order, "output": out[-800:], "broken": "correspondence Model.Packages.load vs collectPackages"},
                       no_input=True)


def replay(ctx, path):
    r = json.load(open(path))["replay"]
    tree = {int(k): v for k, v in r["imports"].items()}
    nsmap = {int(k): v for k, v in r["namespaces"].items()}
    ctx.build_repo(need_hook=True)
    lay = {int(k): v for k, v in r["layout"].items()} if r.get("layout") else None
    print(run_case(ctx, 0, tree, nsmap, tuple(r.get("missing", ())), lay)[:5])
