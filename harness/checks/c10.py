"""C10 - the front end is total: any input gives success or located diagnostics."""
import json
import os
import re
import subprocess
from concurrent.futures import ThreadPoolExecutor

import ymodel
from vlib import sh

LEVEL = "proof"
TRUSTED = [
    "Coq 8.16.1 kernel + vm_compute; theorems in coq/Props/C10.v are about the validation pipeline (pass list and guards "
    "regenerated from validation*.go on every run); the behaviour of each pass is an oracle",
    "absence of Go panics, hangs and memory exhaustion is NOT proved: it is explored by running the real `yardl validate` / "
    "`yardl generate` on generated inputs (random bytes, mutated valid models, random type and expression grammar sentences, "
    "manifest mutations, import cycles) under a time limit and an address-space limit; fuzzing is sampling",
]
TIMEOUT = 20
TYPE_ATOMS = ["int", "int32", "uint64", "float", "string", "bool", "date", "complexfloat", "size", "Rec", "Gen<int>", "Gen<Rec>", "Gen",
              "Nope", "En", "Fl", "T", "int?", "Rec?", "string->int", "Rec->int", "int*", "int*3", "int*0", "int[]", "int[,]", "int[x,y]",
              "int[2,3]", "int[x:2,y:3]", "int[x:3, y]", "int[x, y:3]", "int[x:3, y]*", "int[x:3, y, z:2]", "int[x, y:3]?", "int[3, y]", "int[x:3,]", "int[0]", "int[-1]", "int[x,x]", "int[ ]", "int**?*", "(int)", "(int->string)*", "int->", "->int",
              "*", "?", "[]", "<>", "Gen<>", "Gen<int,int>", "Gen<Gen<Gen<int>>>", "int<string>", "a.b.c", "Lib.Item", "Lib.", ".Rec", "9x",
              "int32[" + "," * 40 + "]", "int" + "*" * 60, "int" + "?" * 10, "Gen<" * 30 + "int" + ">" * 30, "été", "int #c", "''", "~", "null"]
TAGGED = ["!record [a]", "!record {fields: [a, b]}", "!record {fields: {a: }}", "!record {fields: {a: {b: c}}}", "!record {fields: 3}",
          "!record {computedFields: {a: 1}}", "!enum [a]", "!enum {values: 3}", "!enum {values: {a: x}}", "!enum {values: {a: 1.5}}",
          "!enum {base: string, values: [a]}", "!enum {values: {a: 99999999999999999999999}}", "!flags {values: {a: -1}}",
          "!flags {values: [a, a]}", "!union {a: int, b: }", "!union [int]", "!union 3", "!vector {items: }", "!vector {length: 3}",
          "!vector {items: int, length: -1}", "!vector {items: int, length: x}", "!vector {items: int, length: 1e3}",
          "!array {items: int, dimensions: -1}", "!array {items: int, dimensions: 1.5}", "!array {items: int, dimensions: [1, 2]}",
          "!array {items: int, dimensions: {x: -2}}", "!array {items: int, dimensions: [[a]]}", "!array {items: int, dimensions: 99999999999}",
          "!array {dimensions: 2}", "!map {keys: int}", "!map {values: int}", "!map {keys: [int, string], values: int}", "!map 3",
          "!stream {items: int}", "!stream 3", "!generic {name: Gen}", "!generic {args: [int]}", "!generic {name: 3, args: 4}",
          "!generic {name: Gen, args: int}", "!generic [a]", "!generic 3", "!generic {name: Gen, args: [null]}", "!generic {name: Gen, args: ~}",
          "!generic {name: Gen, args: [~, int]}", "!protocol {sequence: [a]}", "!protocol {sequence: {a: }}", "!protocol 7", "!bogus {a: 1}",
          "!!python/object:x {}", "&a [*a]", "{a: 1}", "[[[[[[[[[[int]]]]]]]]]]", "[int, [string, [float]]]", "[null, null]", "[null]"]
EXPRS = ["a", "a + b", "a +", "+ a", "a ** b ** c", "-a ** b", "a[0]", "a[]", "a[0, 1, 2, 3]", "a[x: 0]", "a[x:0, 1]", "a[-1]", "a[99999999999999999999]",
         "size(a)", "size()", "size(a, 0)", "size(a, 'x')", "size(a, 9999999999999999999999)", "size(a, -1)", "size(v, 1)", "size(m, 0)",
         "ma[x:0, 1, 2]", "ma[1, x:0, 2]", "ma[x:0, x:1, 2]", "ma[0, 1, 5]", "size(ma, 1)", "size(ma, 'x')", "ua[x:1, y:2]", "ua[x:0]", "ua[0, y:1]", "size(ua, 'x')", "dimensionIndex(ua, 'x')", "ua[0, 1]", "ua[0]", "da[x:1]", "da[0]", "size(da, 'x')",
         "size(da, 0)", "dimensionCount(da)", "fa[y:0, x:1]", "fa[x:0, x:1]", "fa[z:0, y:1]", "a[y:0]",
         "size(fa, 0)", "size(fa, 1)", "size(fa, 2)", "size(fa, 18446744073709551615)", "size(fa, 18446744073709551616)", "size(fa, 18446744073709551617)",
         "size(fa, 9223372036854775808)", "size(a, 18446744073709551616)", "fa[18446744073709551616, 0]", "v[18446744073709551616]", "v[4294967296]",
         "fa[0, 9223372036854775808]", "size(fa, 'y')", "dimensionIndex(fa, 'y')", "dimensionIndex(a, 'x')", "dimensionIndex(a, 3)", "dimensionCount(a)", "dimensionCount(1)", "nope(a)", "a.b.c", "r.x", "r.nope", "1.x",
         "'s' + 1", "1 / 0", "089", "08 + 1", "a[09]", "size(a, 08)", "-09", "1.5e999", "0x", "0xFFFFFFFFFFFFFFFFFFFFFFFFF", "a as int", "a as int[0]", "a as", "as", "x as Nope", "a as Rec",
         "(a", "a)", "((((((((((a))))))))))", "a, b", "\"unterminated", "!switch a", "a ? b : c", "a && b", "1 +" * 300 + "1", "(" * 300 + "1" + ")" * 300,
         "u", "u.x", "size(u)", "o + 1", "s[0]", "v[v[v[0]]]", "m['k']", "m[0]", "m[]", "e", "e + 1", "☃", ""]
CORPUS = [
    "X: !generic [a]\n",
    "R: !record\n  fields:\n    a: int\nX: !generic {name: R, args: [null]}\n",
    "R: !record\n  fields:\n    a: int\nX: !generic {name: R, args: ~}\n",
    "R: !record\n  fields:\n    a: int\n  computedFields:\n    x: 089\n",
    "A: B\nB: A\nE: !enum {base: A, values: [a]}\n",
    "A: B\nB: A\nE: !flags\n  base: B\n  values: [a]\n",
    "R: !record {fields: {a: int}, computedFields: {x:\n1}}\n",
    "R: !record {fields: {a: int}, computedFields: {x:\na + 1}}\n",
    "null: !record\n  fields:\n    a: int\n",
    "R: !record\n  fields:\n    v: int*3\n  computedFields:\n    c: v as int[0]\n",
]
# a valid model whose reference graph is a chain of diamonds: 2^40 reference paths, 41 types (a pass that walks paths
# instead of types does not finish)
CORPUS.append("".join("D%d: !record\n  fields:\n    a: D%d\n    b: D%d?\n    c: D%d*\n\n" % (i, i + 1, i + 1, i + 1) for i in range(40))
              + "D40: !record\n  fields:\n    x: int32\n")
BASE = ("Rec: !record\n  fields:\n    x: int32\n\nGen<T>: !record\n  fields:\n    v: T\n\nEn: !enum\n  values: [p, q]\n\nFl: !flags\n  values: [p, q]\n\n")


def model_with_type(t):
    return BASE + "Hole: %s\n\nP: !protocol\n  sequence:\n    s: Hole\n" % t


def model_with_field(t):
    return BASE + "Hole: !record\n  fields:\n    f: %s\n    g: [Rec, %s]\n" % (t, t)


def model_with_union_case(t):
    """the type as an inline case of a union, quoted so that brackets and commas inside it do not end the YAML flow sequence"""
    if "'" in t or t.startswith("!") or "\n" in t or not t:
        return None
    return BASE + "Hole: !record\n  fields:\n    h: [Rec, '%s']\n    i: [null, Rec, '%s']\n    j: !vector {items: [int32, '%s']}\n" % (t, t, t)


def model_with_expr(e):
    return BASE + ("Hole: !record\n  fields:\n    a: int32[x, y]\n    fa: int32[x:2, y:3]\n    ua: !array {items: int32, dimensions: 2}\n    ma: !array {items: int32, dimensions: [x, null, z]}\n    da: int32[]\n    b: float64\n    v: int32*4\n    m: string->int32\n    r: Rec\n    u: [int32, string]\n"
                   "    o: int32?\n    s: string\n    e: En\n  computedFields:\n    c: %s\n" % json.dumps(e))


def mutate_text(rng, text):
    lines = text.split("\n")
    k = rng.choice(["del", "dup", "swap", "tok", "indent", "trunc", "junk", "colon", "tab"])
    if not lines:
        return text
    i = rng.randrange(len(lines))
    if k == "del":
        del lines[i]
    elif k == "dup":
        lines.insert(i, lines[i])
    elif k == "swap" and len(lines) > 1:
        j = rng.randrange(len(lines))
        lines[i], lines[j] = lines[j], lines[i]
    elif k == "tok":
        toks = re.split(r"(\W+)", lines[i])
        if toks:
            j = rng.randrange(len(toks))
            toks[j] = rng.choice(TYPE_ATOMS + ["!record", "!enum", "!union", "fields:", "values:", "-", ":", "null", "~", "0", "-1", "'", "\"", "{", "]"])
        lines[i] = "".join(toks)
    elif k == "indent":
        lines[i] = " " * rng.randint(0, 9) + lines[i].lstrip()
    elif k == "trunc":
        return text[:rng.randrange(len(text) + 1)]
    elif k == "junk":
        pos = rng.randrange(len(text) + 1)
        return text[:pos] + "".join(chr(rng.choice([0, 9, 10, 13, 27, 34, 39, 58, 91, 123, 127, 255, 0x2028, 0xfeff, 0xfffd, rng.randrange(32, 127)]))
                                    for _ in range(rng.randint(1, 8))) + text[pos:]
    elif k == "colon":
        lines[i] = lines[i].replace(":", rng.choice(["", "::", ": :", " :"]), 1)
    elif k == "tab":
        lines[i] = "\t" + lines[i]
    return "\n".join(lines)


def run_case(ctx, idx, files, pkg, cmd="validate", extra=None):
    """files: {relative path: bytes}; returns (rc, stderr text, seconds or None on timeout)"""
    d = os.path.join(ctx.scratch, "f%d" % idx)
    os.makedirs(d + "/m", exist_ok=True)
    for fn, data in files.items():
        p = os.path.join(d, fn)
        os.makedirs(os.path.dirname(p), exist_ok=True)
        with open(p, "wb") as f:
            f.write(data if isinstance(data, bytes) else data.encode("utf-8", errors="surrogatepass"))
    with open(os.path.join(d, "m/_package.yml"), "wb") as f:
        f.write(pkg if isinstance(pkg, bytes) else pkg.encode("utf-8", errors="surrogatepass"))
    try:
        p = subprocess.run("ulimit -v 4000000; exec %s %s" % (ctx.yardl, cmd), shell=True, cwd=d + "/m", stdout=subprocess.PIPE,
                           stderr=subprocess.PIPE, timeout=TIMEOUT)
    except subprocess.TimeoutExpired:
        return None, "timeout", None
    out = re.sub(r"\x1b\[[0-9;]*m", "", (p.stdout + p.stderr).decode("utf-8", errors="replace"))
    return p.returncode, out, 0


def signature(out):
    """a stable name for a crash: the panic message without addresses + the first yardl frame"""
    m = re.search(r"panic: (.*)", out)
    msg = re.sub(r"0x[0-9a-f]+", "0x", m.group(1))[:100] if m else ("fatal error: " + re.search(r"fatal error: (.*)", out).group(1)[:80]
                                                                    if "fatal error:" in out else out.strip().splitlines()[0][:80] if out.strip() else "no output")
    fr = re.findall(r"github\.com/microsoft/yardl/tooling/([\w/.*()\[\]]+)\(", out)
    fr = [f for f in fr if "panic" not in f]
    return "%s @ %s" % (msg, fr[0] if fr else "?")


def run(ctx):
    ctx.build_repo(need_hook=True)
    ok, failing, log = ctx.coq_props("C10")
    ctx.coverage["trusted_base"] = TRUSTED
    ctx.coverage["rule"] = ("inputs: random byte strings as model files and manifests; %d hostile type expressions and %d tagged YAML forms "
                            "in alias/field/union positions; %d computed-field expressions; single random mutations (line, token, "
                            "indentation, truncation, junk bytes) of valid random packages and of manifests; import cycles and self "
                            "imports; each through `yardl validate` (some through `generate`) with a %ds limit and a 4 GB address-space "
                            "limit; expected: exit 0, or exit 1 with a message naming a file; non-trivial = every input; distinct by content"
                            % (len(TYPE_ATOMS), len(TAGGED), len(EXPRS), TIMEOUT))
    if not ok:
        ctx.report("proof:" + str(failing), "theorem/dependency no longer checks: %s" % failing,
                   {"broken": failing, "log": log[-3000:]}, no_input=True)
    quick = ctx.tier == "quick"
    rng = ctx.rng
    cases = []          # (kind, files, manifest, cmd)
    ok_pkg = "namespace: Fz\n"
    # self-check of the harness: the carrier models must be valid when the hole holds something valid
    for label, text in (("type", model_with_type("int32")), ("field", model_with_field("int32")), ("expression", model_with_expr("b + 1"))):
        rc0, out0, _ = run_case(ctx, 900000 + len(label), {"m/m.yml": text}, ok_pkg, "validate")
        if rc0 != 0:
            raise RuntimeError("the %s carrier model of the fuzz harness is rejected by yardl: %s" % (label, out0[-300:]))
    # corpus of inputs that once crashed the front end (each repaired in /repo, see known_findings.json): they run first
    for text in CORPUS:
        cases.append(("corpus", {"m/m.yml": text}, ok_pkg, "validate"))
    # the same chain of diamonds (30 levels) with a protocol, through `generate` for Python: the generator computes the default
    # value of a record by recursing into its fields without remembering results (known finding)
    dia = "".join("D%d: !record\n  fields:\n    a: D%d\n    b: D%d?\n\n" % (i, i + 1, i + 1) for i in range(30)) + \
        "D30: !record\n  fields:\n    x: int32\n\nPd: !protocol\n  sequence:\n    d: D0\n"
    cases.append(("diamond-generate", {"m/m.yml": dia}, ok_pkg + "python:\n  outputDir: ../out\n", "generate"))
    for t in TYPE_ATOMS + TAGGED:
        cases.append(("type", {"m/m.yml": model_with_type(t)}, ok_pkg, "validate"))
        cases.append(("type-in-field", {"m/m.yml": model_with_field(t)}, ok_pkg, "validate"))
        if model_with_union_case(t):
            cases.append(("type-in-union-case", {"m/m.yml": model_with_union_case(t)}, ok_pkg, "validate"))
    for e in EXPRS:
        cases.append(("expression", {"m/m.yml": model_with_expr(e)}, ok_pkg, "validate"))
    for _ in range(60 if quick else 600):
        e = " ".join(rng.choice(["a", "b", "v", "m", "r", "u", "1", "2.5", "'x'", "+", "-", "*", "/", "**", "(", ")", "[", "]", ",", ".", "x",
                                 "size", "as", "int", "Rec", ":", "0x1F", "dimensionIndex"]) for _ in range(rng.randint(1, 12)))
        cases.append(("random-expression", {"m/m.yml": model_with_expr(e)}, ok_pkg, "validate"))
    for _ in range(40 if quick else 400):
        cases.append(("random-bytes", {"m/m.yml": bytes(rng.randrange(256) for _ in range(rng.randint(0, 200)))}, ok_pkg, "validate"))
        cases.append(("random-manifest", {"m/m.yml": BASE}, bytes(rng.randrange(256) for _ in range(rng.randint(0, 120))), "validate"))
    manifests = ["", "namespace:", "namespace: 3", "namespace: [a]", "namespace: Fz\nimports: 3", "namespace: Fz\nimports: [3]",
                 "namespace: Fz\nimports:\n  - .", "namespace: Fz\nimports:\n  - ../m", "namespace: Fz\nimports:\n  - /nonexistent",
                 "namespace: Fz\nimports:\n  - http://127.0.0.1:1/x", "namespace: Fz\nversions: 3", "namespace: Fz\nversions:\n  v1: .",
                 "namespace: Fz\nversions:\n  v1: /nonexistent", "namespace: Fz\nversions:\n  '': ../m", "namespace: Fz\ncpp: 3",
                 "namespace: Fz\ncpp:\n  sourcesOutputDir: ''", "namespace: Fz\ncpp:\n  sourcesOutputDir: /proc/version/x",
                 "namespace: Fz\npython:\n  outputDir: [a]", "namespace: Fz\nbogus: 1", "namespace: Fz\nnamespace: Gz", "namespace: fz",
                 "namespace: Fz.Gz", "namespace: 'Fz Gz'", "namespace: Fz\njson:\n  outputDir: ../out\nmatlab:\n  outputDir: ''",
                 "- a\n- b", "namespace: &a Fz\nx: *a", "\tnamespace: Fz", "namespace: Fz\npredecessor: ../m"]
    for mf in manifests:
        cases.append(("manifest", {"m/m.yml": BASE}, mf, "validate"))
        cases.append(("manifest", {"m/m.yml": BASE + "P: !protocol\n  sequence:\n    a: Rec\n"}, mf, "generate"))
    # import cycles / self import / diamond
    cyc = {"m/m.yml": BASE, "b/_package.yml": "namespace: Bz\nimports:\n  - ../c\n", "b/b.yml": "Bt: int32\n",
           "c/_package.yml": "namespace: Cz\nimports:\n  - ../m\n  - ../b\n", "c/c.yml": "Ct: int32\n"}
    cases.append(("import-cycle", cyc, "namespace: Fz\nimports:\n  - ../b\n", "validate"))
    cases.append(("import-cycle", cyc, "namespace: Fz\nimports:\n  - ../c\n  - ../b\n", "validate"))
    cases.append(("import-self-namespace", {"m/m.yml": BASE, "b/_package.yml": "namespace: Fz\n", "b/b.yml": "Bt: int32\n"},
                  "namespace: Fz\nimports:\n  - ../b\n", "validate"))
    cases.append(("version-cycle", {"m/m.yml": BASE}, "namespace: Fz\nversions:\n  v1: ../m\n", "validate"))
    # mutations of valid random packages
    for k in range(2 if quick else 12):
        pkg = ymodel.Gen(rng, namespace="Fz").build().yaml()
        for _ in range(120 if quick else 400):
            t = pkg
            for _ in range(rng.choice([1, 1, 1, 2, 3])):
                t = mutate_text(rng, t)
            cases.append(("mutated-model", {"m/m.yml": t}, ok_pkg, "validate" if rng.random() < 0.9 else "generate"))

    def one(ic):
        i, (kind, files, mf, cmd) = ic
        return run_case(ctx, i, files, mf, cmd)
    with ThreadPoolExecutor(max_workers=14) as ex:
        results = list(ex.map(one, enumerate(cases)))
    for (kind, files, mf, cmd), (rc, out, _) in zip(cases, results):
        ctx.count("input_kind", kind)
        ctx.count("outcome", "timeout" if rc is None else "exit %s" % rc)
        main = files.get("m/m.yml", b"")
        rep = {"kind": kind, "command": "yardl " + cmd, "manifest": mf if isinstance(mf, str) else mf.hex(),
               "files": {k_: (v if isinstance(v, str) else "hex:" + v.hex()) for k_, v in files.items()}, "output": out[-1500:]}
        ctx.case((kind, cmd, repr(main), repr(mf)), sample={"kind": kind, "exit": rc, "first_line": out.strip().splitlines()[0][:120] if out.strip() else ""})
        if rc is None and isinstance(main, str) and re.search(r"(\w+<){20,}", main):
            ctx.report("exponential-generic-nesting", "`yardl %s` did not finish within %d s on a type with 30 nested generic arguments" % (cmd, TIMEOUT), rep)
        elif rc is None and kind == "diamond-generate":
            ctx.report("exponential-generation-on-shared-references", "`yardl generate` (Python) did not finish within %d s on a valid model of 31 records in "
                       "which every record refers to the next one twice" % TIMEOUT, rep)
        elif rc is None:
            ctx.report("hang:" + kind, "`yardl %s` did not finish within %d s on a %s input" % (cmd, TIMEOUT, kind), rep)
        elif rc not in (0, 1) or "panic:" in out or "goroutine " in out or "fatal error:" in out:
            sig = signature(out)
            ctx.report("crash:" + sig, "`yardl %s` aborts (exit %s) on a %s input: %s" % (cmd, rc, kind, sig), rep)
        elif rc == 1:
            if not re.search(r"[\w./-]+\.(yml|yaml)|_package\.yml", out):
                ctx.report("no-file-named:" + kind, "`yardl %s` fails on a %s input without naming a file: %s" % (cmd, kind, out.strip()[:160]), rep)
            elif kind in ("type", "type-in-field", "type-in-union-case", "expression", "random-expression") and not re.search(r"\.yml:\d+", out):
                ctx.report("no-line-number:" + kind, "`yardl %s` reports a problem inside a model file without a line number: %s"
                           % (cmd, out.strip()[:160]), rep)


def replay(ctx, path):
    print(json.dumps(json.load(open(path)), indent=1)[:4000])
