"""C08 - every accepted package yields well-formed code for every target and option set."""
import json
import os
import re
from concurrent.futures import ThreadPoolExecutor

import gentables
import genrun
import schemamodel as sm
import ymodel
from vlib import Ctx, PY_VT, sh

LEVEL = "proof"
TRUSTED = [
    "Coq 8.16.1 kernel + vm_compute; theorems in coq/Props/C08.v cover the reserved-word escaping (tables regenerated from "
    "internal/*/common/common.go on every run) and the soundness of the definition-order checker; the casing functions "
    "(ToSnakeCase etc.) are an oracle observed through the verif hook",
    "that generated trees compile (g++ -std=c++17 -fsyntax-only with the xtensor/date/nlohmann shims of /verif/shims; HDF5 sources "
    "cannot be compiled here - no HDF5 headers) and import (CPython of python3-vt) is explored by sampling, not proved",
    "keyword lists the reserved tables are compared with: Python's own keyword module; a C++17 keyword list in this file",
    "MATLAB code is generated but never executed or parsed",
]
CPP17_KEYWORDS = """alignas alignof and and_eq asm auto bitand bitor bool break case catch char char16_t char32_t class compl const
constexpr const_cast continue decltype default delete do double dynamic_cast else enum explicit export extern false float for friend goto
if inline int long mutable namespace new noexcept not not_eq nullptr operator or or_eq private protected public register
reinterpret_cast return short signed sizeof static static_assert static_cast struct switch template this thread_local throw true try
typedef typeid typename union unsigned using virtual void volatile wchar_t while xor xor_eq""".split()
CORPUS = ["fooBar", "fooBAR", "class", "classField", "a1", "ab1", "int32", "x2", "foo2Bar", "fooB", "xYZw", "ab16", "ab5", "value1",
          "forEach", "end", "match", "none", "true", "not", "for", "default", "defaultField", "kClass", "self", "lambda", "import",
          "function", "properties", "methods", "global", "print", "type", "id", "size", "shape", "dtype", "value", "index", "get",
          "data", "template", "typename", "operator", "union", "struct", "enum", "namespace", "std", "yardl", "async", "await", "is"]
KINDS = {"field": ("cpp_field", "py_field", "matlab_field"), "computed": ("cpp_computed", "py_computed", None),
         "enum_value": (None, "py_enumvalue", None)}


def syntax_check(cdir, extra_inc=()):
    """g++ -fsyntax-only of every generated .cc except the HDF5 ones; returns list of (file, error)"""
    srcs = []
    for d, _, files in os.walk(cdir):
        for f in files:
            if f.endswith(".cc") and "/hdf5" not in d and "mocks" not in f:
                srcs.append(os.path.join(d, f))

    def comp(src):
        rc, o, e = sh(["g++", "-std=c++17", "-fsyntax-only", "-w", "-I", genrun.SHIMS, "-I", cdir] + list(extra_inc) + [src], timeout=900)
        return (os.path.relpath(src, cdir), e[-1500:]) if rc != 0 else None
    with ThreadPoolExecutor(max_workers=8) as ex:
        return [r for r in ex.map(comp, srcs) if r]


def py_import(pydir, module):
    rc, o, e = sh([PY_VT, "-c", "import sys, compileall; sys.path.insert(0, %r); ok = compileall.compile_dir(%r, quiet=2); "
                   "import %s; sys.exit(0 if ok else 3)" % (pydir, os.path.join(pydir, module), module)], timeout=300)
    return rc, e[-800:]


def build(ctx, d, ns, model, cfg, files=None):
    os.makedirs(d + "/model", exist_ok=True)
    open(d + "/model/_package.yml", "w").write("namespace: %s\n%s" % (ns, cfg))
    for fn, text in (files or {"model.yml": model}).items():
        open(os.path.join(d, "model", fn), "w").write(text)
    rc, o, e = sh([ctx.yardl, "generate"], cwd=d + "/model", timeout=180)
    return rc, (o + e)[-1500:]


def cfg_for(opts, array_header=True):
    cpp = ["cpp:", "  sourcesOutputDir: ../out/cpp"]
    for k in ("generateNDJson", "generateHDF5", "generateCMakeLists"):
        if k in opts:
            cpp.append("  %s: %s" % (k, "true" if opts[k] else "false"))
    if array_header:
        cpp.append("  overrideArrayHeader: ndarray_shim.h")
    py = ["python:", "  outputDir: ../out/python"]
    if "pyNDJson" in opts:
        py.append("  generateNDJson: %s" % ("true" if opts["pyNDJson"] else "false"))
    return "\n".join(cpp + py + ["matlab:", "  outputDir: ../out/matlab", "json:", "  outputDir: ../out/json"]) + "\n"


def check_tree(ctx, d, ns, what, rep, compile_cpp=True):
    """generated code of an accepted package: python compiles+imports, C++ passes the syntax check"""
    mod = None
    pyroot = d + "/out/python"
    mods = [m for m in os.listdir(pyroot) if os.path.isdir(os.path.join(pyroot, m))] if os.path.isdir(pyroot) else []
    for m in mods:
        rc, err = py_import(pyroot, m)
        ctx.case(("py", what, m, rep.get("model", "")), sample={"what": what, "python_module": m, "imports": rc == 0})
        if rc != 0:
            ctx.report("python-import:" + what, "generated Python of an accepted package (%s) does not compile/import: %s" % (what, err.strip()[-200:]),
                       dict(rep, error=err))
    if compile_cpp and os.path.isdir(d + "/out/cpp"):
        bad = syntax_check(d + "/out/cpp")
        ctx.case(("cpp", what, rep.get("model", "")), sample={"what": what, "cpp_files_failing": len(bad)})
        if bad:
            first = re.sub(r"\s+", " ", bad[0][1])[:260]
            ctx.report("cpp-compile:" + what, "generated C++ of an accepted package (%s) is not valid C++17: %s: %s" % (what, bad[0][0], first),
                       dict(rep, errors=bad[:3]))


def run(ctx):
    ctx.build_repo(need_hook=True)
    ok, failing, log = ctx.coq_props("C08")
    ctx.coverage["trusted_base"] = TRUSTED
    ctx.coverage["rule"] = ("(1) every reserved word, a corpus and random valid identifiers through the real naming functions (verif hook), "
                            "compared with the escape model on the regenerated tables; reserved tables compared with the languages' keyword "
                            "lists; (2) random and crafted accepted packages (reserved words in every naming position, imported generics) "
                            "generated under several option sets; Python byte-compiled and imported, C++ syntax-checked as C++17, the "
                            "definition order of model.json checked inside Coq; (3) `yardl init` scaffolds for accepted names; "
                            "non-trivial = each generated tree / identifier; distinct by content")
    if not ok:
        ctx.report("proof:" + str(failing), "theorem/dependency no longer checks: %s" % failing,
                   {"broken": failing, "log": log[-3000:]}, no_input=True)
    quick = ctx.tier == "quick"
    rng = ctx.rng
    tables = gentables.naming_tables(lenient=True)
    tables.pop("problems")      # already reported by gentables.regenerate: the search for reserved identifiers goes on with the lists

    # ---------------------------------------------------------------- (1) identifiers
    import keyword
    pykw = set(keyword.kwlist)
    missing = sorted(pykw - set(tables["python"]["reserved"]))
    if missing:
        ctx.report("python-keywords-missing", "Python keywords missing from the reserved table: %s" % missing, {"missing": missing})
    missing = sorted(set(CPP17_KEYWORDS) - set(tables["cpp"]["reserved"]))
    if missing:
        ctx.report("cpp-keywords-missing", "C++17 keywords missing from the reserved table: %s" % missing, {"missing": missing})
    names = list(CORPUS)
    for lang in tables:
        names += [w for w in tables[lang]["reserved"] if re.fullmatch(r"[a-z][a-zA-Z0-9]{0,63}", w)]
        # reserved words with underscores cannot be model names, but the camelCase names whose snake_case form they are can
        # (staticCast -> static_cast, threadLocal -> thread_local, wcharT -> wchar_t)
        for w in tables[lang]["reserved"]:
            if "_" in w.strip("_") and re.fullmatch(r"[a-z][a-z0-9_]*", w):
                parts = [x for x in w.split("_") if x]
                names.append(parts[0] + "".join(x[0].upper() + x[1:] for x in parts[1:]))
    for _ in range(300 if quick else 3000):
        n = rng.choice("abcdefghijklmnopqrstuvwxyz") + "".join(rng.choice("abcdeXYZ019") for _ in range(rng.randint(0, 9)))
        names.append(n)
    names = sorted(set(names))
    out = ctx.hook_call(["names"], input="\n".join(names) + "\n")
    rows = [json.loads(l) for l in out.splitlines() if l.strip()]
    seen = {}
    for r in rows:
        ctx.case(("name", r["in"]), sample={"name": r["in"], "cpp_field": r["cpp_field"], "py_field": r["py_field"], "matlab_field": r["matlab_field"]})
        for lang, key, kind, cased in (("cpp", "cpp_field", "field", r["snake"]), ("cpp", "cpp_computed", "computed", r["pascal"]),
                                      ("python", "py_field", "field", r["snake"]), ("python", "py_computed", "computed", r["snake"]),
                                      ("python", "py_enumvalue", "enum_value", r["snake"].upper()),
                                      ("matlab", "matlab_field", "field", r["snake"])):
            res, rule = tables[lang]["reserved"], tables[lang]["rules"][kind]
            got = r[key]
            if got in res:
                ctx.report("reserved-identifier:%s:%s" % (lang, kind), "the %s %s identifier for the model name '%s' is the reserved word '%s'"
                           % (lang, kind, r["in"], got), {"name": r["in"], "language": lang, "kind": kind, "identifier": got})
            if rule is None:
                continue
            tested = cased if rule["checked"] == "cased" else r["in"]
            want = cased + rule["suffix"] if tested in res else cased
            if got != want:
                ctx.report("escape-model-differs:%s:%s" % (lang, kind), "the %s %s identifier for '%s' is '%s'; the escape model on the "
                           "regenerated tables gives '%s' (correspondence broken)" % (lang, kind, r["in"], got, want),
                           {"name": r["in"], "language": lang, "kind": kind, "identifier": got, "model": want}, no_input=True)
            if lang in ("python", "matlab") and cased.endswith("_"):
                ctx.report("casing-ends-with-underscore", "the casing of '%s' ends with '_' (hypothesis of C08_escaping_adds_no_collisions)" % r["in"],
                           {"name": r["in"], "cased": cased})
            if kind == "field" and re.fullmatch(r"[a-z][a-zA-Z0-9]{0,63}", r["in"]):
                k_ = (lang, got)
                if k_ in seen and seen[k_] != r["in"]:
                    a, b = sorted([seen[k_], r["in"]])
                    esc = (a in res) != (b in res) or ((ctx_snake := None) is None and False)
                    key_ = "field-collision-by-escaping:" + lang if (r["snake"] in res or seen_snake.get(seen[k_]) in res) and seen_snake.get(seen[k_]) != r["snake"] \
                        else "field-collision-by-casing"
                    ctx.report(key_, "the distinct field names '%s' and '%s' get the same %s identifier '%s'" % (a, b, lang, got),
                               {"names": [a, b], "language": lang, "identifier": got})
                seen.setdefault(k_, r["in"])
        seen_snake[r["in"]] = r["snake"]

    # ---------------------------------------------------------------- (2) packages under option sets
    optsets = [{}, {"generateNDJson": False, "generateHDF5": False, "generateCMakeLists": False, "pyNDJson": False},
               {"generateNDJson": True, "generateHDF5": False, "generateCMakeLists": True, "pyNDJson": True}]
    if not quick:
        optsets += [{"generateNDJson": False, "generateHDF5": True}, {"generateNDJson": True, "generateHDF5": True, "generateCMakeLists": False}]
    ecases, emeta = [], []
    pk = [("random", None)] * (1 if quick else 6) + [("reserved-words", reserved_words_model(tables, rng))]
    # degenerate but valid packages: no protocol at all, nothing but a protocol over primitives, nothing but an enum / an alias
    pk += [("types-only", "Tr: !record\n  fields:\n    a: int32\n    b: Te\n    c: Tu\n\nTe: !enum\n  values: [p, q]\n\nTu: [int32, string]\n\nTg<T>: !record\n  fields:\n    v: T*\n"),
           ("protocol-only", "Po: !protocol\n  sequence:\n    a: int32\n    b: !stream\n      items: string\n    c: float32[]\n"),
           ("enum-only", "Eo: !flags\n  values: [p, q]\n"),
           ("alias-only", "Ao: int32*\n")]
    for k, (what, model) in enumerate(pk):
        ns = "Wf" + "abcdefghijklmnopqrstuvwxyz"[k % 26]
        if model is None:
            model = ymodel.Gen(rng, namespace=ns).build().yaml()
        for oi, opts in enumerate(optsets if what != "reserved-words" or not quick else optsets[:2]):
            d = os.path.join(ctx.scratch, "w%d_%d" % (k, oi))
            rc, out_ = build(ctx, d, ns, model, cfg_for(opts))
            rep = {"namespace": ns, "model": model, "options": opts, "kind": what}
            ctx.count("option_set", json.dumps(opts, sort_keys=True))
            if rc != 0:
                if what == "random":
                    raise RuntimeError("yardl rejected a generated package: %s\n%s" % (out_, model))
                ctx.report("generate-fails:" + what, "yardl validate accepts but generate fails (%s): %s" % (what, out_[-200:]), dict(rep, output=out_))
                continue
            check_tree(ctx, d, ns, what, rep)
            if oi == 0:
                try:
                    env, _ = sm.conv_env(json.load(open(d + "/out/json/model.json")))
                    ecases.append(env)
                    emeta.append(rep)
                except sm.Unknown as ex:
                    ctx.report("model-json-shape", "model.json has a shape the converter does not know: %s" % ex, rep, no_input=True)
    # imported generics with local type arguments, three definition orders
    import c13
    for name, files in c13_orders().items():
        d = os.path.join(ctx.scratch, "ig_" + name)
        os.makedirs(d + "/lib")
        open(d + "/lib/_package.yml", "w").write("namespace: Lib\n")
        open(d + "/lib/l.yml", "w").write(C13_LIB)
        os.makedirs(d + "/model")
        open(d + "/model/_package.yml", "w").write("namespace: App\nimports:\n  - ../lib\n" + cfg_for({"generateHDF5": False}))
        for fn, text in files.items():
            open(os.path.join(d, "model", fn), "w").write(text)
        rc, o, e = sh([ctx.yardl, "generate"], cwd=d + "/model", timeout=180)
        rep = {"order": name, "files": files, "imported": C13_LIB}
        if rc != 0:
            ctx.report("generate-fails:imported-generics", "yardl rejects/fails on imported generics with local type arguments (%s): %s"
                       % (name, (o + e)[-200:]), rep)
            continue
        check_tree(ctx, d, "App", "imported-generics:" + name, rep)
        env, _ = sm.conv_env(json.load(open(d + "/out/json/model.json")))
        ecases.append(env)
        emeta.append(rep)
    body = ("From Coq Require Import List NArith ZArith Bool.\nImport ListNotations.\nOpen Scope N_scope.\n"
            "From YV Require Import Base.Wire Model.Binary Model.Json Model.Schema Model.Naming.\n"
            "Definition ST := Eval vm_compute in map (fun e => if env_ordered e then 0 else 1) [\n " + ";\n ".join(ecases) + "\n].\nPrint ST.\n")
    for rep, s in zip(emeta, Ctx.parse_nat_list(ctx.coq_eval("ord", body, timeout=900), "ST")):
        ctx.case(("order", json.dumps(rep, sort_keys=True)), sample={"definition_order_ok": s == 0, "kind": rep.get("kind", rep.get("order"))})
        if s != 0:
            ctx.report("definition-order", "yardl emits a definition before a definition of the same namespace that it uses", rep)

    # import graphs: chains where the top package does not import the leaf itself, and every order of an import list of which one
    # entry is also reached through another entry; every generated Python package must import, the C++ must be valid
    import itertools
    leaf = "Tl: !record\n  fields:\n    x: int32\n    y: float32*\n\nEl: !enum\n  values: [p, q]\n"
    graphs = [("chain", {"leaf": ("Leaf", [], leaf),
                         "mid": ("Mid", ["leaf"], "Tm: !record\n  fields:\n    l: Leaf.Tl\n    e: Leaf.El\n\nGm<T>: !record\n  fields:\n    v: T\n    l: Leaf.Tl?\n"),
                         "top": ("Top", ["mid"], "Tt: !record\n  fields:\n    m: Mid.Tm\n    g: Mid.Gm<int32>\n    a: Mid.Tm[]\n\nPt: !protocol\n  sequence:\n    t: Tt\n    s: !stream\n      items: Mid.Tm\n")}, "top")]
    for perm in itertools.permutations(["b", "d", "e"]):
        graphs.append(("order-" + "".join(perm),
                       {"d": ("Dd", [], "Td: !record\n  fields:\n    x: int32\n"),
                        "e": ("Ee", [], "Te: !record\n  fields:\n    s: string\n"),
                        "b": ("Bb", ["d"], "Tb: !record\n  fields:\n    d: Dd.Td\n"),
                        "root": ("Root", list(perm), "Tr: !record\n  fields:\n    b: Bb.Tb\n    d: Dd.Td\n    e: Ee.Te\n    a: Ee.Te[]\n\nPr: !protocol\n  sequence:\n    r: Tr\n")}, "root"))
    for gname, pkgs, top in graphs:
        d = os.path.join(ctx.scratch, "gr_" + gname)
        for pd, (ns, imps, text) in pkgs.items():
            os.makedirs(os.path.join(d, pd))
            cfgt = cfg_for({"generateHDF5": False}) if pd == top else ""
            open(os.path.join(d, pd, "_package.yml"), "w").write("namespace: %s\n" % ns + ("imports:\n" + "".join("  - ../%s\n" % i for i in imps) if imps else "") + cfgt)
            open(os.path.join(d, pd, "m.yml"), "w").write(text)
        rc, o, e = sh([ctx.yardl, "generate"], cwd=os.path.join(d, top), timeout=180)
        rep = {"graph": gname, "packages": {k: {"namespace": v[0], "imports": v[1], "model": v[2]} for k, v in pkgs.items()}, "generate_in": top}
        if rc != 0:
            ctx.report("generate-fails:import-graph", "yardl rejects/fails on a valid import graph (%s): %s" % (gname, (o + e)[-200:]), rep)
            continue
        check_tree(ctx, d, pkgs[top][0], "import-graph:" + gname.split("-")[0], rep)

    # shapes with a history of trouble in one target: sequences of bool, maps keyed by types without std::hash
    shapes = [("cpp-bool-sequence", "Pb: !protocol\n  sequence:\n    a: !stream\n      items: bool\n    b: bool*\n    c: bool*3\n"),
              ("cpp-map-key-no-hash", "Pm: !protocol\n  sequence:\n    c: date->int32\n    e: time->string\n    f: datetime->string\n"),
              ("cpp-map-key-no-hash", "Pc: !protocol\n  sequence:\n    d: complexfloat32->int32\n    e: complexfloat64->string\n"),
              ("python-alias-of-inline-nullable-union", "Rk: !record\n  fields:\n    n: [null, int32, float32]\n\nMaybeNum: [null, int32, float32]\n\n"
               "Ral: !record\n  fields:\n    num: MaybeNum\n\nPu: !protocol\n  sequence:\n    r: Ral\n    k: Rk\n"),
              ("generic-parameter-only-in-array-element-arguments", "R2<D>: !record\n  fields:\n    d: D\n\nRec<D>: !record\n  fields:\n    f: R2<D>[]\n    g: R2<D>[2]\n\n"
               "Pg: !protocol\n  sequence:\n    r: Rec<int32>\n    s: !stream\n      items: Rec<string>\n"),
              ("generic-union-parameter-in-two-cases", "OneOrMany<T>: !union {one: T, many: T*}\n\nRg: !record\n  fields:\n    a: OneOrMany<int32>\n    b: !union {single: string, byName: string->string}\n\n"
               "Gu<T>: !record\n  fields:\n    u: !union {lone: T, keyed: string->T}\n\nPo: !protocol\n  sequence:\n    r: Rg\n    g: Gu<float32>\n    s: !stream\n      items: OneOrMany<Rg>\n"),
              ("map-key-ok", "Pk: !protocol\n  sequence:\n    g: bool->bool\n    h: string->string*\n    i: uint64->float32\n    j: size->int8\n")]
    for i, (key, model) in enumerate(shapes):
        d = os.path.join(ctx.scratch, "shape%d" % i)
        rc, out_ = build(ctx, d, "Sh", model, cfg_for({"generateHDF5": False}))
        rep = {"namespace": "Sh", "model": model}
        if rc != 0:
            ctx.report("generate-fails:shape", "yardl fails on %r: %s" % (model, out_[-200:]), rep)
            continue
        rcp, err = py_import(d + "/out/python", "sh")
        bad = syntax_check(d + "/out/cpp")
        ctx.case(("shape", model), sample={"shape": key, "python_imports": rcp == 0, "cpp_files_failing": len(bad)})
        if rcp != 0 and key == "python-alias-of-inline-nullable-union":
            ctx.report(key, "generated Python does not import for an accepted model (%s): %s" % (model.replace("\n", " ")[:120], err.strip()[-120:]), rep)
        elif rcp != 0:
            ctx.report("python-import:shape", "generated Python does not import for %r: %s" % (model, err[-200:]), rep)
        if bad:
            ctx.report(key if key != "map-key-ok" else "cpp-compile:shape", "generated C++ is not valid C++17 for an accepted model (%s): %s"
                       % (model.replace("\n", " ")[:120], re.sub(r"\s+", " ", bad[0][1])[:200]), dict(rep, errors=bad[:2]))

    # ---------------------------------------------------------------- (3) yardl init scaffolds
    for name in ["sample", "myPkg2", "My_Pkg", "a", "Class", "return", "np", "Yardl", "Std", "x9", "import", "Types", "Int32", "while"][:(6 if quick else 99)]:
        d = os.path.join(ctx.scratch, "init_" + re.sub(r"\W", "_", name))
        os.makedirs(d)
        rc, o, e = sh([ctx.yardl, "init", name], cwd=d, timeout=60)
        ctx.count("init_name_accepted", "%s:%s" % (name, rc == 0))
        if rc != 0:
            continue
        pk_ = open(d + "/model/_package.yml").read()
        ns = re.search(r"namespace: (\S+)", pk_).group(1)
        open(d + "/model/_package.yml", "w").write(pk_.replace("sourcesOutputDir: ../cpp/generated", "sourcesOutputDir: ../out/cpp\n  generateHDF5: false\n  overrideArrayHeader: ndarray_shim.h")
                                                   .replace("outputDir: ../python", "outputDir: ../out/python").replace("outputDir: ../matlab", "outputDir: ../out/matlab"))
        rc, o, e = sh([ctx.yardl, "generate"], cwd=d + "/model", timeout=180)
        rep = {"init_name": name, "namespace": ns, "package": pk_}
        nsrow = json.loads(ctx.hook_call(["names"], input=ns + "\n").splitlines()[0])
        hit = [lang for lang in ("cpp", "python", "matlab") if nsrow["snake"] in tables[lang]["reserved"]]
        if hit:
            # the namespace becomes a C++ namespace / Python package / MATLAB package name without any escaping
            if rc == 0:
                bad_py = py_import(d + "/out/python", nsrow["py_field"] if False else nsrow["snake"])[0] != 0 if "python" in hit else False
                bad_cpp = bool(syntax_check(d + "/out/cpp")) if "cpp" in hit else False
                ctx.case(("init-reserved", name), sample={"init_name": name, "namespace": ns, "reserved_in": hit, "python_broken": bad_py, "cpp_broken": bad_cpp})
                if bad_py or bad_cpp:
                    ctx.report("namespace-reserved-word", "the namespace '%s' (accepted by yardl init/validate/generate) becomes the reserved word '%s' "
                               "in %s and the generated code does not compile/import" % (ns, nsrow["snake"], hit), rep)
            continue
        if rc != 0:
            ctx.report("init-scaffold-rejected:" + name, "`yardl init %s` writes a scaffold that `yardl generate` rejects: %s" % (name, (o + e)[-200:]), rep)
            continue
        check_tree(ctx, d, ns, "init:" + name, rep)


seen_snake = {}
C13_LIB = "Pair<A, B>: !record\n  fields:\n    a: A\n    b: B\n\nBox<T>: T?\n"


def c13_orders():
    holder = "Holder: !record\n  fields:\n    p: Lib.Pair<Wrap<int>, Sample>\n    q: Lib.Box<Sample>\n"
    wrap = "Wrap<T>: !record\n  fields:\n    v: T*\n"
    sample = "Sample: !record\n  fields:\n    x: float\n"
    proto = "Pq: !protocol\n  sequence:\n    h: Holder\n    s: !stream\n      items: Lib.Pair<Sample, int>\n"
    return {"defs-first": {"m.yml": "\n".join([wrap, sample, holder, proto])},
            "use-first": {"m.yml": "\n".join([proto, holder, sample, wrap])},
            "split": {"a.yml": holder, "b.yml": proto + "\n" + wrap, "c.yml": sample}}


def reserved_words_model(tables, rng):
    """reserved words of every target language in every naming position a model offers (fields, computed fields, enum
    symbols, union tags, steps, dimension names, type names in Pascal case)"""
    words = sorted({w for lang in tables for w in tables[lang]["reserved"] if re.fullmatch(r"[a-z][a-zA-Z0-9]{0,30}", w)})
    words = [w for w in words if w not in ("size", "string", "bool", "int", "float", "double", "long", "date", "time")] + \
            ["self", "value", "index", "data", "type", "shape", "dtype", "get", "print", "id", "np", "yardl", "std", "none", "true", "false"]
    for lang in tables:
        for w in tables[lang]["reserved"]:
            if "_" in w.strip("_") and re.fullmatch(r"[a-z][a-z0-9_]*", w):
                parts = [x for x in w.split("_") if x]
                words.append(parts[0] + "".join(x[0].upper() + x[1:] for x in parts[1:]))      # staticCast -> static_cast
    words = sorted(set(words))
    rng.shuffle(words)
    chunks = [words[i:i + 40] for i in range(0, len(words), 40)]
    out = []
    for ci, ws in enumerate(chunks):
        out.append("Rw%d: !record\n  fields:\n%s\n  computedFields:\n%s\n" % (
            ci, "\n".join("    '%s': int32" % w for w in ws), "\n".join("    %sComputed: '%s'" % (w, w) for w in [x for x in ws if not x.startswith("as")][:6])))   # the expression lexer reads a leading "as" as the keyword
        out.append("Ew%d: !enum\n  values:\n%s\n" % (ci, "\n".join("    - '%s'" % w for w in ws)))
        out.append("Fw%d: !flags\n  values:\n%s\n" % (ci, "\n".join("    - '%s'" % w for w in ws[:30])))
    ws = words[:12]
    out.append("Uw: !union\n%s\n" % "\n".join("  %s: %s" % (w, ["int32", "string", "float32*", "Rw0"][i % 4] if i % 4 != 3 else "Rw0") for i, w in enumerate(ws))
               if False else "Uw: [int32, string, Rw0]\n")
    out.append("Aw: !array\n  items: float32\n  dimensions: [%s]\n" % ", ".join("'%s'" % w for w in words[12:15]))
    tn = [w[0].upper() + w[1:] for w in words[:25]]
    for t in tn:
        out.append("'%s': !record\n  fields:\n    x: int32\n" % t)    # quoted: True / False / Null are YAML scalars, not strings
    out.append("Pw: !protocol\n  sequence:\n%s\n    recs: !stream\n      items: Rw0\n    uni: Uw\n    arr: Aw\n    en: Ew0\n    fl: Fw0\n%s\n"
               % ("\n".join("    '%s': int32" % w for w in words[15:40]), "\n".join("    t%s: '%s'" % (t, t) for t in tn[:10])))
    return "\n".join(out)


def replay(ctx, path):
    print(json.dumps(json.load(open(path)), indent=1)[:4000])
