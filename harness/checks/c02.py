"""C02 - NDJSON write/read round trip and documented JSON mapping."""
import json
from concurrent.futures import ThreadPoolExecutor

import codec
import genrun
import jsonmodel as jm
import ymodel
from vlib import Ctx

LEVEL = "proof"
TRUSTED = [
    "Coq 8.16.1 kernel + vm_compute; theorems in coq/Props/C02.v",
    "Model/Json.v: hand-written reading of docs/reference/ndjson.md, _ndjson.py and the generated C++ adl_serializers; the JSON kind of "
    "each primitive (which decides whether a union is tagged) is regenerated from ndjsoncommon.go on every run (Gen/Tables.v)",
    "tie: every JSON document written by generated Python and generated C++ for reference values is converted (type-directed: floats to "
    "bit patterns at the declared width, date/time text to the integer it denotes, map entries sorted) and compared with to_json inside "
    "Coq; reading is tied through NDJSON->binary round trips decoded by the binary model",
    "decimal float printing/parsing (nlohmann, Python json) and C++ date text (harness shim) are outside the model; finite floats only",
]


def expected_lines(steps, ws):
    out = []
    for (name, t, is_stream), w in zip(steps, ws):
        if is_stream:
            for b in w:
                for x in b:
                    out.append((name, t, x))
        else:
            out.append((name, t, w))
    return out


ALIASED_UNION_MODEL = """O: int?
U1: [int, string]
UN: [null, int, string]
Es: !enum
  base: size
  values: [p, q]
Fs: !flags
  base: size
  values: [fa, fb]
Sz: size
Ez: !enum
  base: Sz
  values: [p, q]
R: !record
  fields:
    es: Es
    fs: Fs
    ez: Ez
    a: [O, string]
    b: [null, O, string]
    c: [null, U1, float]
    d: [UN, float]
    e: [null, UN, float]
    g: [U1, bool]
    h: [null, U1, bool]
    i: !vector {items: [O, bool]}
P: !protocol
  sequence:
    r: R
"""
ALIASED_UNION_DRIVER = r"""
import sys, io, json
import numpy as np
sys.path.insert(0, sys.argv[1])
import au as t
G=t.U1OrBool; I=t.OOrBool; A=t.OOrString; U=t.U1OrFloat32; N=t.UNOrFloat32
vals = [
 t.R(es=t.Es.P, fs=t.Fs(0), ez=t.Ez.Q, a=A.O(None), b=None, c=None, d=N.UN(None), e=None, g=G.Bool(True), h=None, i=[]),
 t.R(es=t.Es.Q, fs=t.Fs.FA | t.Fs.FB, ez=t.Ez.P, a=A.O(3), b=A.O(None), c=U.U1(t.U1.Int32(1)), d=N.UN(t.UN.Int32(4)), e=N.UN(None), g=G.U1(t.U1.Int32(9)), h=G.U1(t.U1.String('w')), i=[I.O(None), I.O(5), I.Bool(False)]),
 t.R(es=t.Es.Q, fs=t.Fs.FB, ez=t.Ez.P, a=A.String("x"), b=A.O(7), c=U.Float32(1.5), d=N.Float32(0.5), e=N.UN(t.UN.String("s")), g=G.U1(t.U1.String('k')), h=G.Bool(False), i=[I.Bool(True)]),
 t.R(es=t.Es.P, fs=t.Fs.FA, ez=t.Ez.Q, a=A.String("x"), b=A.String("y"), c=U.U1(t.U1.String("q")), d=N.UN(t.UN.String("z")), e=N.Float32(2.0), g=G.Bool(False), h=G.U1(t.U1.Int32(-1)), i=[I.O(0)]),
]
out = []
for v in vals:
    b = io.BytesIO()
    with t.BinaryPWriter(b) as w: w.write_r(v)
    s = io.StringIO()
    with t.NDJsonPWriter(s) as w: w.write_r(v)
    s2 = io.StringIO(s.getvalue())
    try:
        with t.NDJsonPReader(s2) as r: back = r.read_r()
        rt = "same" if back == v else "different: %r" % (back,)
    except Exception as e:
        rt = "error: %s: %s" % (type(e).__name__, e)
    out.append({"bin": b.getvalue().hex(), "ndjson": s.getvalue(), "python_roundtrip": rt})
print(json.dumps(out))
"""


def aliased_union_layer(ctx):
    """union cases that are ALIASES of an optional or of another union (the only way to nest them): NDJSON written by generated
    Python is read back by generated Python, converted to binary by generated C++ (must be the bytes Python wrote) and the binary
    converted to NDJSON by generated C++ (must be the lines Python wrote).  Regression layer of /repo 012c699."""
    import os
    from vlib import sh, PY_VT
    from ymodel import Package, prim
    pkg = Package("Au")
    pkg.protocols.append(("P", [("r", prim("int32"), False)]))      # only the protocol name is used (translator main)
    gp = genrun.GenPackage(ctx, pkg, "aliasedunion", ndjson=True, cpp=True, model_text=ALIASED_UNION_MODEL)
    rep = {"model": ALIASED_UNION_MODEL}
    if not gp.generate():
        ctx.report("generate-fails:aliased-union", "yardl fails on a valid model whose union cases are aliases of optionals / unions: %s"
                   % gp.gen_out.strip()[-200:], dict(rep, output=gp.gen_out[-1500:]))
        return
    open(os.path.join(gp.dir, "drv.py"), "w").write(ALIASED_UNION_DRIVER)
    rc, o, e = sh([PY_VT, os.path.join(gp.dir, "drv.py"), os.path.join(gp.dir, "python")], timeout=300)
    if rc != 0:
        ctx.report("python-error:aliased-union", "generated Python cannot write values of unions whose cases are aliases of optionals / unions: %s"
                   % e.strip()[-200:], dict(rep, error=e[-1500:]))
        return
    vals = json.loads(o)
    cpp = gp.cpp_build()
    if not cpp:
        ctx.report("cpp-compile:aliased-union", "generated C++ does not compile for unions whose cases are aliases of optionals / unions",
                   dict(rep, error=gp.cpp_err[-2000:]))
    for k, v in enumerate(vals):
        b, nd = bytes.fromhex(v["bin"]), v["ndjson"]
        lines = nd.splitlines()[1:]
        ctx.case(("aliased-union", k), sample={"crafted": "union cases that are aliases of optionals / unions", "ndjson": lines,
                                               "python_roundtrip": v["python_roundtrip"]})
        r = dict(rep, value_index=k, python_ndjson=lines, python_binary_hex=v["bin"])
        if v["python_roundtrip"] != "same":
            ctx.report("roundtrip:py:aliased-union", "generated Python does not read back the NDJSON it wrote for a union whose case is an "
                       "alias of an optional / union: %s" % v["python_roundtrip"][:200], r)
        if cpp:
            c1 = gp.cpp_call("P", "binary", "ndjson", b)
            c2 = gp.cpp_call("P", "ndjson", "binary", nd.encode())
            if not c1["ok"] or c1["out"].decode(errors="replace").splitlines()[1:] != lines:
                ctx.report("cross:cpp-writes:aliased-union", "generated C++ writes different NDJSON from generated Python for the same value "
                           "(union case = alias of optional / union): %s" % (c1["out"].decode(errors="replace").splitlines()[1:] if c1["ok"] else c1["err"][-200:]),
                           dict(r, cpp_ndjson=c1["out"].decode(errors="replace"), cpp_error=c1["err"]))
            if not c2["ok"] or c2["out"] != b:
                ctx.report("cross:cpp-reads:aliased-union", "generated C++ does not turn the NDJSON generated Python wrote into the binary "
                           "stream generated Python wrote (union case = alias of optional / union): %s" % (c2["err"][-200:] if not c2["ok"] else "different bytes"),
                           dict(r, cpp_binary_hex=c2["out"].hex(), cpp_error=c2["err"]))


def run(ctx):
    ctx.build_repo(need_hook=True)
    ok, failing, log = ctx.coq_props("C02")
    ctx.coverage["trusted_base"] = TRUSTED
    ctx.coverage["rule"] = ("random and crafted packages (unions whose cases share JSON kinds, nullable unions, records with optional "
                            "fields, enums/flags incl. out-of-range values, string- and non-string-keyed maps, fixed/n-dim/dynamic arrays) "
                            "generated by the real yardl; reference values (finite floats) written to NDJSON by generated Python and "
                            "generated C++; every document compared with Model.Json.to_json inside Coq, and NDJSON->binary round trips "
                            "decoded by the binary model; non-trivial = every value; distinct by (type, value)")
    if not ok:
        ctx.report("proof:" + str(failing), "theorem/dependency no longer checks: %s" % failing,
                   {"broken": failing, "log": log[-3000:]}, no_input=True)
    quick = ctx.tier == "quick"
    aliased_union_layer(ctx)
    table = jm.kind_table(json.loads(ctx.hook_call(["tables"])))
    import c03
    pkgs = codec.build_packages(ctx, 2 if quick else 8, "j", cpp=True, ndjson=True)
    cp = genrun.GenPackage(ctx, c03.crafted_package(), "xun", ndjson=True, cpp=True)
    if not cp.generate():
        raise RuntimeError("yardl rejected the crafted union package: " + cp.gen_out[-800:])
    cp.schemas_ = cp.schemas()
    if not cp.cpp_build():
        cp.cpp_failed = True
    cp.py_start()
    pkgs.append(cp)
    jcases, jmeta = [], []
    bcases, bmeta = [], []
    try:
        for gp in pkgs:
            if getattr(gp, "cpp_failed", False):
                ctx.report("cpp-compile:" + gp.name, "generated C++ (NDJSON) does not compile", {"model": gp.pkg.yaml(), "error": gp.cpp_err[-2000:]})
                continue
            for pname, steps in gp.pkg.protocols:
                for _ in range(4 if quick else 10):
                    ws = ymodel.gen_writes(ctx.rng, steps, finite=True)
                    ws = [([[jm.sort_maps(t, x) for x in b] for b in w] if st else jm.sort_maps(t, w)) for (n, t, st), w in zip(steps, ws)]
                    for si, (n, t, st) in enumerate(steps):
                        if gp is cp and n in ("uj", "uk"):      # flags values with bits no symbol covers, next to numbers
                            ws[si] = [[("case", 0, ("int", f)) for f in (0, 1, 3, 4, 11, 16, 0x8000)] + [("case", 1, ("int", 4) if n == "uj" else ("str", list(b"fa")))]]
                    body = ymodel.enc_steps(steps, ws)
                    stream = ymodel.enc_header(gp.schemas_[pname]) + body
                    docs = {}
                    for lang in ("python", "c++"):
                        if lang == "python":
                            r = gp.py_call({"proto": pname, "fin": "binary", "fout": "ndjson", "data": stream.hex(), "mode": "copy"})
                            okk, text, err = r["ok"], r["out"], r.get("err", "")
                        else:
                            c = gp.cpp_call(pname, "binary", "ndjson", stream)
                            okk, text, err = c["ok"], c["out"].decode("utf-8", errors="replace"), c["err"]
                        if not okk:
                            ctx.report("write-error:%s:%s" % (lang, err.strip().split(":")[0][:40]),
                                       "%s NDJSON writer failed on valid values: %s (protocol %s)" % (lang, err.strip()[-160:], pname),
                                       {"writer": lang, "model": gp.pkg.yaml(), "namespace": gp.pkg.namespace, "protocol": pname,
                                        "stream_hex": stream.hex(), "error": err[-500:]})
                            continue
                        lines = [ln for ln in text.split("\n") if ln]
                        try:
                            hdr = json.loads(lines[0]) if lines else None
                            if hdr != {"yardl": {"version": 1, "schema": json.loads(gp.schemas_[pname])}}:
                                ctx.report("header:%s" % lang, "%s wrote the header line %s" % (lang, (lines[0] if lines else "")[:200]),
                                           {"writer": lang, "model": gp.pkg.yaml(), "namespace": gp.pkg.namespace, "protocol": pname})
                            lines = lines[1:]
                            docs[lang] = [json.loads(ln) for ln in lines]
                        except Exception as ex:  # noqa: BLE001
                            ctx.report("invalid-json:%s" % lang, "%s wrote a line that is not JSON: %s" % (lang, ex),
                                       {"writer": lang, "text": text[-600:]})
                    exp = expected_lines(steps, ws)
                    obs, who = [], []
                    for lang, dl in docs.items():
                        names = [list(d.keys())[0] if isinstance(d, dict) and len(d) == 1 else None for d in dl]
                        if names != [e[0] for e in exp]:
                            ctx.report("line-protocol:%s" % lang, "%s wrote lines %s for steps/items %s (protocol %s)"
                                       % (lang, names[:8], [e[0] for e in exp][:8], pname),
                                       {"writer": lang, "model": gp.pkg.yaml(), "namespace": gp.pkg.namespace, "protocol": pname,
                                        "stream_hex": stream.hex()})
                            continue
                        obs.append("[" + "; ".join("(%s, %s)" % (jm.cstr(n), jm.conv(t, d[n], table)) for (n, t, v), d in zip(exp, dl)) + "]")
                        who.append((lang, dl))
                    csteps = "[" + "; ".join("(%s, %s, %s)" % (jm.cstr(n), "true" if st else "false", jm.jty(t)) for n, t, st in steps) + "]"
                    cws = "[" + "; ".join(("JWItems [%s]" % "; ".join(ymodel.coq_val(x) for b in w for x in b)) if st
                                          else ("JWVal (%s)" % ymodel.coq_val(w)) for (n, t, st), w in zip(steps, ws)) + "]"
                    jcases.append("(%s, %s, [%s])" % (csteps, cws, "; ".join(obs)))
                    jmeta.append((gp, pname, exp, who, stream))
                    for n, t, v in exp:
                        ctx.count("value_type_shape", t.shape_sig(1))
                    # reading: NDJSON written by each language read back by the other into binary
                    for w_, r_ in (("py", "cpp"), ("cpp", "py")):
                        okw, nd, err = c03.hop(gp, pname, w_, "binary", "ndjson", stream)
                        if not okw:
                            continue
                        okr, back, err = c03.hop(gp, pname, r_, "ndjson", "binary", nd)
                        if not okr:
                            ctx.report("read-error:%s:%s" % (r_, err.strip().split(":")[0][:40]),
                                       "%s NDJSON reader rejected what the %s writer produced: %s (protocol %s)" % (r_, w_, err.strip()[-160:], pname),
                                       {"reader": r_, "writer": w_, "model": gp.pkg.yaml(), "namespace": gp.pkg.namespace, "protocol": pname,
                                        "ndjson": nd[-1500:]})
                            continue
                        bcases.append((gp.schemas_[pname], steps, ws, body, [back]))
                        bmeta.append((gp, pname, "%s writes, %s reads" % (w_, r_), nd))
        # Coq: the lines of every writer against write_lines, and read_lines (write_lines ws) = ws
        shards = [list(range(i, min(i + 12, len(jcases)))) for i in range(0, len(jcases), 12)]

        def ev(idx):
            body = ("From Coq Require Import List NArith ZArith Bool.\nImport ListNotations.\nOpen Scope N_scope.\n"
                    "From YV Require Import Base.Wire Model.Binary Gen.Tables Model.Json.\n"
                    "Definition cases : list lcase := [\n " + ";\n ".join(jcases[i] for i in idx) + "\n].\n"
                    "Definition ST := Eval vm_compute in map lcase_status cases.\nPrint ST.\n")
            return Ctx.parse_nat_list(ctx.coq_eval("jc_%d" % idx[0], body, timeout=1500), "ST")
        with ThreadPoolExecutor(max_workers=10) as ex:
            st = [x for r in ex.map(ev, shards) for x in r]
        for (gp, pname, exp, who, stream), s in zip(jmeta, st):
            for i, (name, t, v) in enumerate(exp):
                ctx.case(("json", jm.jty(t), ymodel.coq_val(v)), sample={"protocol": pname, "step": name, "type": t.spell,
                                                                        "documents": {w: d[i][name] for w, d in who}})
            if not exp:
                ctx.case(("json-empty", pname), nontrivial=False)
            if s >= 1000:
                w, i = s // 1000 - 1, s % 1000
                lang, dl = who[w]
                if i < len(exp):
                    name, t, v = exp[i]
                    ctx.report("document-differs:%s:%s" % (lang, t.kind), "%s wrote %s for a value of type %s (step %s of %s); the documented "
                               "mapping (Model.Json.to_json) gives something else" % (lang, json.dumps(dl[i])[:200], t.spell, name, pname),
                               {"writer": lang, "type": t.spell, "coq_type": jm.jty(t), "coq_value": ymodel.coq_val(v), "document": dl[i],
                                "model": gp.pkg.yaml(), "namespace": gp.pkg.namespace, "protocol": pname, "step": name,
                                "stream_hex": stream.hex()})
                else:
                    ctx.report("line-count:%s" % lang, "%s wrote %d lines where the model writes %d (protocol %s)" % (lang, len(dl), len(exp), pname),
                               {"writer": lang, "model": gp.pkg.yaml(), "protocol": pname, "stream_hex": stream.hex()})
            elif s == 2:
                ctx.report("model-roundtrip:%s" % pname, "read_lines (write_lines ws) <> ws in the MODEL although the writers agree with it: the "
                           "mapping itself loses a value of protocol %s" % pname,
                           {"model": gp.pkg.yaml(), "namespace": gp.pkg.namespace, "protocol": pname, "stream_hex": stream.hex(),
                            "documents": {w: d for w, d in who}})
            elif s == 1:
                ctx.count("outside_theorem_hypotheses", pname)
            else:
                ctx.count("inside_theorem_hypotheses", "runs")
        stb = codec.eval_pcases(ctx, bcases, "c02b")
        for (schema, steps, ws, body, outs), (gp, pname, what, nd), s in zip(bcases, bmeta, stb):
            ctx.case(("jsonread", pname, body, what), sample={"protocol": pname, "direction": what})
            if s >= 3:
                ctx.report("read-changes-values:%s" % what.split()[2], "NDJSON round trip changes values (%s, protocol %s)" % (what, pname),
                           {"direction": what, "model": gp.pkg.yaml(), "namespace": gp.pkg.namespace, "protocol": pname, "ndjson": nd[-1500:]})
    finally:
        codec.stop_packages(pkgs)


def replay(ctx, path):
    print(json.dumps(json.load(open(path)), indent=1)[:4000])
