#!/bin/bash
# usage: seedtool.sh verify <seed-src-dir> <worktree>   -> prints RESULT lines
# Confirms a candidate seeded change: applies to a scratch worktree at /repo's HEAD, builds, runs the Go suite,
# runs the demo on the patched and on the clean tree.
set -u
src=$1; wt=$2
export GOFLAGS=-mod=mod GOPROXY=off
head=$(git -C /repo rev-parse HEAD)
git -C "$wt" checkout -q --detach "$head" && git -C "$wt" checkout -q -- . && git -C "$wt" clean -fdq
if ! git -C "$wt" apply --check "$src/patch.diff" 2>/dev/null; then echo "RESULT $src apply=FAIL"; exit 0; fi
git -C "$wt" apply "$src/patch.diff"
(cd "$wt/tooling" && go build ./... ) >/dev/null 2>&1 && b=ok || b=FAIL
(cd "$wt/tooling" && go test -vet=off -count=1 ./... ) >/tmp/seedtest.$$ 2>&1 && t=ok || t=FAIL
timeout 1200 bash "$src/demo/run.sh" "$wt" >/tmp/seeddemo_p.$$ 2>&1; dp=$?
git -C "$wt" checkout -q -- . && git -C "$wt" clean -fdq
timeout 1200 bash "$src/demo/run.sh" "$wt" >/tmp/seeddemo_c.$$ 2>&1; dc=$?
echo "RESULT $src apply=ok build=$b tests=$t demo_patched_rc=$dp demo_clean_rc=$dc"
rm -f /tmp/seedtest.$$ /tmp/seeddemo_p.$$ /tmp/seeddemo_c.$$
