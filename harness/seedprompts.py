#!/usr/bin/env python3
"""Dev tool (not run by any check): writes the prompts given to the independent sub-agents that produce seeded
property-breaking changes.  Each prompt contains ONLY the property text, the path of a scratch worktree and the list of
source files earlier seeds for that property already touched (so that a new seed goes elsewhere); nothing from /verif.
usage: seedprompts.py <round-tag> <out.json> <ID>...   (worktrees /tmp/wt<tag>-<ID>, results /tmp/seed<tag>-<ID>)"""
import glob
import json
import os
import re
import sys

VERIF = os.path.dirname(os.path.dirname(os.path.abspath(__file__)))
tag, outp, ids = sys.argv[1], sys.argv[2], sys.argv[3:]
props = {}
for l in open(os.path.join(VERIF, "properties.jsonl")):
    p = json.loads(l)
    props[p["id"]] = p
out = {}
for pid in ids:
    p = props[pid]
    text = json.dumps({k: p[k] for k in ("id", "title", "statement", "quantifier", "why_tests_cant", "anchors")}, indent=1)
    touched = set()
    for d in glob.glob(os.path.join(VERIF, "seeded", pid + "-*")):
        try:
            touched |= set(re.findall(r"^\+\+\+ b/(\S+)", open(os.path.join(d, "patch.diff")).read(), re.M))
        except OSError:
            pass
    avoid = ("\nOther people have already produced changes for this property in these files; to be useful yours must be in a "
             "DIFFERENT file and break the property in a different way: " + ", ".join(sorted(touched)) + ".\n") if touched else ""
    wt, sd = "/tmp/wt%s-%s" % (tag, pid), "/tmp/seed%s-%s" % (tag, pid)
    out[pid] = f"""You are helping to evaluate a verification effort by playing the role of a developer who makes a plausible but WRONG change to an open-source tool.

The tool is microsoft/yardl (a YAML-based schema language compiler written in Go that generates C++/Python/MATLAB serialization code). A git worktree of it is at {wt} (work ONLY there; never touch /repo or /verif, and do not read anything under /verif).

Here is a semantic property the tool is supposed to satisfy (JSON):

{text}
{avoid}
Your job: produce ONE realistic source change (the kind of slip a maintainer could make during a refactoring, an optimisation, a "cleanup" or a feature tweak) in the worktree that
  1. still compiles:  cd {wt}/tooling && GOFLAGS=-mod=mod GOPROXY=off go build ./...
  2. still passes the existing Go test suite, unedited:  cd {wt}/tooling && GOFLAGS=-mod=mod GOPROXY=off go test -vet=off -count=1 ./...
     (do NOT set GOTOOLCHAIN or GOSUMDB; there is no network)
  3. BREAKS the property above for some inputs (not necessarily all) - ideally inputs that need a particular shape, so that a careless check would miss it;
  4. is small (a few lines to a few dozen), touches only non-test source files (Go sources, or the shipped static runtime files under tooling/internal/*/include or tooling/internal/python/static_files, which are embedded in the binary), and does not look like sabotage: no dead code, no special-casing of magic values, no comments that give it away.

Then write a demonstration that shows the property failing on the changed tree and holding on the original tree:
  {sd}/patch.diff      (output of `git -C {wt} diff`)
  {sd}/demo/run.sh     (usage: run.sh <yardl-source-root>; builds yardl from that root into a mktemp dir, runs the scenario, exits 0 if the property holds and non-zero if it is violated; must clean up after itself; may use python3-vt (a Python with numpy) and g++ (C++17; there is NO xtensor, HDF5, date or nlohmann-json library installed, so if you need to compile generated C++ you must provide tiny stand-ins or avoid those parts) - keep the demo as simple as possible, e.g. prefer comparing generated files or running generated Python)
  {sd}/demo/...        any model files the demo needs
  {sd}/notes.md        what the change is, why it breaks the property, what input shape is needed to see it

Verify yourself that run.sh exits non-zero on the changed worktree and 0 on a pristine checkout (use `git -C {wt} stash` / `stash pop`, or `git worktree`-independent copies under /tmp that you delete afterwards). Leave the worktree WITH your change applied when you finish. Keep disk use small and delete temporary directories. Useful facts: `yardl` is built with `go build -o <dir>/yardl ./cmd/yardl` inside tooling/; `yardl generate` / `yardl validate` run in a package directory containing _package.yml; docs are under docs/. Reply with a short summary (file changed, one-paragraph explanation, and whether your own verification succeeded)."""
json.dump(out, open(outp, "w"))
print(len(out), "prompts ->", outp)
