// visitor lists, for the yardl tooling module given as argument, (1) every struct type of pkg/dsl that implements dsl.Node
// together with its fields whose type can hold Nodes, and (2) for VisitorWithContext.VisitChildren and Rewriter.DefaultRewrite
// the fields each case of the type switch touches.  Output: one JSON object.
package main

import (
	"encoding/json"
	"fmt"
	"go/ast"
	"go/types"
	"os"
	"sort"

	"golang.org/x/tools/go/packages"
)

type out struct {
	Nodes   map[string][]string            `json:"nodes"`   // struct -> node-holding fields
	Visited map[string]map[string][]string `json:"visited"` // function -> case type -> fields referenced
}

func main() {
	dir := os.Args[1]
	cfg := &packages.Config{Mode: packages.NeedName | packages.NeedFiles | packages.NeedSyntax | packages.NeedTypes | packages.NeedTypesInfo | packages.NeedImports | packages.NeedDeps, Dir: dir}
	pkgs, err := packages.Load(cfg, "./pkg/dsl")
	if err != nil || len(pkgs) != 1 || len(pkgs[0].Errors) > 0 {
		fmt.Fprintln(os.Stderr, err, pkgs)
		os.Exit(1)
	}
	p := pkgs[0]
	scope := p.Types.Scope()
	nodeObj := scope.Lookup("Node")
	if nodeObj == nil {
		fmt.Fprintln(os.Stderr, "no dsl.Node")
		os.Exit(1)
	}
	nodeIface := nodeObj.Type().Underlying().(*types.Interface)
	implements := func(t types.Type) bool {
		return types.Implements(t, nodeIface) || types.Implements(types.NewPointer(t), nodeIface)
	}
	var holds func(t types.Type, depth int) bool
	holds = func(t types.Type, depth int) bool {
		if depth > 6 {
			return false
		}
		if implements(t) {
			return true
		}
		switch u := t.(type) {
		case *types.Pointer:
			return holds(u.Elem(), depth+1)
		case *types.Slice:
			return holds(u.Elem(), depth+1)
		case *types.Named:
			switch uu := u.Underlying().(type) {
			case *types.Slice:
				return holds(uu.Elem(), depth+1)
			case *types.Pointer:
				return holds(uu.Elem(), depth+1)
			case *types.Interface:
				return types.Implements(u, nodeIface) || uu.NumMethods() > 0 && types.AssertableTo(uu, nodeObj.Type())
			}
		case *types.Map:
			return holds(u.Elem(), depth+1)
		}
		return false
	}
	res := out{Nodes: map[string][]string{}, Visited: map[string]map[string][]string{}}
	for _, name := range scope.Names() {
		tn, ok := scope.Lookup(name).(*types.TypeName)
		if !ok {
			continue
		}
		st, ok := tn.Type().Underlying().(*types.Struct)
		if !ok || !implements(tn.Type()) {
			continue
		}
		fields := []string{}
		for i := 0; i < st.NumFields(); i++ {
			f := st.Field(i)
			if holds(f.Type(), 0) {
				fields = append(fields, f.Name())
			}
		}
		sort.Strings(fields)
		res.Nodes[name] = fields
	}
	for _, f := range p.Syntax {
		for _, d := range f.Decls {
			fd, ok := d.(*ast.FuncDecl)
			if !ok || fd.Body == nil {
				continue
			}
			key := ""
			if fd.Recv != nil && fd.Name.Name == "VisitChildren" {
				key = "VisitChildren"
			} else if fd.Recv == nil && fd.Name.Name == "defaultRewriteImpl" {
				key = "DefaultRewrite"
			} else {
				continue
			}
			ast.Inspect(fd.Body, func(n ast.Node) bool {
				ts, ok := n.(*ast.TypeSwitchStmt)
				if !ok {
					return true
				}
				as, ok := ts.Assign.(*ast.AssignStmt)
				if !ok {
					return false
				}
				v := as.Lhs[0].(*ast.Ident).Name
				cases := map[string][]string{}
				for _, c := range ts.Body.List {
					cc := c.(*ast.CaseClause)
					used := map[string]bool{}
					for _, s := range cc.Body {
						ast.Inspect(s, func(m ast.Node) bool {
							if se, ok := m.(*ast.SelectorExpr); ok {
								if id, ok := se.X.(*ast.Ident); ok && id.Name == v {
									used[se.Sel.Name] = true
								}
							}
							return true
						})
					}
					fl := []string{}
					for k := range used {
						fl = append(fl, k)
					}
					sort.Strings(fl)
					for _, te := range cc.List {
						cases[types.ExprString(te)] = fl
					}
				}
				if len(cases) > 3 {
					res.Visited[key] = cases
				}
				return false
			})
		}
	}
	b, _ := json.MarshalIndent(res, "", " ")
	fmt.Println(string(b))
}
