// sites lists, for the yardl tooling module given as argument, every `range` statement over a map-typed
// expression (with the enclosing function), using go/types. Output: JSON lines.
package main

import (
	"encoding/json"
	"fmt"
	"go/ast"
	"go/types"
	"os"
	"strings"

	"golang.org/x/tools/go/packages"
)

type site struct {
	File string `json:"file"`
	Line int    `json:"line"`
	Func string `json:"func"`
	Expr string `json:"expr"`
	Type string `json:"type"`
}

func main() {
	dir := os.Args[1]
	cfg := &packages.Config{Mode: packages.NeedName | packages.NeedFiles | packages.NeedSyntax | packages.NeedTypes | packages.NeedTypesInfo | packages.NeedImports | packages.NeedDeps, Dir: dir}
	pkgs, err := packages.Load(cfg, "./...")
	if err != nil {
		fmt.Fprintln(os.Stderr, err)
		os.Exit(1)
	}
	enc := json.NewEncoder(os.Stdout)
	for _, p := range pkgs {
		if len(p.Errors) > 0 {
			fmt.Fprintln(os.Stderr, p.Errors)
			os.Exit(1)
		}
		for _, f := range p.Syntax {
			fname := p.Fset.Position(f.Pos()).Filename
			if strings.HasSuffix(fname, "_test.go") {
				continue
			}
			var stack []string
			ast.Inspect(f, func(n ast.Node) bool {
				switch x := n.(type) {
				case *ast.FuncDecl:
					stack = []string{x.Name.Name}
				case *ast.RangeStmt:
					t := p.TypesInfo.TypeOf(x.X)
					if t == nil {
						return true
					}
					if _, ok := t.Underlying().(*types.Map); ok {
						fn := ""
						if len(stack) > 0 {
							fn = stack[0]
						}
						rel := strings.TrimPrefix(fname, dir+"/")
						enc.Encode(site{File: rel, Line: p.Fset.Position(x.Pos()).Line, Func: fn, Expr: types.ExprString(x.X), Type: t.String()})
					}
				}
				return true
			})
		}
	}
}
