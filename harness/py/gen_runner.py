"""Generic driver for a generated Python package.  usage: gen_runner.py <python-output-dir> <module>
Commands: one JSON object per stdin line, one JSON result per stdout line.
 {"proto":P,"fin":"binary"|"ndjson","fout":...,"data":hex (binary) or text (ndjson),"mode":"copy"|"list"|"single"|"chunks","k":n}
Result: {"ok":true,"out":hex-or-text,"items":n} | {"ok":false,"err":"Type: msg","out":partial output}
"""
import importlib
import io
import itertools
import json
import re
import resource
import signal
import sys


class Hang(BaseException):
    """a command that does not come back: readers spinning on a truncated input are reported, not waited for"""


def on_alarm(signum, frame):
    raise Hang()


signal.signal(signal.SIGALRM, on_alarm)
CMD_SECONDS = [30.0]     # commands take milliseconds
try:
    resource.setrlimit(resource.RLIMIT_AS, (8 << 30, 8 << 30))   # a spinning reader may also allocate without bound
except Exception:  # noqa: BLE001
    pass

sys.path.insert(0, sys.argv[1])
mod = importlib.import_module(sys.argv[2])
protocols_src = open(sys.argv[1] + "/" + sys.argv[2].replace(".", "/") + "/protocols.py").read()


def steps_of(proto):
    m = re.search(r"class %sReaderBase\(.*?def copy_to\(self, writer: %sWriterBase\) -> None:\n(.*?)\n\n" % (proto, proto),
                  protocols_src, re.S)
    return re.findall(r"writer\.(write_\w+)\(self\.(read_\w+)\(\)\)", m.group(1))


def is_stream(proto, read_name):
    m = re.search(r"class %sReaderBase\(.*?def %s\(self\) -> ([^\n]*):" % (proto, read_name), protocols_src, re.S)
    return "Iterable" in m.group(1)


class Spy:
    """records the outermost calls made on CodedOutputStream objects (nested calls of its own methods are not listed); the
    methods are wrapped on the CLASS for the duration of one command, so that the header the writer's constructor writes is seen"""
    NAMES = ["write", "write_bytes", "write_bytes_directly", "write_byte_no_check", "write_unsigned_varint",
             "write_signed_varint", "ensure_capacity", "flush"]

    def __init__(self, cls):
        self.cls = cls
        self.depth = 0
        self.log = []
        self.orig = {}
        for name in Spy.NAMES:
            self._wrap(name)

    def _wrap(self, name):
        orig = getattr(self.cls, name)
        self.orig[name] = orig
        spy = self

        def f(this, *a, **k):
            top = spy.depth == 0
            spy.depth += 1
            try:
                return orig(this, *a, **k)
            finally:
                spy.depth -= 1
                if top:
                    spy.log.append(spy._render(name, a))
        setattr(self.cls, name, f)

    def restore(self):
        for name, orig in self.orig.items():
            setattr(self.cls, name, orig)

    @staticmethod
    def _render(name, a):
        if name == "write":
            st = a[0]
            return ["f", st.size, int.from_bytes(st.pack(*a[1:]), "little")]
        if name in ("write_bytes", "write_bytes_directly"):
            return ["B" if name == "write_bytes" else "D", bytes(a[0]).hex()]
        if name == "write_byte_no_check":
            return ["n", int(a[0])]
        if name == "write_unsigned_varint":
            return ["v", int(a[0])]
        if name == "write_signed_varint":
            z = int(a[0])
            return ["v", (z << 1) ^ (z >> 63) if -2 ** 63 <= z < 2 ** 63 else -1]
        if name == "ensure_capacity":
            return ["e", int(a[0])]
        return ["F"]


class RSpy:
    """records the outermost calls made on CodedInputStream objects together with what they returned; the methods are wrapped
    on the CLASS for the duration of one command, so that the reads of the reader's constructor (the header) are seen too"""
    NAMES = ["read", "read_byte", "read_unsigned_varint", "read_signed_varint", "read_view", "read_bytearray"]

    def __init__(self, cls):
        self.cls = cls
        self.depth = 0
        self.log = []
        self.orig = {}
        for name in RSpy.NAMES:
            self._wrap(name)

    def _wrap(self, name):
        orig = getattr(self.cls, name)
        self.orig[name] = orig
        spy = self

        def f(this, *a, **k):
            top = spy.depth == 0
            spy.depth += 1
            try:
                res = orig(this, *a, **k)
            finally:
                spy.depth -= 1
            if top:
                spy.log.append(spy._render(name, a, res))
            return res
        setattr(self.cls, name, f)

    def restore(self):
        for name, orig in self.orig.items():
            setattr(self.cls, name, orig)

    @staticmethod
    def _render(name, a, res):
        if name == "read":
            st = a[0]
            return ["f", st.size, int.from_bytes(st.pack(*res), "little")]
        if name == "read_byte":
            return ["b", int(res)]
        if name == "read_unsigned_varint":
            return ["v", int(res)]
        if name == "read_signed_varint":
            z = int(res)
            return ["v", (z << 1) ^ (z >> 63)]
        return ["r", int(a[0]), bytes(res).hex()]


for line in sys.stdin:
    line = line.strip()
    if not line:
        continue
    c = json.loads(line)
    proto = c["proto"]
    out = io.BytesIO() if c["fout"] == "binary" else io.StringIO()
    res = {}
    spy = rspy = None
    signal.setitimer(signal.ITIMER_REAL, CMD_SECONDS[0])
    try:
        src = io.BytesIO(bytes.fromhex(c["data"])) if c["fin"] == "binary" else io.StringIO(c["data"])
        R = getattr(mod, ("Binary" if c["fin"] == "binary" else "NDJson") + proto + "Reader")
        W = getattr(mod, ("Binary" if c["fout"] == "binary" else "NDJson") + proto + "Writer")
        rspy = RSpy(sys.modules[mod.__name__ + "._binary"].CodedInputStream) if c.get("trace") and c["fin"] == "binary" else None
        spy = Spy(sys.modules[mod.__name__ + "._binary"].CodedOutputStream) if c.get("trace") and c["fout"] == "binary" else None
        mode = c.get("mode", "copy")
        if mode == "with_read":
            # the documented form: the reader as a context manager, every step read, streams drained; nothing is written
            with R(src) as r:
                for wn, rn in steps_of(proto):
                    v = getattr(r, rn)()
                    if is_stream(proto, rn):
                        for _x in v:
                            pass
            res["ok"] = True
            raise StopIteration
        r = R(src)
        w = W(out)
        if mode == "copy":
            r.copy_to(w)
        else:
            for wn, rn in steps_of(proto):
                v = getattr(r, rn)()
                if is_stream(proto, rn):
                    if mode == "list":
                        getattr(w, wn)(list(v))
                    elif mode == "single":
                        n = 0
                        for x in v:
                            getattr(w, wn)([x])
                            n += 1
                        if n == 0:
                            getattr(w, wn)([])   # a stream step needs at least one write call
                    elif mode == "chunks":
                        it = iter(v)
                        n = 0
                        while True:
                            ch = list(itertools.islice(it, c.get("k", 2)))
                            if not ch:
                                break
                            getattr(w, wn)(ch)
                            n += 1
                        if n == 0:
                            getattr(w, wn)([])
                    elif mode == "chunks_empty":
                        # batches of k items with empty batches (list and tuple) in between
                        it = iter(v)
                        getattr(w, wn)([])
                        while True:
                            ch = list(itertools.islice(it, c.get("k", 2)))
                            if not ch:
                                break
                            getattr(w, wn)(ch)
                            getattr(w, wn)(())
                            getattr(w, wn)([])
                    elif mode == "iter":
                        getattr(w, wn)(x for x in v)
                else:
                    getattr(w, wn)(v)
        r.close()
        w.close()
        res["ok"] = True
    except StopIteration:
        pass
    except (Exception, Hang) as ex:  # noqa: BLE001
        signal.setitimer(signal.ITIMER_REAL, 0)
        res["ok"] = False
        res["err"] = "%s: %s" % (type(ex).__name__, str(ex)[:300])
        if isinstance(ex, Hang):
            res["hang"] = True
            CMD_SECONDS[0] = max(1.0, CMD_SECONDS[0] / 2)
        try:
            w._stream.flush() if c["fout"] == "binary" else None
        except Exception:  # noqa: BLE001
            pass
    signal.setitimer(signal.ITIMER_REAL, 0)
    if rspy is not None:
        rspy.restore()
    if spy is not None:
        spy.restore()
    if c.get("trace") and c["fout"] == "binary":
        res["trace"] = spy.log if spy is not None else None
        res["rtrace"] = rspy.log if rspy is not None else None
    res["out"] = out.getvalue().hex() if c["fout"] == "binary" else out.getvalue()
    print(json.dumps(res))
    sys.stdout.flush()
