"""Drives the generated Python protocol base classes (state machines) with stub implementations.
usage: sm_runner.py <python-output-dir> <module>; JSON commands on stdin:
  {"proto": P, "kind": "w", "calls": [["V",i] | ["S",i] | ["C"]]}
  {"proto": P, "kind": "r", "calls": [["V",i] | ["G",i] | ["X",i] | ["C"]]}
Answer: {"accepted": bool, "prefix": number of calls that succeeded, "ends": end-of-stream markers written}"""
import importlib
import json
import re
import sys

sys.path.insert(0, sys.argv[1])
mod = importlib.import_module(sys.argv[2])
src = open(sys.argv[1] + "/" + sys.argv[2] + "/protocols.py").read()


def methods(proto, base, prefix):
    m = re.search(r"class %s%s\(.*?\n(?=class |\Z)" % (proto, base), src, re.S)
    return re.findall(r"    def (%s\w+)\(self" % prefix, m.group(0))


def make_writer(proto):
    base = getattr(mod, proto + "WriterBase")
    names = [n for n in methods(proto, "WriterBase", "write_")]
    ns = {"ends": 0}

    def _end(self):
        self.ends += 1
    ns["_end_stream"] = _end
    ns["_close"] = lambda self: None
    for n in names:
        ns["_" + n] = (lambda self, value: (list(value) if hasattr(value, "__iter__") else None))
    cls = type("Stub" + proto + "Writer", (base,), ns)
    return cls, names


def make_reader(proto):
    base = getattr(mod, proto + "ReaderBase")
    names = [n for n in methods(proto, "ReaderBase", "read_")]
    ns = {"_close": lambda self: None}
    for n in names:
        ns["_" + n] = (lambda self: iter([1, 2]))
    cls = type("Stub" + proto + "Reader", (base,), ns)
    return cls, names


for line in sys.stdin:
    c = json.loads(line)
    proto = c["proto"]
    done = 0
    ends = 0
    try:
        if c["kind"] == "w":
            cls, names = make_writer(proto)
            w = cls()
            try:
                for call in c["calls"]:
                    if call[0] == "C":
                        w.close()
                    elif call[0] == "V":
                        getattr(w, names[call[1]])(0)
                    else:
                        getattr(w, names[call[1]])([1])
                    done += 1
            finally:
                ends = w.ends
        else:
            cls, names = make_reader(proto)
            r = cls()
            live = {}
            for call in c["calls"]:
                if call[0] == "C":
                    r.close()
                elif call[0] == "V":
                    getattr(r, names[call[1]])()
                elif call[0] == "G":
                    live[call[1]] = getattr(r, names[call[1]])()
                elif call[0] == "A":
                    it = iter(live.pop(call[1]))
                    next(it, None)
                    it.close()
                    del it
                else:
                    for _ in live.pop(call[1]):
                        pass
                done += 1
        print(json.dumps({"accepted": True, "prefix": done, "ends": ends}))
    except Exception as ex:  # noqa: BLE001
        print(json.dumps({"accepted": False, "prefix": done, "ends": ends, "err": type(ex).__name__}))
    sys.stdout.flush()
