"""Drives the shipped Python runtime's CodedInputStream / CodedOutputStream with op scripts.
usage: coded_driver.py <dir containing package rt (copy of static_files)>   ; cases on stdin, one per line
  in  <bufsize> <hex|-> <op>...   ops: b | v | f1 f2 f4 f8 | r<n> (read_view) | R<n> (read_bytearray)
  out <bufsize> <op>...           ops: e:<n> n:<b> v:<n> s:<z> f<k>:<n> B:<hex|-> D:<hex|-> F C
"""
import io
import signal
import struct
import sys

sys.path.insert(0, sys.argv[1])
from rt import _binary as b  # noqa: E402

FMT = {1: struct.Struct("<B"), 2: struct.Struct("<H"), 4: struct.Struct("<I"), 8: struct.Struct("<Q")}


class Hang(BaseException):
    pass


def on_alarm(signum, frame):
    raise Hang()


signal.signal(signal.SIGALRM, on_alarm)
CASE_SECONDS = [2.0]   # a case takes microseconds; a reader that spins on a truncated input is reported as HANG


def unhex(h):
    return b"" if h == "-" else bytes.fromhex(h)


class Rec(io.RawIOBase):
    def __init__(self):
        self.all = bytearray()
        self.chunks = []

    def writable(self):
        return True

    def write(self, d):
        d = bytes(d)
        self.all += d
        self.chunks.append(len(d))
        return len(d)

    def flush(self):
        pass


for line in sys.stdin:
    t = line.split()
    if not t:
        continue
    kind, bufsize = t[0], int(t[1])
    out = []
    if kind == "in":
        s = b.CodedInputStream(io.BytesIO(unhex(t[2])), buffer_size=bufsize)
        signal.setitimer(signal.ITIMER_REAL, CASE_SECONDS[0])
        try:
            for op in t[3:]:
                if op == "b":
                    out.append(str(s.read_byte()))
                elif op == "v":
                    out.append(str(s.read_unsigned_varint()))
                elif op[0] == "f":
                    out.append(str(s.read(FMT[int(op[1:])])[0]))
                elif op[0] == "r":
                    out.append("h:" + (bytes(s.read_view(int(op[1:]))).hex() or "-"))
                elif op[0] == "R":
                    out.append("h:" + (bytes(s.read_bytearray(int(op[1:]))).hex() or "-"))
        except EOFError:
            out.append("EOF")
        except Hang:
            out.append("ERR:HANG")
            CASE_SECONDS[0] = max(0.05, CASE_SECONDS[0] / 2)   # keep a run with many spinning cases short
        except Exception as ex:  # noqa: BLE001
            out.append("ERR:" + type(ex).__name__)
        finally:
            signal.setitimer(signal.ITIMER_REAL, 0)
        print(" ".join(out))
    else:
        rec = Rec()
        s = b.CodedOutputStream(rec, buffer_size=bufsize)
        err = ""
        try:
            for op in t[2:]:
                k, _, a = op.partition(":")
                if k == "e":
                    s.ensure_capacity(int(a))
                elif k == "n":
                    s.write_byte_no_check(int(a))
                elif k == "v":
                    s.write_unsigned_varint(int(a))
                elif k == "s":
                    s.write_signed_varint(int(a))
                elif k[0] == "f":
                    s.write(FMT[int(k[1:])], int(a))
                elif k == "B":
                    s.write_bytes(unhex(a))
                elif k == "D":
                    s.write_bytes_directly(unhex(a))
                elif k == "F":
                    s.flush()
            s.close()
        except Exception as ex:  # noqa: BLE001
            err = "ERR:" + type(ex).__name__
        print((rec.all.hex() or "-") + "|" + ",".join(map(str, rec.chunks)) + "|" + err)
    sys.stdout.flush()
