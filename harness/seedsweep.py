#!/usr/bin/env python3
"""Apply every seeded change of /verif/seeded to /repo in turn, run the quick check of its property, undo it.
Writes seeded/RESULTS.json and the detected_by_checks field of each meta.json.  Development tool (never part of a check)."""
import json
import os
import subprocess
import sys

VERIF = os.path.dirname(os.path.dirname(os.path.abspath(__file__)))
only = sys.argv[1:]
res = {}
for d in sorted(os.listdir(os.path.join(VERIF, "seeded"))):
    sd = os.path.join(VERIF, "seeded", d)
    if not os.path.isdir(sd) or (only and d not in only and d.split("-")[0] not in only):
        continue
    prop = d.split("-")[0]
    patch = os.path.join(sd, "patch.diff")
    st = subprocess.run(["git", "-C", "/repo", "status", "--porcelain"], capture_output=True, text=True).stdout.strip()
    if st:
        print("repo not clean, abort:", st)
        sys.exit(2)
    a = subprocess.run(["git", "-C", "/repo", "apply", patch], capture_output=True, text=True)
    if a.returncode != 0:
        res[d] = {"applies": False, "error": a.stderr[-300:]}
        print(d, "DOES NOT APPLY", flush=True)
        continue
    try:
        out = []
        detected = False
        for seed in ("1", "2"):
            p = subprocess.run(["./harness/check", prop, "--tier", "quick"], cwd=VERIF, capture_output=True, text=True,
                               env=dict(os.environ, VERIF_SEED=seed), timeout=3000)
            lines = [l for l in p.stdout.splitlines() if l.startswith("VIOLATION") or (":" in l and not l.startswith("KNOWN"))]
            out.append({"seed": seed, "rc": p.returncode, "lines": [l[:220] for l in lines[:6]]})
            if p.returncode == 1 and any(l.startswith("VIOLATION") for l in p.stdout.splitlines()):
                detected = True
                break
        res[d] = {"applies": True, "detected": detected, "runs": out}
        print(d, "detected" if detected else "MISSED", out[-1]["lines"][:1], flush=True)
    finally:
        subprocess.run(["git", "-C", "/repo", "checkout", "--", "."], check=True)
        subprocess.run(["git", "-C", "/repo", "clean", "-fdq"], check=True)
    mp = os.path.join(sd, "meta.json")
    m = json.load(open(mp))
    m["detected_by_checks"] = ({"check": "./harness/check %s --tier quick" % prop, "detected": detected,
                                "first_report": next((l for r in out for l in r["lines"] if not l.startswith("VIOLATION")), "")[:200]})
    json.dump(m, open(mp, "w"), indent=1)
subprocess.run([os.path.join(VERIF, "harness", "gen")], cwd=VERIF, capture_output=True)
old = {}
rp = os.path.join(VERIF, "seeded", "RESULTS.json")
if os.path.exists(rp):
    old = json.load(open(rp))
old.update(res)
json.dump(old, open(rp, "w"), indent=1)
