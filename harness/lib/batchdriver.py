"""A hand-written C++ user of a generated reader/writer that does what CopyTo never does: writes EMPTY batches between
non-empty ones and reuses one vector for several stream steps (C01, C17)."""
import os
from concurrent.futures import ThreadPoolExecutor

import codec
import genrun
import ymodel
from ymodel import T, prim, Package
from vlib import sh

MAIN = r'''
#include <iostream>
#include <string>
#include <vector>
#include "generated/binary/protocols.h"
int main(int argc, char** argv) {
  std::ios::sync_with_stdio(false);
  std::string mode = argv[1];
  size_t cap = std::stoul(argv[2]);
  try {
    bt::binary::PbReader r(std::cin);
    bt::binary::PbWriter w(std::cout);
    if (mode == "reuse") {
      // one vector for the two int streams, one for the two record streams; items written one by one
      std::vector<int32_t> vi; vi.reserve(cap);
      while (r.ReadA(vi)) { for (auto const& x : vi) w.WriteA(x); }
      w.EndA();
      vi.assign(cap < 2 ? 1 : 2, 12345);   // the destination's previous contents must never come back as items
      while (r.ReadB(vi)) { for (auto const& x : vi) w.WriteB(x); }
      w.EndB();
      std::vector<bt::Rb> vr; vr.reserve(cap);
      vr.assign(1, bt::Rb{});
      while (r.ReadC(vr)) { for (auto const& x : vr) w.WriteC(x); }
      w.EndC();
      vr.assign(1, bt::Rb{});
      while (r.ReadD(vr)) { for (auto const& x : vr) w.WriteD(x); }
      w.EndD();
    } else {
      // batches written with empty batches before, between and after them
      std::vector<int32_t> vi; vi.reserve(cap);
      w.WriteA(std::vector<int32_t>{});
      while (r.ReadA(vi)) { w.WriteA(vi); w.WriteA(std::vector<int32_t>{}); }
      w.EndA();
      while (r.ReadB(vi)) { w.WriteB(std::vector<int32_t>{}); w.WriteB(vi); }
      w.WriteB(std::vector<int32_t>{});
      w.EndB();
      std::vector<bt::Rb> vr; vr.reserve(cap);
      w.WriteC(std::vector<bt::Rb>{});
      while (r.ReadC(vr)) { w.WriteC(vr); w.WriteC(std::vector<bt::Rb>{}); }
      w.EndC();
      while (r.ReadD(vr)) { w.WriteD(vr); }
      w.WriteD(std::vector<bt::Rb>{});
      w.EndD();
    }
    r.Close();
    w.Close();
    std::cout.flush();
    return 0;
  } catch (std::exception const& e) {
    std::cout.flush();
    std::cerr << "ERR: " << e.what() << std::endl;
    return 3;
  }
}
'''


def package():
    pkg = Package("Bt")
    pkg.defs.append(("Rb", "Rb: !record\n  fields:\n    x: int32\n    s: string"))
    rb = T("rec", "Rb", name="Rb", fields=[("x", prim("int32")), ("s", prim("string"))])
    steps = [("a", prim("int32"), True), ("b", prim("int32"), True), ("c", rb, True), ("d", rb, True)]
    pkg.protocols.append(("Pb", steps))
    return pkg, steps


def run(ctx, prop_label):
    """builds the driver once, feeds reference streams with chosen item counts; reports through ctx"""
    pkg, steps = package()
    gp = genrun.GenPackage(ctx, pkg, "batchdrv", ndjson=False, cpp=True, python=False)
    if not gp.generate():
        raise RuntimeError("yardl rejected the batch-driver package: " + gp.gen_out[-600:])
    src = open(os.path.join(gp.dir, "cpp", "generated", "protocols.cc")).read()
    import re
    schema = re.search(r'std::string PbWriterBase::schema_ = R"\((.*?)\)";', src, re.S).group(1)
    cdir = os.path.join(gp.dir, "cpp")
    open(cdir + "/main.cc", "w").write(MAIN)
    srcs = ["main.cc", "generated/protocols.cc", "generated/types.cc", "generated/binary/protocols.cc"]

    def comp(s):
        obj = s.replace("/", "_") + ".o"
        rc, o, e = sh(["g++", "-std=c++17", "-O0", "-w", "-I", genrun.SHIMS, "-I", "generated", "-c", s, "-o", obj], cwd=cdir, timeout=900)
        return rc, s, e, obj
    with ThreadPoolExecutor(max_workers=4) as ex:
        rs = list(ex.map(comp, srcs))
    bad = [(s, e) for rc, s, e, _ in rs if rc != 0]
    if bad:
        ctx.report("cpp-compile:batch-driver", "the hand-written batch driver does not compile against generated C++: %s" % bad[0][1][-300:],
                   {"errors": bad[:2]})
        return
    rc, o, e = sh(["g++"] + [r[3] for r in rs] + ["-o", "drv"], cwd=cdir, timeout=300)
    if rc != 0:
        ctx.report("cpp-link:batch-driver", "link failed: " + e[-300:], {"error": e[-1500:]})
        return
    import subprocess
    rng = ctx.rng
    bcases, bmeta = [], []
    counts = [(3, 0, 2, 0), (0, 4, 0, 3), (4, 4, 4, 4), (1, 0, 1, 0), (6, 0, 5, 0), (2, 2, 0, 0), (0, 0, 0, 0), (5, 1, 3, 2)]
    for cnt in counts:
        ws = []
        for (n, t, st), k in zip(steps, cnt):
            items = [ymodel.gen_value(rng, t, 2, True) for _ in range(k)]
            ws.append(ymodel.partition(rng, items))
        body = ymodel.enc_steps(steps, ws)
        stream = ymodel.enc_header(schema) + body
        for mode in ("reuse", "emptybatch"):
            for cap in (1, 2, 3, 4, 64):
                p = subprocess.run([cdir + "/drv", mode, str(cap)], input=stream, stdout=subprocess.PIPE, stderr=subprocess.PIPE, timeout=60)
                what = "%s, capacity %d, items %s" % ("one vector reused for consecutive streams" if mode == "reuse" else "empty batches written around batches", cap, list(cnt))
                if p.returncode != 0:
                    ctx.report("batch-driver-error:" + mode, "C++ user code (%s) failed: %s" % (what, p.stderr.decode(errors="replace")[-160:]),
                               {"mode": mode, "capacity": cap, "item_counts": cnt, "stream_hex": stream.hex(), "driver": MAIN})
                    continue
                bcases.append((schema, steps, ws, body, [p.stdout]))
                bmeta.append((mode, cap, cnt, stream, p.stdout, what))
    for (mode, cap, cnt, stream, out, what), s_ in zip(bmeta, codec.eval_pcases(ctx, bcases, "batchdrv")):
        ctx.case(("batchdrv", mode, cap, stream), sample={"driver": what, "status": s_})
        ctx.count("batch_driver", mode)
        if s_ != 0:
            ctx.report("batch-driver-wrong-items:" + mode, "C++ user code (%s): what was written does not decode to the items that were read" % what,
                       {"mode": mode, "capacity": cap, "item_counts": cnt, "stream_hex": stream.hex(), "output_hex": out.hex(), "driver": MAIN})
