"""Shared flows for the codec family (C01/C03/C15/C16/C17): build packages with the real yardl,
run reference-encoded streams through generated Python / C++ code, evaluate the Coq model."""
import os
from concurrent.futures import ThreadPoolExecutor

import genrun
import ymodel
from vlib import Ctx, coq_bytes


def build_packages(ctx, n, seed_tag, cpp=True, ndjson=False, gen_kwargs=None, asan=False):
    """n random packages; returns list of GenPackage with .schemas_ filled, python runner started,
    C++ translator built (when cpp)."""
    pkgs = []
    for i in range(n):
        g = ymodel.Gen(ctx.rng, namespace="Pk%s%s" % (seed_tag, "abcdefghijklmnopqrstuvwxyz"[i % 26] * (1 + i // 26)), **(gen_kwargs or {}))
        pkg = g.build()
        gp = genrun.GenPackage(ctx, pkg, "pkg_%s_%d" % (seed_tag, i), ndjson=ndjson, cpp=cpp)
        if not gp.generate():
            raise RuntimeError("yardl rejected a generated package (generator bug or front-end change):\n%s\n%s"
                               % (gp.gen_out[-1500:], pkg.yaml()))
        gp.schemas_ = gp.schemas()
        pkgs.append(gp)
    if cpp:
        with ThreadPoolExecutor(max_workers=4) as ex:
            oks = list(ex.map(lambda gp: gp.cpp_build(asan=asan), pkgs))
        for gp, ok in zip(pkgs, oks):
            if not ok:
                gp.cpp_failed = True
    for gp in pkgs:
        gp.py_start()
    return pkgs


def stop_packages(pkgs):
    for gp in pkgs:
        gp.py_stop()


def pcase_v(cases):
    """cases: list of (schema_str, steps, writes, body_bytes, [observed streams])"""
    items = []
    for schema, steps, ws, body, obs in cases:
        items.append("(%s, [%s], [%s], %s, [%s])" % (
            coq_bytes(schema.encode("utf-8")),
            "; ".join(ymodel.coq_step(s) for s in steps),
            "; ".join(ymodel.coq_write(s, w) for s, w in zip(steps, ws)),
            coq_bytes(body),
            "; ".join(coq_bytes(o) for o in obs)))
    return ("From Coq Require Import List NArith ZArith.\nFrom YV Require Import Base.Wire Model.Binary Model.BinaryCases.\n"
            "Import ListNotations.\nOpen Scope N_scope.\n"
            "Definition cases : list pcase := [\n " + ";\n ".join(items) + "\n].\n"
            "Definition ST := Eval vm_compute in statuses cases.\nPrint ST.\n")


def eval_pcases(ctx, cases, tag, shard=40):
    shards = [cases[i:i + shard] for i in range(0, len(cases), shard)]

    def ev(ix_sh):
        ix, sh_ = ix_sh
        try:
            out = ctx.coq_eval("%s_%d" % (tag, ix), pcase_v(sh_), timeout=1500, mem_kb=12000000)
            return Ctx.parse_nat_list(out, "ST")
        except Exception as ex:  # noqa: BLE001
            if not any(m in str(ex) for m in ("Out of memory", "timed out", "Stack overflow", "Cannot allocate", "memory")):
                raise
        # an observed stream that decodes to absurd sizes (a count read from the wrong place) exhausts the evaluator: find the
        # case and the flow, and give it the status "does not decode to the values written"
        res = []
        for k, (schema, steps, ws, body, obs) in enumerate(sh_):
            st = 0
            try:
                out = ctx.coq_eval("%s_%d_%d" % (tag, ix, k), pcase_v([(schema, steps, ws, body, obs)]), timeout=120, mem_kb=3000000)
                st = Ctx.parse_nat_list(out, "ST")[0]
            except Exception:  # noqa: BLE001
                st = 3
                for j, o in enumerate(obs):
                    try:
                        out = ctx.coq_eval("%s_%d_%d_%d" % (tag, ix, k, j), pcase_v([(schema, steps, ws, body, [o])]), timeout=120, mem_kb=3000000)
                        if Ctx.parse_nat_list(out, "ST")[0] != 0:
                            st = 3 + j
                            break
                    except Exception:  # noqa: BLE001
                        st = 3 + j
                        break
            res.append(st)
        return res
    with ThreadPoolExecutor(max_workers=10) as ex:
        res = list(ex.map(ev, enumerate(shards)))
    return [x for r in res for x in r]
