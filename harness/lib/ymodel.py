"""G-model / G-value: random valid yardl packages, their resolved types, values, and the reference
compact-binary encoder used to CONSTRUCT inputs (the Coq model is what decides; every reference
encoding is re-checked against `Model.Binary.enc` inside Coq).

Type objects (class T) carry
  * the resolved structure (kind + children) that maps 1:1 to Coq `ty`,
  * names needed by the JSON mapping (record/field names, enum symbols, union tags),
  * `spell`: the yardl short-syntax text that denotes the type in the generated package.
"""
import struct

PRIMS = ["bool", "int8", "uint8", "int16", "uint16", "int32", "uint32", "int64", "uint64", "size",
         "float32", "float64", "complexfloat32", "complexfloat64", "string", "date", "time", "datetime"]
PRIM_ALIASES = {"int": "int32", "uint": "uint32", "long": "int64", "ulong": "uint64", "float": "float32",
                "double": "float64", "complexfloat": "complexfloat32", "complexdouble": "complexfloat64",
                "byte": "uint8"}
COQ_PRIM = {"bool": "PBool", "int8": "PInt8", "uint8": "PUint8", "int16": "PInt16", "uint16": "PUint16",
            "int32": "PInt32", "uint32": "PUint32", "int64": "PInt64", "uint64": "PUint64", "size": "PSize",
            "float32": "PFloat32", "float64": "PFloat64", "complexfloat32": "PCFloat32",
            "complexfloat64": "PCFloat64", "string": "PString", "date": "PDate", "time": "PTime",
            "datetime": "PDateTime"}
INTW = {"bool": (False, 1), "int8": (True, 8), "uint8": (False, 8), "int16": (True, 16), "uint16": (False, 16),
        "int32": (True, 32), "uint32": (False, 32), "int64": (True, 64), "uint64": (False, 64), "size": (False, 64),
        "date": (True, 32), "time": (True, 64), "datetime": (True, 64)}
INT_PRIMS = ["int8", "uint8", "int16", "uint16", "int32", "uint32", "int64", "uint64", "size"]
KEY_PRIMS = ["string", "int32", "uint8", "int64", "uint16", "bool", "size", "int8"]


class T:
    def __init__(self, kind, spell, **kw):
        self.kind = kind
        self.spell = spell
        self.__dict__.update(kw)

    # ---- Coq `ty`
    def coq(self):
        k = self.kind
        if k == "prim":
            return "TPrim " + COQ_PRIM[self.p]
        if k == "enum":
            return "TEnum " + COQ_PRIM[self.base]
        if k == "opt":
            return "TOpt (%s)" % self.e.coq()
        if k == "union":
            return "TUnion %s [%s]" % ("true" if self.has_null else "false", "; ".join(c.coq() for c in self.cases))
        if k == "vec":
            return "TVec (%s)" % self.e.coq()
        if k == "fixvec":
            return "TFixVec %d (%s)" % (self.n, self.e.coq())
        if k == "arr":
            return "TArr %d (%s)" % (self.rank, self.e.coq())
        if k == "fixarr":
            return "TFixArr [%s] (%s)" % (";".join(map(str, self.dims)), self.e.coq())
        if k == "dynarr":
            return "TDynArr (%s)" % self.e.coq()
        if k == "map":
            return "TMap (%s) (%s)" % (self.k.coq(), self.e.coq())
        if k == "rec":
            return "TRec [%s]" % "; ".join(f.coq() for _, f in self.fields)
        raise ValueError(k)

    def canon(self):
        """structural identity as yardl's TypesEqual sees it (aliases transparent, size == uint64)"""
        k = self.kind
        if k == "prim":
            return "uint64" if self.p == "size" else self.p
        if k == "enum":
            return "E:" + self.name
        if k == "rec":
            return "R:%s(%s)" % (self.name, ",".join(f.canon() for _, f in self.fields))
        if k == "union":
            return "U%s(%s)" % ("?" if self.has_null else "", ",".join(c.canon() for c in self.cases))
        if k == "map":
            return "M(%s,%s)" % (self.k.canon(), self.e.canon())
        if k == "fixvec":
            return "V%d(%s)" % (self.n, self.e.canon())
        if k == "arr":
            return "A%d(%s)" % (self.rank, self.e.canon())
        if k == "fixarr":
            return "F%s(%s)" % (self.dims, self.e.canon())
        return "%s(%s)" % (k, self.e.canon())

    def shape_sig(self, depth=3):
        """constructor nesting signature (for coverage statistics)"""
        k = self.kind
        if depth == 0:
            return k
        if k in ("prim",):
            return self.p
        if k == "enum":
            return ("flags:" if self.is_flags else "enum:") + self.base
        if k in ("opt", "vec", "fixvec", "arr", "fixarr", "dynarr"):
            return "%s(%s)" % (k, self.e.shape_sig(depth - 1))
        if k == "union":
            return "union%s(%s)" % ("?" if self.has_null else "", ",".join(c.shape_sig(depth - 1) for c in self.cases))
        if k == "map":
            return "map(%s,%s)" % (self.k.shape_sig(depth - 1), self.e.shape_sig(depth - 1))
        if k == "rec":
            return "rec(%s)" % ",".join(f.shape_sig(depth - 1) for _, f in self.fields)
        return k


def prim(p, spell=None):
    return T("prim", spell or p, p=p)


# ---------------------------------------------------------------------------------- package generator
class Package:
    def __init__(self, namespace):
        self.namespace = namespace
        self.defs = []        # (name, yaml_text) in creation order
        self.protocols = []   # (name, [(stepname, T, is_stream)])
        self.named = []       # usable named types: list of T (records, enums, aliases)
        self.generics = []    # (name, nparams, builder(args)->T)
        self.structs = {}     # name -> ("record", [(field, T)]) | ("alias", T): for re-spelling (C13)
        self.counter = 0

    def fresh(self, prefix):
        self.counter += 1
        return "%s%d" % (prefix, self.counter)

    def yaml(self, order=None):
        defs = list(self.defs)
        if order is not None:
            defs = [defs[i] for i in order]
        out = []
        for name, text in defs:
            out.append(text)
        for name, steps in self.protocols:
            lines = ["%s: !protocol" % name, "  sequence:"]
            for sname, t, is_stream in steps:
                if is_stream:
                    lines.append("    %s: !stream" % sname)
                    lines.append("      items: %s" % yq(t.spell))
                else:
                    lines.append("    %s: %s" % (sname, yq(t.spell)))
            out.append("\n".join(lines))
        return "\n\n".join(out) + "\n"


def yq(s):
    """quote a short-syntax type for YAML when needed"""
    if isinstance(s, str) and (s.startswith("[") or s.startswith("{") or s.startswith("!")):
        return s
    if any(c in s for c in "*?[]>,:#&") or s in ("null", "true", "false", "yes", "no"):
        return "'%s'" % s
    return s


class Gen:
    """Random valid package generator. All randomness from rng."""

    def __init__(self, rng, namespace="Ns", allow_generics=True, allow_strings_in_arrays=True, allow_time_in_arrays=True,
                 max_depth=3, n_records=4, n_enums=3, n_aliases=3, n_protocols=3, steps=(2, 5), rich_array_elems=True):
        self.rng = rng
        self.rich_array_elems = rich_array_elems
        self.explicit_tags = True
        self.pkg = Package(namespace)
        self.max_depth = max_depth
        self.allow_generics = allow_generics
        self.allow_strings_in_arrays = allow_strings_in_arrays
        self.allow_time_in_arrays = allow_time_in_arrays
        self.n_records, self.n_enums, self.n_aliases, self.n_protocols, self.steps = n_records, n_enums, n_aliases, n_protocols, steps

    # ---- leaf / named
    def g_prim(self):
        p = self.rng.choice(PRIMS)
        spell = p
        inv = [a for a, b in PRIM_ALIASES.items() if b == p]
        if inv and self.rng.random() < 0.3:
            spell = self.rng.choice(inv)
        return prim(p, spell)

    def mk_enum(self):
        rng, pkg = self.rng, self.pkg
        name = pkg.fresh("E")
        is_flags = rng.random() < 0.4
        base = rng.choice(INT_PRIMS + ["int32", "int32"])  # default base is int32
        base_spelling = base
        if rng.random() < 0.35:
            # the base given through a named alias of the integer primitive (a valid spelling of the same base)
            aname = pkg.fresh("B")
            pkg.defs.append((aname, "%s: %s" % (aname, base)))
            pkg.structs[aname] = ("alias", prim(base))
            base_spelling = aname
        signed, w = INTW[base]
        n = rng.randint(1, 5)
        syms = ["v%s%d" % (chr(97 + i), i) for i in range(n)]
        explicit = rng.random() < 0.6
        values = []
        if is_flags:
            bits = rng.sample(range(0, min(w - 1, 12)), n) if explicit else list(range(n))
            values = [1 << b for b in (sorted(bits) if explicit else bits)]
            if explicit and n >= 2 and rng.random() < 0.5:
                # members that cover several bits: a union of two others declared BEFORE them, and one that overlaps another partially
                comp = values[0] | values[1]
                values = [comp] + values
                syms = ["vall"] + syms
                free = [b for b in range(0, min(w - 1, 12)) if not any(v >> b & 1 for v in values)]
                if free and rng.random() < 0.5:
                    values.append(values[-1] | (1 << free[0]))
                    syms.append("vovl")
        else:
            if explicit:
                lo = -(2 ** (w - 1)) if signed else 0
                hi = 2 ** (w - 1) - 1 if signed else 2 ** w - 1
                pool = {0, 1, 2, 5, 100, hi, lo, lo + 1 if signed else 3, -1 if signed else 7}
                pool = sorted(x for x in pool if lo <= x <= hi)
                values = rng.sample(pool, min(n, len(pool)))
                syms = syms[:len(values)]
            else:
                values = list(range(n))
        lines = ["%s: %s" % (name, "!flags" if is_flags else "!enum")]
        if base_spelling != "int32" or rng.random() < 0.3:
            lines.append("  base: %s" % base_spelling)
        lines.append("  values:")
        if explicit:
            for s, v in zip(syms, values):
                lines.append("    %s: %d" % (s, v))
        else:
            for s in syms:
                lines.append("    - %s" % s)
        pkg.defs.append((name, "\n".join(lines)))
        t = T("enum", name, base=base, name=name, symbols=list(zip(syms, values)), is_flags=is_flags)
        pkg.named.append(t)
        return t

    def mk_record(self):
        rng, pkg = self.rng, self.pkg
        name = pkg.fresh("R")
        nf = rng.randint(1, 4)
        fields = []
        lines = ["%s: !record" % name, "  fields:"]
        for i in range(nf):
            fname = "f%s%d" % (chr(97 + i), i)
            ft = self.g_type(self.max_depth - 1)
            fields.append((fname, ft))
            lines.append("    %s: %s" % (fname, yq(ft.spell)))
        pkg.defs.append((name, "\n".join(lines)))
        pkg.structs[name] = ("record", fields)
        t = T("rec", name, name=name, fields=fields)
        pkg.named.append(t)
        return t

    def mk_alias(self):
        rng, pkg = self.rng, self.pkg
        name = pkg.fresh("A")
        target = self.g_type(self.max_depth - 1)
        pkg.defs.append((name, "%s: %s" % (name, yq(target.spell))))
        pkg.structs[name] = ("alias", target)
        t = T(target.kind, name, **{k: v for k, v in target.__dict__.items() if k not in ("kind", "spell", "gname", "gargs")})
        pkg.named.append(t)
        return t

    def mk_generic_record(self):
        rng, pkg = self.rng, self.pkg
        name = pkg.fresh("G")
        np_ = rng.randint(1, 2)
        params = ["T%d" % i for i in range(np_)]
        # field shapes over parameters
        shapes = []
        for i in range(rng.randint(np_, np_ + 2)):
            p = i % np_
            wrap = rng.choice(["", "?", "*", "*2", "[]"]) if i >= np_ else rng.choice(["", "", "*"])
            shapes.append(("g%s%d" % (chr(97 + i), i), p, wrap))
        if rng.random() < 0.5:
            shapes.append(("gz", None, "int32"))
        lines = ["%s<%s>: !record" % (name, ", ".join(params)), "  fields:"]
        for fname, p, wrap in shapes:
            lines.append("    %s: %s" % (fname, yq((params[p] + wrap) if p is not None else wrap)))
        pkg.defs.append((name, "\n".join(lines)))

        def build(args, name=name, shapes=shapes):
            fields = []
            for fname, p, wrap in shapes:
                if p is None:
                    fields.append((fname, prim(wrap)))
                else:
                    fields.append((fname, self.wrap(args[p], wrap)))
            spell = "%s<%s>" % (name, ", ".join(a.spell for a in args))
            return T("rec", spell, name=name, fields=fields, gname=name, gargs=list(args))
        arrp = {p for _, p, wrap in shapes if p is not None and wrap == "[]"}
        optp = {p for _, p, wrap in shapes if p is not None and wrap == "?"}
        pkg.generics.append((name, np_, build, arrp, optp))

    def mk_generic_alias(self):
        rng, pkg = self.rng, self.pkg
        name = pkg.fresh("GA")
        wrapk = rng.choice(["?", "*", "*3", "[]", "map"])
        if wrapk == "map":
            pkg.defs.append((name, "%s<T>: %s" % (name, yq("string->T"))))
        else:
            pkg.defs.append((name, "%s<T>: %s" % (name, yq("T" + wrapk))))

        def build(args, name=name, wrapk=wrapk):
            a = args[0]
            if wrapk == "map":
                t = T("map", "", k=prim("string"), e=a)
            else:
                t = self.wrap(a, wrapk)
            t.spell = "%s<%s>" % (name, a.spell)
            t.gname, t.gargs = name, [a]
            return t
        pkg.generics.append((name, 1, build, {0} if wrapk == "[]" else set(), {0} if wrapk == "?" else set()))

    def nameable(self, a):
        """a union spelled as a YAML sequence cannot be nested in short syntax: give it an alias name"""
        if a.spell.startswith("["):
            name = self.pkg.fresh("U")
            self.pkg.defs.append((name, "%s: %s" % (name, a.spell)))
            self.pkg.structs[name] = ("alias", a)
            a = T(a.kind, name, **{k: v for k, v in a.__dict__.items() if k not in ("kind", "spell")})
        return a

    def wrap(self, a, wrap):
        a = self.nameable(a)
        par = a.spell if not self.needs_paren(a) else "(%s)" % a.spell
        if wrap == "":
            return a
        if wrap == "?":
            if a.kind in ("opt", "union"):
                return a  # T? of an optional/union is not a plain optional; avoid the shape
            return T("opt", par + "?", e=a)
        if wrap == "*":
            return T("vec", par + "*", e=a)
        if wrap.startswith("*"):
            return T("fixvec", par + wrap, n=int(wrap[1:]), e=a)
        if wrap == "[]":
            return T("dynarr", par + "[]", e=a)
        raise ValueError(wrap)

    @staticmethod
    def needs_paren(a):
        return "->" in a.spell

    def not_bool(self, t):
        """`bool*` and `!stream bool` become std::vector<bool> in C++, which yardl's runtime cannot handle
        (recorded under C08); keep that shape out of the codec checks"""
        return prim("uint8") if (t.kind == "prim" and t.p == "bool") else t

    def array_elem(self, depth):
        """element types for arrays: numeric-ish, enums, small records of numerics, fixed vectors"""
        rng = self.rng
        r = rng.random()
        if r < 0.55:
            # (arrays of date/time/datetime could not be written by the generated Python NDJSON writer before the /repo fix of the
            # converter dtypes; they are generated by default now)
            p = rng.choice([q for q in PRIMS if (q != "string" or self.allow_strings_in_arrays)
                            and (self.allow_time_in_arrays or q not in ("date", "time", "datetime"))])
            return prim(p)
        if r < 0.7:
            enums = [t for t in self.pkg.named if t.kind == "enum"]
            if enums:
                return rng.choice(enums)
        if r < 0.85:
            def plain(f):
                return ((f.kind == "prim" and f.p not in ("string",)) or f.kind == "enum" or
                        (f.kind in ("fixvec", "fixarr") and f.e.kind == "prim" and f.e.p not in ("string", "date", "time", "datetime")) or
                        (f.kind == "opt" and f.e.kind == "prim" and f.e.p not in ("string", "date", "time", "datetime")))
            recs = [t for t in self.pkg.named if t.kind == "rec" and all(plain(f) for _, f in t.fields)]
            if recs:
                return rng.choice(recs)
        if r < 0.93 and self.rich_array_elems:
            # elements that are not scalars: optionals and vectors of numbers (object arrays in Python)
            if rng.random() < 0.5:
                p = prim(rng.choice(["int32", "float64", "uint8", "int64", "bool"]))
                return T("opt", p.spell + "?", e=p)
            p = prim(rng.choice(["int32", "float64", "uint8", "int64"]))      # bool*: the C08 finding cpp-bool-sequence
            return T("vec", p.spell + "*", e=p)
        return prim(rng.choice(["int32", "float32", "uint8", "complexfloat32", "float64"]))

    def g_type(self, depth):
        rng, pkg = self.rng, self.pkg
        if depth <= 0 or rng.random() < 0.25:
            r = rng.random()
            if r < 0.6 or not pkg.named:
                return self.g_prim()
            return rng.choice(pkg.named)
        k = rng.choice(["opt", "union", "vec", "fixvec", "arr", "fixarr", "dynarr", "map", "named", "generic", "prim"])
        if k == "prim":
            return self.g_prim()
        if k == "named":
            return rng.choice(pkg.named) if pkg.named else self.g_prim()
        if k == "generic":
            if not pkg.generics or not self.allow_generics:
                return self.g_prim()
            name, np_, build, arrp, optp = rng.choice(pkg.generics)
            args = []
            for i in range(np_):
                if i in arrp:
                    a = self.array_elem(depth - 1)
                    if a.kind in ("opt", "vec") and (i in optp or a.kind == "vec"):
                        a = prim(rng.choice(["int32", "float32", "uint8", "float64"]))   # `T?` of an optional is invalid; keep generic arguments plain
                else:
                    a = self.not_bool(self.nameable(self.g_type(depth - 1)))
                    if i in optp and a.kind in ("opt", "union"):
                        a = self.g_prim()   # `T?` of an optional/union is a different shape; keep it simple
                        a = self.not_bool(a)
                args.append(a)
            return build(args)
        if k == "opt":
            e = self.g_type(depth - 1)
            if e.kind in ("opt", "union"):
                return e
            return self.wrap(e, "?")
        if k == "union":
            n = rng.randint(2, 4)
            cases = []
            seen = set()
            for _ in range(n * 3):
                c = self.g_type(depth - 1)
                if c.kind in ("opt", "union"):
                    continue
                key = c.canon()
                if key in seen:
                    continue
                seen.add(key)
                if not c.spell.isalnum():
                    # implicit tags must be plain identifiers: alias anything else
                    name = self.pkg.fresh("C")
                    self.pkg.defs.append((name, "%s: %s" % (name, yq(c.spell))))
                    self.pkg.structs[name] = ("alias", c)
                    c = T(c.kind, name, **{k2: v2 for k2, v2 in c.__dict__.items() if k2 not in ("kind", "spell", "gname", "gargs")})
                cases.append(c)
                if len(cases) == n:
                    break
            if len(cases) < 2:
                return self.g_prim()
            has_null = rng.random() < 0.4
            if self.explicit_tags and rng.random() < 0.3:
                # the `!union {tag: type}` syntax with tags of its own; only as a named definition (it cannot be embedded in
                # the short syntax of an enclosing type)
                xt = ["t%s%d" % ("abcdefgh"[i], rng.randint(0, 9)) for i in range(len(cases))]
                name = self.pkg.fresh("X")
                body = ", ".join((["nothing: null"] if has_null else []) + ["%s: %s" % (tg, yq(c.spell)) for tg, c in zip(xt, cases)])
                self.pkg.defs.append((name, "%s: !union {%s}" % (name, body)))
                u = T("union", name, has_null=has_null, cases=cases, tags=xt, xtags=xt)
                self.pkg.structs[name] = ("alias", T("union", "!union {%s}" % body, has_null=has_null, cases=cases, tags=xt, xtags=xt))
                return u
            spell = "[" + ", ".join((["null"] if has_null else []) + [yq(c.spell) for c in cases]) + "]"
            return T("union", spell, has_null=has_null, cases=cases, tags=[union_tag(c) for c in cases])
        if k == "vec":
            return self.wrap(self.not_bool(self.g_type(depth - 1)), "*")
        if k == "fixvec":
            return self.wrap(self.g_type(depth - 1), "*%d" % (0 if rng.random() < 0.08 else rng.randint(1, 4)))
        if k == "map":
            kt = prim(rng.choice(KEY_PRIMS))
            e = self.nameable(self.g_type(depth - 1))
            return T("map", "%s->%s" % (kt.spell, e.spell), k=kt, e=e)
        e = self.array_elem(depth - 1)
        par = e.spell
        if k == "arr":
            rank = rng.randint(1, 3)
            names = rng.random() < 0.5
            dims = ", ".join(("d%d" % i) for i in range(rank)) if names else "," * (rank - 1)
            if not names and rank == 1:
                return T("arr", par + "[x]", rank=1, e=e)
            return T("arr", "%s[%s]" % (par, dims), rank=rank, e=e)
        if k == "fixarr":
            rank = rng.randint(1, 3)
            dims = [rng.randint(1, 3) for _ in range(rank)]
            if rng.random() < 0.08:
                dims[rng.randrange(rank)] = 0      # a zero extent: no element, no byte in the stream
            named = rng.random() < 0.4
            txt = ", ".join(("d%d:%d" % (i, d)) if named else str(d) for i, d in enumerate(dims))
            return T("fixarr", "%s[%s]" % (par, txt), dims=dims, e=e)
        return T("dynarr", par + "[]", e=e)

    def build(self):
        rng, pkg = self.rng, self.pkg
        for _ in range(self.n_enums):
            self.mk_enum()
        todo = (["rec"] * self.n_records + ["alias"] * self.n_aliases +
                (["grec", "galias"] if self.allow_generics else []))
        rng.shuffle(todo)
        for k in todo:
            {"rec": self.mk_record, "alias": self.mk_alias, "grec": self.mk_generic_record,
             "galias": self.mk_generic_alias}[k]()
        for i in range(self.n_protocols):
            pname = pkg.fresh("P")
            steps = []
            for j in range(rng.randint(*self.steps)):
                t = self.g_type(self.max_depth)
                is_stream = rng.random() < 0.45
                if is_stream:
                    t = self.not_bool(t)
                steps.append(("s%s%d" % (chr(97 + j), j), t, is_stream))
            pkg.protocols.append((pname, steps))
        return pkg


def union_tag(c):
    """the tag yardl derives for a union case (used by JSON mapping); primitive -> its name, named -> name"""
    return c.spell


# ---------------------------------------------------------------------------------- values
EDGE_INTS = [0, 1, -1, 2, 63, 64, 127, 128, 255, 256, 16383, 16384, 65535, 65536]


def gen_int(rng, signed, w):
    lo = -(2 ** (w - 1)) if signed else 0
    hi = 2 ** (w - 1) - 1 if signed else 2 ** w - 1
    r = rng.random()
    if r < 0.35:
        c = [x for x in EDGE_INTS + [hi, hi - 1, lo, lo + 1, 2 ** (w // 2), 2 ** (w - 2)] if lo <= x <= hi]
        return rng.choice(c)
    if r < 0.7:
        k = rng.randint(0, w - (1 if signed else 0))
        v = rng.randrange(2 ** k) if k else 0
        return max(lo, min(hi, -v if (signed and rng.random() < 0.5) else v))
    return rng.randint(lo, hi)


F32_SPECIAL = [0x00000000, 0x80000000, 0x3F800000, 0xBF800000, 0x7F800000, 0xFF800000, 0x7FC00000, 0x7FC00001,
               0x00000001, 0x007FFFFF, 0x7F7FFFFF, 0x3EAAAAAB]
F64_SPECIAL = [0x0, 0x8000000000000000, 0x3FF0000000000000, 0xBFF0000000000000, 0x7FF0000000000000,
               0xFFF0000000000000, 0x7FF8000000000000, 0x7FF8000000000001, 0x1, 0x000FFFFFFFFFFFFF,
               0x7FEFFFFFFFFFFFFF, 0x3FD5555555555555]
STRINGS = ["", "a", "hello", "héllo", "日本語", "\U0001F600x", "q\"uote\\back", "line\nbreak\ttab", "x" * 130]


def gen_value(rng, t, size=3, finite=False, opts=None):
    """value of type t as a nested tuple mirroring Coq `val`"""
    k = t.kind
    if k == "prim":
        p = t.p
        if p in INTW:
            signed, w = INTW[p]
            if p == "bool":
                return ("int", rng.randint(0, 1))
            if p == "date":
                return ("int", rng.choice([0, 1, -1, 19000, -719162, 2932896, rng.randint(-700000, 2900000)]))
            if p == "time":
                S = 10 ** 9
                return ("int", rng.choice([0, 1, 86399999999999, 3600 * S, (13 * 3600 + 5 * 60 + 30) * S, (13 * 3600 + 20 * 60) * S, 10 * S,
                                           (12 * 3600 + 34 * 60 + 56) * S + 500000000, 7 * S + 123000000, 7 * S + 123456000, 59 * S + 100,
                                           rng.randrange(86400) * S, rng.randrange(86400 * 10 ** 9)]))
            if p == "datetime":
                return ("int", rng.choice([0, 1, -1, 10 ** 18, -10 ** 18, gen_int(rng, True, 63)]))
            return ("int", gen_int(rng, signed, w))
        if p in ("float32", "float64"):
            sp, w = (F32_SPECIAL, 32) if p == "float32" else (F64_SPECIAL, 64)
            n = rng.choice(sp) if rng.random() < 0.4 else rng.randrange(2 ** w)
            if finite and is_nonfinite(n, w):
                n = sp[2]
            return ("bits", quiet(n, w))
        if p in ("complexfloat32", "complexfloat64"):
            sp, w = (F32_SPECIAL, 32) if p == "complexfloat32" else (F64_SPECIAL, 64)
            re = rng.choice(sp) if rng.random() < 0.4 else rng.randrange(2 ** w)
            im = rng.choice(sp) if rng.random() < 0.4 else rng.randrange(2 ** w)
            if finite:
                re = sp[2] if is_nonfinite(re, w) else re
                im = sp[3] if is_nonfinite(im, w) else im
            return ("cplx", quiet(re, w), quiet(im, w))
        if p == "string":
            s = rng.choice(STRINGS) if rng.random() < 0.7 else "".join(
                rng.choice("abcxyz éß世") for _ in range(rng.randint(0, 12)))
            return ("str", list(s.encode("utf-8")))
    if k == "enum":
        signed, w = INTW[t.base]
        vals = [v for _, v in t.symbols]
        if t.is_flags:
            r = rng.random()
            if r < 0.2:
                return ("int", 0)
            v = 0
            for x in vals:
                if rng.random() < 0.5:
                    v |= x
            if r > 0.9:  # a bit that is not a declared flag
                v |= 1 << (w - 2)
            return ("int", v)
        if rng.random() < 0.85:
            return ("int", rng.choice(vals))
        return ("int", gen_int(rng, signed, w))   # out-of-range enum integer
    if k == "opt":
        return ("none",) if rng.random() < 0.35 else ("some", gen_value(rng, t.e, size, finite))
    if k == "union":
        if t.has_null and rng.random() < 0.25:
            return ("none",)
        i = rng.randrange(len(t.cases))
        return ("case", i, gen_value(rng, t.cases[i], size, finite))
    if k == "vec":
        n = rng.choice([0, 1, 2, size, size + 2])
        return ("seq", [gen_value(rng, t.e, max(1, size - 1), finite) for _ in range(n)])
    if k == "fixvec":
        return ("seq", [gen_value(rng, t.e, max(1, size - 1), finite) for _ in range(t.n)])
    if k in ("arr", "fixarr", "dynarr"):
        if k == "fixarr":
            shape = list(t.dims)
        elif k == "arr":
            shape = [rng.choice([0, 1, 2, 3]) if rng.random() < 0.9 else 5 for _ in range(t.rank)]
        else:
            shape = [rng.choice([1, 2, 3]) for _ in range(rng.choice([0, 1, 2, 3]))]
            if rng.random() < 0.15 and shape:
                shape[rng.randrange(len(shape))] = 0
        n = 1
        for d in shape:
            n *= d
        return ("arr", shape, [gen_value(rng, t.e, 1, finite) for _ in range(n)])
    if k == "map":
        n = rng.choice([0, 1, 2, size])
        out, seen = [], set()
        for _ in range(n * 3):
            kv = gen_value(rng, t.k, 1, True)
            if repr(kv) in seen:
                continue
            seen.add(repr(kv))
            out.append((kv, gen_value(rng, t.e, max(1, size - 1), finite)))
            if len(out) == n:
                break
        return ("map", out)
    if k == "rec":
        return ("seq", [gen_value(rng, f, max(1, size - 1), finite) for _, f in t.fields])
    raise ValueError(k)


def quiet(n, w):
    """signalling NaNs are quieted by CPython's float32<->double conversions (not a yardl matter):
    generate quiet NaNs (any payload) only"""
    if w == 32 and (n >> 23) & 0xFF == 0xFF and n & 0x7FFFFF:
        return n | 0x400000
    if w == 64 and (n >> 52) & 0x7FF == 0x7FF and n & 0xFFFFFFFFFFFFF:
        return n | 0x8000000000000
    return n


def is_nonfinite(n, w):
    if w == 32:
        return (n >> 23) & 0xFF == 0xFF
    return (n >> 52) & 0x7FF == 0x7FF


def coq_val(v):
    k = v[0]
    if k == "int":
        return "VInt (%d)" % v[1]
    if k == "bits":
        return "VBits %d" % v[1]
    if k == "cplx":
        return "VCplx %d %d" % (v[1], v[2])
    if k == "str":
        return "VStr [%s]" % ";".join(map(str, v[1]))
    if k == "none":
        return "VNone"
    if k == "some":
        return "VSome (%s)" % coq_val(v[1])
    if k == "case":
        return "VCase %d (%s)" % (v[1], coq_val(v[2]))
    if k == "seq":
        return "VSeq [%s]" % "; ".join(coq_val(x) for x in v[1])
    if k == "arr":
        return "VArr [%s] [%s]" % (";".join(map(str, v[1])), "; ".join(coq_val(x) for x in v[2]))
    if k == "map":
        return "VMapv [%s]" % "; ".join("(%s, %s)" % (coq_val(a), coq_val(b)) for a, b in v[1])
    raise ValueError(k)


# ---------------------------------------------------------------------------------- reference encoder
def venc(n):
    out = bytearray()
    while n >= 0x80:
        out.append((n & 0x7F) | 0x80)
        n >>= 7
    out.append(n)
    return bytes(out)


def zz(z):
    return 2 * z if z >= 0 else -2 * z - 1


def enc_int(p, z):
    signed, w = INTW[p]
    if w <= 8:
        return bytes([z & 0xFF])
    return venc(zz(z)) if signed else venc(z)


def enc(t, v):
    k = t.kind
    if k == "prim":
        p = t.p
        if p in INTW:
            return enc_int(p, v[1])
        if p == "float32":
            return struct.pack("<I", v[1])
        if p == "float64":
            return struct.pack("<Q", v[1])
        if p == "complexfloat32":
            return struct.pack("<II", v[1], v[2])
        if p == "complexfloat64":
            return struct.pack("<QQ", v[1], v[2])
        if p == "string":
            return venc(len(v[1])) + bytes(v[1])
    if k == "enum":
        return enc_int(t.base, v[1])
    if k == "opt":
        return b"\x00" if v[0] == "none" else b"\x01" + enc(t.e, v[1])
    if k == "union":
        if v[0] == "none":
            return venc(0)
        return venc(v[1] + (1 if t.has_null else 0)) + enc(t.cases[v[1]], v[2])
    if k == "vec":
        return venc(len(v[1])) + b"".join(enc(t.e, x) for x in v[1])
    if k == "fixvec":
        return b"".join(enc(t.e, x) for x in v[1])
    if k == "arr":
        return b"".join(venc(d) for d in v[1]) + b"".join(enc(t.e, x) for x in v[2])
    if k == "fixarr":
        return b"".join(enc(t.e, x) for x in v[2])
    if k == "dynarr":
        return venc(len(v[1])) + b"".join(venc(d) for d in v[1]) + b"".join(enc(t.e, x) for x in v[2])
    if k == "map":
        return venc(len(v[1])) + b"".join(enc(t.k, a) + enc(t.e, b) for a, b in v[1])
    if k == "rec":
        return b"".join(enc(f, x) for (_, f), x in zip(t.fields, v[1]))
    raise ValueError(k)


MAGIC = b"yardl"


def enc_header(schema):
    sb = schema.encode("utf-8")
    return MAGIC + struct.pack("<i", 1) + venc(len(sb)) + sb


def enc_steps(steps, writes):
    """steps: [(name, T, is_stream)], writes: per step either a value or a list of blocks (lists of values)"""
    out = bytearray()
    for (name, t, is_stream), w in zip(steps, writes):
        if is_stream:
            for block in w:
                if block:
                    out += venc(len(block))
                    for x in block:
                        out += enc(t, x)
            out += b"\x00"
        else:
            out += enc(t, w)
    return bytes(out)


def gen_writes(rng, steps, size=3, finite=False, max_items=5):
    ws = []
    for name, t, is_stream in steps:
        if is_stream:
            n = rng.choice([0, 1, 2, max_items])
            items = [gen_value(rng, t, size, finite) for _ in range(n)]
            ws.append(partition(rng, items))
        else:
            ws.append(gen_value(rng, t, size, finite))
    return ws


def partition(rng, items):
    blocks, i = [], 0
    while i < len(items):
        k = rng.randint(1, len(items) - i)
        blocks.append(items[i:i + k])
        i += k
    return blocks


def coq_step(step):
    name, t, is_stream = step
    return ("SStream (%s)" if is_stream else "SValue (%s)") % t.coq()


def coq_write(step, w):
    if step[2]:
        return "WItems [%s]" % "; ".join("[%s]" % "; ".join(coq_val(x) for x in b) for b in w)
    return "WVal (%s)" % coq_val(w)


def coq_read(step, w):
    if step[2]:
        return "RItems [%s]" % "; ".join(coq_val(x) for b in w for x in b)
    return "RVal (%s)" % coq_val(w)


# ---------------------------------------------------------------------------------- alternative spellings (C13)
import re as _re

ALIAS_OF = {}
for _a, _p in PRIM_ALIASES.items():
    ALIAS_OF.setdefault(_p, []).append(_a)


def expanded(t, rng=None, swap_aliases=False):
    """the same type in expanded YAML (flow style): !vector / !array / !map / [null, T] / !generic"""
    def prim_name(p, cur):
        if swap_aliases:
            if cur == p and p in ALIAS_OF:
                return ALIAS_OF[p][0]
            if cur != p:
                return p
        return cur
    if hasattr(t, "gname"):
        return "!generic {name: %s, args: [%s]}" % (t.gname, ", ".join(expanded(a, rng, swap_aliases) for a in t.gargs))
    if _re.fullmatch(r"[A-Za-z][A-Za-z0-9]*", t.spell) and not (t.kind == "prim" and (t.spell in PRIMS or t.spell in PRIM_ALIASES)):
        return t.spell
    k = t.kind
    if k == "prim":
        return prim_name(t.p, t.spell)
    if k == "opt":
        return "[null, %s]" % expanded(t.e, rng, swap_aliases)
    if k == "union" and getattr(t, "xtags", None):
        return "!union {%s}" % ", ".join((["nothing: null"] if t.has_null else []) +
                                         ["%s: %s" % (tg, expanded(c, rng, swap_aliases)) for tg, c in zip(t.xtags, t.cases)])
    if k == "union":
        return "[" + ", ".join((["null"] if t.has_null else []) + [expanded(c, rng, swap_aliases) for c in t.cases]) + "]"
    if k == "vec":
        return "!vector {items: %s}" % expanded(t.e, rng, swap_aliases)
    if k == "fixvec":
        return "!vector {items: %s, length: %d}" % (expanded(t.e, rng, swap_aliases), t.n)
    if k == "map":
        return "!map {keys: %s, values: %s}" % (expanded(t.k, rng, swap_aliases), expanded(t.e, rng, swap_aliases))
    names = _re.findall(r"\b(d\d+)\b", t.spell.rsplit("[", 1)[-1]) if "[" in t.spell else []
    if k == "dynarr":
        return "!array {items: %s}" % expanded(t.e, rng, swap_aliases)
    if k == "arr":
        if names:
            return "!array {items: %s, dimensions: [%s]}" % (expanded(t.e, rng, swap_aliases), ", ".join(names))
        if t.spell.endswith("[x]"):
            return "!array {items: %s, dimensions: [x]}" % expanded(t.e, rng, swap_aliases)
        return "!array {items: %s, dimensions: %d}" % (expanded(t.e, rng, swap_aliases), t.rank)
    if k == "fixarr":
        if names:
            return "!array {items: %s, dimensions: {%s}}" % (expanded(t.e, rng, swap_aliases),
                                                             ", ".join("%s: %d" % nd for nd in zip(names, t.dims)))
        return "!array {items: %s, dimensions: [%s]}" % (expanded(t.e, rng, swap_aliases), ", ".join(map(str, t.dims)))
    raise ValueError(k)


def respell(pkg, style, rng):
    """YAML text(s) of the same package in another spelling. style: 'expanded' | 'aliases' | 'reorder' | 'split'.
    Returns {filename: text}."""
    defs = []
    for name, text in pkg.defs:
        st = pkg.structs.get(name)
        if style in ("expanded", "aliases") and st:
            sw = style == "aliases"
            ex = (lambda t: expanded(t, rng, sw)) if style == "expanded" else (
                lambda t: (expanded(t, rng, True) if (t.kind == "prim" and (t.spell in PRIMS or t.spell in PRIM_ALIASES)) else t.spell))
            if st[0] == "record":
                text = "%s: !record\n  fields:\n" % name + "\n".join("    %s: %s" % (fn, yq2(ex(ft))) for fn, ft in st[1])
            else:
                text = "%s: %s" % (name, yq2(ex(st[1])))
        defs.append((name, text))
    protos = []
    for name, steps in pkg.protocols:
        lines = ["%s: !protocol" % name, "  sequence:"]
        for sname, t, is_stream in steps:
            sp = expanded(t, rng, False) if style == "expanded" else (
                (expanded(t, rng, True) if (t.kind == "prim" and (t.spell in PRIMS or t.spell in PRIM_ALIASES)) else t.spell)
                if style == "aliases" else t.spell)
            if is_stream:
                if style == "expanded" and rng.random() < 0.5:
                    lines.append("    %s: !stream {items: %s}" % (sname, yq2(sp)))
                else:
                    lines += ["    %s: !stream" % sname, "      items: %s" % yq2(sp)]
            else:
                lines.append("    %s: %s" % (sname, yq2(sp)))
        protos.append((name, "\n".join(lines)))
    allp = [t for _, t in defs] + [t for _, t in protos]
    if style == "comments":
        # non-documentation comments: blocks separated from the element (and from each other) by blank lines,
        # plus extra whitespace
        out = []
        for t in allp:
            r = rng.random()
            if r < 0.4:
                out.append("# ---- section banner ----\n\n# TODO: an unrelated note\n# spanning two lines\n\n" + t)
            elif r < 0.7:
                out.append("# a detached remark\n\n\n" + t)
            else:
                out.append(t)
        return {"model.yml": "# file header\n\n" + "\n\n\n".join(out) + "\n\n# trailing remark\n"}
    if style == "reorder":
        rng.shuffle(allp)
        allp = ["# reordered\n\n" + allp[0]] + allp[1:]
    if style == "split":
        rng.shuffle(allp)
        k = max(1, len(allp) // 3)
        return {"zz_last.yml": "\n\n".join(allp[:k]) + "\n", "a_first.yml": "\n\n".join(allp[k:2 * k]) + "\n# trailing comment\n",
                "model.yml": "\n\n".join(allp[2 * k:]) + "\n"}
    return {"model.yml": "\n\n".join(allp) + "\n"}


def yq2(s):
    if s.startswith("[") or s.startswith("{") or s.startswith("!"):
        return s
    return yq(s)
