"""Generate code for a package with the real yardl, build/run its Python and C++ translators."""
import json
import os
import re
import subprocess
from concurrent.futures import ThreadPoolExecutor

from vlib import VERIF, PY_VT, sh

SHIMS = os.path.join(VERIF, "shims")

CPP_MAIN = r'''
#include <iostream>
#include <memory>
#include <string>
#include "generated/binary/protocols.h"
%(ndjson_include)s
int main(int argc, char** argv) {
  std::ios::sync_with_stdio(false);
  std::string proto = argv[1], fi = argv[2], fo = argv[3];
  size_t batch = argc > 4 ? std::stoul(argv[4]) : 1;
  try {
%(dispatch)s
    std::cerr << "unknown protocol " << proto << std::endl;
    return 4;
  } catch (std::exception const& e) {
    std::cout.flush();
    std::cerr << "ERR: " << e.what() << std::endl;
    return 3;
  }
}
'''
CPP_CASE = r'''    if (proto == "%(p)s") {
      std::unique_ptr<%(ns)s::%(p)sReaderBase> r;
      std::unique_ptr<%(ns)s::%(p)sWriterBase> w;
      if (fi == "binary") r = std::make_unique<%(ns)s::binary::%(p)sReader>(std::cin);
%(ndjson_r)s
      if (fo == "binary") w = std::make_unique<%(ns)s::binary::%(p)sWriter>(std::cout);
%(ndjson_w)s
      r->CopyTo(*w%(batches)s);
      r->Close();
      w->Close();
      std::cout.flush();
      return 0;
    }
'''


class GenPackage:
    def __init__(self, ctx, pkg, name, ndjson=True, cpp=True, python=True, extra_yaml="", model_text=None):
        self.ctx, self.pkg, self.name, self.ndjson = ctx, pkg, name, ndjson
        self.dir = os.path.join(ctx.scratch, name)
        os.makedirs(os.path.join(self.dir, "model"), exist_ok=True)
        lines = ["namespace: %s" % pkg.namespace]
        if cpp:
            lines += ["cpp:", "  sourcesOutputDir: ../cpp/generated", "  generateCMakeLists: false",
                      "  generateHDF5: false", "  generateNDJson: %s" % ("true" if ndjson else "false"),
                      "  overrideArrayHeader: ndarray_shim.h"]
        if python:
            lines += ["python:", "  outputDir: ../python"]
        with open(os.path.join(self.dir, "model", "_package.yml"), "w") as f:
            f.write("\n".join(lines) + "\n" + extra_yaml)
        with open(os.path.join(self.dir, "model", "model.yml"), "w") as f:
            f.write(model_text if model_text is not None else pkg.yaml())
        self.module = pkg.namespace.lower()

    def generate(self):
        rc, o, e = sh([self.ctx.yardl, "generate"], cwd=os.path.join(self.dir, "model"), timeout=120)
        self.gen_rc, self.gen_out = rc, o + e
        return rc == 0

    def schemas(self):
        """protocol name -> schema string, from the generated Python protocols.py"""
        src = open(os.path.join(self.dir, "python", self.module, "protocols.py")).read()
        out = {}
        for m in re.finditer(r'class (\w+)WriterBase\(abc\.ABC\):.*?schema = r"""(.*?)"""', src, re.S):
            out[m.group(1)] = m.group(2)
        return out

    # ---------------- python
    def py_start(self):
        self.py = subprocess.Popen([PY_VT, os.path.join(VERIF, "harness/py/gen_runner.py"),
                                    os.path.join(self.dir, "python"), self.module],
                                   stdin=subprocess.PIPE, stdout=subprocess.PIPE, stderr=subprocess.PIPE, text=True)

    def py_call(self, cmd):
        self.py.stdin.write(json.dumps(cmd) + "\n")
        self.py.stdin.flush()
        line = self.py.stdout.readline()
        if not line:
            err = self.py.stderr.read()
            raise RuntimeError("python runner died: " + err[-2000:])
        return json.loads(line)

    def py_stop(self):
        try:
            self.py.stdin.close()
            self.py.wait(timeout=10)
        except Exception:  # noqa: BLE001
            self.py.kill()

    # ---------------- C++
    def cpp_build(self, asan=False, opt="-O0"):
        ns = self.pkg.namespace.lower()
        cases = []
        for pname, steps in self.pkg.protocols:
            nstream = sum(1 for s in steps if s[2])
            cases.append(CPP_CASE % {
                "p": pname, "ns": ns, "batches": "".join(", batch" for _ in range(nstream)),
                "ndjson_r": ('      else r = std::make_unique<%s::ndjson::%sReader>(std::cin);' % (ns, pname)) if self.ndjson else "",
                "ndjson_w": ('      else w = std::make_unique<%s::ndjson::%sWriter>(std::cout);' % (ns, pname)) if self.ndjson else ""})
        main = CPP_MAIN % {"ndjson_include": '#include "generated/ndjson/protocols.h"' if self.ndjson else "",
                           "dispatch": "".join(cases)}
        cdir = os.path.join(self.dir, "cpp")
        with open(os.path.join(cdir, "main.cc"), "w") as f:
            f.write(main)
        srcs = ["main.cc", "generated/protocols.cc", "generated/types.cc", "generated/binary/protocols.cc"]
        if self.ndjson:
            srcs.append("generated/ndjson/protocols.cc")
        flags = ["-std=c++17", opt, "-I", SHIMS, "-I", "generated", "-w"]
        if asan:
            flags += ["-fsanitize=address", "-fno-omit-frame-pointer", "-g"]

        def comp(src):
            obj = src.replace("/", "_") + ".o"
            rc, o, e = sh(["g++"] + flags + ["-c", src, "-o", obj], cwd=cdir, timeout=900)
            return rc, src, e, obj
        with ThreadPoolExecutor(max_workers=5) as ex:
            rs = list(ex.map(comp, srcs))
        bad = [(s, e) for rc, s, e, _ in rs if rc != 0]
        if bad:
            self.cpp_err = "\n".join("%s:\n%s" % (s, e[-3000:]) for s, e in bad)
            return False
        rc, o, e = sh(["g++"] + (["-fsanitize=address"] if asan else []) + [r[3] for r in rs] + ["-o", "tr"], cwd=cdir, timeout=300)
        if rc != 0:
            self.cpp_err = e[-3000:]
            return False
        self.tr = os.path.join(cdir, "tr")
        return True

    def cpp_call(self, proto, fin, fout, data, batch=1, timeout=60):
        try:
            p = subprocess.run([self.tr, proto, fin, fout, str(batch)], input=data, stdout=subprocess.PIPE,
                               stderr=subprocess.PIPE, timeout=timeout,
                               env=dict(os.environ, ASAN_OPTIONS="detect_leaks=0"))
        except subprocess.TimeoutExpired:
            return {"ok": False, "rc": -999, "err": "timeout", "out": b""}
        return {"ok": p.returncode == 0, "rc": p.returncode, "err": p.stderr.decode(errors="replace")[-600:], "out": p.stdout}
