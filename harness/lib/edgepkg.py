"""Hand-written package `Edge`: shapes that need something specific to go wrong (buffer boundaries,
reused destinations).  Types are built explicitly so that the resolved type is known by construction."""
import ymodel
from ymodel import T, prim, Package


def build():
    pkg = Package("Edge")
    d = pkg.defs
    d.append(("En", "En: !enum\n  base: uint16\n  values:\n    a: 1\n    b: 300"))
    en = T("enum", "En", base="uint16", name="En", symbols=[("a", 1), ("b", 300)], is_flags=False)
    d.append(("Rec", "Rec: !record\n  fields:\n    x: int32\n    s: string\n    o: float64?"))
    rec = T("rec", "Rec", name="Rec", fields=[("x", prim("int32")), ("s", prim("string")),
                                               ("o", T("opt", "float64?", e=prim("float64")))])
    d.append(("SMap", "SMap: string->int32"))
    smap = T("map", "SMap", k=prim("string"), e=prim("int32"))
    d.append(("U3", "U3: [null, int32, string]"))
    u3 = T("union", "U3", has_null=True, cases=[prim("int32"), prim("string")], tags=["int32", "string"])
    d.append(("U2", "U2: [float32, Rec]"))
    u2 = T("union", "U2", has_null=False, cases=[prim("float32"), rec], tags=["float32", "Rec"])
    pad = T("vec", "uint8*", e=prim("uint8"))

    def P(name, t, stream=False):
        pkg.protocols.append((name, [("pad", pad, False), ("x", t, stream), ("tail", prim("int16"), False)]))

    tested = {
        "BUnionNull": (u3, False), "BOpt": (T("opt", "int32?", e=prim("int32")), False),
        "BStreamBytes": (prim("uint8"), True), "BStreamU3": (u3, True), "BStreamOpt": (T("opt", "int16?", e=prim("int16")), True),
        "BVar64": (prim("uint64"), False), "BInt64": (prim("int64"), False), "BF64": (prim("float64"), False),
        "BCplx": (prim("complexfloat64"), False), "BStr": (prim("string"), False), "BBool": (prim("bool"), False),
        "BVec": (T("vec", "int32*", e=prim("int32")), False), "BArr": (T("dynarr", "float32[]", e=prim("float32")), False),
        "BRec": (rec, False), "BU2": (u2, True), "BMap": (smap, False), "BEnum": (en, True),
        "BDate": (prim("datetime"), False),
    }
    for n, (t, s) in tested.items():
        P(n, t, s)
    # reused destinations (no padding needed)
    pkg.protocols.append(("IMaps", [("m", smap, True), ("vm", T("vec", "SMap*", e=smap), True)]))
    pkg.protocols.append(("IShapes", [("r", rec, True), ("u", u3, True), ("v", T("vec", "string*", e=prim("string")), True),
                                      ("o", T("opt", "Rec?", e=rec), True)]))
    # a field whose type is a generic parameter, instantiated with an optional: null is written by omitting the field
    d.append(("Gen", "Gen<T>: !record\n  fields:\n    v: T\n    n: int32"))
    gen_opt = T("rec", "Gen<int32?>", name="Gen", fields=[("v", T("opt", "int32?", e=prim("int32"))), ("n", prim("int32"))])
    pkg.protocols.append(("IGen", [("g", gen_opt, True)]))
    return pkg, tested
