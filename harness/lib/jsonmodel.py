"""Glue between generated NDJSON text and Model/Json.v: Coq `jty` terms for harness types, and type-directed
conversion of the JSON documents the implementations write into Coq `json` terms (floats as bit patterns at the
declared width, date/time text as the integer it denotes)."""
import datetime
import json
import struct

from ymodel import COQ_PRIM, INTW


def cstr(s):
    if isinstance(s, str):
        s = s.encode("utf-8")
    return "[" + ";".join(str(b) for b in s) + "]"


def jty(t):
    k = t.kind
    if k == "prim":
        return "JTPrim " + COQ_PRIM[t.p]
    if k == "enum":
        if t.is_flags:
            return "JTFlags %s [%s]" % (COQ_PRIM[t.base], "; ".join("(%s, %d)" % (cstr(s), v) for s, v in t.symbols))
        return "JTEnum %s [%s]" % (COQ_PRIM[t.base], "; ".join("(%s, (%d)%%Z)" % (cstr(s), v) for s, v in t.symbols))
    if k == "opt":
        return "JTOpt (%s)" % jty(t.e)
    if k == "union":
        return "JTUnion %s [%s]" % ("true" if t.has_null else "false",
                                    "; ".join("(%s, %s)" % (cstr(tg), jty(c)) for tg, c in zip(tags_of(t), t.cases)))
    if k == "vec":
        return "JTVec (%s)" % jty(t.e)
    if k == "fixvec":
        return "JTFixVec %d (%s)" % (t.n, jty(t.e))
    if k == "arr":
        return "JTArr %d (%s)" % (t.rank, jty(t.e))
    if k == "fixarr":
        return "JTFixArr [%s] (%s)" % (";".join(map(str, t.dims)), jty(t.e))
    if k == "dynarr":
        return "JTDynArr (%s)" % jty(t.e)
    if k == "map":
        return "JTMap (%s) (%s)" % (jty(t.k), jty(t.e))
    if k == "rec":
        return "JTRec [%s]" % "; ".join("(%s, %s)" % (cstr(n), jty(f)) for n, f in t.fields)
    raise ValueError(k)


def tag_of(c):
    """the tag yardl derives for a union case (TypeToShortSyntax): canonical primitive name or the type's name"""
    if c.kind == "prim" and (c.spell == c.p or c.spell in ("int", "uint", "long", "ulong", "float", "double", "byte",
                                                           "complexfloat", "complexdouble")):
        return c.p
    return c.spell


def tags_of(t):
    """tags of a union: the explicit ones of the `!union {tag: type}` syntax, else the derived ones"""
    return list(t.xtags) if getattr(t, "xtags", None) else [tag_of(c) for c in t.cases]


def decl_kind(t, table):
    k = t.kind
    if k == "prim":
        return int(table[t.p])
    sh = lambda name: int(table["#" + name])   # GetJsonDataType of the current sources on that shape (hook)
    if k == "enum":
        return sh("flags") if t.is_flags else sh("enum")
    if k in ("vec", "fixvec", "fixarr", "arr", "dynarr"):
        return sh({"vec": "vector", "fixvec": "fixed_vector", "fixarr": "fixed_array", "arr": "array", "dynarr": "dyn_array"}[k])
    if k == "rec":
        return sh("record")
    if k == "map":
        return sh("map_string") if (t.k.kind == "prim" and t.k.p == "string") else sh("map_other")
    return 0


def kind_table(tables):
    """hook output -> the table decl_kind wants"""
    t = dict(tables["json_kind"])
    for k, v in tables.get("json_kind_shapes", {}).items():
        t["#" + k] = v if str(v).isdigit() else "0"
    return t


def simple_union(t, table):
    acc = 0
    ks = ([1] if t.has_null else []) + [decl_kind(c, table) for c in t.cases]
    for k in ks:
        if k & acc:
            return False
        acc |= k
    return True


def f32bits(x):
    return struct.unpack("<I", struct.pack("<f", x))[0]


def f64bits(x):
    return struct.unpack("<Q", struct.pack("<d", x))[0]


EPOCH = datetime.date(1970, 1, 1)


def parse_date(s):
    y, m, d = s.split("-") if not s.startswith("-") else (None, None, None)
    return (datetime.date(int(y), int(m), int(d)) - EPOCH).days


def parse_tod(s):
    h, m, rest = s.split(":")
    sec, _, frac = rest.partition(".")
    return ((int(h) * 60 + int(m)) * 60 + int(sec)) * 10 ** 9 + int((frac + "000000000")[:9])


def parse_datetime(s):
    s = s.rstrip("Z")
    d, _, t = s.partition("T")
    return parse_date(d) * 86400 * 10 ** 9 + parse_tod(t)


class Bad(Exception):
    pass


def generic(j):
    """structure-preserving conversion used when the document does not have the shape the type asks for"""
    if j is None:
        return "JNull"
    if isinstance(j, bool):
        return "JBool %s" % ("true" if j else "false")
    if isinstance(j, int):
        return "JNum (%d)" % j
    if isinstance(j, float):
        return "JFlt %d" % f64bits(j)
    if isinstance(j, str):
        return "JStr %s" % cstr(j)
    if isinstance(j, list):
        return "JArr [%s]" % "; ".join(generic(x) for x in j)
    return "JObj [%s]" % "; ".join("(%s, %s)" % (cstr(k), generic(v)) for k, v in j.items())


def conv(t, j, table):
    """observed JSON (python object) -> Coq json term, directed by the harness type"""
    try:
        return _conv(t, j, table)
    except (Bad, ValueError, KeyError, TypeError, AttributeError, IndexError):
        return generic(j)


def _conv(t, j, table):
    k = t.kind
    if k == "prim":
        p = t.p
        if p == "bool":
            if not isinstance(j, bool):
                raise Bad()
            return "JBool %s" % ("true" if j else "false")
        if p in ("date", "time", "datetime"):
            if not isinstance(j, str):
                raise Bad()
            z = {"date": parse_date, "time": parse_tod, "datetime": parse_datetime}[p](j)
            return "JTimeStr (%d)" % z
        if p in INTW:
            if isinstance(j, bool) or not isinstance(j, int):
                raise Bad()
            return "JNum (%d)" % j
        if p in ("float32", "float64"):
            if isinstance(j, bool) or not isinstance(j, (int, float)):
                raise Bad()
            return "JFlt %d" % (f32bits(float(j)) if p == "float32" else f64bits(float(j)))
        if p in ("complexfloat32", "complexfloat64"):
            if not (isinstance(j, list) and len(j) == 2):
                raise Bad()
            f = f32bits if p == "complexfloat32" else f64bits
            return "JArr [JFlt %d; JFlt %d]" % (f(float(j[0])), f(float(j[1])))
        if p == "string":
            if not isinstance(j, str):
                raise Bad()
            return "JStr %s" % cstr(j)
    if k == "enum":
        return generic(j)
    if k == "opt":
        return "JNull" if j is None else _conv(t.e, j, table)
    if k == "union":
        if j is None:
            return "JNull"
        if simple_union(t, table):
            kj = 2 if isinstance(j, bool) else 4 if isinstance(j, (int, float)) else 8 if isinstance(j, str) else 16 if isinstance(j, list) else 32
            for c in t.cases:
                if decl_kind(c, table) & kj:
                    return _conv(c, j, table)
            raise Bad()
        if not (isinstance(j, dict) and len(j) == 1):
            raise Bad()
        (tag, inner), = j.items()
        for tg, c in zip(tags_of(t), t.cases):
            if tg == tag:
                return "JObj [(%s, %s)]" % (cstr(tag), _conv(c, inner, table))
        raise Bad()
    if k in ("vec", "fixvec", "fixarr"):
        if not isinstance(j, list):
            raise Bad()
        return "JArr [%s]" % "; ".join(_conv(t.e, x, table) for x in j)
    if k in ("arr", "dynarr"):
        if not (isinstance(j, dict) and list(j.keys()) == ["shape", "data"]):
            raise Bad()
        return "JObj [(%s, JArr [%s]); (%s, JArr [%s])]" % (cstr("shape"), "; ".join("JNum (%d)" % d for d in j["shape"]),
                                                          cstr("data"), "; ".join(_conv(t.e, x, table) for x in j["data"]))
    if k == "map":
        if t.k.kind == "prim" and t.k.p == "string":
            if not isinstance(j, dict):
                raise Bad()
            items = sorted(j.items(), key=lambda kv: kv[0].encode("utf-8"))
            return "JObj [%s]" % "; ".join("(%s, %s)" % (cstr(k_), _conv(t.e, v, table)) for k_, v in items)
        if not isinstance(j, list):
            raise Bad()
        items = sorted(j, key=lambda kv: json.dumps(kv[0]))
        return "JArr [%s]" % "; ".join("JArr [%s; %s]" % (_conv(t.k, a, table), _conv(t.e, b, table)) for a, b in items)
    if k == "rec":
        if not isinstance(j, dict):
            raise Bad()
        names = [n for n, _ in t.fields]
        if any(n not in names for n in j):
            raise Bad()
        ft = dict(t.fields)
        return "JObj [%s]" % "; ".join("(%s, %s)" % (cstr(n), _conv(ft[n], v, table)) for n, v in j.items())
    raise Bad()


def sort_maps(t, v):
    """reorder map entries of a harness value the way [conv] orders observed maps (C++ unordered_map order is arbitrary)"""
    k = t.kind
    if k == "opt":
        return v if v[0] == "none" else ("some", sort_maps(t.e, v[1]))
    if k == "union":
        return v if v[0] == "none" else ("case", v[1], sort_maps(t.cases[v[1]], v[2]))
    if k in ("vec", "fixvec"):
        return ("seq", [sort_maps(t.e, x) for x in v[1]])
    if k in ("arr", "fixarr", "dynarr"):
        return ("arr", v[1], [sort_maps(t.e, x) for x in v[2]])
    if k == "rec":
        return ("seq", [sort_maps(f, x) for (_, f), x in zip(t.fields, v[1])])
    if k == "map":
        items = [(a, sort_maps(t.e, b)) for a, b in v[1]]
        if t.k.kind == "prim" and t.k.p == "string":
            items.sort(key=lambda kv: bytes(kv[0][1]))
        else:
            def keyf(kv):
                a = kv[0]
                return json.dumps(bool(a[1]) if t.k.p == "bool" else a[1])
            items.sort(key=keyf)
        return ("map", items)
    return v
