"""Random type expressions as trees of the short syntax, their two spellings, and the Coq terms of Model/TypeSyntax.v (C13)."""
import json

NAMES = ["int", "string", "float64", "Rec", "Gen", "Lib.Item", "T", "complexfloat", "bool"]


def cstr(s):
    return "[" + "; ".join(str(b) for b in s.encode("utf-8")) + "]"


def copt(x, f):
    return "None" if x is None else "(Some %s)" % f(x)


def gen(rng, depth=3):
    k = rng.random()
    if depth == 0 or k < 0.3:
        n = rng.choice(NAMES)
        args = [gen(rng, depth - 1) for _ in range(rng.choice([1, 2]))] if (n == "Gen" and depth > 0) else []
        return ("name", n, args)
    if k < 0.5:
        return ("opt", gen(rng, depth - 1))
    if k < 0.7:
        return ("vec", rng.choice([None, None, 3, 1]), gen(rng, depth - 1))
    if k < 0.87:
        d = rng.choice([None, [(None, None), (None, None)], [("x", None), ("y", None)], [("x", 2), ("y", 3)], [(None, 4)]])
        return ("arr", d, gen(rng, depth - 1))
    return ("map", ("name", rng.choice(["string", "int", "uint8"]), []), gen(rng, depth - 1))


def short(t, paren=False):
    """text in the short syntax; a type that is followed by a tail is parenthesised when it ends in a map arrow"""
    k = t[0]
    if k == "name":
        return t[1] + ("<" + ", ".join(short(a) for a in t[2]) + ">" if t[2] else "")
    if k == "opt":
        return short(t[1], True) + "?"
    if k == "vec":
        return short(t[2], True) + "*" + ("" if t[1] is None else str(t[1]))
    if k == "arr":
        d = t[1]
        if d is None:
            ds = ""
        else:
            ds = ", ".join((n or "") + (":" if n and ln is not None else "") + ("" if ln is None else str(ln)) for n, ln in d)
            if d and all(n is None and ln is None for n, ln in d):
                ds = "," * (len(d) - 1)
        return short(t[2], True) + "[" + ds + "]"
    s = short(t[1], True) + "->" + short(t[2])
    return "(" + s + ")" if paren else s


def expanded(t):
    """YAML flow text of the expanded spelling"""
    k = t[0]
    if k == "name":
        if t[2]:
            return "!generic {name: %s, args: [%s]}" % (t[1], ", ".join(expanded(a) for a in t[2]))
        return t[1]
    if k == "opt":
        return "[null, %s]" % expanded(t[1])
    if k == "vec":
        return "!vector {items: %s%s}" % (expanded(t[2]), "" if t[1] is None else ", length: %d" % t[1])
    if k == "arr":
        d = t[1]
        if d is None:
            ds = ""
        elif d and all(n is None and ln is None for n, ln in d):
            ds = ", dimensions: %d" % len(d)
        elif all(n is not None for n, _ in d) and d:
            ds = ", dimensions: {%s}" % ", ".join("%s: %s" % (n, "" if ln is None else ln) for n, ln in d)
        else:
            ds = ", dimensions: [%s]" % ", ".join(("null" if (n is None and ln is None) else (str(ln) if n is None else n)) for n, ln in d)
        return "!array {items: %s%s}" % (expanded(t[2]), ds)
    return "!map {keys: %s, values: %s}" % (expanded(t[1]), expanded(t[2]))


def dims_coq(d):
    if d is None:
        return "None"
    return "(Some [%s])" % "; ".join("(%s, %s)" % (copt(n, cstr), copt(ln, str)) for n, ln in d)


def coq_sh(t):
    k = t[0]
    if k == "name":
        return "(SName %s [%s])" % (cstr(t[1]), "; ".join(coq_sh(a) for a in t[2]))
    if k == "opt":
        return "(SOptT %s)" % coq_sh(t[1])
    if k == "vec":
        return "(SVecT %s %s)" % (copt(t[1], str), coq_sh(t[2]))
    if k == "arr":
        return "(SArrT %s %s)" % (dims_coq(t[1]), coq_sh(t[2]))
    return "(SMapT %s %s)" % (coq_sh(t[1]), coq_sh(t[2]))


def coq_gty(j):
    """hook structure -> Coq gty"""
    if "simple" in j:
        return "(GSimple %s [%s])" % (cstr(j["simple"]), "; ".join(coq_gty(a) for a in j["args"]))
    cases = "; ".join("None" if c["type"] is None else "(Some %s)" % coq_gty(c["type"]) for c in j["cases"])
    d = j["dim"]
    key = "None"
    if d is None:
        dk = "DNone"
    elif "vector" in d:
        dk = "(DVec %s)" % copt(d["vector"], str)
    elif "array" in d:
        dk = "(DArr %s)" % ("None" if d["array"] is None else "(Some [%s])" % "; ".join(
            "(%s, %s)" % (copt(x.get("name"), cstr), copt(x.get("length"), str)) for x in d["array"]))
    elif "map" in d:
        dk = "DMap"
        key = "(Some %s)" % coq_gty(d["map"])
    else:
        dk = "DStream"
    return "(GGen [%s] %s %s)" % (cases, dk, key)
