"""Translators: the serialization plan of every protocol step, read out of GENERATED code of each backend, as a Coq term of
Model.Binary.ty (C14).  Each extractor refuses constructs it does not know (PlanError)."""
import ast
import os
import re


class PlanError(Exception):
    pass


PRIMS = {"bool": "PBool", "int8": "PInt8", "uint8": "PUint8", "int16": "PInt16", "uint16": "PUint16", "int32": "PInt32",
         "uint32": "PUint32", "int64": "PInt64", "uint64": "PUint64", "size": "PSize", "float32": "PFloat32", "float64": "PFloat64",
         "complexfloat32": "PCFloat32", "complexfloat64": "PCFloat64", "string": "PString", "date": "PDate", "time": "PTime",
         "datetime": "PDateTime"}


def cstr(s):
    return "[" + "; ".join(str(b) for b in s.encode("utf-8")) + "]"


def clist(xs):
    return "[" + "; ".join(xs) + "]"


def t_union(has_null, cases):
    return "(TUnion %s %s)" % ("true" if has_null else "false", clist(cases))


# ------------------------------------------------------------------------------------------------ Python (binary and NDJSON)
def _name(e):
    if isinstance(e, ast.Attribute):
        return _name(e.value) + "." + e.attr
    if isinstance(e, ast.Name):
        return e.id
    raise PlanError("expected a name, got " + ast.dump(e)[:80])


class PyPlans:
    """mod: '_binary' (suffix Serializer/_serializer) or '_ndjson' (suffix Converter/_converter)"""

    def __init__(self, path, mod):
        self.mod = mod
        self.T = "T" if mod == "_binary" else "JT"
        self.union_checks = []
        self.suffix = "Serializer" if mod == "_binary" else "Converter"
        self.tree = ast.parse(open(path).read())
        self.classes = {c.name: c for c in self.tree.body if isinstance(c, ast.ClassDef)}
        self.records = {}
        self.unions = []        # NDJSON: (has_null, [case jty-less ty], simple flag)  -- kept as raw info
        self.json_names = {}    # NDJSON: record -> field names as written

    def record(self, cname, args):
        c = self.classes.get(cname)
        if c is None:
            raise PlanError("no class " + cname)
        init = [f for f in c.body if isinstance(f, ast.FunctionDef) and f.name == "__init__"][0]
        params = [a.arg for a in init.args.args[1:]]
        if len(params) != len(args):
            raise PlanError("%s takes %d serializers, given %d" % (cname, len(params), len(args)))
        env = dict(zip(params, args))
        fields = []
        if self.mod == "_binary":
            call = None
            for st in init.body:
                if isinstance(st, ast.Expr) and isinstance(st.value, ast.Call) and isinstance(st.value.func, ast.Attribute) \
                        and st.value.func.attr == "__init__":
                    call = st.value
            if call is None or len(call.args) != 1 or not isinstance(call.args[0], ast.List):
                raise PlanError("unexpected __init__ of " + cname)
            names = []
            for el in call.args[0].elts:
                if not (isinstance(el, ast.Tuple) and len(el.elts) == 2):
                    raise PlanError("unexpected field entry in " + cname)
                names.append(el.elts[0].value)
                fields.append(self.conv(el.elts[1], env))
            self._check_record_methods(c, cname, names)
        else:
            names = []
            for st in init.body:
                if isinstance(st, ast.Assign) and isinstance(st.targets[0], ast.Attribute) and st.targets[0].attr.endswith("_converter"):
                    names.append(st.targets[0].attr[1:-len("_converter")])
                    fields.append(self.conv(st.value, env))
            self._check_converter_methods(c, cname, names)
        if self.mod == "_ndjson":
            keys = self.json_names.get(cname[:-len("Converter")], names)
            return "(JTRec %s)" % clist(["(%s, %s)" % (cstr(k_), f_) for k_, f_ in zip(keys, fields)])
        return "(TRec %s)" % clist(fields)

    def _check_record_methods(self, c, cname, names):
        """write passes the fields in the order of the serializer list; read builds the record from the same positions"""
        for f in c.body:
            if isinstance(f, ast.FunctionDef) and f.name in ("write", "write_numpy"):
                call = f.body[-1].value
                got = []
                for a in call.args[1:]:
                    got.append(a.attr if isinstance(a, ast.Attribute) else a.slice.value)
                if got != names:
                    raise PlanError("%s.%s passes fields %s, serializers are for %s" % (cname, f.name, got, names))
            if isinstance(f, ast.FunctionDef) and f.name == "read":
                call = f.body[-1].value
                got = [(k.arg, k.value.slice.value) for k in call.keywords]
                if got != list(zip(names, range(len(names)))):
                    raise PlanError("%s.read builds %s from positions %s" % (cname, names, got))

    def _check_converter_methods(self, c, cname, names):
        for f in c.body:
            if isinstance(f, ast.FunctionDef) and f.name == "to_json":
                got, keys = [], []
                for st in ast.walk(f):
                    if isinstance(st, ast.Assign) and isinstance(st.targets[0], ast.Subscript) and _name(st.targets[0].value) == "json_object":
                        keys.append(st.targets[0].slice.value)
                        got.append(st.value.func.value.attr[1:-len("_converter")])
                if sorted(got) != sorted(names):       # the order of keys in a JSON object does not matter
                    raise PlanError("%s.to_json writes fields %s, converters are for %s" % (cname, got, names))
                by = dict(zip(got, keys))
                self.json_names[cname[:-len("Converter")]] = [by[n] for n in names]

    def conv(self, e, env):
        m = self.mod
        if isinstance(e, ast.Name):
            if e.id in env:
                return env[e.id]
            raise PlanError("unbound serializer " + e.id)
        if isinstance(e, ast.Attribute):
            n = _name(e)
            mm = re.fullmatch(re.escape(m) + r"\.(\w+)_" + self.suffix.lower(), n)
            if mm and mm.group(1) in PRIMS:
                return "(%sPrim %s)" % (self.T, PRIMS[mm.group(1)])
            if n == m + ".none_" + self.suffix.lower():
                return None
            raise PlanError("unknown serializer " + n)
        if not isinstance(e, ast.Call):
            raise PlanError("unexpected expression " + ast.dump(e)[:80])
        fn = _name(e.func)
        a = e.args
        if not fn.startswith(m + "."):
            if fn.endswith(self.suffix):
                return self.record(fn.split(".")[-1], [self.conv(x, env) for x in a])
            raise PlanError("unknown call " + fn)
        k = fn[len(m) + 1:-len(self.suffix)]
        if k in ("Enum", "Flags"):
            if m == "_binary":
                base = self.conv(a[0], env)
            else:
                bn = _name(a[1])
                if not bn.startswith("np."):
                    raise PlanError("enum base " + bn)
                base = "(TPrim %s)" % PRIMS[bn[3:]]
            mm = re.fullmatch(r"\(J?TPrim (\w+)\)", base)
            if m == "_ndjson":
                return "(JT%s %s [])" % (k, mm.group(1))
            return "(TEnum %s)" % mm.group(1)
        T = self.T
        if k == "Optional":
            return "(%sOpt %s)" % (T, self.conv(a[0], env))
        if k == "Union":
            cases, has_null, tags = [], False, []
            for i, el in enumerate(a[1].elts):
                if isinstance(el, ast.Constant) and el.value is None:
                    tag, c = el, None
                else:
                    tag, ser = el.elts[0], el.elts[1]
                    c = self.conv(ser, env)
                if c is None or (isinstance(tag, ast.Constant) and tag.value is None):
                    if i != 0:
                        raise PlanError("null is not the first union case")
                    has_null = True
                else:
                    cases.append(c)
                    tags.append(tag.attr if isinstance(tag, ast.Attribute) else "case%d" % i)
            if m == "_ndjson":
                cs = clist(["(%s, %s)" % (cstr(t_), c_) for t_, c_ in zip(tags, cases)])
                hn = "true" if has_null else "false"
                self.union_checks.append("Bool.eqb (simple_union %s %s) %s" % (hn, cs, "true" if a[2].value else "false"))
                return "(JTUnion %s %s)" % (hn, cs)
            return t_union(has_null, cases)
        if k == "Vector":
            return "(%sVec %s)" % (T, self.conv(a[0], env))
        if k == "FixedVector":
            return "(%sFixVec %d %s)" % (T, a[1].value, self.conv(a[0], env))
        if k == "NDArray":
            return "(%sArr %d %s)" % (T, a[1].value, self.conv(a[0], env))
        if k == "FixedNDArray":
            return "(%sFixArr %s %s)" % (T, clist([str(x.value) for x in a[1].elts]), self.conv(a[0], env))
        if k == "DynamicNDArray":
            return "(%sDynArr %s)" % (T, self.conv(a[0], env))
        if k == "Map":
            return "(%sMap %s %s)" % (T, self.conv(a[0], env), self.conv(a[1], env))
        if k == "Stream":
            return ("stream", self.conv(a[0], env))
        raise PlanError("unknown serializer constructor " + fn)

    def protocols(self, names):
        """names: protocol names; -> {P: [(is_stream, ty)]} from the writer, checked against the reader"""
        out = {}
        pre = "Binary" if self.mod == "_binary" else "NDJson"
        for p in names:
            plans = {}
            for role, meth, verb in (("Writer", "_write_", "write"), ("Reader", "_read_", "read")):
                c = self.classes.get(pre + p + role)
                if c is None:
                    raise PlanError("no class %s%s%s" % (pre, p, role))
                steps = []
                for f in c.body:
                    if isinstance(f, ast.FunctionDef) and f.name.startswith(meth):
                        if self.mod == "_ndjson":
                            asg = [nd for nd in ast.walk(f) if isinstance(nd, ast.Assign) and isinstance(nd.targets[0], ast.Name)
                                   and nd.targets[0].id == "converter"]
                            if len(asg) != 1:
                                raise PlanError("%s.%s has %d converters" % (c.name, f.name, len(asg)))
                            t = self.conv(asg[0].value, {})
                            is_stream = any(isinstance(nd, (ast.For, ast.While, ast.Yield)) for nd in ast.walk(f))
                            keys = [nd.value for nd in ast.walk(f) if isinstance(nd, ast.Constant) and isinstance(nd.value, str)]
                            steps.append((is_stream, t, keys[0] if keys else None))
                            continue
                        sers = []
                        for nd in ast.walk(f):
                            if isinstance(nd, ast.Call) and isinstance(nd.func, ast.Attribute) and nd.func.attr == verb:
                                sers.append(nd.func.value)
                        if len(sers) != 1:
                            raise PlanError("%s.%s uses %d serializers" % (c.name, f.name, len(sers)))
                        t = self.conv(sers[0], {})
                        if isinstance(t, tuple):
                            steps.append((True, t[1]))
                        else:
                            steps.append((False, t))
                plans[role] = steps
            if plans["Writer"] != plans["Reader"]:
                raise PlanError("writer and reader of %s follow different plans" % p)
            out[p] = plans["Writer"]
        return out




# ------------------------------------------------------------------------------------------------ a small expression parser
TOK = re.compile(r"\s*(?:(?P<id>@?[A-Za-z_]\w*(?:(?:::|\.)[A-Za-z_]\w*)*)|(?P<num>\d+)|(?P<str>'[^']*'|\"[^\"]*\")|(?P<p>[<>()\[\]{},]))")


def parse_expr(text):
    """identifiers (a::b, a.b, @h), numbers, strings, [..] {..}, template arguments <..> and call arguments (..)"""
    toks, pos = [], 0
    text = text.strip()
    while pos < len(text):
        m = TOK.match(text, pos)
        if not m:
            raise PlanError("cannot tokenise %r" % text[pos:pos + 40])
        toks.append((m.lastgroup, m.group(m.lastgroup)))
        pos = m.end()
    node, i = _expr(toks, 0)
    if i != len(toks):
        raise PlanError("trailing tokens in %r" % text[:80])
    return node


def _seq(toks, i, close):
    items = []
    if toks[i] == ("p", close):
        return items, i + 1
    while True:
        x, i = _expr(toks, i)
        items.append(x)
        if toks[i] == ("p", ","):
            i += 1
            if toks[i] == ("p", close):     # trailing comma
                return items, i + 1
            continue
        if toks[i] == ("p", close):
            return items, i + 1
        raise PlanError("expected , or %s" % close)


def _expr(toks, i):
    k, v = toks[i]
    if k == "num":
        return ("num", int(v)), i + 1
    if k == "str":
        return ("str", v[1:-1]), i + 1
    if k == "p" and v == "[":
        items, i = _seq(toks, i + 1, "]")
        return ("list", items), i
    if k == "p" and v == "{":
        items, i = _seq(toks, i + 1, "}")
        return ("list", items), i
    if k != "id":
        raise PlanError("unexpected token %r" % v)
    node = {"id": v, "targs": None, "args": None}
    i += 1
    if i < len(toks) and toks[i] == ("p", "<"):
        node["targs"], i = _seq(toks, i + 1, ">")
    if i < len(toks) and toks[i] == ("p", "("):
        node["args"], i = _seq(toks, i + 1, ")")
    return ("id", node), i


# ------------------------------------------------------------------------------------------------ MATLAB
M_PRIMS = {"Bool": "PBool", "Int8": "PInt8", "Uint8": "PUint8", "Int16": "PInt16", "Uint16": "PUint16", "Int32": "PInt32",
           "Uint32": "PUint32", "Int64": "PInt64", "Uint64": "PUint64", "Size": "PSize", "Float32": "PFloat32", "Float64": "PFloat64",
           "Complexfloat32": "PCFloat32", "Complexfloat64": "PCFloat64", "String": "PString", "Date": "PDate", "Time": "PTime",
           "Datetime": "PDateTime"}


class MatlabPlans:
    def __init__(self, root, module):
        self.dir = os.path.join(root, "+" + module, "+binary")
        self.module = module

    def record(self, cls, args):
        path = os.path.join(self.dir, cls + ".m")
        if not os.path.exists(path):
            raise PlanError("no MATLAB class " + cls)
        src = open(path).read()
        m = re.search(r"function self = %s\(([^)]*)\)" % re.escape(cls), src)
        params = [x.strip() for x in m.group(1).split(",") if x.strip()]
        if len(params) != len(args):
            raise PlanError("%s takes %d serializers, given %d" % (cls, len(params), len(args)))
        env = dict(zip(params, args))
        fields = []
        for i, mm in enumerate(re.finditer(r"field_serializers\{(\d+)\} = (.*);", src)):
            if int(mm.group(1)) != i + 1:
                raise PlanError("field serializers of %s out of order" % cls)
            fields.append(self.conv(parse_expr(mm.group(2)), env))
        w = re.search(r"self\.write_\(outstream, (.*)\);", src)
        wnames = [x.strip()[len("value."):] for x in w.group(1).split(",")] if w else []
        r = re.search(r"value = [\w.]+\((.*)\);", src)
        rnames = re.findall(r"(\w+)=fields\{(\d+)\}", r.group(1)) if r else []
        if [n for n, _ in rnames] != wnames or [int(k) for _, k in rnames] != list(range(1, len(wnames) + 1)) or len(wnames) != len(fields):
            raise PlanError("%s: write passes %s, read builds %s, %d serializers" % (cls, wnames, rnames, len(fields)))
        return "(TRec %s)" % clist(fields)

    def conv(self, node, env):
        if node[0] != "id":
            raise PlanError("unexpected MATLAB expression %r" % (node,))
        n = node[1]
        name, a = n["id"], n["args"] or []
        if name in env and n["args"] is None:
            return env[name]
        if name.startswith("yardl.binary.") and name.endswith("Serializer"):
            k = name[len("yardl.binary."):-len("Serializer")]
            if k in M_PRIMS and not a:
                return "(TPrim %s)" % M_PRIMS[k]
            if k == "None":
                return None
            if k == "Enum":
                base = self.conv(a[2], env)
                return "(TEnum %s)" % re.fullmatch(r"\(TPrim (\w+)\)", base).group(1)
            if k == "Optional":
                return "(TOpt %s)" % self.conv(a[0], env)
            if k == "Union":
                cases, has_null = [], False
                for i, c in enumerate(a[1][1]):
                    t = self.conv(c, env)
                    if t is None:
                        if i != 0:
                            raise PlanError("null is not the first union case")
                        has_null = True
                    else:
                        cases.append(t)
                return t_union(has_null, cases)
            if k == "Vector":
                return "(TVec %s)" % self.conv(a[0], env)
            if k == "FixedVector":
                return "(TFixVec %d %s)" % (a[1][1], self.conv(a[0], env))
            if k == "NDArray":
                return "(TArr %d %s)" % (a[1][1], self.conv(a[0], env))
            if k == "FixedNDArray":
                dims = [x[1] for x in a[1][1]]
                return "(TFixArr %s %s)" % (clist([str(d) for d in reversed(dims)]), self.conv(a[0], env))   # column-major
            if k == "DynamicNDArray":
                return "(TDynArr %s)" % self.conv(a[0], env)
            if k == "Map":
                return "(TMap %s %s)" % (self.conv(a[0], env), self.conv(a[1], env))
            if k == "Stream":
                return ("stream", self.conv(a[0], env))
            raise PlanError("unknown MATLAB serializer " + name)
        mm = re.fullmatch(r"[\w.]+\.binary\.(\w+Serializer)", name)
        if mm:
            return self.record(mm.group(1), [self.conv(x, env) for x in a])
        raise PlanError("unknown MATLAB serializer " + name)

    def protocols(self, names):
        out = {}
        for p in names:
            plans = {}
            for role in ("Writer", "Reader"):
                src = open(os.path.join(self.dir, p + role + ".m")).read()
                steps = []
                for mm in re.finditer(r"self\.(\w+)_serializer = (.*);", src):
                    t = self.conv(parse_expr(mm.group(2)), {})
                    steps.append((True, t[1]) if isinstance(t, tuple) else (False, t))
                uses = re.findall(r"self\.(\w+)_serializer\.(?:write|read)\(", src)
                decl = [mm.group(1) for mm in re.finditer(r"self\.(\w+)_serializer = ", src)]
                if uses != decl:
                    raise PlanError("%s%s uses serializers %s, declares %s" % (p, role, uses, decl))
                plans[role] = steps
            if plans["Writer"] != plans["Reader"]:
                raise PlanError("MATLAB writer and reader of %s follow different plans" % p)
            out[p] = plans["Writer"]
        return out


# ------------------------------------------------------------------------------------------------ C++
CPP_INT = {"bool": "PBool", "int8_t": "PInt8", "uint8_t": "PUint8", "int16_t": "PInt16", "uint16_t": "PUint16", "int32_t": "PInt32",
           "uint32_t": "PUint32", "int64_t": "PInt64", "uint64_t": "PUint64", "yardl::Size": "PSize"}
CPP_FLOAT = {"float": "PFloat32", "double": "PFloat64", "std::complex<float>": "PCFloat32", "std::complex<double>": "PCFloat64"}


def cpp_type_text(node):
    """canonical text of a C++ type node"""
    if node[0] == "num":
        return str(node[1])
    n = node[1]
    s = n["id"]
    if n["targs"] is not None:
        s += "<" + ", ".join(cpp_type_text(x) for x in n["targs"]) + ">"
    return s


class CppPlans:
    def __init__(self, root, ns):
        self.ns = ns
        self.types = open(os.path.join(root, "types.h")).read()
        self.src = open(os.path.join(root, "binary", "protocols.cc")).read()
        self.enum_base = {}
        for m in re.finditer(r"enum class (\w+)(?: : ([\w:]+))? \{", self.types):
            self.enum_base[m.group(1)] = m.group(2) or "int32_t"
        for m in re.finditer(r"struct (\w+) : yardl::BaseFlags<([\w:]+), \w+>", self.types):
            self.enum_base[m.group(1)] = m.group(2)
        self.alias = {m.group(1): m.group(2) for m in re.finditer(r"^using (\w+) = ([^;]+);$", self.types, re.M)}
        # struct fields: name -> [(type text, field)]
        self.fields = {}
        for m in re.finditer(r"struct (\w+) \{\n(.*?)\n\n", self.types, re.S):
            fs = re.findall(r"^  ([^\n(]+?) (\w+)\{\};$", m.group(2), re.M)
            self.fields[m.group(1)] = fs
        # writer/reader function bodies
        self.funcs = {}
        for m in re.finditer(r"(?:template<([^\n]*)>\n)?\[\[maybe_unused\]\] void (Write|Read)(\w+)\(yardl::binary::Coded\w+Stream& stream, "
                             r"([^\n]*?)(?: const)?& value\) \{\n(.*?)\n\}\n", self.src, re.S):
            tparams = re.findall(r"yardl::binary::(?:Writer|Reader)<\w+> (\w+)", m.group(1) or "")
            tnames = re.findall(r"typename (\w+)", m.group(1) or "")
            body = m.group(5)
            body = re.sub(r"  if constexpr \(yardl::binary::IsTriviallySerializable<.*?\n  \}\n\n", "", body, flags=re.S)
            self.funcs[(m.group(2), m.group(3))] = (tnames, tparams, m.group(4), body)

    def leaf(self, verb, wname, ctype):
        seen = 0
        while ctype is not None and ctype.split("::")[-1] in self.alias and ctype not in CPP_INT and seen < 20:
            ctype = self.alias[ctype.split("::")[-1]]      # using A = uint16_t;
            seen += 1
        if wname == "yardl::binary::%sInteger" % verb:
            if ctype not in CPP_INT:
                raise PlanError("%sInteger on C++ type %s" % (verb, ctype))
            return "(TPrim %s)" % CPP_INT[ctype]
        if wname == "yardl::binary::%sFloatingPoint" % verb:
            if ctype not in CPP_FLOAT:
                raise PlanError("%sFloatingPoint on C++ type %s" % (verb, ctype))
            return "(TPrim %s)" % CPP_FLOAT[ctype]
        for k, p in (("String", "PString"), ("Date", "PDate"), ("Time", "PTime"), ("DateTime", "PDateTime")):
            if wname == "yardl::binary::%s%s" % (verb, k):
                return "(TPrim %s)" % p
        return None

    def conv(self, verb, node, ctype, env):
        """node: writer expression; ctype: text of the C++ type it is applied to (None when unknown); env: template writer -> ty"""
        n = node[1]
        name, ta = n["id"], n["targs"]
        if name in env and ta is None:
            return env[name]
        lf = self.leaf(verb, name, ctype) if ta is None else None
        if lf:
            return lf
        y = "yardl::binary::" + verb
        if name in (y + "Enum", y + "Flags"):
            e = cpp_type_text(ta[0]).split("::")[-1]
            if e not in self.enum_base:
                raise PlanError("unknown enum " + e)
            b = self.enum_base[e]
            seen = 0
            while b not in CPP_INT and b.split("::")[-1] in self.alias and seen < 20:     # enum class E : ns::Alias  with  using Alias = uint8_t;
                b = self.alias[b.split("::")[-1]]
                seen += 1
            if b not in CPP_INT:
                raise PlanError("the underlying type %s of enum %s is not an integer type" % (self.enum_base[e], e))
            return "(TEnum %s)" % CPP_INT[b]
        if name == y + "Monostate":
            return None
        if name == y + "Optional":
            return "(TOpt %s)" % self.conv(verb, ta[1], cpp_type_text(ta[0]), env)
        if name == verb + "Union":
            cases, has_null = [], False
            for i in range(0, len(ta), 2):
                t = self.conv(verb, ta[i + 1], cpp_type_text(ta[i]), env)
                if t is None:
                    if i != 0:
                        raise PlanError("null is not the first union case")
                    has_null = True
                else:
                    cases.append(t)
            return t_union(has_null, cases)
        if name == y + "Vector":
            return "(TVec %s)" % self.conv(verb, ta[1], cpp_type_text(ta[0]), env)
        if name == y + "Array":
            return "(TFixVec %d %s)" % (ta[2][1], self.conv(verb, ta[1], cpp_type_text(ta[0]), env))
        if name == y + "FixedNDArray":
            return "(TFixArr %s %s)" % (clist([str(x[1]) for x in ta[2:]]), self.conv(verb, ta[1], cpp_type_text(ta[0]), env))
        if name == y + "NDArray":
            return "(TArr %d %s)" % (ta[2][1], self.conv(verb, ta[1], cpp_type_text(ta[0]), env))
        if name == y + "DynamicNDArray":
            return "(TDynArr %s)" % self.conv(verb, ta[1], cpp_type_text(ta[0]), env)
        if name == y + "Map":
            return "(TMap %s %s)" % (self.conv(verb, ta[2], cpp_type_text(ta[0]), env), self.conv(verb, ta[3], cpp_type_text(ta[1]), env))
        m = re.fullmatch(r"(?:\w+::)+binary::%s(\w+)" % verb, name) or re.fullmatch(r"%s(\w+)" % verb, name)
        if m:
            args = []
            tas = ta or []
            for i in range(0, len(tas), 2):
                args.append((cpp_type_text(tas[i]), self.conv(verb, tas[i + 1], cpp_type_text(tas[i]), env)))
            return self.named(verb, m.group(1), args)
        raise PlanError("unknown C++ %s function %s" % (verb.lower(), name))

    def named(self, verb, fname, args):
        f = self.funcs.get((verb, fname))
        if f is None:
            raise PlanError("no function %s%s" % (verb, fname))
        tnames, tparams, vtype, body = f
        if len(tparams) != len(args):
            raise PlanError("%s%s takes %d writers, given %d" % (verb, fname, len(tparams), len(args)))
        env = {w: t for w, (_, t) in zip(tparams, args)}
        tenv = {tn: ct for tn, (ct, _) in zip(tnames, args)}
        stmts = [s.strip() for s in body.strip().split("\n") if s.strip()]
        fields = []
        whole = None
        sname = vtype.split("::")[-1].split("<")[0]
        for s in stmts:
            m = re.fullmatch(r"(.*)\(stream, value(?:\.(\w+))?\);", s)
            if not m:
                raise PlanError("unexpected statement in %s%s: %s" % (verb, fname, s[:80]))
            node = parse_expr(m.group(1))
            if m.group(2) is None:
                ctype = None
                whole = self.conv(verb, node, tenv.get(vtype, vtype), env)
            else:
                decl = dict((fn, ft) for ft, fn in self.fields.get(sname, []))
                if m.group(2) not in decl:
                    raise PlanError("field %s of %s not declared in types.h" % (m.group(2), sname))
                ft = decl[m.group(2)]
                fields.append((m.group(2), self.conv(verb, node, tenv.get(ft, ft), env)))
        if whole is not None:
            if fields or len(stmts) != 1:
                raise PlanError("%s%s mixes whole-value and field statements" % (verb, fname))
            return whole
        if [fn for fn, _ in fields] != [fn for _, fn in self.fields.get(sname, [])]:
            raise PlanError("%s%s handles fields %s, the struct declares %s" % (verb, fname, [fn for fn, _ in fields],
                                                                                 [fn for _, fn in self.fields.get(sname, [])]))
        return "(TRec %s)" % clist([t for _, t in fields])

    def protocols(self, names):
        out = {}
        for p in names:
            plans = {}
            for role, verb in (("Writer", "Write"), ("Reader", "Read")):
                steps, order = {}, []
                for m in re.finditer(r"(?:void|bool) %s%s::%s(\w+)Impl\(([^\n]*?)(?: const)?& (values?)\) \{\n(.*?)\n\}\n" % (p, role, verb),
                                     self.src, re.S):
                    step, sig, pname, body = m.groups()
                    calls = re.findall(r"(?<![\w:<,] )(?<![\w:<])((?:\w+::)*%s\w*(?:<.*>)?)\(stream_, " % verb, body)
                    if len(calls) != 1:
                        raise PlanError("%s%s::%s%sImpl has %d serializer calls" % (p, role, verb, step, len(calls)))
                    node = parse_expr(calls[0])
                    n = node[1]
                    kind = n["id"].split("::")[-1]
                    if kind in (verb + "Block", "ReadBlocksIntoVector") or (pname == "values" and kind == verb + "Vector"):
                        plan = (True, self.conv(verb, n["targs"][1], cpp_type_text(n["targs"][0]), {}))
                    else:
                        plan = (False, self.conv(verb, node, sig.strip(), {}))
                    if step in steps and steps[step] != plan:
                        raise PlanError("%s%s: the overloads of %s%s follow different plans" % (p, role, verb, step))
                    if step not in steps:
                        order.append(step)
                    steps[step] = plan
                plans[role] = [steps[k] for k in order]
            if plans["Writer"] != plans["Reader"]:
                raise PlanError("C++ writer and reader of %s follow different plans" % p)
            out[p] = plans["Writer"]
        return out
