"""T-table translator: regenerates coq/Gen/Tables.v from /repo's current sources (through the verif-tagged hook
binary) on every run.  The Coq theorems that mention these tables are then re-checked against what the code says now."""
import json
import os
import re

from vlib import COQ, REPO

COQ_PRIM = {"bool": "PBool", "int8": "PInt8", "uint8": "PUint8", "int16": "PInt16", "uint16": "PUint16",
            "int32": "PInt32", "uint32": "PUint32", "int64": "PInt64", "uint64": "PUint64", "size": "PSize",
            "float32": "PFloat32", "float64": "PFloat64", "complexfloat32": "PCFloat32",
            "complexfloat64": "PCFloat64", "string": "PString", "date": "PDate", "time": "PTime",
            "datetime": "PDateTime"}
ORDER = list(COQ_PRIM)


def go_func_body(text, name):
    i = text.index("func %s(" % name)
    j = text.index("{", text.index(")", i))
    depth, k = 0, j
    while True:
        if text[k] == "{":
            depth += 1
        elif text[k] == "}":
            depth -= 1
            if depth == 0:
                return text[j + 1:k]
        k += 1


def gen_phases():
    """T-table: the ordered calls of generateImpl (generatecommand.go) and whether their error is checked at once."""
    src = open(os.path.join(REPO, "tooling/internal/cmd/generatecommand.go")).read()
    body = go_func_body(src, "generateImpl")
    lines = [ln.strip() for ln in body.split("\n")]
    phases = []
    for i, ln in enumerate(lines):
        m = re.search(r"(?:(?:[\w, ]+?)\s*:?=\s*|if err :?= )((?:\w+\.)?\w+)\(", ln)
        if not m or ln.startswith("return") or ln.startswith("//"):
            continue
        fn = m.group(1)
        inline_check = ln.startswith("if err :=") and "err != nil" in ln
        nxt = next((x for x in lines[i + 1:] if x), "")
        nxt2 = [x for x in lines[i + 1:] if x][1:2]
        checked = inline_check or (nxt.startswith("if err != nil") and bool(nxt2) and nxt2[0].startswith("return"))
        if inline_check:
            after = [x for x in lines[i + 1:] if x][:1]
            checked = bool(after) and after[0].startswith("return")
        base = fn.split(".")[-1]
        if base == "LoadPackage":
            kind = "KLoad"
        elif base == "updatePackageInfoFromArgs":
            kind = "KConfig"
        elif base.lower().startswith("validate"):
            kind = "KValidate"
        elif base == "Generate" or base.lower().startswith("output") or fn.startswith("iocommon.") or fn in (
                "os.WriteFile", "os.Create", "os.MkdirAll", "os.Remove", "os.RemoveAll", "os.Symlink", "os.Rename"):
            kind = "KWrite"
        else:
            kind = "KOther"
        phases.append((fn, kind, checked))
    L = ["(* GENERATED on every run from tooling/internal/cmd/generatecommand.go:generateImpl by harness/lib/gentables.py. Do not edit. *)",
         "From Coq Require Import List.", "From YV Require Import Model.GenPhases.", "Import ListNotations.", "",
         "(* " + "; ".join("%s=%s%s" % (f, k, "" if c else " (error NOT checked)") for f, k, c in phases) + " *)",
         "Definition generate_phases : list phase :=", "  [" + "; ".join("(%s, %s)" % (k, "true" if c else "false") for f, k, c in phases) + "].", ""]
    text = "\n".join(L)
    path = os.path.join(COQ, "Gen", "GenerateImpl.v")
    old = open(path).read() if os.path.exists(path) else None
    if old != text:
        with open(path, "w") as f:
            f.write(text)
    return phases


def gen_map_sites(ctx):
    """T-table: every `range` over a map-typed expression in the tooling (go/types based inventory, harness/go/sites)."""
    import subprocess
    from vlib import VERIF, CACHE, GOENV
    exe = os.path.join(CACHE, "bin", "sites")
    env = dict(GOENV)
    p = subprocess.run(["go", "build", "-o", exe, "./sites"], cwd=os.path.join(VERIF, "harness", "go"), env=env,
                       stdout=subprocess.PIPE, stderr=subprocess.PIPE, text=True)
    if p.returncode != 0:
        raise RuntimeError("cannot build the site inventory tool: " + p.stderr[-1500:])
    p = subprocess.run([exe, os.path.join(REPO, "tooling")], env=env, stdout=subprocess.PIPE, stderr=subprocess.PIPE, text=True)
    if p.returncode != 0:
        raise RuntimeError("site inventory failed (does the tree type-check?): " + p.stderr[-1500:])
    sites = [json.loads(ln) for ln in p.stdout.strip().split("\n") if ln]
    uniq = []
    for s_ in sites:
        k = (s_["file"], s_["func"], s_["expr"])
        if k not in uniq:
            uniq.append(k)
    L = ["(* GENERATED on every run by harness/lib/gentables.py (go/types inventory harness/go/sites). Do not edit. *)",
         "From Coq Require Import List String.", "Import ListNotations.", "Open Scope string_scope.", "",
         "(* every `for ... range m` over a map-typed m in /repo/tooling (non-test files): (file, function, expression) *)",
         "Definition map_range_sites : list (string * string * string) :=", "  [" + ";\n   ".join('("%s", "%s", "%s")' % k for k in uniq) + "].", ""]
    text = "\n".join(L)
    path = os.path.join(COQ, "Gen", "MapSites.v")
    old = open(path).read() if os.path.exists(path) else None
    if old != text:
        with open(path, "w") as f:
            f.write(text)
    return sites


def naming_tables(lenient=False):
    """reserved words and escaping rules of the three code generators, parsed out of internal/*/common/common.go.
    lenient: a naming function of unknown shape gets the rule None (and an entry in out["problems"]) instead of an exception, so
    that the caller can still look for a reserved identifier with the reserved-word lists alone."""
    out = {}
    problems = []
    for lang in ("cpp", "python", "matlab"):
        src = open(os.path.join(REPO, "tooling/internal/%s/common/common.go" % lang)).read()
        m = re.search(r"var (reservedNames|isReservedName) = map\[string\]\w+\{(.*?)\n\}", src, re.S)
        if not m:
            raise RuntimeError("gentables: cannot find the reserved words of " + lang)
        words = re.findall(r'^\s*"([^"]+)":', m.group(2), re.M)
        var = m.group(1)
        rules = {}
        for kind, fn in (("field", "FieldIdentifierName"), ("computed", "ComputedFieldIdentifierName"),
                         ("enum_value", "EnumValueIdentifierName"), ("type", "TypeIdentifierName")):
            fm = re.search(r"func %s\(name string\) string \{\n(.*?)\n\}\n" % fn, src, re.S)
            if not fm:
                raise RuntimeError("gentables: cannot find %s of %s" % (fn, lang))
            body = fm.group(1)
            cm = re.search(r"^\t(\w+) := (.*)$", body, re.M)
            cased_var, cased_expr = (cm.group(1), cm.group(2).strip()) if cm else ("name", "name")
            chk = re.search(r"%s\[(\w+)\]" % var, body)
            sm_ = re.search(r'Sprintf\("%s([^"]*)", (\w+)\)\s*$|return (\w+) \+ "([^"]*)"\s*$', body.strip())
            if not chk or not sm_:
                if lenient:
                    rules[kind] = None
                    problems.append("gentables: %s of %s has an unexpected shape" % (fn, lang))
                    continue
                raise RuntimeError("gentables: %s of %s has an unexpected shape" % (fn, lang))
            suffix = sm_.group(1) if sm_.group(1) is not None else sm_.group(4)
            ret_var = sm_.group(2) or sm_.group(3)
            rules[kind] = {"casing": cased_expr, "checked": "cased" if chk.group(1) == cased_var and cased_var != "name" else
                           ("name" if cased_var != "name" else "cased"), "suffix": suffix, "returns_cased": ret_var == cased_var}
        out[lang] = {"reserved": words, "rules": rules}
    if lenient:
        out["problems"] = problems
    return out


def gen_naming():
    def cs(s):
        return '"%s"' % s
    t = naming_tables()
    L = ["(* GENERATED on every run from tooling/internal/{cpp,python,matlab}/common/common.go by harness/lib/gentables.py. Do not edit. *)",
         "From Coq Require Import List String.", "Import ListNotations.", "Open Scope string_scope.", ""]
    for lang, d in t.items():
        L.append("Definition %s_reserved : list string :=\n  [%s]." % (lang, "; ".join(cs(w) for w in d["reserved"])))
        for kind, r in d["rules"].items():
            L.append("(* %s %s: casing %s, reserved check on the %s *)" % (lang, kind, r["casing"], r["checked"]))
            L.append("Definition %s_%s_suffix : string := %s." % (lang, kind, cs(r["suffix"])))
            L.append("Definition %s_%s_checks_cased : bool := %s." % (lang, kind, "true" if r["checked"] == "cased" else "false"))
        L.append("")
    text = "\n".join(L)
    path = os.path.join(COQ, "Gen", "Naming.v")
    old = open(path).read() if os.path.exists(path) else None
    if old != text:
        with open(path, "w") as f:
            f.write(text)
    return t


def gen_visitor():
    """T-table: node structs of pkg/dsl with their node-holding fields, and the fields VisitChildren / DefaultRewrite touch
    per case (go/types + go/ast tool harness/go/visitor)."""
    import subprocess
    from vlib import VERIF, CACHE, GOENV
    exe = os.path.join(CACHE, "bin", "visitor")
    p = subprocess.run(["go", "build", "-o", exe, "./visitor"], cwd=os.path.join(VERIF, "harness", "go"), env=dict(GOENV),
                       stdout=subprocess.PIPE, stderr=subprocess.PIPE, text=True)
    if p.returncode != 0:
        raise RuntimeError("cannot build the visitor inventory tool: " + p.stderr[-1500:])
    p = subprocess.run([exe, os.path.join(REPO, "tooling")], env=dict(GOENV), stdout=subprocess.PIPE, stderr=subprocess.PIPE, text=True)
    if p.returncode != 0:
        raise RuntimeError("visitor inventory failed (does the tree type-check?): " + p.stderr[-1500:])
    d = json.loads(p.stdout)

    def sl(xs):
        return "[" + "; ".join('"%s"' % x for x in xs) + "]"
    L = ["(* GENERATED on every run by harness/lib/gentables.py (go/types + go/ast inventory harness/go/visitor). Do not edit. *)",
         "From Coq Require Import List String.", "Import ListNotations.", "Open Scope string_scope.", "",
         "(* every struct of pkg/dsl that implements dsl.Node, with the fields whose type can hold Nodes *)",
         "Definition node_fields : list (string * list string) :=",
         "  [" + ";\n   ".join('("%s", %s)' % (n, sl(fs)) for n, fs in sorted(d["nodes"].items())) + "].", ""]
    for fn, name in (("VisitChildren", "visit_children_cases"), ("DefaultRewrite", "default_rewrite_cases")):
        cases = d["visited"].get(fn, {})
        L += ["(* the fields each case of the type switch in %s touches *)" % fn, "Definition %s : list (string * list string) :=" % name,
              "  [" + ";\n   ".join('("%s", %s)' % (t.lstrip("*"), sl(fs)) for t, fs in sorted(cases.items())) + "].", ""]
    text = "\n".join(L)
    path = os.path.join(COQ, "Gen", "Visitor.v")
    old = open(path).read() if os.path.exists(path) else None
    if old != text:
        with open(path, "w") as f:
            f.write(text)
    return d


def gen_passes():
    """T-table: the validation passes of dsl.Validate in order, and whether each starts with the
    `if len(errorSink.Errors) > 0 { return env }` guard."""
    d = os.path.join(REPO, "tooling/pkg/dsl")
    src = open(os.path.join(d, "validation.go")).read()
    m = re.search(r"passes := \[\]ValidationPass\{(.*?)\n\t\}", src, re.S)
    if not m:
        raise RuntimeError("gentables: cannot find the pass list of dsl.Validate")
    names = re.findall(r"^\s*(\w+),\s*$", m.group(1), re.M)
    if not re.search(r"for _, pass := range passes \{\s*env = pass\(env, &errorSink\)\s*\}\s*return env, errorSink\.AsError\(\)", src):
        raise RuntimeError("gentables: dsl.Validate no longer runs every pass and returns errorSink.AsError()")
    allsrc = "\n".join(open(os.path.join(d, f)).read() for f in sorted(os.listdir(d)) if f.endswith(".go") and not f.endswith("_test.go"))
    rows = []
    for n in names:
        fm = re.search(r"^func %s\(env \*Environment, errorSink \*validation\.ErrorSink\) \*Environment \{\n(.*?)\n\}\n" % n, allsrc, re.S | re.M)
        if not fm:
            raise RuntimeError("gentables: cannot find the validation pass " + n)
        guarded = bool(re.match(r"\s*if len\(errorSink\.Errors\) > 0 \{\s*(//[^\n]*\s*)*return env\s*\}", fm.group(1)))
        rows.append((n, guarded))
    L = ["(* GENERATED on every run from tooling/pkg/dsl/validation*.go by harness/lib/gentables.py. Do not edit. *)",
         "From Coq Require Import List String.", "Import ListNotations.", "Open Scope string_scope.", "",
         "(* dsl.Validate: (pass, starts with the `errors already reported -> skip` guard) in execution order *)",
         "Definition validation_passes : list (string * bool) :=",
         "  [" + ";\n   ".join('("%s", %s)' % (n, "true" if g else "false") for n, g in rows) + "].", ""]
    text = "\n".join(L)
    path = os.path.join(COQ, "Gen", "Passes.v")
    old = open(path).read() if os.path.exists(path) else None
    if old != text:
        with open(path, "w") as f:
            f.write(text)
    return rows


def gen_watch():
    """T-table: the shape of dedupLoop in generatecommand.go: debounce via time.AfterFunc + timer.Reset on every event, panic
    recovery around a regeneration, and whether regenerations are serialized by a mutex held for the whole regeneration."""
    src = open(os.path.join(REPO, "tooling/internal/cmd/generatecommand.go")).read()
    m = re.search(r"func dedupLoop\(.*?\n\}\n", src, re.S)
    if not m:
        raise RuntimeError("gentables: cannot find dedupLoop")
    body = m.group(0)
    rg = re.search(r"regenerate := func\(\) \{\n(.*?)\n\t\}\n", body, re.S)
    if not rg:
        raise RuntimeError("gentables: cannot find the regenerate closure of dedupLoop")
    rb = rg.group(1)
    lock = re.match(r"\s*(\w+)\.Lock\(\)\s*\n\s*defer \1\.Unlock\(\)", rb)
    serialized = bool(lock) and re.search(r"var %s sync\.Mutex" % lock.group(1), body) is not None and "generateInWatchMode(" in rb
    debounce = re.search(r"timer := time\.AfterFunc\(math\.MaxInt64, regenerate\)", body) is not None and "timer.Reset(waitFor)" in body
    initial = re.search(r"\n\tregenerate\(\)\n", body) is not None
    gw = re.search(r"func generateInWatchMode\(.*?\n\}\n", src, re.S)
    recovers = bool(gw) and re.search(r"defer func\(\) \{\s*if err := recover\(\); err != nil", gw.group(0)) is not None
    wait = re.search(r"const waitFor = (\d+) \* time\.Millisecond", body)
    L = ["(* GENERATED on every run from tooling/internal/cmd/generatecommand.go by harness/lib/gentables.py. Do not edit. *)", "",
         "(* regenerations hold one mutex from start to end *)", "Definition watch_serialized : bool := %s." % ("true" if serialized else "false"),
         "(* every event re-arms one timer whose expiry starts a regeneration *)", "Definition watch_debounced : bool := %s." % ("true" if debounce else "false"),
         "(* one regeneration runs before the event loop starts *)", "Definition watch_initial_run : bool := %s." % ("true" if initial else "false"),
         "(* a panic inside a regeneration is recovered *)", "Definition watch_recovers_panics : bool := %s." % ("true" if recovers else "false"),
         "Definition watch_debounce_ms : nat := %s." % (wait.group(1) if wait else "0"), ""]
    text = "\n".join(L)
    path = os.path.join(COQ, "Gen", "Watch.v")
    old = open(path).read() if os.path.exists(path) else None
    if old != text:
        with open(path, "w") as f:
            f.write(text)
    return {"serialized": serialized, "debounce": debounce, "initial": initial, "recovers": recovers}


DOC_ALIASES = ["byte", "int", "uint", "long", "ulong", "float", "double", "complexfloat", "complexdouble"]


def observed_aliases(ctx):
    """The primitive alias table as the current yardl RESOLVES it (not as types.go spells it): a record with one field per
    candidate alias name goes through the real front end and the JSON model says what each name means.  Candidates: the
    documented aliases plus every lower-case string literal of types.go that is not a primitive name.  Names the front end
    does not know are left out (Props/C13.v compares the table with the documented one)."""
    import subprocess
    import tempfile
    ty = open(os.path.join(REPO, "tooling/pkg/dsl/types.go")).read()
    cands = list(DOC_ALIASES)
    for lit in re.findall(r'"([a-z][a-z0-9]*)=?"', ty):
        if lit not in cands and lit not in ORDER:
            cands.append(lit)
    out = []
    with tempfile.TemporaryDirectory(prefix="yv-alias-") as d:
        os.makedirs(d + "/m")
        open(d + "/m/_package.yml", "w").write("namespace: Al\njson:\n  outputDir: ../j\n")
        for name in cands:
            open(d + "/m/a.yml", "w").write("R: !record\n  fields:\n    f: %s\n" % name)
            p = subprocess.run([ctx.yardl, "generate"], cwd=d + "/m", capture_output=True, text=True, timeout=120)
            if p.returncode != 0:
                continue
            try:
                m = json.load(open(d + "/j/model.json"))
                t = m["namespaces"][0]["types"][0]["record"]["fields"][0]["type"]
            except Exception:  # noqa: BLE001
                continue
            if isinstance(t, str) and t in ORDER and t != name:
                out.append((name, t))
    return out


def regenerate(ctx):
    # each translator belongs to the properties whose theorems mention its table: a source shape it cannot read fails those checks
    # (reported as a translator violation by harness/check), not the others, which keep the table of the last good run
    for fn, owners in ((gen_watch, ("C20",)), (gen_phases, ("C11",)), (lambda: gen_map_sites(ctx), ("C12",)), (gen_naming, ("C08",)),
                       (gen_visitor, ("C09",)), (gen_passes, ("C10",))):
        try:
            fn()
        except RuntimeError as ex:
            if not str(ex).startswith("gentables:"):
                raise
            if ctx.prop in owners:
                # the table keeps the contents of the last good run; the theorems are then about the OLD sources: reported, and
                # the check goes on looking for a failing input
                ctx.report("translator:" + re.sub(r"[^a-zA-Z0-9]+", "-", str(ex)[len("gentables:"):].strip())[:60],
                           "the translator that regenerates a table of the model from /repo's sources cannot read them any more: %s" % ex,
                           {"broken": "translator harness/lib/gentables.py: %s" % ex}, no_input=True)
                continue
            ctx.notes.append("a translator of another property could not read the sources (%s); its table was left as it was" % ex)
    t = json.loads(ctx.hook_call(["tables"]))
    L = ["(* GENERATED on every run from /repo by harness/lib/gentables.py (hook `yardl-verif tables`). Do not edit. *)",
         "From Coq Require Import NArith.", "From YV Require Import Model.Binary.", "Open Scope N_scope.", "",
         "(* dsl.GetCommonType on every pair of primitives (typefunctions.go:commonTypeMap) *)",
         "Definition common_type (a b : prim) : option prim :=", "  match a, b with"]
    for a in ORDER:
        for b in ORDER:
            c = t["common_type"][a][b]
            if c:
                L.append("  | %s, %s => Some %s" % (COQ_PRIM[a], COQ_PRIM[b], COQ_PRIM[c]))
    L += ["  | _, _ => None", "  end.", ""]
    for name, key in (("prim_kind", "primitive_kind"), ("prim_width", "primitive_width")):
        L += ["Definition %s (p : prim) : N :=" % name, "  match p with"]
        for a in ORDER:
            L.append("  | %s => %d" % (COQ_PRIM[a], t[key][a]))
        L += ["  end.", ""]
    L += ["Definition prim_signed (p : prim) : bool :=", "  match p with"]
    for a in ORDER:
        L.append("  | %s => %s" % (COQ_PRIM[a], "true" if t["primitive_signed"][a] else "false"))
    L += ["  end.", "", "(* ndjsoncommon.GetJsonDataType: bit set  1 null, 2 boolean, 4 number, 8 string, 16 array, 32 object *)",
          "Definition json_kind_decl (p : prim) : N :=", "  match p with"]
    for a in ORDER:
        L.append("  | %s => %s" % (COQ_PRIM[a], t["json_kind"][a]))
    aliases = observed_aliases(ctx)
    L += ["  end.", "", "(* GetJsonDataType on one representative of every other shape of type; a panic or a missing entry is kind 0 *)"]
    shapes = t.get("json_kind_shapes", {})
    for sh in ("enum", "flags", "record", "generic_param", "vector", "fixed_vector", "fixed_array", "array", "dyn_array",
               "map_string", "map_string_alias", "map_other", "alias_of_string", "alias_of_vector"):
        v = shapes.get(sh, "0")
        L.append("Definition json_kind_%s : N := %s." % (sh, v if v.isdigit() else "0"))
    L += ["", "(* types.go:primitiveTypes aliases *)", "Definition prim_aliases : list (String.string * prim) :=",
          "  [" + "; ".join('("%s"%%string, %s)' % (a, COQ_PRIM[p]) for a, p in aliases) + "].", ""]
    L += ["Definition max_import_recursion_depth : nat := %d." % t["max_import_recursion_depth"], ""]
    # constants of the runtimes (regex over the shipped files)
    cs = open(os.path.join(REPO, "tooling/internal/cpp/include/detail/binary/coded_stream.h")).read()
    py = open(os.path.join(REPO, "tooling/internal/python/static_files/_binary.py")).read()
    hd = open(os.path.join(REPO, "tooling/internal/cpp/include/detail/binary/header.h")).read()

    def rx(pat, text, what):
        m = re.search(pat, text)
        if not m:
            raise RuntimeError("gentables: cannot find %s in the current sources" % what)
        return m.group(1)
    L += ["Definition cpp_max_varint32_bytes : nat := %s." % rx(r"MAX_VARINT32_BYTES = (\d+);", cs, "MAX_VARINT32_BYTES"),
          "Definition cpp_max_varint64_bytes : nat := %s." % rx(r"MAX_VARINT64_BYTES = (\d+);", cs, "MAX_VARINT64_BYTES"),
          "Definition cpp_default_buffer_size : N := %s." % rx(r"CodedInputStream\(std::istream& stream, size_t buffer_size = (\d+)\)", cs, "buffer size"),
          "Definition py_default_buffer_size : N := %s." % rx(r"buffer_size: int = (\d+)", py, "python buffer size"),
          "Definition cpp_format_version : N := %s." % rx(r"kBinaryFormatVersionNumber = (\d+);", hd, "format version"),
          "Definition py_format_version : N := %s." % rx(r"CURRENT_BINARY_FORMAT_VERSION: int = (\d+)", py, "python format version"),
          "Definition py_magic : list N := [%s]." % ";".join(str(b) for b in rx(r'MAGIC_BYTES: bytes = b"(\w+)"', py, "magic").encode()),
          "Definition cpp_magic : list N := [%s]." % ";".join(str(ord(c)) for c in re.findall(r"'(.)'", rx(r"MAGIC_BYTES = \{([^}]*)\}", hd, "cpp magic"))),
          ""]
    text = "\n".join(L)
    text = text.replace("From Coq Require Import NArith.", "From Coq Require Import NArith List String.\nImport ListNotations.")
    path = os.path.join(COQ, "Gen", "Tables.v")
    old = open(path).read() if os.path.exists(path) else None
    if old != text:
        with open(path, "w") as f:
            f.write(text)
    return t
