"""model.json / protocol schema JSON  ->  Coq terms of Model/Schema.v (harness side of the C04 tie).

The converter is structural and refuses anything it does not know, so that a new key in the schema shows up as a
difference rather than being dropped silently."""
import json


class Unknown(Exception):
    pass


def cstr(s):
    return "[" + "; ".join(str(b) for b in s.encode("utf-8")) + "]"


def copt(x, f):
    return "None" if x is None else "(Some %s)" % f(x)


def clist(xs):
    return "[" + "; ".join(xs) + "]"


def need(d, allowed, what):
    extra = set(d.keys()) - set(allowed)
    if extra:
        raise Unknown("%s has unexpected keys %s" % (what, sorted(extra)))


def conv_type(j, comments):
    if isinstance(j, str):
        return "(SRef %s [])" % cstr(j)
    if isinstance(j, list):
        cs = []
        for c in j:
            if c is None:
                cs.append("([], None)")
            elif isinstance(c, dict) and set(c.keys()) == {"tag", "type"}:
                cs.append("(%s, Some %s)" % (cstr(c["tag"]), conv_type(c["type"], comments)))
            elif isinstance(c, dict) and set(c.keys()) == {"tag", "explicitTag", "type"} and c["explicitTag"] is True:
                # a tag given with the `!union {tag: type}` syntax: the schema records that it is explicit; kept visible in the
                # structure as a suffix no identifier can carry
                cs.append("(%s, Some %s)" % (cstr(c["tag"] + "!"), conv_type(c["type"], comments)))
            else:
                cs.append("([], Some %s)" % conv_type(c, comments))
        return "(SCases %s)" % clist(cs)
    if isinstance(j, dict):
        if "name" in j:
            need(j, ("name", "typeArguments"), "generic reference")
            return "(SRef %s %s)" % (cstr(j["name"]), clist([conv_type(a, comments) for a in j.get("typeArguments", [])]))
        if len(j) != 1:
            raise Unknown("type object with keys %s" % sorted(j.keys()))
        k, v = next(iter(j.items()))
        if k == "vector":
            need(v, ("items", "length"), "vector")
            return "(SVec %s %s)" % (copt(v.get("length"), str), conv_type(v["items"], comments))
        if k == "array":
            need(v, ("items", "dimensions"), "array")
            d = v.get("dimensions")
            if d is None:
                ds = "None"
            elif isinstance(d, int):
                ds = "(Some %s)" % clist(["(None, None)"] * d)
            else:
                items = []
                for x in d:
                    need(x, ("name", "length", "comment"), "array dimension")
                    if x.get("comment"):
                        comments.append(x["comment"])
                    items.append("(%s, %s)" % (copt(x.get("name"), cstr), copt(x.get("length"), str)))
                ds = "(Some %s)" % clist(items)
            return "(SArr %s %s)" % (ds, conv_type(v["items"], comments))
        if k == "map":
            need(v, ("keys", "values"), "map")
            return "(SMap %s %s)" % (conv_type(v["keys"], comments), conv_type(v["values"], comments))
        raise Unknown("type object %s" % k)
    raise Unknown("type %r" % (j,))


def coq_Z(z):
    return "(%d)%%Z" % z if z < 0 else "%d%%Z" % z


def conv_def(kind, d, ns, comments, computed):
    """kind: record|enum|flags|alias (None: infer from keys, as in the schema's type list)"""
    if kind is None:
        kind = "record" if "fields" in d else ("enum" if "values" in d else "alias")
    if d.get("comment"):
        comments.append(d["comment"])
    name = (ns + "." if ns else "") + d["name"]
    params = clist([cstr(p) for p in d.get("typeParameters", [])])
    if kind == "record":
        need(d, ("name", "comment", "typeParameters", "fields", "computedFields"), "record")
        fs = []
        for f in d["fields"]:
            need(f, ("name", "comment", "type"), "field")
            if f.get("comment"):
                comments.append(f["comment"])
            fs.append("(%s, %s)" % (cstr(f["name"]), conv_type(f["type"], comments)))
        for c in d.get("computedFields", []) or []:
            computed.append(json.dumps(c, sort_keys=True))
        body = "(BRecord %s)" % clist(fs)
    elif kind in ("enum", "flags"):
        need(d, ("name", "comment", "base", "values"), "enum")
        vs = []
        for v in d["values"]:
            need(v, ("symbol", "value", "comment"), "enum value")
            if v.get("comment"):
                comments.append(v["comment"])
            vs.append("(%s, %s)" % (cstr(v["symbol"]), coq_Z(int(v["value"]))))
        body = "(BEnum %s %s)" % (copt(d.get("base"), lambda b: conv_type(b, comments)), clist(vs))
    else:
        need(d, ("name", "comment", "typeParameters", "type"), "alias")
        body = "(BAlias %s)" % conv_type(d["type"], comments)
    return "{| d_name := %s; d_params := %s; d_body := %s |}" % (cstr(name), params, body)


def conv_proto(p, comments):
    need(p, ("name", "comment", "sequence"), "protocol")
    if p.get("comment"):
        comments.append(p["comment"])
    steps = []
    for s in p["sequence"]:
        need(s, ("name", "comment", "type"), "protocol step")
        if s.get("comment"):
            comments.append(s["comment"])
        t = s["type"]
        if isinstance(t, dict) and set(t.keys()) == {"stream"}:
            need(t["stream"], ("items",), "stream")
            steps.append("(%s, true, %s)" % (cstr(s["name"]), conv_type(t["stream"]["items"], comments)))
        else:
            steps.append("(%s, false, %s)" % (cstr(s["name"]), conv_type(t, comments)))
    return "{| p_name := %s; p_steps := %s |}" % (cstr(p["name"]), clist(steps))


def conv_env(model):
    """model.json -> (Coq list fdef, {protocol name: Coq fproto})"""
    need(model, ("namespaces",), "model")
    defs, protos = [], {}
    for ns in model["namespaces"]:
        need(ns, ("name", "types", "protocols"), "namespace")
        for td in ns.get("types", []) or []:
            if len(td) != 1:
                raise Unknown("type definition wrapper %s" % sorted(td.keys()))
            kind, d = next(iter(td.items()))
            if kind not in ("record", "enum", "flags", "alias"):
                raise Unknown("definition kind " + kind)
            comments, computed = [], []
            sd = conv_def(kind, d, ns["name"], comments, computed)
            defs.append("{| f_def := %s; f_comments := %s; f_computed := %s; f_flags := %s |}"
                        % (sd, clist([cstr(c) for c in comments]), clist([cstr(c) for c in computed]),
                           "true" if kind == "flags" else "false"))
        for p in ns.get("protocols", []) or []:
            comments = []
            sp = conv_proto(p, comments)
            protos[p["name"]] = "{| fp_proto := %s; fp_comments := %s |}" % (sp, clist([cstr(c) for c in comments]))
    return clist(defs), protos


def conv_schema(text):
    """schema string of the generated code -> Coq schema term"""
    j = json.loads(text)
    need(j, ("protocol", "types"), "schema")
    comments, computed = [], []
    p = conv_proto(j["protocol"], comments)
    ds = [conv_def(None, d, "", comments, computed) for d in (j.get("types") or [])]
    if comments or computed:
        raise Unknown("the schema carries comments or computed fields")
    return "(%s, %s)" % (p, clist(ds))
