"""Correspondence between Model/CodedCpp.v and the real coded_stream.h (through harness/cpp/coded_driver.cc)."""
import os

from vlib import REPO, VERIF, sh, coq_bytes

HDR_DIR = os.path.join(REPO, "tooling/internal/cpp/include/detail/binary")


def build_driver(ctx, asan=True):
    out = os.path.join(ctx.scratch, "coded_driver")
    cmd = ["g++", "-std=c++17", "-O1", "-g", "-I", HDR_DIR,
           os.path.join(VERIF, "harness/cpp/coded_driver.cc"), "-o", out]
    if asan:
        cmd[3:3] = ["-fsanitize=address", "-fno-omit-frame-pointer"]
    rc, o, e = sh(cmd, timeout=300)
    if rc != 0:
        raise RuntimeError("coded_driver does not compile against the current coded_stream.h:\n" + e[-3000:])
    return out


# ------------------------------------------------------------------ reference encoders (input construction only)
def venc(n):
    out = []
    while n >= 0x80:
        out.append((n & 0x7F) | 0x80)
        n >>= 7
    out.append(n)
    return out


def le(k, n):
    return [(n >> (8 * i)) & 0xFF for i in range(k)]


EDGE = [0, 1, 2, 127, 128, 129, 255, 256, 16383, 16384, 2 ** 21 - 1, 2 ** 21, 2 ** 28 - 1, 2 ** 28,
        2 ** 31 - 1, 2 ** 31, 2 ** 32 - 1]
EDGE64 = EDGE + [2 ** 32, 2 ** 35 - 1, 2 ** 35, 2 ** 42, 2 ** 49 - 1, 2 ** 49, 2 ** 56 - 1, 2 ** 56,
                 2 ** 63 - 1, 2 ** 63, 2 ** 64 - 1]


def gen_script(rng, maxops=8, big=False):
    """A well-formed reader script with the bytes a writer would have produced for it.
    Returns (ops, bytes) where ops are (kind, arg, expected) triples."""
    ops = []
    data = []
    for _ in range(rng.randint(1, maxops)):
        k = rng.choice(["b", "v32", "v64", "f", "r", "v32", "v64"])
        if k == "b":
            v = rng.randrange(256)
            ops.append(("b", None))
            data += [v]
        elif k == "v32":
            v = rng.choice(EDGE) if rng.random() < 0.6 else rng.randrange(2 ** 32)
            ops.append(("v32", None))
            data += venc(v)
        elif k == "v64":
            v = rng.choice(EDGE64) if rng.random() < 0.6 else rng.randrange(2 ** 64)
            ops.append(("v64", None))
            data += venc(v)
        elif k == "f":
            w = rng.choice([1, 2, 4, 8])
            v = rng.randrange(256 ** w)
            ops.append(("f", w))
            data += le(w, v)
        else:
            n = rng.choice([0, 1, 2, 3, 5, 9, 15, 16, 17, 31, 33]) if not big else rng.choice([100, 257, 1000])
            ops.append(("r", n))
            data += [rng.randrange(256) for _ in range(n)]
    return ops, data


def op_text(op):
    k, a = op
    return {"b": "b", "v32": "v32", "v64": "v64", "V": "V"}.get(k) or (("f%d" % a) if k == "f" else "r%d" % a)


def op_coq(op):
    k, a = op
    if k == "b":
        return "RByte"
    if k == "v32":
        return "RVar 32"
    if k == "v64":
        return "RVar 64"
    if k == "f":
        return "RFixed %d" % a
    if k == "r":
        return "RBytes %d" % a
    return "RVerify"


def obs_coq(tok):
    if tok == "EOF":
        return "Eof"
    if tok == "NOTFINISHED":
        return "Fault NotFinished"
    if tok == "ok":
        return "Ok VUnit"
    if tok.startswith("h:"):
        h = tok[2:]
        bs = [] if h == "-" else [int(h[i:i + 2], 16) for i in range(0, len(h), 2)]
        return "Ok (VBytes %s)" % coq_bytes(bs)
    return "Ok (VNum %s)" % tok


def hexs(bs):
    return "".join("%02x" % b for b in bs) or "-"


def run_reader_cases(ctx, driver, cases):
    """cases: list of (bufsize, bytes, ops). Returns list of observed token lists."""
    lines = ["in %d %s %s" % (bs, hexs(data), " ".join(op_text(o) for o in ops)) for bs, data, ops in cases]
    rc, o, e = sh([driver], input="\n".join(lines) + "\n", timeout=600,
                  env=dict(os.environ, ASAN_OPTIONS="detect_leaks=0:abort_on_error=0"))
    outs = o.split("\n")
    if rc != 0 or len(outs) < len(cases):
        # a crash (e.g. AddressSanitizer): find the first case that kills the driver
        n_ok = max(0, len([x for x in outs if x != ""]))
        return None, n_ok, e[-3000:]
    return [ln.split() for ln in outs[:len(cases)]], len(cases), ""


def reader_cases_v(cases, observed, start=0):
    items = []
    for (bs, data, ops), obs in zip(cases, observed):
        items.append("(%d%%nat, %s, %s, %s)" % (bs, coq_bytes(data), "[" + "; ".join(op_coq(o) for o in ops) + "]",
                                                "[" + "; ".join(obs_coq(t) for t in obs) + "]"))
    return ("From YV Require Import Base.Wire Model.CodedCpp Model.CodedCases.\n"
            "Definition cases : list rcase := [\n " + ";\n ".join(items) + "\n].\n"
            "Definition MM := Eval vm_compute in mismatches rcase_ok_machine cases.\nPrint MM.\n"
            "Definition MA := Eval vm_compute in mismatches rcase_ok_abs cases.\nPrint MA.\n")


# ------------------------------------------------------------------ writer
def gen_wscript(rng, maxops=10):
    ops = []
    for _ in range(rng.randint(1, maxops)):
        k = rng.choice(["b", "v32", "v64", "f", "B", "B", "F"])
        if k == "b":
            ops.append(("b", rng.randrange(256)))
        elif k == "v32":
            ops.append(("v32", rng.choice(EDGE) if rng.random() < 0.6 else rng.randrange(2 ** 32)))
        elif k == "v64":
            ops.append(("v64", rng.choice(EDGE64) if rng.random() < 0.6 else rng.randrange(2 ** 64)))
        elif k == "f":
            w = rng.choice([1, 2, 4, 8])
            ops.append(("f%d" % w, rng.randrange(256 ** w)))
        elif k == "B":
            n = rng.choice([0, 1, 2, 5, 9, 10, 11, 15, 16, 17, 31, 32, 33, 40, 70])
            ops.append(("B", [rng.randrange(256) for _ in range(n)]))
        else:
            ops.append(("F", None))
    return ops


def wop_text(op):
    k, a = op
    if k == "F":
        return "F"
    if k == "B":
        return "B:" + hexs(a)
    return "%s:%d" % (k, a)


def wop_coq(op):
    k, a = op
    if k == "F":
        return "WFlush"
    if k == "B":
        return "WBytes " + coq_bytes(a)
    if k == "b":
        return "WByte %d" % a
    if k == "v32":
        return "WVar 32 %d" % a
    if k == "v64":
        return "WVar 64 %d" % a
    return "WFixed %s %d" % (k[1:], a)


def run_writer_cases(ctx, driver, cases):
    lines = ["out %d %s" % (bs, " ".join(wop_text(o) for o in ops)) for bs, ops in cases]
    rc, o, e = sh([driver], input="\n".join(lines) + "\n", timeout=600,
                  env=dict(os.environ, ASAN_OPTIONS="detect_leaks=0:abort_on_error=0"))
    outs = [x for x in o.split("\n") if x != ""]
    if rc != 0 or len(outs) < len(cases):
        return None, len(outs), e[-3000:]
    res = []
    for ln in outs[:len(cases)]:
        h, ch = ln.split("|")
        bs = [] if h == "-" else [int(h[i:i + 2], 16) for i in range(0, len(h), 2)]
        res.append((bs, [int(x) for x in ch.split(",") if x]))
    return res, len(cases), ""


def writer_cases_v(cases, observed):
    items = []
    for (bs, ops), (data, chunks) in zip(cases, observed):
        items.append("(%d%%nat, %s, %s, %s)" % (bs, "[" + "; ".join(wop_coq(o) for o in ops) + "]", coq_bytes(data),
                                                "[" + ";".join("%d%%nat" % c for c in chunks) + "]"))
    return ("From YV Require Import Base.Wire Model.CodedCpp Model.CodedCases.\n"
            "Definition cases : list wcase := [\n " + ";\n ".join(items) + "\n].\n"
            "Definition MM := Eval vm_compute in mismatches wcase_ok_machine cases.\nPrint MM.\n"
            "Definition MA := Eval vm_compute in mismatches wcase_ok_abs cases.\nPrint MA.\n")


# ------------------------------------------------------------------ Python runtime (static_files/_binary.py)
def make_pyrt(ctx):
    """Copy the shipped Python runtime files into a scratch package `rt`."""
    import shutil
    d = os.path.join(ctx.scratch, "pyrt")
    if not os.path.isdir(d):
        os.makedirs(os.path.join(d, "rt"))
        src = os.path.join(REPO, "tooling/internal/python/static_files")
        for fn in os.listdir(src):
            if fn.endswith(".py"):
                shutil.copy(os.path.join(src, fn), os.path.join(d, "rt", fn))
        open(os.path.join(d, "rt", "__init__.py"), "w").close()
    return d


def py_op_text(op, rng=None):
    k, a = op
    if k == "b":
        return "b"
    if k in ("v32", "v64"):
        return "v"
    if k == "f":
        return "f%d" % a
    if k == "r":
        return ("r%d" if (rng is None or rng.random() < 0.5) else "R%d") % a
    raise ValueError(k)


def run_py_reader_cases(ctx, pyrt, cases, rng):
    from vlib import PY_VT
    lines = ["in %d %s %s" % (bs, hexs(data), " ".join(py_op_text(o, rng) for o in ops)) for bs, data, ops in cases]
    rc, o, e = sh([PY_VT, os.path.join(VERIF, "harness/py/coded_driver.py"), pyrt],
                  input="\n".join(lines) + "\n", timeout=900)
    outs = o.split("\n")
    if rc != 0 or len(outs) < len(cases):
        raise RuntimeError("python coded driver failed: " + e[-2000:])
    return [ln.split() for ln in outs[:len(cases)]]


def py_obs_coq(tok):
    if tok == "EOF":
        return "PyEof"
    if tok == "ERR:BufferError":
        return "PyFault BufferErr"      # the resize quirk of _fill_buffer; the machine model predicts exactly where
    if tok.startswith("ERR:"):
        return "PyFault PStale"         # any other exception never matches the model
    return "Py" + obs_coq(tok)


def pop_coq(op):
    k, a = op
    if k == "b":
        return "PByte"
    if k in ("v32", "v64"):
        return "PVar"
    if k == "f":
        return "PFixed %d" % a
    if k == "r":
        return "PBytes %d" % a
    raise ValueError(k)


def py_reader_cases_v(cases, observed):
    items = []
    for (bs, data, ops), obs in zip(cases, observed):
        items.append("(%d%%nat, %s, %s, %s)" % (bs, coq_bytes(data), "[" + "; ".join(pop_coq(o) for o in ops) + "]",
                                                "[" + "; ".join(py_obs_coq(t) for t in obs) + "]"))
    return ("From YV Require Import Base.Wire Model.CodedCpp Model.CodedPy Model.CodedCases.\n"
            "Definition cases : list pcase := [\n " + ";\n ".join(items) + "\n].\n"
            "Definition MM := Eval vm_compute in mismatches pcase_ok_machine cases.\nPrint MM.\n"
            "Definition MA := Eval vm_compute in mismatches pcase_ok_abs cases.\nPrint MA.\n")


# ------------------------------------------------------------------ Python writer (CodedOutputStream)
def gen_py_wscript(rng, maxops=10, hostile=False):
    """ops: (kind, arg).  Guarded scripts use what generated code uses; hostile ones add raw unchecked byte stores, varints
    above 2**64 and structs wider than the buffer (the machine model predicts the exception)."""
    ops = []
    kinds = ["b", "v", "v", "f", "B", "B", "D", "F", "e"] + (["n", "n", "V"] if hostile else [])
    for _ in range(rng.randint(1, maxops)):
        k = rng.choice(kinds)
        if k in ("b", "n"):
            ops.append((k, rng.randrange(256)))
        elif k == "v":
            ops.append(("v", rng.choice(EDGE64) if rng.random() < 0.6 else rng.randrange(2 ** 64)))
        elif k == "V":
            ops.append(("v", rng.randrange(2 ** 64, 2 ** 90)))
        elif k == "f":
            w = rng.choice([1, 2, 4, 8])
            ops.append(("f%d" % w, rng.randrange(256 ** w)))
        elif k in ("B", "D"):
            n = rng.choice([0, 1, 2, 5, 9, 10, 11, 15, 16, 17, 31, 32, 33, 40, 70])
            ops.append((k, [rng.randrange(256) for _ in range(n)]))
        elif k == "e":
            ops.append(("e", rng.choice([0, 1, 2, 8, 10, 16, 100])))
        else:
            ops.append(("F", None))
    return ops


def py_wop_text(op):
    k, a = op
    if k == "F":
        return "F"
    if k in ("B", "D"):
        return k + ":" + hexs(a)
    if k == "b":
        return "e:1 n:%d" % a          # the composite generated code uses
    return "%s:%d" % (k, a)


def py_wop_coq(op):
    k, a = op
    if k == "F":
        return "PWFlush"
    if k == "B":
        return "PWBytes " + coq_bytes(a)
    if k == "D":
        return "PWDirect " + coq_bytes(a)
    if k == "b":
        return "PWByte %d" % a
    if k == "n":
        return "PWByteNC %d" % a
    if k == "e":
        return "PWEnsure %d" % a
    if k == "v":
        return "PWVar %d" % a
    return "PWFixed %s %d" % (k[1:], a)


PY_WERR = {"": 0, "ERR:IndexError": 1, "ERR:error": 2, "ERR:AssertionError": 3}


def run_py_writer_cases(ctx, pyrt, cases):
    from vlib import PY_VT
    lines = ["out %d %s" % (bs, " ".join(py_wop_text(o) for o in ops)) for bs, ops in cases]
    rc, o, e = sh([PY_VT, os.path.join(VERIF, "harness/py/coded_driver.py"), pyrt],
                  input="\n".join(lines) + "\n", timeout=900)
    outs = [x for x in o.split("\n") if x != ""]
    if rc != 0 or len(outs) < len(cases):
        raise RuntimeError("python coded driver failed: " + e[-2000:])
    res = []
    for ln in outs[:len(cases)]:
        h, ch, err = ln.split("|")
        bs = [] if h == "-" else [int(h[i:i + 2], 16) for i in range(0, len(h), 2)]
        res.append((bs, [int(x) for x in ch.split(",") if x], err))
    return res


def py_writer_cases_v(cases, observed):
    items = []
    for (bs, ops), (data, chunks, err) in zip(cases, observed):
        items.append("(%d%%nat, %s, %s, %s, %d%%nat)" % (bs, "[" + "; ".join(py_wop_coq(o) for o in ops) + "]", coq_bytes(data),
                                                       "[" + ";".join("%d%%nat" % c for c in chunks) + "]", PY_WERR.get(err, 4)))
    return ("From YV Require Import Base.Wire Model.CodedCpp Model.CodedPy Model.CodedCases.\n"
            "Definition cases : list pwcase := [\n " + ";\n ".join(items) + "\n].\n"
            "Definition MM := Eval vm_compute in mismatches pwcase_ok_machine cases.\nPrint MM.\n"
            "Definition MA := Eval vm_compute in mismatches pwcase_ok_abs cases.\nPrint MA.\n")
