"""model.json -> Coq terms of Model/Evolution.v: every type expanded (aliases and generic instantiations resolved away,
records and enums inline under their qualified names).  Harness side of the C05/C06 tie."""
import json
import re

PRIMS = {"bool": "PBool", "int8": "PInt8", "uint8": "PUint8", "int16": "PInt16", "uint16": "PUint16", "int32": "PInt32",
         "uint32": "PUint32", "int64": "PInt64", "uint64": "PUint64", "size": "PSize", "float32": "PFloat32", "float64": "PFloat64",
         "complexfloat32": "PCFloat32", "complexfloat64": "PCFloat64", "string": "PString", "date": "PDate", "time": "PTime",
         "datetime": "PDateTime"}


class Unknown(Exception):
    pass


def cstr(s):
    return "[" + "; ".join(str(b) for b in s.encode("utf-8")) + "]"


def clist(xs):
    return "[" + "; ".join(xs) + "]"


def coq_Z(z):
    return "(%d)%%Z" % z if z < 0 else "%d%%Z" % z


class Env:
    def __init__(self, model):
        self.defs = {}      # qualified name -> (kind, dict)
        self.order = []
        self.protos = []
        for ns in model["namespaces"]:
            for td in ns.get("types") or []:
                kind, d = next(iter(td.items()))
                q = ns["name"] + "." + d["name"]
                self.defs[q] = (kind, d)
                self.order.append(q)
            for p in ns.get("protocols") or []:
                self.protos.append((ns["name"] + "." + p["name"], p))

    # returns (coq term, canonical text)
    def expand(self, t, sigma, depth=0):
        if depth > 60:
            raise Unknown("expansion too deep (cyclic model?)")
        if isinstance(t, str):
            return self.ref(t, [], sigma, depth)
        if isinstance(t, list):
            has_null = any(c is None for c in t)
            cases = []
            for c in t:
                if c is None:
                    continue
                if isinstance(c, dict) and set(c.keys()) in ({"tag", "type"}, {"tag", "explicitTag", "type"}):
                    c = c["type"]
                cases.append(self.expand(c, sigma, depth + 1))
            if has_null and len(cases) == 1:
                return "(EOpt %s)" % cases[0][0], "(%s)?" % cases[0][1]
            return ("(EUnion %s %s)" % ("true" if has_null else "false", clist([c[0] for c in cases])),
                    "[%s%s]" % ("null," if has_null else "", ",".join(c[1] for c in cases)))
        if isinstance(t, dict):
            if "name" in t:
                args = [self.expand(a, sigma, depth + 1) for a in t.get("typeArguments", [])]
                return self.ref(t["name"], args, sigma, depth)
            k, v = next(iter(t.items()))
            if k == "vector":
                e = self.expand(v["items"], sigma, depth + 1)
                ln = v.get("length")
                return "(EVec %s %s)" % ("None" if ln is None else "(Some %d)" % ln, e[0]), "(%s)*%s" % (e[1], "" if ln is None else ln)
            if k == "array":
                e = self.expand(v["items"], sigma, depth + 1)
                d = v.get("dimensions")
                if d is None:
                    return "(EArr None %s)" % e[0], "(%s)[]" % e[1]
                if isinstance(d, int):
                    dims = [None] * d
                else:
                    dims = [x.get("length") for x in d]
                return ("(EArr (Some %s) %s)" % (clist(["None" if x is None else "(Some %d)" % x for x in dims]), e[0]),
                        "(%s)[%s]" % (e[1], ",".join("" if x is None else str(x) for x in dims)))
            if k == "map":
                a = self.expand(v["keys"], sigma, depth + 1)
                b = self.expand(v["values"], sigma, depth + 1)
                return "(EMap %s %s)" % (a[0], b[0]), "(%s)->(%s)" % (a[1], b[1])
            if k == "stream":
                raise Unknown("stream outside a step")
        raise Unknown("type %r" % (t,))

    def ref(self, name, args, sigma, depth):
        if name in sigma and not args:
            return sigma[name]
        if name in PRIMS and not args:
            return "(EPrim %s)" % PRIMS[name], name
        if name not in self.defs:
            raise Unknown("unknown reference " + name)
        kind, d = self.defs[name]
        params = d.get("typeParameters", [])
        if len(params) != len(args):
            raise Unknown("arity of " + name)
        sig = dict(zip(params, args))
        qn = name + ("<" + ",".join(a[1] for a in args) + ">" if args else "")
        if kind == "alias":
            inner = self.expand(d["type"], sig, depth + 1)
            if not params:
                return "(EAlias %s %s)" % (cstr(name), inner[0]), inner[1]      # the alias stays visible to the verdicts
            return inner
        if kind == "record":
            fs = [(f["name"], self.expand(f["type"], sig, depth + 1)) for f in d["fields"]]
            return "(ERec %s %s)" % (cstr(qn), clist(["(%s, %s)" % (cstr(n), t[0]) for n, t in fs])), qn
        base = d.get("base")
        bp = "PInt32"
        if base is not None:
            b = self.expand(base, {}, depth + 1)[0]
            while b.startswith("(EAlias "):          # a base given through a named alias of the primitive
                m_ = re.match(r"\(EAlias \[[^\]]*\] (.*)\)$", b)
                if not m_:
                    break
                b = m_.group(1)
            if not b.startswith("(EPrim "):
                raise Unknown("enum base " + b)
            bp = b[len("(EPrim "):-1]
        vals = clist(["(%s, %s)" % (cstr(v["symbol"]), coq_Z(int(v["value"]))) for v in d["values"]])
        return "(EEnum %s %s %s %s)" % (cstr(qn), "true" if kind == "flags" else "false", bp, vals), qn

    def coq_env(self):
        defs = []
        for q in self.order:
            kind, d = self.defs[q]
            params = d.get("typeParameters", [])
            sigma = {p: ("(EParam %s)" % cstr(p), p) for p in params}
            if kind == "alias":
                t = self.expand(d["type"], sigma)[0]
            elif kind == "record":
                fs = [(f["name"], self.expand(f["type"], sigma)) for f in d["fields"]]
                t = "(ERec %s %s)" % (cstr(q), clist(["(%s, %s)" % (cstr(n), x[0]) for n, x in fs]))
            else:
                t = self.ref(q, [], {}, 0)[0]
            defs.append("(%s, %s)" % (cstr(q), t))
        protos = []
        for q, p in self.protos:
            steps = []
            for s in p["sequence"]:
                t = s["type"]
                if isinstance(t, dict) and set(t.keys()) == {"stream"}:
                    steps.append("(%s, true, %s)" % (cstr(s["name"]), self.expand(t["stream"]["items"], {})[0]))
                else:
                    steps.append("(%s, false, %s)" % (cstr(s["name"]), self.expand(t, {})[0]))
            protos.append("(%s, %s)" % (cstr(q), clist(steps)))
        return "{| e_defs := %s; e_protos := %s |}" % (clist(defs), clist(protos))

    def renames_from(self, old):
        """aliases of THIS (new) model that carry the name of a record/enum of the old model and point at a record/enum"""
        out = []
        for q in self.order:
            kind, d = self.defs[q]
            if kind != "alias" or d.get("typeParameters"):
                continue
            if q in old.defs and old.defs[q][0] in ("record", "enum", "flags"):
                t = d["type"]
                seen = 0
                while isinstance(t, str) and t in self.defs and self.defs[t][0] == "alias" and seen < 30:
                    t = self.defs[t][1]["type"]
                    seen += 1
                if isinstance(t, str) and t in self.defs and self.defs[t][0] in ("record", "enum", "flags"):
                    out.append("(%s, %s)" % (cstr(q), cstr(t)))
        return clist(out)


# ------------------------------------------------------------------------------------------ ymodel.T objects from model.json
def to_T(env, t, sigma=None, depth=0):
    """the harness' structural type (ymodel.T: value generator, reference encoder) of a model.json type"""
    import ymodel
    T = ymodel.T
    sigma = sigma or {}
    if depth > 60:
        raise Unknown("expansion too deep")
    if isinstance(t, str) or (isinstance(t, dict) and "name" in t):
        name = t if isinstance(t, str) else t["name"]
        args = [] if isinstance(t, str) else [to_T(env, a, sigma, depth + 1) for a in t.get("typeArguments", [])]
        if name in sigma and not args:
            return sigma[name]
        if name in PRIMS and not args:
            return ymodel.prim(name)
        if name not in env.defs:
            raise Unknown("unknown reference " + name)
        kind, d = env.defs[name]
        sig = dict(zip(d.get("typeParameters", []), args))
        if kind == "alias":
            return to_T(env, d["type"], sig, depth + 1)
        if kind == "record":
            return T("rec", name, name=name, fields=[(f["name"], to_T(env, f["type"], sig, depth + 1)) for f in d["fields"]])
        base = d.get("base")
        bp = to_T(env, base, {}, depth + 1).p if base is not None else "int32"
        return T("enum", name, base=bp, name=name, symbols=[(v["symbol"], int(v["value"])) for v in d["values"]], is_flags=kind == "flags")
    if isinstance(t, list):
        has_null = any(c is None for c in t)
        cases = []
        for c in t:
            if c is None:
                continue
            if isinstance(c, dict) and set(c.keys()) in ({"tag", "type"}, {"tag", "explicitTag", "type"}):
                c = c["type"]
            cases.append(to_T(env, c, sigma, depth + 1))
        if has_null and len(cases) == 1:
            return T("opt", "opt", e=cases[0])
        return T("union", "union", has_null=has_null, cases=cases, tags=[])
    k, v = next(iter(t.items()))
    if k == "vector":
        e = to_T(env, v["items"], sigma, depth + 1)
        return T("fixvec", "fixvec", n=v["length"], e=e) if v.get("length") is not None else T("vec", "vec", e=e)
    if k == "array":
        e = to_T(env, v["items"], sigma, depth + 1)
        d = v.get("dimensions")
        if d is None:
            return T("dynarr", "dynarr", e=e)
        dims = [None] * d if isinstance(d, int) else [x.get("length") for x in d]
        if dims and all(x is not None for x in dims):
            return T("fixarr", "fixarr", dims=dims, e=e)
        return T("arr", "arr", rank=len(dims), e=e)
    if k == "map":
        return T("map", "map", k=to_T(env, v["keys"], sigma, depth + 1), e=to_T(env, v["values"], sigma, depth + 1))
    raise Unknown("type %r" % (t,))


def proto_steps(env, pname):
    """[(name, T, is_stream, Coq estep term)] of a protocol (unqualified name)"""
    for q, p in env.protos:
        if q.split(".")[-1] == pname:
            out = []
            for s in p["sequence"]:
                t = s["type"]
                st = isinstance(t, dict) and set(t.keys()) == {"stream"}
                inner = t["stream"]["items"] if st else t
                out.append((s["name"], to_T(env, inner), st, "(%s, %s, %s)" % (cstr(s["name"]), "true" if st else "false", env.expand(inner, {})[0])))
            return out
    raise Unknown("no protocol " + pname)
