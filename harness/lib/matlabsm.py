"""A translator from the text of the generated MATLAB protocol base classes (<P>WriterBase.m / <P>ReaderBase.m) to an
executable semantics of their public methods: a tiny interpreter for exactly the statement forms the generator emits
(if/elseif/else/end over comparisons of state_, isempty(value), logical flags; return; assignments to state_; calls of the
abstract `_` methods (no-ops, `has_x_` answers as scripted); throw / raise_unexpected_state_).  Anything else raises
MatlabShapeError: the translator refuses what it does not know.  No MATLAB/Octave is installed in the sandbox; this is the only
way call histories can be run against the MATLAB code."""
import re


class MatlabShapeError(Exception):
    pass


class Thrown(Exception):
    pass


class Return(Exception):
    pass


def parse_methods(text):
    """name -> (params, [body lines]) for every `function ... end` of the class (2-space indented generator output)"""
    out = {}
    lines = text.split("\n")
    i = 0
    while i < len(lines):
        m = re.match(r"^(\s*)function\s+(?:(\w+)\s*=\s*)?(\w+)\(([^)]*)\)\s*$", lines[i])
        if m:
            ind = m.group(1)
            body = []
            i += 1
            while i < len(lines) and not re.match(r"^%send\s*$" % re.escape(ind), lines[i]):
                body.append(lines[i])
                i += 1
            if i >= len(lines):
                raise MatlabShapeError("function %s is not closed" % m.group(3))
            out[m.group(3)] = (m.group(2), [p.strip() for p in m.group(4).split(",") if p.strip()], body)
        i += 1
    return out


def blocks(lines):
    """[stripped lines] -> nested statements: ('if', [(cond, stmts)...], else_stmts) | ('stmt', text)"""
    pos = 0

    def parse_until(stops):
        nonlocal pos
        out = []
        while pos < len(lines):
            ln = lines[pos]
            if any(ln == s or ln.startswith(s + " ") for s in stops):
                return out
            if ln.startswith("if "):
                arms, els = [], None
                cond = ln[3:]
                pos += 1
                while True:
                    body = parse_until(("elseif", "else", "end"))
                    arms.append((cond, body))
                    if pos >= len(lines):
                        raise MatlabShapeError("unterminated if")
                    ln2 = lines[pos]
                    pos += 1
                    if ln2 == "end":
                        break
                    if ln2.startswith("elseif "):
                        cond = ln2[7:]
                        continue
                    if ln2 == "else":
                        els = parse_until(("end",))
                        if pos >= len(lines) or lines[pos] != "end":
                            raise MatlabShapeError("unterminated else")
                        pos += 1
                        break
                    raise MatlabShapeError("unexpected " + ln2)
                out.append(("if", arms, els))
                continue
            if re.match(r"^(while|for|switch|try)\b", ln):
                raise MatlabShapeError("unsupported construct in a state-machine method: " + ln)
            out.append(("stmt", ln))
            pos += 1
        return out
    res = parse_until(())
    return res


TOK = re.compile(r"\s*(~=|==|<=|>=|&&|\|\||[~()<>]|\d+|[A-Za-z_][\w.]*)")


def eval_cond(src, env):
    toks, p = [], 0
    while p < len(src):
        if src[p:].strip() == "":
            break
        m = TOK.match(src, p)
        if not m:
            raise MatlabShapeError("condition not understood: " + src)
        toks.append(m.group(1))
        p = m.end()
    i = 0

    def peek():
        return toks[i] if i < len(toks) else None

    def eat(t=None):
        nonlocal i
        x = peek()
        if t is not None and x != t:
            raise MatlabShapeError("condition not understood: " + src)
        i += 1
        return x

    def atom():
        x = eat()
        if x == "(":
            v = or_()
            eat(")")
            return v
        if x == "~":
            return not truthy(atom())
        if x is None:
            raise MatlabShapeError("condition not understood: " + src)
        if x.isdigit():
            return int(x)
        if x == "isempty":
            eat("(")
            name = eat()
            eat(")")
            return bool(env["empty"].get(name, False))
        if x in ("self.state_", "state"):
            return env["state"] if x == "self.state_" else env["locals"].get("state", 0)
        if x in env["locals"]:
            return env["locals"][x]
        if x in env["flags"]:
            return env["flags"][x]
        raise MatlabShapeError("unknown name in a condition: %s (in `%s`)" % (x, src))

    def truthy(v):
        return bool(v)

    def cmp_():
        a = atom()
        if peek() in ("~=", "==", "<", ">", "<=", ">="):
            op = eat()
            b = atom()
            return {"~=": a != b, "==": a == b, "<": a < b, ">": a > b, "<=": a <= b, ">=": a >= b}[op]
        return a

    def and_():
        v = truthy(cmp_())
        while peek() == "&&":
            eat()
            w = truthy(cmp_())
            v = v and w
        return v

    def or_():
        v = and_()
        while peek() == "||":
            eat()
            w = and_()
            v = v or w
        return v
    v = or_()
    if i != len(toks):
        raise MatlabShapeError("condition not understood: " + src)
    return bool(v)


class Machine:
    def __init__(self, text):
        self.methods = parse_methods(text)
        self.state = None
        self.flags = {"self.skip_completed_check_": False}
        if not any(re.search(r"self\.state_ = 0;", ln) for name, (_, _, body) in self.methods.items() for ln in body
                   if name.endswith("Base")):
            raise MatlabShapeError("the constructor does not set state_ = 0")
        self.state = 0

    def call(self, name, empty_value=False, answers=None, depth=0):
        """run public or private method `name`; returns normally, or raises Thrown"""
        if name not in self.methods:
            raise MatlabShapeError("method %s is not in the generated class" % name)
        if depth > 4:
            raise MatlabShapeError("call nesting")
        ret, params, body = self.methods[name]
        lines = [ln.strip() for ln in body if ln.strip() and not ln.strip().startswith("%")]
        env = {"state": self.state, "empty": {"value": empty_value}, "locals": {}, "flags": self.flags}
        try:
            self.exec_(blocks(lines), env, answers or {}, depth)
        except Return:
            pass
        finally:
            self.state = env["state"]

    def exec_(self, stmts, env, answers, depth):
        for s in stmts:
            if s[0] == "if":
                done = False
                for cond, body in s[1]:
                    if eval_cond(cond, env):
                        self.exec_(body, env, answers, depth)
                        done = True
                        break
                if not done and s[2] is not None:
                    self.exec_(s[2], env, answers, depth)
                continue
            ln = s[1]
            if ln in ("return;", "return"):
                raise Return()
            m = re.match(r"^self\.state_ = (\d+);$", ln)
            if m:
                env["state"] = int(m.group(1))
                continue
            if re.match(r"^throw\(.*\);$", ln):
                raise Thrown()
            m = re.match(r"^(?:(\w+) = )?self\.(\w+)\((.*)\);$", ln)
            if m:
                target, callee = m.group(1), m.group(2)
                if callee in self.methods and not callee.endswith("Base"):
                    # a method of the class itself (raise_unexpected_state_, state_to_method_name_): interpret it
                    if callee == "state_to_method_name_":
                        if target:
                            env["locals"][target] = "<name>"
                        continue
                    self.state = env["state"]
                    self.call(callee, depth=depth + 1)
                    env["state"] = self.state
                    continue
                if callee.endswith("_"):
                    # abstract implementation hook: no effect on the state machine; has_x_ answers as scripted
                    if target:
                        env["locals"][target] = answers.get(callee, True) if callee.startswith("has_") else "<value>"
                    continue
                raise MatlabShapeError("call of an unknown method: " + ln)
            if re.match(r"^\w+ = self\.state_to_method_name_\(.*\);$", ln):
                continue
            raise MatlabShapeError("statement not understood in a state-machine method: " + ln)

    def run(self, calls):
        """calls: list of (method, empty_value, answers); returns True when every call returns normally"""
        for name, empty, answers in calls:
            try:
                self.call(name, empty, answers)
            except Thrown:
                return False
        return True
