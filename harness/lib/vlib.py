"""Shared machinery of the /verif checks: builds, Coq evaluation, evidence, findings.

Every check is `harness/check <ID> --tier quick|thorough [--replay file]`.
Nothing here is specific to one property.
"""
import atexit
import fcntl
import hashlib
import json
import os
import random
import re
import shutil
import subprocess
import sys
import tempfile
import time

VERIF = os.path.dirname(os.path.dirname(os.path.dirname(os.path.abspath(__file__))))
REPO = os.environ.get("VERIF_REPO", "/repo")
COQ = os.path.join(VERIF, "coq")
CACHE = os.path.join(VERIF, ".cache")
GOENV = dict(os.environ, GOFLAGS="-mod=mod", GOPROXY="off")
GOENV.pop("GOTOOLCHAIN", None)  # system go is 1.23; go.mod wants the cached 1.24 toolchain
PY_VT = shutil.which("python3-vt") or "python3-vt"
NCPU = os.cpu_count() or 4


def sh(cmd, cwd=None, env=None, timeout=1200, input=None, check=False):
    """Run a command, return (rc, stdout, stderr) as text."""
    p = subprocess.run(cmd, cwd=cwd, env=env, timeout=timeout, input=input,
                       stdout=subprocess.PIPE, stderr=subprocess.PIPE,
                       shell=isinstance(cmd, str), text=True, errors="replace")
    if check and p.returncode != 0:
        raise RuntimeError("command failed: %s\n%s\n%s" % (cmd, p.stdout[-4000:], p.stderr[-4000:]))
    return p.returncode, p.stdout, p.stderr


class Lock:
    def __init__(self, name):
        os.makedirs(CACHE, exist_ok=True)
        self.path = os.path.join(CACHE, name + ".lock")

    def __enter__(self):
        self.f = open(self.path, "w")
        fcntl.flock(self.f, fcntl.LOCK_EX)
        return self

    def __exit__(self, *a):
        fcntl.flock(self.f, fcntl.LOCK_UN)
        self.f.close()


class Violation(Exception):
    pass


# axioms DECLARED BY THE STANDARD LIBRARY that a development may rely on (named in the trusted base of the check that uses
# them: only C19's floating-point theorems do, through Flocq's real numbers); anything else fails the check
STDLIB_AXIOMS = {"sig_not_dec", "sig_forall_dec", "functional_extensionality_dep", "classic"}


class Ctx:
    def __init__(self, prop, tier, seed):
        self.prop = prop
        self.tier = tier
        self.seed = seed
        self.rng = random.Random(seed)
        self.t0 = time.time()
        self.scratch = tempfile.mkdtemp(prefix="yv-%s-" % prop)
        if not os.environ.get("VERIF_KEEP"):
            atexit.register(lambda: shutil.rmtree(self.scratch, ignore_errors=True))
        self.violations = []       # list of dicts {key, what, replay}
        self.known_printed = []
        self.coverage = {"evaluations": 0, "distinct_nontrivial": 0, "samples": [], "rule": "",
                         "obligations": 0, "discharged": 0, "checker_cmd": "", "trusted_base": []}
        self.assumptions = []
        self.dist = {}
        self.theorems = []
        self.axioms = {}
        self._distinct = set()
        self.notes = []
        with open(os.path.join(VERIF, "known_findings.json")) as f:
            self.kf = json.load(f)

    # ------------------------------------------------------------------ accounting
    def count(self, bucket, key, n=1):
        d = self.dist.setdefault(bucket, {})
        d[key] = d.get(key, 0) + n

    def case(self, sig, nontrivial=True, sample=None):
        """Account one explored case. sig: hashable signature used for distinctness."""
        self.coverage["evaluations"] += 1
        if nontrivial:
            h = hashlib.sha1(repr(sig).encode()).hexdigest()
            if h not in self._distinct:
                self._distinct.add(h)
                self.coverage["distinct_nontrivial"] += 1
        if sample is not None and len(self.coverage["samples"]) < 8:
            self.coverage["samples"].append(sample)

    # ------------------------------------------------------------------ builds
    def build_repo(self, need_hook=True):
        """Build yardl (and the verif-tagged hook binary) from /repo's working tree."""
        with Lock("gobuild"):
            bindir = os.path.join(CACHE, "bin")
            os.makedirs(bindir, exist_ok=True)
            tooling = os.path.join(REPO, "tooling")
            rc, o, e = sh(["go", "build", "-tags", "verif", "-o", os.path.join(bindir, "yardl"), "./cmd/yardl"],
                          cwd=tooling, env=GOENV)
            if rc != 0:
                raise RuntimeError("go build yardl failed:\n" + e[-3000:])
            self.yardl = os.path.join(bindir, "yardl")
            self.hook = None
            if need_hook and os.path.isdir(os.path.join(tooling, "cmd", "yardl-verif")):
                rc, o, e = sh(["go", "build", "-tags", "verif", "-o", os.path.join(bindir, "yardl-verif"),
                               "./cmd/yardl-verif"], cwd=tooling, env=GOENV)
                if rc != 0:
                    raise RuntimeError("go build yardl-verif failed:\n" + e[-3000:])
                self.hook = os.path.join(bindir, "yardl-verif")

    def hook_call(self, args, input=None, timeout=600, cwd=None):
        rc, o, e = sh([self.hook] + args, input=input, timeout=timeout, cwd=cwd)
        if rc != 0:
            raise RuntimeError("hook %s failed rc=%d: %s" % (args, rc, e[-2000:]))
        return o

    # ------------------------------------------------------------------ Coq
    def coq_make(self, targets):
        """(Re)build the Coq development up to the given .vo targets. Returns (ok, log)."""
        with Lock("coq"):
            if not os.path.exists(os.path.join(COQ, "Makefile")):
                sh(["coq_makefile", "-f", "_CoqProject", "-o", "Makefile"], cwd=COQ, check=True)
            # every executable model is brought up to date with the regenerated tables first: the cases a check evaluates import
            # Model/*.vo files that need not be dependencies of its Props file (a stale one is "inconsistent assumptions")
            models = ["Model/" + f[:-2] + ".vo" for f in sorted(os.listdir(os.path.join(COQ, "Model"))) if f.endswith(".v")]
            sh(["timeout", "1500", "make", "-k", "-j%d" % NCPU] + models, cwd=COQ, timeout=1600)
            rc, o, e = sh(["timeout", "1500", "make", "-j%d" % NCPU] + targets, cwd=COQ, timeout=1600)
            return rc == 0, o + e

    def coq_props(self, propfile):
        """Compile Props/<propfile>.v (and its dependencies); account theorems and axioms.
        Returns (ok, failing_theorem_or_None, log)."""
        if getattr(self, "hook", None):
            import gentables
            gentables.regenerate(self)    # T-table: the tables the theorems mention come from the current sources
        src = os.path.join(COQ, "Props", propfile + ".v")
        text = open(src).read()
        thms = [(m.group(1), text[:m.start()].count("\n") + 1)
                for m in re.finditer(r"^(?:Theorem|Lemma)\s+(\w+)", text, re.M)]
        self.coverage["obligations"] = len(thms)
        self.theorems = [t for t, _ in thms]
        ok, log = self.coq_make(["Props/%s.vo" % propfile])
        self.coverage["checker_cmd"] = "make -C coq Props/%s.vo (coqc 8.16.1, full .vo build) + coqc Props/%s.v for Print Assumptions" % (propfile, propfile)
        if not ok:
            # locate the failing file/line
            m = re.search(r'File "\./([^"]+)", line (\d+)', log)
            failing = None
            discharged = 0
            if m and m.group(1) == "Props/%s.v" % propfile:
                line = int(m.group(2))
                for t, ln in thms:
                    if ln <= line:
                        failing = t
                discharged = max(0, len([1 for t, ln in thms if ln <= line]) - 1)
            elif m:
                failing = "dependency %s line %s" % (m.group(1), m.group(2))
            else:
                failing = "build failure"
            self.coverage["discharged"] = discharged
            return False, failing, log
        # Print Assumptions output
        with Lock("coq"):
            rc, o, e = sh(["coqc", "-Q", ".", "YV", "Props/%s.v" % propfile, "-o",
                           os.path.join(self.scratch, propfile + ".vo")], cwd=COQ, timeout=900)
        out = o + e
        if rc != 0:
            raise RuntimeError("coqc Props/%s.v failed: %s" % (propfile, out[-2000:]))
        closed = out.count("Closed under the global context")
        # axiom names as Print Assumptions lists them (one "Name : type" entry per axiom, types may span lines)
        ax_names = []
        for blk in re.findall(r"^Axioms:\n(.*?)(?=^Closed under|^Axioms:|\Z)", out, re.M | re.S):
            for nm in re.findall(r"^([A-Za-z_][\w.']*)\s*$|^([A-Za-z_][\w.']*) :", blk, re.M):
                n_ = nm[0] or nm[1]
                if n_ and n_ not in ax_names:
                    ax_names.append(n_)
        self.axioms = {"closed_under_global_context": closed, "axioms_used": ax_names}
        bad = [a for a in ax_names if a.split(".")[-1] not in STDLIB_AXIOMS]
        if bad:
            self.coverage["discharged"] = 0
            return False, "a property theorem depends on an axiom that is not one of the standard library's: %s" % bad, out[-3000:]
        self.coverage["discharged"] = len(thms)
        if self.tier == "thorough":
            # independent re-check of the compiled theorems and everything they depend on
            with Lock("coq"):
                rc, o, e = sh(["timeout", "2400", "coqchk", "-silent", "-o", "-Q", ".", "YV", "YV.Props.%s" % propfile], cwd=COQ, timeout=2500)
            out2 = o + e
            m = re.search(r"\* Axioms:(.*?)\n\s*\n\* Constants/Inductives relying on type-in-type:(.*?)\n", out2, re.S)
            self.axioms["coqchk"] = {"rc": rc, "axioms": m.group(1).strip() if m else "?", "type_in_type": m.group(2).strip() if m else "?"}
            self.coverage["checker_cmd"] += " + coqchk -silent -o YV.Props.%s" % propfile
            chk_axioms = [] if (m and m.group(1).strip() == "<none>") else ([x.strip() for x in m.group(1).split("\n") if x.strip()] if m else ["?"])
            self.axioms["coqchk"]["axioms_list"] = chk_axioms
            if rc != 0 or not m or any(a.split(".")[-1] not in STDLIB_AXIOMS for a in chk_axioms):
                self.coverage["discharged"] = 0
                return False, "coqchk (independent checker) rejects the development or reports axioms", out2[-3000:]
        return True, None, log

    def coq_eval(self, name, body, timeout=900, mem_kb=None):
        """Compile a scratch .v file against the development and return coqc's output.  With mem_kb the evaluator's address
        space is limited (an evaluation that decodes garbage to absurd sizes fails fast instead of exhausting the machine)."""
        path = os.path.join(self.scratch, name + ".v")
        with open(path, "w") as f:
            f.write(body)
        cmd = ["coqc", "-Q", COQ, "YV", path]
        if mem_kb:
            cmd = ["bash", "-c", "ulimit -v %d; exec coqc -Q %s YV %s" % (mem_kb, COQ, path)]
        rc, o, e = sh(cmd, cwd=self.scratch, timeout=timeout)
        if rc != 0:
            raise RuntimeError("coqc failed on %s:\n%s" % (path, (o + e)[-3000:]))
        return o

    @staticmethod
    def parse_nat_list(out, ident):
        """Parse `ident = [a; b; ...]` as printed by `Print ident.` / Eval."""
        flat = " ".join(out.split())
        m = re.search(re.escape(ident) + r"\s*=\s*(\[[^\]]*\]|nil)", flat)
        if not m:
            raise RuntimeError("cannot find %s in coq output: %s" % (ident, flat[:500]))
        body = m.group(1)
        if body == "nil" or body == "[]":
            return []
        return [int(x.strip().rstrip("%N").rstrip("%nat").rstrip("%Z")) for x in body.strip("[]").split(";") if x.strip()]

    # ------------------------------------------------------------------ findings / results
    def known(self, key):
        for f in self.kf.get("findings", []):
            if f["property"] == self.prop and f["key"] == key:
                return f
        return None

    def report(self, key, what, replay_obj, no_input=False):
        """A property failure (or a broken proof/correspondence).  Known findings are announced,
        everything else becomes a VIOLATION line."""
        f = self.known(key)
        if f is not None:
            if key not in self.known_printed:
                self.known_printed.append(key)
                print("KNOWN-FINDING: property=%s %s" % (self.prop, f["what"]))
            return
        if any(v["key"] == key for v in self.violations):
            return   # one replay per kind of failure is enough
        os.makedirs(os.path.join(VERIF, "replay"), exist_ok=True)
        n = len(self.violations)
        path = os.path.join(VERIF, "replay", "%s-%d.json" % (self.prop, n))
        with open(path, "w") as fh:
            json.dump({"property": self.prop, "key": key, "what": what, "seed": self.seed,
                       "tier": self.tier, "replay": replay_obj}, fh, indent=1, default=str)
        self.violations.append({"key": key, "what": what, "replay": path, "no_input": no_input})

    def finish(self, level="proof"):
        wall = time.time() - self.t0
        cov = dict(self.coverage)
        cov["distribution"] = self.dist
        cov["theorems"] = self.theorems
        cov["print_assumptions"] = self.axioms
        cov["known_findings_reproduced"] = self.known_printed
        if self.notes:
            cov["notes"] = self.notes
        ev = {"property_id": self.prop, "tier": self.tier, "seed": self.seed, "level": level,
              "coverage": cov, "assumptions": self.assumptions, "wall_s": round(wall, 2),
              "violations": len(self.violations)}
        os.makedirs(os.path.join(VERIF, "evidence"), exist_ok=True)
        with open(os.path.join(VERIF, "evidence", self.prop + ".json"), "w") as f:
            json.dump(ev, f, indent=1, default=str)
        concrete = [v["replay"] for v in self.violations if not v["no_input"]]
        for v in self.violations:
            if v["no_input"] and concrete:
                # the broken proof obligation comes with failing inputs found by the same run: name them in its replay
                try:
                    with open(v["replay"]) as fh:
                        r = json.load(fh)
                    r["failing_inputs_found_in"] = concrete
                    with open(v["replay"], "w") as fh:
                        json.dump(r, fh, indent=1, default=str)
                    v["no_input"] = False
                except OSError:
                    pass
        for v in self.violations:
            print("%s: %s" % (v["key"], v["what"]))
            print("VIOLATION property=%s replay=%s%s" % (self.prop, v["replay"],
                                                        " no-failing-input-found" if v["no_input"] else ""))
        sys.stdout.flush()
        return 1 if self.violations else 0


# ---------------------------------------------------------------------- Coq term printers
def coq_list(items):
    return "[" + "; ".join(items) + "]"


def coq_bytes(bs):
    return "[" + ";".join(str(b) for b in bs) + "]"


def coq_N(n):
    return "%d" % n


def coq_Z(z):
    return "(%d)%%Z" % z if z < 0 else "%d%%Z" % z
