# /verif build entry points (everything offline, from files on disk)
.PHONY: setup gen coq clean
setup: gen coq
gen:
	./harness/gen
coq:
	cd coq && coq_makefile -f _CoqProject -o Makefile && timeout 3000 $(MAKE) -j16
clean:
	cd coq && (test -f Makefile && $(MAKE) clean || true) && rm -f Makefile Makefile.conf .Makefile.d
