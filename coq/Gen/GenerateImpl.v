(* GENERATED on every run from tooling/internal/cmd/generatecommand.go:generateImpl by harness/lib/gentables.py. Do not edit. *)
From Coq Require Import List.
From YV Require Import Model.GenPhases.
Import ListNotations.

(* os.Getwd=KOther; packaging.LoadPackage=KLoad; updatePackageInfoFromArgs=KConfig; validatePackage=KValidate; cpp.Generate=KWrite; python.Generate=KWrite; outputJson=KWrite; matlab.Generate=KWrite *)
Definition generate_phases : list phase :=
  [(KOther, true); (KLoad, true); (KConfig, true); (KValidate, true); (KWrite, true); (KWrite, true); (KWrite, true); (KWrite, true)].
