(* GENERATED on every run by harness/lib/gentables.py (go/types inventory harness/go/sites). Do not edit. *)
From Coq Require Import List String.
Import ListNotations.
Open Scope string_scope.

(* every `for ... range m` over a map-typed m in /repo/tooling (non-test files): (file, function, expression) *)
Definition map_range_sites : list (string * string * string) :=
  [("pkg/dsl/evolution.go", "validateProtocolChanges", "changes");
   ("pkg/dsl/evolution.go", "resolveAllChanges", "allProtocolChanges");
   ("pkg/dsl/types.go", "Clone", "st");
   ("pkg/dsl/validation_enums.go", "validateEnums", "symbolsByVal");
   ("pkg/dsl/validation_type_resolution.go", "validateGenericParametersUsed", "usedTypeParameters");
   ("pkg/dsl/validation_unions.go", "validateUnionCases", "tags");
   ("internal/cpp/binary/binary.go", "collectUnionArities", "t.Versions");
   ("internal/cpp/binary/binary.go", "collectUnionArities", "arities");
   ("internal/cpp/binary/binary.go", "writeProtocolMethods", "p.Versions");
   ("internal/cpp/binary/binary.go", "writeChangeSwitchCase", "vs");
   ("internal/cpp/binary/binary.go", "writeChangeSwitchCase", "changes");
   ("internal/cpp/hdf5/innertypes.go", "collectUnionArities", "arities");
   ("internal/cmd/configargs.go", "updatePackageInfoFromArgs", "configArgs")].
