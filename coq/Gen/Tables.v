(* GENERATED on every run from /repo by harness/lib/gentables.py (hook `yardl-verif tables`). Do not edit. *)
From Coq Require Import NArith List String.
Import ListNotations.
From YV Require Import Model.Binary.
Open Scope N_scope.

(* dsl.GetCommonType on every pair of primitives (typefunctions.go:commonTypeMap) *)
Definition common_type (a b : prim) : option prim :=
  match a, b with
  | PBool, PBool => Some PBool
  | PInt8, PInt8 => Some PInt8
  | PInt8, PUint8 => Some PInt16
  | PInt8, PInt16 => Some PInt16
  | PInt8, PUint16 => Some PInt32
  | PInt8, PInt32 => Some PInt32
  | PInt8, PUint32 => Some PInt64
  | PInt8, PInt64 => Some PInt64
  | PInt8, PUint64 => Some PInt64
  | PInt8, PFloat32 => Some PFloat32
  | PInt8, PFloat64 => Some PFloat64
  | PInt8, PCFloat32 => Some PCFloat32
  | PInt8, PCFloat64 => Some PCFloat64
  | PUint8, PInt8 => Some PInt16
  | PUint8, PUint8 => Some PUint8
  | PUint8, PInt16 => Some PInt16
  | PUint8, PUint16 => Some PUint16
  | PUint8, PInt32 => Some PInt32
  | PUint8, PUint32 => Some PUint32
  | PUint8, PUint64 => Some PUint64
  | PUint8, PSize => Some PSize
  | PUint8, PFloat32 => Some PFloat32
  | PUint8, PFloat64 => Some PFloat64
  | PUint8, PCFloat32 => Some PCFloat32
  | PUint8, PCFloat64 => Some PCFloat64
  | PInt16, PInt8 => Some PInt16
  | PInt16, PUint8 => Some PInt16
  | PInt16, PInt16 => Some PInt16
  | PInt16, PUint16 => Some PInt32
  | PInt16, PInt32 => Some PInt32
  | PInt16, PUint32 => Some PInt64
  | PInt16, PInt64 => Some PInt64
  | PInt16, PFloat32 => Some PFloat32
  | PInt16, PFloat64 => Some PFloat64
  | PInt16, PCFloat32 => Some PCFloat32
  | PInt16, PCFloat64 => Some PCFloat64
  | PUint16, PInt8 => Some PInt32
  | PUint16, PUint8 => Some PUint16
  | PUint16, PInt16 => Some PInt32
  | PUint16, PUint16 => Some PUint16
  | PUint16, PInt32 => Some PInt32
  | PUint16, PUint32 => Some PUint32
  | PUint16, PUint64 => Some PUint64
  | PUint16, PSize => Some PSize
  | PUint16, PFloat32 => Some PFloat32
  | PUint16, PFloat64 => Some PFloat64
  | PUint16, PCFloat32 => Some PCFloat32
  | PUint16, PCFloat64 => Some PCFloat64
  | PInt32, PInt8 => Some PInt32
  | PInt32, PUint8 => Some PInt32
  | PInt32, PInt16 => Some PInt32
  | PInt32, PUint16 => Some PInt32
  | PInt32, PInt32 => Some PInt32
  | PInt32, PUint32 => Some PInt64
  | PInt32, PInt64 => Some PInt64
  | PInt32, PFloat32 => Some PFloat32
  | PInt32, PFloat64 => Some PFloat64
  | PInt32, PCFloat32 => Some PCFloat32
  | PInt32, PCFloat64 => Some PCFloat64
  | PUint32, PInt8 => Some PInt64
  | PUint32, PUint8 => Some PUint32
  | PUint32, PInt16 => Some PInt64
  | PUint32, PUint16 => Some PUint32
  | PUint32, PInt32 => Some PInt64
  | PUint32, PUint32 => Some PUint32
  | PUint32, PUint64 => Some PUint64
  | PUint32, PSize => Some PSize
  | PUint32, PFloat32 => Some PFloat32
  | PUint32, PFloat64 => Some PFloat64
  | PUint32, PCFloat32 => Some PCFloat32
  | PUint32, PCFloat64 => Some PCFloat64
  | PInt64, PInt8 => Some PInt64
  | PInt64, PInt16 => Some PInt64
  | PInt64, PInt32 => Some PInt64
  | PInt64, PInt64 => Some PInt64
  | PUint64, PInt8 => Some PInt64
  | PUint64, PUint8 => Some PUint64
  | PUint64, PUint16 => Some PUint64
  | PUint64, PUint32 => Some PUint64
  | PUint64, PUint64 => Some PUint64
  | PUint64, PSize => Some PSize
  | PUint64, PFloat32 => Some PFloat32
  | PUint64, PFloat64 => Some PFloat64
  | PUint64, PCFloat32 => Some PCFloat32
  | PUint64, PCFloat64 => Some PCFloat64
  | PSize, PUint8 => Some PSize
  | PSize, PUint16 => Some PSize
  | PSize, PUint32 => Some PSize
  | PSize, PUint64 => Some PSize
  | PSize, PSize => Some PSize
  | PSize, PFloat32 => Some PFloat32
  | PSize, PFloat64 => Some PFloat64
  | PSize, PCFloat32 => Some PCFloat32
  | PSize, PCFloat64 => Some PCFloat64
  | PFloat32, PInt8 => Some PFloat32
  | PFloat32, PUint8 => Some PFloat32
  | PFloat32, PInt16 => Some PFloat32
  | PFloat32, PUint16 => Some PFloat32
  | PFloat32, PInt32 => Some PFloat32
  | PFloat32, PUint32 => Some PFloat32
  | PFloat32, PUint64 => Some PFloat32
  | PFloat32, PSize => Some PFloat32
  | PFloat32, PFloat32 => Some PFloat32
  | PFloat32, PFloat64 => Some PFloat64
  | PFloat64, PInt8 => Some PFloat64
  | PFloat64, PUint8 => Some PFloat64
  | PFloat64, PInt16 => Some PFloat64
  | PFloat64, PUint16 => Some PFloat64
  | PFloat64, PInt32 => Some PFloat64
  | PFloat64, PUint32 => Some PFloat64
  | PFloat64, PUint64 => Some PFloat64
  | PFloat64, PSize => Some PFloat64
  | PFloat64, PFloat32 => Some PFloat64
  | PFloat64, PFloat64 => Some PFloat64
  | PCFloat32, PInt8 => Some PCFloat32
  | PCFloat32, PUint8 => Some PCFloat32
  | PCFloat32, PInt16 => Some PCFloat32
  | PCFloat32, PUint16 => Some PCFloat32
  | PCFloat32, PInt32 => Some PCFloat32
  | PCFloat32, PUint32 => Some PCFloat32
  | PCFloat32, PUint64 => Some PCFloat32
  | PCFloat32, PSize => Some PCFloat32
  | PCFloat32, PCFloat32 => Some PCFloat32
  | PCFloat32, PCFloat64 => Some PCFloat64
  | PCFloat64, PInt8 => Some PCFloat64
  | PCFloat64, PUint8 => Some PCFloat64
  | PCFloat64, PInt16 => Some PCFloat64
  | PCFloat64, PUint16 => Some PCFloat64
  | PCFloat64, PInt32 => Some PCFloat64
  | PCFloat64, PUint32 => Some PCFloat64
  | PCFloat64, PUint64 => Some PCFloat64
  | PCFloat64, PSize => Some PCFloat64
  | PCFloat64, PCFloat32 => Some PCFloat64
  | PCFloat64, PCFloat64 => Some PCFloat64
  | PString, PString => Some PString
  | PDate, PDate => Some PDate
  | PTime, PTime => Some PTime
  | PDateTime, PDateTime => Some PDateTime
  | _, _ => None
  end.

Definition prim_kind (p : prim) : N :=
  match p with
  | PBool => 3
  | PInt8 => 0
  | PUint8 => 0
  | PInt16 => 0
  | PUint16 => 0
  | PInt32 => 0
  | PUint32 => 0
  | PInt64 => 0
  | PUint64 => 0
  | PSize => 0
  | PFloat32 => 1
  | PFloat64 => 1
  | PCFloat32 => 2
  | PCFloat64 => 2
  | PString => 3
  | PDate => 3
  | PTime => 3
  | PDateTime => 3
  end.

Definition prim_width (p : prim) : N :=
  match p with
  | PBool => 0
  | PInt8 => 8
  | PUint8 => 8
  | PInt16 => 16
  | PUint16 => 16
  | PInt32 => 32
  | PUint32 => 32
  | PInt64 => 64
  | PUint64 => 64
  | PSize => 64
  | PFloat32 => 32
  | PFloat64 => 64
  | PCFloat32 => 32
  | PCFloat64 => 64
  | PString => 0
  | PDate => 0
  | PTime => 0
  | PDateTime => 0
  end.

Definition prim_signed (p : prim) : bool :=
  match p with
  | PBool => false
  | PInt8 => true
  | PUint8 => false
  | PInt16 => true
  | PUint16 => false
  | PInt32 => true
  | PUint32 => false
  | PInt64 => true
  | PUint64 => false
  | PSize => false
  | PFloat32 => true
  | PFloat64 => true
  | PCFloat32 => true
  | PCFloat64 => true
  | PString => false
  | PDate => false
  | PTime => false
  | PDateTime => false
  end.

(* ndjsoncommon.GetJsonDataType: bit set  1 null, 2 boolean, 4 number, 8 string, 16 array, 32 object *)
Definition json_kind_decl (p : prim) : N :=
  match p with
  | PBool => 2
  | PInt8 => 4
  | PUint8 => 4
  | PInt16 => 4
  | PUint16 => 4
  | PInt32 => 4
  | PUint32 => 4
  | PInt64 => 4
  | PUint64 => 4
  | PSize => 4
  | PFloat32 => 4
  | PFloat64 => 4
  | PCFloat32 => 16
  | PCFloat64 => 16
  | PString => 8
  | PDate => 12
  | PTime => 12
  | PDateTime => 12
  end.

(* GetJsonDataType on one representative of every other shape of type; a panic or a missing entry is kind 0 *)
Definition json_kind_enum : N := 12.
Definition json_kind_flags : N := 20.
Definition json_kind_record : N := 32.
Definition json_kind_generic_param : N := 32.
Definition json_kind_vector : N := 16.
Definition json_kind_fixed_vector : N := 16.
Definition json_kind_fixed_array : N := 16.
Definition json_kind_array : N := 32.
Definition json_kind_dyn_array : N := 32.
Definition json_kind_map_string : N := 32.
Definition json_kind_map_string_alias : N := 32.
Definition json_kind_map_other : N := 16.
Definition json_kind_alias_of_string : N := 8.
Definition json_kind_alias_of_vector : N := 16.

(* types.go:primitiveTypes aliases *)
Definition prim_aliases : list (String.string * prim) :=
  [("byte"%string, PUint8); ("int"%string, PInt32); ("uint"%string, PUint32); ("long"%string, PInt64); ("ulong"%string, PUint64); ("float"%string, PFloat32); ("double"%string, PFloat64); ("complexfloat"%string, PCFloat32); ("complexdouble"%string, PCFloat64)].

Definition max_import_recursion_depth : nat := 10.

Definition cpp_max_varint32_bytes : nat := 5.
Definition cpp_max_varint64_bytes : nat := 10.
Definition cpp_default_buffer_size : N := 65536.
Definition py_default_buffer_size : N := 65536.
Definition cpp_format_version : N := 1.
Definition py_format_version : N := 1.
Definition py_magic : list N := [121;97;114;100;108].
Definition cpp_magic : list N := [121;97;114;100;108].
