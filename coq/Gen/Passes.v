(* GENERATED on every run from tooling/pkg/dsl/validation*.go by harness/lib/gentables.py. Do not edit. *)
From Coq Require Import List String.
Import ListNotations.
Open Scope string_scope.

(* dsl.Validate: (pass, starts with the `errors already reported -> skip` guard) in execution order *)
Definition validation_passes : list (string * bool) :=
  [("validateTypeDefinitionNames", false);
   ("validateGenericTypeDefinitions", false);
   ("validateRecordFieldNames", false);
   ("validateProtocolSequenceNames", false);
   ("validateArrayAndVectorDimensions", false);
   ("validateMaps", false);
   ("validateStreams", false);
   ("buildSymbolTable", false);
   ("resolveTypes", false);
   ("assignUnionCaseTags", false);
   ("topologicalSortTypes", false);
   ("convertGenericReferences", true);
   ("validateResolvedMapKeys", true);
   ("validateUnionCases", true);
   ("validateEnums", true);
   ("resolveComputedFields", true);
   ("removeUnusedDeclarationPatterns", true);
   ("validateGenericParametersUsed", true)].
