(* GENERATED on every run from tooling/internal/{cpp,python,matlab}/common/common.go by harness/lib/gentables.py. Do not edit. *)
From Coq Require Import List String.
Import ListNotations.
Open Scope string_scope.

Definition cpp_reserved : list string :=
  ["__has_cpp_attribute"; "__has_include"; "_Pragma"; "alignas"; "alignof"; "and"; "and_eq"; "asm"; "atomic_cancel"; "atomic_commit"; "atomic_noexcept"; "auto"; "bitand"; "bitor"; "bool"; "break"; "case"; "catch"; "char"; "char16_t"; "char32_t"; "char8_t"; "class"; "co_await"; "co_return"; "co_yield"; "compl"; "concept"; "const"; "const_cast"; "consteval"; "constexpr"; "constinit"; "continue"; "decltype"; "default"; "define"; "defined"; "delete"; "do"; "double"; "dynamic_cast"; "elif"; "elifdef"; "elifndef"; "else"; "endif"; "enum"; "error"; "explicit"; "export"; "extern"; "false"; "final"; "float"; "for"; "friend"; "goto"; "if"; "ifdef"; "ifndef"; "import"; "include"; "inline"; "int"; "INT_FAST16_MAX"; "int_fast16_t"; "INT_FAST32_MAX"; "int_fast32_t"; "INT_FAST64_MAX"; "int_fast64_t"; "INT_FAST8_MAX"; "int_fast8_t"; "INT_FASTN_MAX"; "INT_FASTN_MIN"; "int_fastN_t"; "INT_LEAST16_MAX"; "int_least16_t"; "INT_LEAST32_MAX"; "int_least32_t"; "INT_LEAST64_MAX"; "int_least64_t"; "INT_LEAST8_MAX"; "int_least8_t"; "INT_LEASTN_MAX"; "INT_LEASTN_MIN"; "int_leastN_t"; "INT16_MAX"; "int16_t"; "INT32_MAX"; "int32_t"; "INT64_MAX"; "int64_t"; "INT8_MAX"; "int8_t"; "INTMAX_C"; "INTMAX_MAX"; "INTMAX_MIN"; "intmax_t"; "INTN_C"; "INTN_MAX"; "INTN_MIN"; "intN_t"; "INTPTR_MAX"; "INTPTR_MIN"; "intptr_t"; "line"; "long"; "module"; "mutable"; "namespace"; "new"; "noexcept"; "not"; "not_eq"; "nullptr"; "operator"; "or"; "or_eq"; "override"; "pragma"; "private"; "protected"; "PTRDIFF_MAX"; "PTRDIFF_MIN"; "public"; "reflexpr"; "register"; "reinterpret_cast"; "requires"; "return"; "short"; "SIG_ATOMIC_MAX"; "SIG_ATOMIC_MIN"; "signed"; "SIZE_MAX"; "sizeof"; "static"; "static_assert"; "static_cast"; "std"; "struct"; "switch"; "synchronized"; "yardl"; "template"; "this"; "thread_local"; "throw"; "transaction_safe"; "transaction_safe_dynamic"; "true"; "try"; "typedef"; "typeid"; "typename"; "UINT_FAST16_MAX"; "uint_fast16_t"; "UINT_FAST32_MAX"; "uint_fast32_t"; "UINT_FAST64_MAX"; "uint_fast64_t"; "UINT_FAST8_MAX"; "uint_fast8_t"; "UINT_FASTN_MAX"; "uint_fastN_t"; "UINT_LEAST16_MAX"; "uint_least16_t"; "UINT_LEAST32_MAX"; "uint_least32_t"; "UINT_LEAST64_MAX"; "uint_least64_t"; "UINT_LEAST8_MAX"; "uint_least8_t"; "UINT_LEASTN_MAX"; "uint_leastN_t"; "UINT16_MAX"; "uint16_t"; "UINT32_MAX"; "uint32_t"; "UINT64_MAX"; "uint64_t"; "UINT8_MAX"; "uint8_t"; "UINTMAX_C"; "UINTMAX_MAX"; "uintmax_t"; "UINTN_C"; "UINTN_MAX"; "uintN_t"; "UINTPTR_MAX"; "uintptr_t"; "undef"; "union"; "unsigned"; "using"; "virtual"; "void"; "volatile"; "warning"; "WCHAR_MAX"; "WCHAR_MIN"; "wchar_t"; "while"; "WINT_MAX"; "WINT_MIN"; "xor"; "xor_eq"].
(* cpp field: casing formatting.ToSnakeCase(name), reserved check on the cased *)
Definition cpp_field_suffix : string := "_field".
Definition cpp_field_checks_cased : bool := true.
(* cpp computed: casing formatting.ToPascalCase(name), reserved check on the cased *)
Definition cpp_computed_suffix : string := "_field".
Definition cpp_computed_checks_cased : bool := true.
(* cpp enum_value: casing fmt.Sprintf("k%s", formatting.ToPascalCase(name)), reserved check on the cased *)
Definition cpp_enum_value_suffix : string := "_value".
Definition cpp_enum_value_checks_cased : bool := true.
(* cpp type: casing name, reserved check on the cased *)
Definition cpp_type_suffix : string := "_Type".
Definition cpp_type_checks_cased : bool := true.

Definition python_reserved : list string :=
  ["False"; "None"; "True"; "and"; "as"; "assert"; "async"; "await"; "break"; "class"; "continue"; "def"; "del"; "elif"; "else"; "except"; "finally"; "for"; "from"; "global"; "if"; "import"; "in"; "is"; "lambda"; "nonlocal"; "not"; "or"; "pass"; "raise"; "return"; "try"; "while"; "with"; "yield"; "case"; "match"; "bool"; "int"; "float"; "complex"; "str"; "self"].
(* python field: casing formatting.ToSnakeCase(name), reserved check on the cased *)
Definition python_field_suffix : string := "_".
Definition python_field_checks_cased : bool := true.
(* python computed: casing formatting.ToSnakeCase(name), reserved check on the cased *)
Definition python_computed_suffix : string := "_".
Definition python_computed_checks_cased : bool := true.
(* python enum_value: casing formatting.ToUpperSnakeCase(name), reserved check on the cased *)
Definition python_enum_value_suffix : string := "_".
Definition python_enum_value_checks_cased : bool := true.
(* python type: casing name, reserved check on the cased *)
Definition python_type_suffix : string := "_".
Definition python_type_checks_cased : bool := true.

Definition matlab_reserved : list string :=
  ["break"; "case"; "catch"; "classdef"; "continue"; "else"; "elseif"; "end"; "for"; "function"; "global"; "if"; "otherwise"; "parfor"; "persistent"; "return"; "spmd"; "switch"; "try"; "while"].
(* matlab field: casing formatting.ToSnakeCase(name), reserved check on the cased *)
Definition matlab_field_suffix : string := "_".
Definition matlab_field_checks_cased : bool := true.
(* matlab computed: casing formatting.ToSnakeCase(name), reserved check on the name *)
Definition matlab_computed_suffix : string := "_".
Definition matlab_computed_checks_cased : bool := false.
(* matlab enum_value: casing formatting.ToUpperSnakeCase(name), reserved check on the cased *)
Definition matlab_enum_value_suffix : string := "_".
Definition matlab_enum_value_checks_cased : bool := true.
(* matlab type: casing name, reserved check on the cased *)
Definition matlab_type_suffix : string := "_".
Definition matlab_type_checks_cased : bool := true.
