(* GENERATED on every run by harness/lib/gentables.py (go/types + go/ast inventory harness/go/visitor). Do not edit. *)
From Coq Require Import List String.
Import ListNotations.
Open Scope string_scope.

(* every struct of pkg/dsl that implements dsl.Node, with the fields whose type can hold Nodes *)
Definition node_fields : list (string * list string) :=
  [("Array", ["Dimensions"; "NodeMeta"]);
   ("ArrayDimension", ["NodeMeta"]);
   ("BinaryExpression", ["Left"; "NodeMeta"; "ResolvedType"; "Right"]);
   ("ComputedField", ["Expression"; "NodeMeta"]);
   ("DeclarationPattern", ["TypePattern"]);
   ("DefinitionMeta", ["NodeMeta"; "TypeArguments"; "TypeParameters"]);
   ("DiscardPattern", ["NodeMeta"]);
   ("EnumDefinition", ["BaseType"; "DefinitionMeta"; "Values"]);
   ("EnumValue", ["NodeMeta"]);
   ("Environment", ["Namespaces"]);
   ("Field", ["NodeMeta"; "Type"]);
   ("FloatingPointLiteralExpression", ["NodeMeta"; "ResolvedType"]);
   ("FunctionCallExpression", ["Arguments"; "NodeMeta"; "ResolvedType"]);
   ("GeneralizedType", ["Cases"; "Dimensionality"; "NodeMeta"]);
   ("GenericTypeParameter", ["NodeMeta"]);
   ("IntegerLiteralExpression", ["NodeMeta"; "ResolvedType"]);
   ("Map", ["KeyType"; "NodeMeta"]);
   ("MemberAccessExpression", ["NodeMeta"; "ResolvedType"; "Target"]);
   ("NamedType", ["DefinitionMeta"; "Type"]);
   ("Namespace", ["DefinitionChanges"; "Protocols"; "References"; "TypeDefinitions"]);
   ("NodeMeta", []);
   ("ProtocolDefinition", ["DefinitionMeta"; "Sequence"]);
   ("ProtocolStep", ["NodeMeta"; "Type"]);
   ("RecordDefinition", ["ComputedFields"; "DefinitionMeta"; "Fields"]);
   ("SimpleType", ["NodeMeta"; "ResolvedDefinition"; "TypeArguments"]);
   ("Stream", ["NodeMeta"]);
   ("StringLiteralExpression", ["NodeMeta"; "ResolvedType"]);
   ("SubscriptArgument", ["NodeMeta"; "Value"]);
   ("SubscriptExpression", ["Arguments"; "NodeMeta"; "ResolvedType"; "Target"]);
   ("SwitchCase", ["Expression"; "NodeMeta"; "Pattern"]);
   ("SwitchExpression", ["Cases"; "NodeMeta"; "ResolvedType"; "Target"]);
   ("TypeCase", ["NodeMeta"; "Type"]);
   ("TypeConversionExpression", ["Expression"; "NodeMeta"; "Type"]);
   ("TypePattern", ["NodeMeta"; "Type"]);
   ("UnaryExpression", ["Expression"; "NodeMeta"]);
   ("Vector", ["NodeMeta"])].

(* the fields each case of the type switch in VisitChildren touches *)
Definition visit_children_cases : list (string * list string) :=
  [("Array", ["Dimensions"; "HasKnownNumberOfDimensions"]);
   ("ArrayDimension", []);
   ("BinaryExpression", ["Left"; "Right"]);
   ("ComputedField", ["Expression"]);
   ("DeclarationPattern", ["TypePattern"]);
   ("DefinitionMeta", []);
   ("DiscardPattern", []);
   ("EnumDefinition", ["BaseType"; "DefinitionMeta"; "Values"]);
   ("EnumValue", []);
   ("Environment", ["Namespaces"]);
   ("Field", ["Type"]);
   ("FloatingPointLiteralExpression", []);
   ("FunctionCallExpression", ["Arguments"]);
   ("GeneralizedType", ["Cases"; "Dimensionality"]);
   ("GenericTypeParameter", []);
   ("IntegerLiteralExpression", []);
   ("Map", ["KeyType"]);
   ("MemberAccessExpression", ["Target"]);
   ("NamedType", ["DefinitionMeta"; "Type"]);
   ("Namespace", ["Protocols"; "TypeDefinitions"]);
   ("ProtocolDefinition", ["DefinitionMeta"; "Sequence"]);
   ("ProtocolStep", ["Type"]);
   ("RecordDefinition", ["ComputedFields"; "DefinitionMeta"; "Fields"]);
   ("SimpleType", ["TypeArguments"]);
   ("Stream", []);
   ("StringLiteralExpression", []);
   ("SubscriptExpression", ["Arguments"; "Target"]);
   ("SwitchCase", ["Expression"; "Pattern"]);
   ("SwitchExpression", ["Cases"; "Target"]);
   ("TypeCase", ["IsNullType"; "Type"]);
   ("TypeConversionExpression", ["Expression"; "Type"]);
   ("TypePattern", ["Type"]);
   ("UnaryExpression", ["Expression"]);
   ("Vector", []);
   ("Dimensionality", []);
   ("PrimitiveDefinition", [])].

(* the fields each case of the type switch in DefaultRewrite touches *)
Definition default_rewrite_cases : list (string * list string) :=
  [("Array", ["Dimensions"]);
   ("ArrayDimension", []);
   ("BinaryExpression", ["Left"; "Right"]);
   ("ComputedField", ["Expression"]);
   ("DeclarationPattern", ["TypePattern"]);
   ("DefinitionMeta", []);
   ("DiscardPattern", []);
   ("EnumDefinition", ["BaseType"; "DefinitionMeta"; "Values"]);
   ("EnumValue", []);
   ("Environment", ["Namespaces"]);
   ("Field", ["Type"]);
   ("FloatingPointLiteralExpression", []);
   ("FunctionCallExpression", ["Arguments"]);
   ("GeneralizedType", ["Cases"; "Dimensionality"]);
   ("GenericTypeParameter", []);
   ("IntegerLiteralExpression", []);
   ("Map", ["KeyType"]);
   ("MemberAccessExpression", ["Target"]);
   ("NamedType", ["DefinitionMeta"; "Type"]);
   ("Namespace", ["Protocols"; "TypeDefinitions"]);
   ("ProtocolDefinition", ["DefinitionMeta"; "Sequence"]);
   ("ProtocolStep", ["Type"]);
   ("RecordDefinition", ["ComputedFields"; "DefinitionMeta"; "Fields"]);
   ("SimpleType", ["TypeArguments"]);
   ("Stream", []);
   ("StringLiteralExpression", []);
   ("SubscriptArgument", ["Value"]);
   ("SubscriptExpression", ["Arguments"; "Target"]);
   ("SwitchCase", ["Expression"; "Pattern"]);
   ("SwitchExpression", ["Cases"; "Target"]);
   ("TypeCase", ["IsNullType"; "Type"]);
   ("TypeConversionExpression", ["Expression"; "Type"]);
   ("TypePattern", ["Type"]);
   ("UnaryExpression", ["Expression"]);
   ("Vector", []);
   ("Dimensionality", []);
   ("PrimitiveDefinition", [])].
