(* GENERATED on every run from tooling/internal/cmd/generatecommand.go by harness/lib/gentables.py. Do not edit. *)

(* regenerations hold one mutex from start to end *)
Definition watch_serialized : bool := true.
(* every event re-arms one timer whose expiry starts a regeneration *)
Definition watch_debounced : bool := true.
(* one regeneration runs before the event loop starts *)
Definition watch_initial_run : bool := true.
(* a panic inside a regeneration is recovered *)
Definition watch_recovers_panics : bool := true.
Definition watch_debounce_ms : nat := 5.
