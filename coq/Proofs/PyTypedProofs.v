(* The typed Python writers over the coded stream: the bytes the calls denote are the Python encoding of the value, so (by
   the refinement of the buffered writer) what reaches the underlying stream is that encoding for every buffer size; generated
   code never stores a byte without having reserved room for it. *)
From Coq Require Import List NArith ZArith Bool Lia Arith.
From Coq Require Import ZifyBool ZifyN ZifyNat.
From YV Require Import Base.Wire Proofs.WireProofs Model.Binary Proofs.BinaryProofs Model.CodedCpp Model.CodedPy
  Proofs.CodedPyOut Model.PyTyped.
Import ListNotations.
Open Scope N_scope.

Definition obytes (ops : list pwop) : list N := concat (map pwbytes ops).

Lemma obytes_app : forall a b, obytes (a ++ b) = obytes a ++ obytes b.
Proof. intros. unfold obytes. rewrite map_app, concat_app. reflexivity. Qed.

Lemma obytes_cons : forall op r, obytes (op :: r) = pwbytes op ++ obytes r.
Proof. reflexivity. Qed.

Lemma obytes_concat_map : forall (f : val -> list pwop) (g : val -> list N) xs,
  Forall (fun x => obytes (f x) = g x) xs -> obytes (concat (map f xs)) = concat (map g xs).
Proof.
  intros f g xs H. induction H as [|x xs Hx Hxs IH]; [reflexivity|].
  cbn [map concat]. rewrite obytes_app, Hx, IH. reflexivity.
Qed.

Lemma obytes_vars : forall sh, obytes (map PWVar sh) = concat (map venc sh).
Proof. induction sh as [|d sh IH]; [reflexivity|]. cbn [map]. rewrite obytes_cons, IH. reflexivity. Qed.

Lemma to_unsigned_8_lt : forall z, to_unsigned 8 z < 256.
Proof.
  intros z. unfold to_unsigned. change (Z.of_N 8) with 8%Z. change (2 ^ 8)%Z with 256%Z.
  pose proof (Z.mod_pos_bound z 256 ltac:(lia)). lia.
Qed.

Lemma le_enc_1 : forall x, x < 256 -> le_enc 1 x = [x].
Proof. intros x H. cbn [le_enc]. rewrite N.mod_small by assumption. reflexivity. Qed.

Lemma le_enc_split : forall a b x y, x < 256 ^ N.of_nat a ->
  le_enc (a + b) (x + 256 ^ N.of_nat a * y) = le_enc a x ++ le_enc b y.
Proof.
  induction a as [|a IH]; intros b x y Hx.
  - cbn [Nat.add le_enc app]. change (256 ^ N.of_nat 0) with 1 in *. assert (x = 0) by lia. subst x. f_equal. lia.
  - rewrite Nat2N.inj_succ, N.pow_succ_r' in *. cbn [Nat.add le_enc app].
    set (P := 256 ^ N.of_nat a) in *.
    assert (HP : 0 < P) by (apply N.neq_0_lt_0, N.pow_nonzero; lia).
    assert (E1 : (x + 256 * P * y) mod 256 = x mod 256).
    { replace (x + 256 * P * y) with (x + (P * y) * 256) by lia. apply N.mod_add. lia. }
    assert (E2 : (x + 256 * P * y) / 256 = x / 256 + P * y).
    { replace (x + 256 * P * y) with (x + (P * y) * 256) by lia. apply N.div_add. lia. }
    rewrite E1, E2. f_equal. apply IH.
    apply N.div_lt_upper_bound; lia.
Qed.

Lemma int_ops_bytes : forall p z, obytes (py_int_ops p z) = enc_int p z.
Proof.
  intros p z. unfold py_int_ops, enc_int. destruct (int_width p) as [[s w]|]; [|reflexivity].
  destruct (w <=? 8).
  - cbn. rewrite N.mod_small by apply to_unsigned_8_lt. reflexivity.
  - destruct s; cbn; rewrite app_nil_r; reflexivity.
Qed.

Lemma prim_ops_bytes : forall p v, prim_ok p v = true -> obytes (py_prim_ops p v) = enc_prim enc_int p v.
Proof.
  intros p v H.
  destruct p; destruct v; cbn [prim_ok] in H; try discriminate; cbn [py_prim_ops enc_prim];
    try apply int_ops_bytes; unfold obytes; cbn [map concat pwbytes]; rewrite ?app_nil_r; try reflexivity.
  - (* complexfloat32 *) apply andb_true_iff in H. destruct H as [H1 H2].
    change 8%nat with (4 + 4)%nat. change (2 ^ 32) with (256 ^ N.of_nat 4). apply le_enc_split.
    change (256 ^ N.of_nat 4) with (2 ^ 32). lia.
  - (* complexfloat64 *) apply andb_true_iff in H. destruct H as [H1 H2].
    change 16%nat with (8 + 8)%nat. change (2 ^ 64) with (256 ^ N.of_nat 8). apply le_enc_split.
    change (256 ^ N.of_nat 8) with (2 ^ 64). lia.
Qed.

Definition PB (t : ty) : Prop := forall v, has_type t v = true -> obytes (py_wops t v) = enc_py t v.

Lemma items_bytes : forall e xs, PB e -> forallb (has_type e) xs = true ->
  obytes (concat (map (py_wops e) xs)) = concat (map (enc_py e) xs).
Proof.
  intros e xs IH H. apply obytes_concat_map. apply Forall_forall. intros x Hin.
  rewrite forallb_forall in H. apply IH, H, Hin.
Qed.

Lemma data_bytes : forall e xs, PB e -> forallb (has_type e) xs = true ->
  obytes (if py_fast e then [PWDirect (concat (map (enc_py e) xs))] else concat (map (py_wops e) xs))
  = concat (map (enc_py e) xs).
Proof.
  intros e xs IH H. destruct (py_fast e).
  - cbn. rewrite app_nil_r. reflexivity.
  - apply items_bytes; assumption.
Qed.

Theorem py_wops_bytes : forall t, PB t.
Proof.
  apply ty_ind'; unfold PB.
  - intros p v H. cbn [has_type] in H. cbn [py_wops]. unfold enc_py. cbn [enc_with]. apply prim_ops_bytes. assumption.
  - intros b v H. destruct v; cbn [has_type] in H; try discriminate. cbn [py_wops]. unfold enc_py. cbn [enc_with]. apply int_ops_bytes.
  - intros e IH v H. destruct v; cbn [has_type] in H; try discriminate; cbn [py_wops]; unfold enc_py in *; cbn [enc_with].
    + reflexivity.
    + rewrite obytes_cons. cbn [pwbytes app]. rewrite (IH v H). reflexivity.
  - intros hn cs IH v H. destruct v; cbn [has_type] in H; try discriminate; cbn [py_wops]; unfold enc_py in *; cbn [enc_with].
    + reflexivity.
    + rewrite obytes_cons. cbn [pwbytes app]. f_equal.
      revert i H. induction IH as [|c cs Hc Hcs IHcs]; intros i H; cbn [pick] in *; [discriminate|].
      destruct (i =? 0); [apply Hc; assumption|apply IHcs; assumption].
  - intros e IH v H. destruct v; cbn [has_type] in H; try discriminate. cbn [py_wops]. unfold enc_py in *. cbn [enc_with].
    rewrite obytes_cons. cbn [pwbytes]. f_equal. apply items_bytes; assumption.
  - intros n e IH v H. destruct v; cbn [has_type] in H; try discriminate. apply andb_true_iff in H. destruct H as [_ H].
    cbn [py_wops]. unfold enc_py in *. cbn [enc_with]. apply items_bytes; assumption.
  - intros r e IH v H. destruct v; cbn [has_type] in H; try discriminate.
    apply andb_true_iff in H. destruct H as [_ H].
    cbn [py_wops]. unfold enc_py in *. cbn [enc_with]. rewrite obytes_app, obytes_vars. f_equal. apply data_bytes; assumption.
  - intros d e IH v H. destruct v; cbn [has_type] in H; try discriminate.
    apply andb_true_iff in H. destruct H as [_ H].
    cbn [py_wops]. unfold enc_py in *. cbn [enc_with]. apply data_bytes; assumption.
  - intros e IH v H. destruct v; cbn [has_type] in H; try discriminate.
    apply andb_true_iff in H. destruct H as [_ H].
    cbn [py_wops]. unfold enc_py in *. cbn [enc_with]. rewrite obytes_cons, obytes_app, obytes_vars. cbn [pwbytes].
    f_equal. f_equal. apply data_bytes; assumption.
  - intros k e IHk IHe v H. destruct v; cbn [has_type] in H; try discriminate.
    cbn [py_wops]. unfold enc_py in *. cbn [enc_with]. rewrite obytes_cons. cbn [pwbytes]. f_equal.
    induction kvs as [|[a b] kvs IHl]; [reflexivity|]. cbn [forallb fst snd] in H.
    apply andb_true_iff in H. destruct H as [H1 H2]. apply andb_true_iff in H1. destruct H1 as [Ha Hb].
    cbn [map concat fst snd]. rewrite !obytes_app, (IHk a Ha), (IHe b Hb), (IHl H2). reflexivity.
  - intros fs IH v H. destruct v; cbn [has_type] in H; try discriminate.
    cbn [py_wops]. unfold enc_py in *. cbn [enc_with].
    revert vs H. induction IH as [|f fs Hf Hfs IHfs]; intros vs H; destruct vs as [|x xs]; cbn [all2] in H; try discriminate;
      cbn [ops_fields enc_fields]; [reflexivity|].
    apply andb_true_iff in H. destruct H as [Hx Hxs]. rewrite obytes_app, (Hf x Hx), (IHfs xs Hxs). reflexivity.
Qed.

(* the typed writer through the buffered stream: for ANY buffer size, if no exception is raised, what reaches the
   underlying stream is the Python encoding of the value *)
Theorem py_typed_writer_bytes : forall bufsize t v chunks, has_type t v = true ->
  pwfinish bufsize (py_wops t v) = PWOk chunks -> concat chunks = enc_py t v.
Proof.
  intros bufsize t v chunks Ht H. rewrite (py_writer_no_loss bufsize _ _ H). apply (py_wops_bytes t v Ht).
Qed.

(* generated code never stores a byte it has not reserved room for *)
Definition guarded (op : pwop) : bool := match op with PWByteNC _ => false | _ => true end.

Lemma guarded_concat_map : forall (f : val -> list pwop) xs,
  Forall (fun x => forallb guarded (f x) = true) xs -> forallb guarded (concat (map f xs)) = true.
Proof.
  intros f xs H. induction H as [|x xs Hx Hxs IH]; [reflexivity|]. cbn [map concat]. rewrite forallb_app, Hx, IH. reflexivity.
Qed.

Theorem py_wops_guarded : forall t v, forallb guarded (py_wops t v) = true.
Proof.
  apply (ty_ind' (fun t => forall v, forallb guarded (py_wops t v) = true)).
  - intros p v. cbn [py_wops]. destruct p; destruct v; cbn [py_prim_ops]; try reflexivity;
      unfold py_int_ops; cbn [int_width]; repeat match goal with |- context [if ?c then _ else _] => destruct c end; reflexivity.
  - intros b v. destruct v; cbn [py_wops]; try reflexivity. unfold py_int_ops. destruct (int_width b) as [[s w]|]; [|reflexivity].
    destruct (w <=? 8); [reflexivity|]. destruct s; reflexivity.
  - intros e IH v. destruct v; cbn [py_wops]; try reflexivity. cbn [forallb guarded]. apply IH.
  - intros hn cs IH v. destruct v; cbn [py_wops]; try reflexivity. cbn [forallb guarded andb].
    revert i. induction IH as [|c cs Hc Hcs IHcs]; intros i; cbn [pick]; [reflexivity|]. destruct (i =? 0); [apply Hc|apply IHcs].
  - intros e IH v. destruct v; cbn [py_wops]; try reflexivity. cbn [forallb guarded andb].
    apply guarded_concat_map. apply Forall_forall. intros x _. apply IH.
  - intros n e IH v. destruct v; cbn [py_wops]; try reflexivity.
    apply guarded_concat_map. apply Forall_forall. intros x _. apply IH.
  - intros r e IH v. destruct v; cbn [py_wops]; try reflexivity. rewrite forallb_app.
    assert (Hd : forallb guarded (map PWVar shape) = true) by (induction shape; [reflexivity|assumption]).
    rewrite Hd. destruct (py_fast e); [reflexivity|]. apply guarded_concat_map. apply Forall_forall. intros x _. apply IH.
  - intros d e IH v. destruct v; cbn [py_wops]; try reflexivity.
    destruct (py_fast e); [reflexivity|]. apply guarded_concat_map. apply Forall_forall. intros x _. apply IH.
  - intros e IH v. destruct v; cbn [py_wops]; try reflexivity. cbn [forallb guarded andb]. rewrite forallb_app.
    assert (Hd : forallb guarded (map PWVar shape) = true) by (induction shape; [reflexivity|assumption]).
    rewrite Hd. destruct (py_fast e); [reflexivity|]. apply guarded_concat_map. apply Forall_forall. intros x _. apply IH.
  - intros k e IHk IHe v. destruct v; cbn [py_wops]; try reflexivity. cbn [forallb guarded andb].
    induction kvs as [|[a b] kvs IHl]; [reflexivity|]. cbn [map concat fst snd]. rewrite !forallb_app, IHk, IHe, IHl. reflexivity.
  - intros fs IH v. destruct v; cbn [py_wops]; try reflexivity.
    revert vs. induction IH as [|f fs Hf Hfs IHfs]; intros vs; destruct vs as [|x xs]; cbn [ops_fields]; try reflexivity.
    rewrite forallb_app, Hf, IHfs. reflexivity.
Qed.

(* ---------- stream steps ---------- *)
(* the blocks a sequence of write calls produces: a non-empty list is one block, an iterable one block per item *)
Definition blocks_of (bs : list py_batch) : list (list val) :=
  concat (map (fun b => match b with BList xs => [xs] | BIter xs => map (fun x => [x]) xs end) bs).

Definition py_block (t : ty) (b : list val) : list N := venc (N.of_nat (length b)) ++ concat (map (enc_py t) b).

Lemma iter_bytes : forall t xs, forallb (has_type t) xs = true ->
  obytes (concat (map (fun x => PWByte 1 :: py_wops t x) xs)) = concat (map (py_block t) (map (fun x => [x]) xs)).
Proof.
  intros t xs H. induction xs as [|x xs IH]; [reflexivity|]. cbn [forallb] in H. apply andb_true_iff in H. destruct H as [Hx Hxs].
  cbn [map concat]. rewrite obytes_app, obytes_cons, (py_wops_bytes t x Hx), (IH Hxs).
  unfold py_block. cbn [length map concat pwbytes app]. rewrite app_nil_r. reflexivity.
Qed.

(* a stream step written in ANY grouping of lists and iterables: the blocks of the groups (empty lists leave no trace),
   then the end marker *)
Theorem py_stream_bytes : forall t bs,
  forallb (fun b => match b with BList xs | BIter xs => forallb (has_type t) xs end) bs = true ->
  obytes (py_stream_ops t bs) = concat (map (py_block t) (filter nonempty (blocks_of bs))) ++ [0].
Proof.
  intros t bs H. unfold py_stream_ops. rewrite obytes_app. f_equal.
  induction bs as [|b bs IH]; [reflexivity|]. cbn [forallb] in H. apply andb_true_iff in H. destruct H as [Hb Hbs].
  unfold blocks_of in *. cbn [map concat]. rewrite obytes_app, (IH Hbs), filter_app, map_app, concat_app. f_equal.
  destruct b as [[|x xs]|xs]; cbn [batch_ops].
  - reflexivity.
  - cbn [filter nonempty]. remember (x :: xs) as l eqn:El. cbn [map concat]. rewrite app_nil_r. unfold py_block.
    rewrite obytes_cons. cbn [pwbytes]. f_equal.
    apply items_bytes; [apply py_wops_bytes|assumption].
  - rewrite (iter_bytes t xs Hb). f_equal.
    clear. induction xs as [|x xs IHx]; [reflexivity|]. cbn [map filter nonempty]. f_equal. apply IHx.
Qed.
