(* Computed fields: symmetry of static typing, the promotion rule behind the table, agreement of the
   C++ and Python evaluations with mathematics where nothing overflows. *)
From Coq Require Import List NArith ZArith Bool Lia.
From Coq Require Import ZifyBool ZifyN.
From YV Require Import Base.Wire Model.Binary Gen.Tables Model.Expr.
Import ListNotations.
Open Scope Z_scope.

Definition all_prims : list prim :=
  [PBool; PInt8; PUint8; PInt16; PUint16; PInt32; PUint32; PInt64; PUint64; PSize;
   PFloat32; PFloat64; PCFloat32; PCFloat64; PString; PDate; PTime; PDateTime].

Lemma all_prims_complete : forall p, In p all_prims.
Proof. destruct p; cbn; tauto. Qed.

Definition prim_eqb (a b : prim) : bool :=
  match a, b with
  | PBool, PBool | PInt8, PInt8 | PUint8, PUint8 | PInt16, PInt16 | PUint16, PUint16 | PInt32, PInt32
  | PUint32, PUint32 | PInt64, PInt64 | PUint64, PUint64 | PSize, PSize | PFloat32, PFloat32
  | PFloat64, PFloat64 | PCFloat32, PCFloat32 | PCFloat64, PCFloat64 | PString, PString | PDate, PDate
  | PTime, PTime | PDateTime, PDateTime => true
  | _, _ => false
  end.
Lemma prim_eqb_eq : forall a b, prim_eqb a b = true -> a = b.
Proof. destruct a; destruct b; cbn; intros; congruence. Qed.
Definition oprim_eqb (a b : option prim) : bool :=
  match a, b with Some x, Some y => prim_eqb x y | None, None => true | _, _ => false end.
Lemma oprim_eqb_eq : forall a b, oprim_eqb a b = true -> a = b.
Proof. destruct a; destruct b; cbn; intros; try congruence. f_equal. apply prim_eqb_eq. assumption. Qed.

(* finite-domain statements are decided by complete enumeration (18 x 18 pairs) and lifted *)
Lemma forall_pairs : forall (P : prim -> prim -> bool),
  forallb (fun a => forallb (P a) all_prims) all_prims = true -> forall a b, P a b = true.
Proof.
  intros P H a b. rewrite forallb_forall in H. specialize (H a (all_prims_complete a)).
  rewrite forallb_forall in H. apply H, all_prims_complete.
Qed.

Theorem common_type_symmetric : forall a b, common_type a b = common_type b a.
Proof.
  intros a b. apply oprim_eqb_eq.
  apply (forall_pairs (fun a b => oprim_eqb (common_type a b) (common_type b a))). vm_compute. reflexivity.
Qed.

Theorem bin_type_symmetric : forall o a b, bin_type o a b = bin_type o b a.
Proof.
  intros o a b. unfold bin_type. rewrite (common_type_symmetric a b). rewrite (andb_comm (numeric_kind a)). reflexivity.
Qed.

Theorem infer_operand_order : forall env o a b, infer env (EBin o a b) = infer env (EBin o b a).
Proof.
  intros env o a b. cbn [infer]. destruct (infer env a) as [ta|]; destruct (infer env b) as [tb|]; try reflexivity.
  apply bin_type_symmetric.
Qed.

(* ---------- the rule behind the table ---------- *)

(* the smallest type of the wider kind that contains both operand types; None where no such
   primitive exists (e.g. int64 with any unsigned type) *)
Definition unsigned_int (p : prim) : bool := is_int_prim p && negb (prim_signed p).
Definition signed_of_width (w : N) : option prim :=
  match w with 8%N => Some PInt8 | 16%N => Some PInt16 | 32%N => Some PInt32 | 64%N => Some PInt64 | _ => None end.

Definition promote_rule (a b : prim) : option prim :=
  if prim_eqb a b then Some a
  else if negb (numeric_kind a && numeric_kind b) then None
  else
    let ka := prim_kind a in let kb := prim_kind b in
    if (ka =? 0)%N && (kb =? 0)%N then
      (* two integers *)
      if Bool.eqb (prim_signed a) (prim_signed b) then
        (* same signedness: the wider one (size counts as the widest unsigned) *)
        if (prim_width a <? prim_width b)%N then Some b
        else if (prim_width b <? prim_width a)%N then Some a
        else Some PSize            (* uint64 with size *)
      else
        (* mixed: the signed type strictly wider than the unsigned operand, and at least as wide as the signed one *)
        let s := if prim_signed a then a else b in
        let u := if prim_signed a then b else a in
        if (prim_width u <? prim_width s)%N then Some s else signed_of_width (2 * prim_width u)
    else if (ka =? 2)%N || (kb =? 2)%N then
      (* complex with a narrower or equal real kind: complex of the wider width *)
      let c := if (ka =? 2)%N then a else b in
      let r := if (ka =? 2)%N then b else a in
      if (prim_kind r =? 2)%N then (if (prim_width a <? prim_width b)%N then Some b else Some a)
      else if (prim_kind r =? 0)%N then Some c
      else if (prim_width r <=? prim_width c)%N then Some c else Some PCFloat64
    else
      (* floating point with integer or floating point *)
      if (ka =? 1)%N && (kb =? 1)%N then (if (prim_width a <? prim_width b)%N then Some b else Some a)
      else if (ka =? 1)%N then Some a else Some b.

(* where the table deviates from the rule, pair by pair (unordered; the table is symmetric) *)
Definition table_exceptions : list (prim * prim * option prim) :=
  [ (PInt8, PUint64, Some PInt64);   (* no primitive holds both; the table says int64 (lossy for large uint64) *)
    (PInt64, PUint8, None); (PInt64, PUint16, None); (PInt64, PUint32, None);   (* int64 would hold both: missing *)
    (PInt64, PFloat32, None); (PInt64, PFloat64, None);                         (* int64 with floating point: missing *)
    (PInt64, PCFloat32, None); (PInt64, PCFloat64, None);                       (* int64 with complex: missing *)
    (PFloat32, PCFloat32, None); (PFloat32, PCFloat64, None);                   (* real with complex: missing *)
    (PFloat64, PCFloat32, None); (PFloat64, PCFloat64, None) ].

Definition exception_for (a b : prim) : option (option prim) :=
  match find (fun e => (prim_eqb (fst (fst e)) a && prim_eqb (snd (fst e)) b)
                       || (prim_eqb (fst (fst e)) b && prim_eqb (snd (fst e)) a)) table_exceptions with
  | Some e => Some (snd e)
  | None => None
  end.

Definition table_expected (a b : prim) : option prim :=
  match exception_for a b with Some r => r | None => promote_rule a b end.

(* The table IS the rule, except for the twelve listed pairs.  (If the table in typefunctions.go is
   edited, this theorem has to be re-proved against the regenerated Gen/Tables.v.) *)
Theorem common_type_is_rule_with_exceptions : forall a b, common_type a b = table_expected a b.
Proof.
  intros a b. apply oprim_eqb_eq.
  apply (forall_pairs (fun a b => oprim_eqb (common_type a b) (table_expected a b))). vm_compute. reflexivity.
Qed.

(* ---------- evaluation ---------- *)

Ltac Zify.zify_post_hook ::= Z.div_mod_to_equations.

Ltac norm_pows :=
  repeat match goal with
         | |- context [(2 ^ ?e)%Z] => let v := eval vm_compute in (2 ^ e)%Z in progress change (2 ^ e)%Z with v
         | H : context [(2 ^ ?e)%Z] |- _ => let v := eval vm_compute in (2 ^ e)%Z in progress change (2 ^ e)%Z with v in H
         end.

Lemma wrap_in_range : forall p z, is_int_prim p = true -> irange p z = true -> wrap p z = z.
Proof.
  intros p z Hp Hr. unfold wrap, irange, int_ok in *.
  destruct p; vm_compute in Hp; try discriminate; cbn [int_width] in *; unfold in_range_s, in_range_u in Hr;
    norm_pows; cbv zeta;
    try (match goal with |- context [if ?c then _ else _] => destruct c eqn:E end); lia.
Qed.

Lemma in_range_all_node : forall env vals e, in_range_all env vals e = true ->
  exists t, infer env e = Some t /\ is_int_prim t = true /\ irange t (eval_math vals e) = true.
Proof.
  intros env vals e H. destruct e; cbn [in_range_all] in H; apply andb_true_iff in H; destruct H as [H _];
    (destruct (infer env _) as [t|] eqn:E; [|discriminate]); apply andb_true_iff in H; destruct H as [H1 H2];
    exists t; repeat split; assumption.
Qed.

(* Where no intermediate result leaves the range of its static type (and there is no division or power),
   the generated C++ and the generated Python compute the mathematical value. *)
Lemma wrap_promote_in_range : forall p z, is_int_prim p = true -> irange p z = true -> wrap (promote p) z = z.
Proof.
  intros p z Hp Hr. unfold wrap, irange, int_ok in *.
  destruct p; vm_compute in Hp; try discriminate; cbn [promote int_width] in *; unfold in_range_s, in_range_u in Hr;
    norm_pows; cbv zeta;
    try (match goal with |- context [if ?c then _ else _] => destruct c eqn:E end); lia.
Qed.

Lemma eval_in_agree : forall env vals e, in_range_all env vals e = true ->
  eval_cpp_in env vals e = eval_math vals e /\ eval_py vals e = eval_math vals e.
Proof.
  intros env vals e. induction e as [i|z|a IH|o a IHa b IHb]; intros H.
  - split; reflexivity.
  - split; reflexivity.
  - destruct (in_range_all_node _ _ _ H) as [t [Ht [Hi Hr]]].
    cbn [in_range_all] in H. apply andb_true_iff in H. destruct H as [_ Ha].
    destruct (IH Ha) as [I1 I2]. cbn [eval_cpp_in eval_py eval_math infer] in *. rewrite Ht, I1, I2.
    split; [apply wrap_promote_in_range; assumption|reflexivity].
  - destruct (in_range_all_node _ _ _ H) as [t [Ht [Hi Hr]]].
    cbn [in_range_all] in H. apply andb_true_iff in H. destruct H as [_ H].
    apply andb_true_iff in H. destruct H as [H Hops]. apply andb_true_iff in H. destruct H as [H Hb].
    apply andb_true_iff in H. destruct H as [Ho Ha].
    destruct (IHa Ha) as [A1 A2]. destruct (IHb Hb) as [B1 B2].
    rewrite Ht in Hops. apply andb_true_iff in Hops. destruct Hops as [Ra Rb].
    cbn [eval_cpp_in eval_py eval_math]. rewrite Ht, A1, A2, B1, B2.
    rewrite (wrap_in_range t _ Hi Ra), (wrap_in_range t _ Hi Rb).
    split; [apply wrap_in_range; assumption|]. destruct o; try reflexivity; discriminate.
Qed.

Theorem eval_agree : forall env vals e, in_range_all env vals e = true ->
  eval_cpp env vals e = eval_math vals e /\ eval_py vals e = eval_math vals e.
Proof.
  intros env vals e H. destruct (eval_in_agree env vals e H) as [H1 H2]. split; [|exact H2].
  destruct (in_range_all_node _ _ _ H) as [t [Ht [Hi Hr]]].
  unfold eval_cpp. rewrite Ht, H1. apply wrap_in_range; assumption.
Qed.

(* the unary minus on a narrow unsigned operand is only wrapped when it is converted back to the narrow type: inside a larger
   expression C++ has promoted the operand to int *)
Example nested_negation_is_promoted :
  eval_cpp [PUint16; PInt16] [127; 11] (EBin OAdd (EBin OSub (ELit 2) (ENeg (EField 0))) (EField 1)) = 140
  /\ eval_cpp [PUint16] [127] (ENeg (EField 0)) = 65409.
Proof. vm_compute. split; reflexivity. Qed.

(* Division is where the targets part ways: C++ truncates, Python floors *)
Theorem division_refuted :
  eval_cpp [PInt32; PInt32] [-7; 2] (EBin ODiv (EField 0) (EField 1)) = -3
  /\ eval_py [-7; 2] (EBin ODiv (EField 0) (EField 1)) = -4.
Proof. vm_compute. split; reflexivity. Qed.

(* and so is the unary minus on unsigned operands: C++ wraps around in the operand's type, Python goes negative *)
Theorem unsigned_negation_refuted :
  eval_cpp [PUint32] [1] (ENeg (EField 0)) = 4294967295 /\ eval_py [1] (ENeg (EField 0)) = -1.
Proof. vm_compute. split; reflexivity. Qed.

Example eval_agree_hyp_sat :
  in_range_all [PUint8; PInt16; PInt64] [200; -5; 1000000]
    (EBin OSub (EField 2) (EBin OSub (EBin OMul (EField 0) (EField 1)) (ELit 3))) = true.
Proof. vm_compute. reflexivity. Qed.
