From Coq Require Import List String Bool Arith Lia.
From YV Require Import Model.Passes.
Import ListNotations.

Section P.
Variable finds : string -> nat.

Lemma run_mono : forall ps errs, errs <= fst (run finds ps errs).
Proof.
  induction ps as [|[name g] r IH]; intros errs; cbn [run fst]; [lia|].
  destruct (run finds r _) as [e tr] eqn:E. cbn [fst].
  specialize (IH (if g && negb (errs =? 0) then errs else errs + finds name)). rewrite E in IH. cbn [fst] in IH.
  destruct (g && negb (errs =? 0)); lia.
Qed.

(* a violation that some pass would report is never lost: the package is rejected *)
Theorem any_finding_rejects : forall ps errs,
  (exists p, In p ps /\ 0 < finds (fst p)) -> 0 < fst (run finds ps errs).
Proof.
  induction ps as [|[name g] r IH]; intros errs [p [Hin Hf]]; [destruct Hin|].
  cbn [run]. destruct (run finds r _) as [e tr] eqn:E. cbn [fst].
  set (errs' := if g && negb (errs =? 0) then errs else errs + finds name) in *.
  assert (Hm := run_mono r errs'). rewrite E in Hm. cbn [fst] in Hm.
  destruct Hin as [<-|Hin].
  - cbn [fst] in Hf. subst errs'. destruct (g && negb (errs =? 0)) eqn:Es.
    + apply andb_true_iff in Es. destruct Es as [_ Es]. apply negb_true_iff, Nat.eqb_neq in Es. lia.
    + lia.
  - assert (H := IH errs' (ex_intro _ p (conj Hin Hf))). rewrite E in H. exact H.
Qed.

(* a guarded pass only ever runs on an input for which nothing was reported before it *)
Theorem guarded_runs_clean : forall ps errs,
  Forall (fun t => let '(name, before, ran) := t in
                   forall g, In (name, g) ps -> True) (snd (run finds ps errs)) /\
  forall name before, In (name, before, true) (snd (run finds ps errs)) ->
    (exists g, In (name, g) ps) /\ (In (name, true) ps -> ~ In (name, false) ps -> before = 0).
Proof.
  induction ps as [|[n g] r IH]; intros errs.
  - split; [constructor|]. intros name before H. destruct H.
  - cbn [run]. destruct (run finds r _) as [e tr] eqn:E. cbn [snd].
    set (errs' := if g && negb (errs =? 0) then errs else errs + finds n) in *.
    destruct (IH errs') as [_ IH2]. rewrite E in IH2. cbn [snd] in IH2. split.
    + apply Forall_forall. intros [[a b] c] _ g0 _. exact I.
    + intros name before [H|H].
      * injection H as <- <- Hr. split; [exists g; left; reflexivity|]. intros Hg Hng.
        destruct g.
        -- cbn [andb] in Hr. apply negb_true_iff, negb_false_iff, Nat.eqb_eq in Hr. exact Hr.
        -- exfalso. apply Hng. left. reflexivity.
      * destruct (IH2 name before H) as [[g0 Hg0] Hc]. split; [exists g0; right; exact Hg0|].
        intros Hg Hng. apply Hc.
        -- destruct Hg as [Hg|Hg]; [|exact Hg]. injection Hg as -> ->.
           (* (name, true) is the head; if it also occurs later use that occurrence, otherwise derive from the tail *)
           destruct g0; [exact Hg0|]. exfalso. apply Hng. right. exact Hg0.
        -- intro Hf. apply Hng. right. exact Hf.
Qed.
End P.
