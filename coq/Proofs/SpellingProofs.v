From Coq Require Import List NArith Bool String Arith.
From YV Require Import Model.Binary Gen.Tables.
Import ListNotations.
Open Scope string_scope.

Definition prim_names : list string :=
  ["bool"; "int8"; "uint8"; "int16"; "uint16"; "int32"; "uint32"; "int64"; "uint64"; "size"; "float32"; "float64";
   "complexfloat32"; "complexfloat64"; "string"; "date"; "time"; "datetime"].

Theorem alias_names_unambiguous : NoDup (map fst prim_aliases ++ prim_names).
Proof.
  apply (NoDup_count_occ' string_dec). intros x Hx.
  assert (H : forallb (fun y => Nat.eqb (count_occ string_dec (map fst prim_aliases ++ prim_names) y) 1)
                      (map fst prim_aliases ++ prim_names) = true) by (vm_compute; reflexivity).
  rewrite forallb_forall in H. apply Nat.eqb_eq. apply H. exact Hx.
Qed.

(* the alias table of docs/*/language.md ("Alias of ...") *)
Definition doc_aliases : list (string * prim) :=
  [("byte", PUint8); ("int", PInt32); ("uint", PUint32); ("long", PInt64); ("ulong", PUint64);
   ("float", PFloat32); ("double", PFloat64); ("complexfloat", PCFloat32); ("complexdouble", PCFloat64)].

Definition prim_eq (a b : prim) : bool :=
  match a, b with
  | PBool, PBool | PInt8, PInt8 | PUint8, PUint8 | PInt16, PInt16 | PUint16, PUint16 | PInt32, PInt32 | PUint32, PUint32
  | PInt64, PInt64 | PUint64, PUint64 | PSize, PSize | PFloat32, PFloat32 | PFloat64, PFloat64 | PCFloat32, PCFloat32
  | PCFloat64, PCFloat64 | PString, PString | PDate, PDate | PTime, PTime | PDateTime, PDateTime => true
  | _, _ => false
  end.

Fixpoint lookup_alias (l : list (string * prim)) (n : string) : option prim :=
  match l with
  | [] => None
  | (a, p) :: r => if String.eqb a n then Some p else lookup_alias r n
  end.

Definition same_alias_table (a b : list (string * prim)) : bool :=
  forallb (fun x => match lookup_alias b (fst x) with Some p => prim_eq p (snd x) | None => false end) a &&
  forallb (fun x => match lookup_alias a (fst x) with Some p => prim_eq p (snd x) | None => false end) b.

(* what the current front end resolves each alias name to (Gen/Tables.v, observed on every run) is what the documentation says *)
Theorem observed_aliases_are_documented : same_alias_table prim_aliases doc_aliases = true.
Proof. vm_compute. reflexivity. Qed.
