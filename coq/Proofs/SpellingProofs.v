From Coq Require Import List NArith Bool String Arith.
From YV Require Import Model.Binary Gen.Tables.
Import ListNotations.
Open Scope string_scope.

Definition prim_names : list string :=
  ["bool"; "int8"; "uint8"; "int16"; "uint16"; "int32"; "uint32"; "int64"; "uint64"; "size"; "float32"; "float64";
   "complexfloat32"; "complexfloat64"; "string"; "date"; "time"; "datetime"].

Theorem alias_names_unambiguous : NoDup (map fst prim_aliases ++ prim_names).
Proof.
  apply (NoDup_count_occ' string_dec). intros x Hx.
  assert (H : forallb (fun y => Nat.eqb (count_occ string_dec (map fst prim_aliases ++ prim_names) y) 1)
                      (map fst prim_aliases ++ prim_names) = true) by (vm_compute; reflexivity).
  rewrite forallb_forall in H. apply Nat.eqb_eq. apply H. exact Hx.
Qed.
