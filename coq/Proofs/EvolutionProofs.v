(* Reflexivity of the evolution verdict: a well-formed model is compatible with itself, silently. *)
From Coq Require Import List NArith ZArith Bool Arith Lia.
From YV Require Import Base.Wire Model.Binary Gen.Tables Model.Json Model.Schema Model.Evolution Proofs.JsonProofs.
Import ListNotations.
Open Scope N_scope.

(* well-formed expanded types: distinct field names / symbols, unions with at least one case (or null), bounded depth *)
Fixpoint ewf (fuel : nat) (t : ety) : bool :=
  match fuel with
  | O => false
  | S f =>
      match t with
      | EPrim _ | EParam _ => true
      | ERec _ fs => nodup_str (map fst fs) && forallb (fun x => ewf f (snd x)) fs
      | EEnum _ _ _ vs => nodup_str (map fst vs)
      | EOpt t => ewf f t
      | EUnion hn cs => (hn || match cs with [] => false | _ => true end) && forallb (ewf f) cs
      | EVec _ t | EArr _ t | EAlias _ t => ewf f t
      | EMap k v => ewf f k && ewf f v
      end
  end.

Lemma prim_eqb_refl : forall p, prim_eqb p p = true.
Proof. intros p. unfold prim_eqb. apply N.eqb_refl. Qed.

Lemma cmp_prim_refl : forall p, cmp_prim p p = K0.
Proof. intros p. unfold cmp_prim. rewrite prim_eqb_refl. reflexivity. Qed.

Lemma same_name_refl : forall rn n, same_name rn n n = true.
Proof. intros rn n. unfold same_name. rewrite str_eqb_refl. reflexivity. Qed.

Lemma opt_N_eqb_refl : forall a, opt_N_eqb a a = true.
Proof. destruct a; cbn; [apply N.eqb_refl|reflexivity]. Qed.

Lemma dims_eqb_refl : forall a, dims_eqb a a = true.
Proof. induction a as [|x a IH]; cbn; [reflexivity|]. rewrite opt_N_eqb_refl, IH. reflexivity. Qed.

Lemma efield_in : forall fs n t, nodup_str (map fst fs) = true -> In (n, t) fs -> efield fs n = Some t.
Proof.
  induction fs as [|[k v] r IH]; intros n t Hn Hin; [destruct Hin|].
  cbn [map fst nodup_str] in Hn. apply andb_true_iff in Hn. destruct Hn as [Hx Hr]. apply negb_true_iff in Hx.
  cbn [efield]. destruct Hin as [E|Hin].
  - injection E as <- <-. rewrite str_eqb_refl. reflexivity.
  - assert (Hs : str_eqb k n = false).
    { apply (existsb_str_false _ _ Hx). apply in_map_iff. exists (n, t). split; [reflexivity|exact Hin]. }
    rewrite Hs. apply IH; assumption.
Qed.

Lemma zassoc_in : forall vs n z, nodup_str (map fst vs) = true -> In (n, z) vs -> zassoc vs n = Some z.
Proof.
  induction vs as [|[k v] r IH]; intros n z Hn Hin; [destruct Hin|].
  cbn [map fst nodup_str] in Hn. apply andb_true_iff in Hn. destruct Hn as [Hx Hr]. apply negb_true_iff in Hx.
  cbn [zassoc]. destruct Hin as [E|Hin].
  - injection E as <- <-. rewrite str_eqb_refl. reflexivity.
  - assert (Hs : str_eqb k n = false).
    { apply (existsb_str_false _ _ Hx). apply in_map_iff. exists (n, z). split; [reflexivity|exact Hin]. }
    rewrite Hs. apply IH; assumption.
Qed.

Lemma existsb_false_forall : forall (A : Type) (f : A -> bool) l, (forall x, In x l -> f x = false) -> existsb f l = false.
Proof.
  intros A f l H. induction l as [|x l IH]; [reflexivity|]. cbn [existsb].
  rewrite (H x (or_introl eq_refl)), IH; [reflexivity|]. intros y Hy. apply H. right. exact Hy.
Qed.

(* ---------- union against itself ---------- *)
Section UnionRefl.
Variable c : ety -> ety -> kind.

Lemma first_match_skip : forall (f : ety -> bool) pre post j,
  first_match f (pre ++ post) (map (fun _ => true) pre ++ map (fun _ => false) post) j
  = first_match f post (map (fun _ => false) post) (length pre + j).
Proof.
  intros f pre. induction pre as [|p pre IH]; intros post j; [reflexivity|].
  cbn [app map first_match negb andb length]. rewrite IH. f_equal. lia.
Qed.

Lemma set_nth_mid : forall (pre post : list ety) (x : ety),
  set_nth (map (fun _ => true) pre ++ false :: map (fun _ => false) post) (length pre)
  = map (fun _ => true) (pre ++ [x]) ++ map (fun _ => false) post.
Proof.
  induction pre as [|p pre IH]; intros post x; [reflexivity|].
  cbn [app map length set_nth]. rewrite (IH post x). reflexivity.
Qed.

Lemma nth_mid : forall (pre post : list ety) x d, nth (length pre) (pre ++ x :: post) d = x.
Proof. induction pre as [|p pre IH]; intros post x d; [reflexivity|]. cbn [app length nth]. apply IH. Qed.

Lemma union_go_refl : forall post pre anym,
  Forall (fun y => c y y = K0) (pre ++ post) ->
  union_go c (pre ++ post) post (length pre) (map (fun _ => true) pre ++ map (fun _ => false) post) false false false anym
  = (false, false, false, anym || match post with [] => false | _ => true end, map (fun _ => true) (pre ++ post)).
Proof.
  induction post as [|x r IH]; intros pre anym HF.
  - cbn [union_go]. rewrite orb_false_r, app_nil_r. cbn [map]. rewrite app_nil_r. reflexivity.
  - cbn [union_go]. rewrite first_match_skip. cbn [first_match map negb andb].
    assert (Hx : c x x = K0).
    { rewrite Forall_forall in HF. apply HF. apply in_or_app. right. left. reflexivity. }
    rewrite Hx. cbn [is_match]. rewrite Nat.add_0_r, nth_mid, Hx. cbn [is_k0 negb orb]. rewrite Nat.eqb_refl. cbn [negb orb].
    rewrite (set_nth_mid pre r x).
    assert (E : pre ++ x :: r = (pre ++ [x]) ++ r) by (rewrite <- app_assoc; reflexivity).
    rewrite E. replace (S (length pre)) with (length (pre ++ [x])) by (rewrite app_length; cbn; lia).
    rewrite (IH (pre ++ [x]) true); [|rewrite <- E; exact HF].
    rewrite orb_true_r. reflexivity.
Qed.

Lemma union_union_refl : forall hn cs,
  Forall (fun y => c y y = K0) cs -> (hn || match cs with [] => false | _ => true end) = true ->
  union_union c hn hn cs cs = K0.
Proof.
  intros hn cs HF Hne. unfold union_union.
  pose proof (union_go_refl cs [] false) as G. cbn [app length map] in G. rewrite (G HF).
  assert (Hall : existsb negb (map (fun _ : ety => true) cs) = false).
  { apply existsb_false_forall. intros b Hb. apply in_map_iff in Hb. destruct Hb as [_ [<- _]]. reflexivity. }
  rewrite Hall. rewrite Bool.eqb_reflx. cbn [negb andb orb].
  destruct hn; destruct cs; cbn in *; try discriminate; reflexivity.
Qed.
End UnionRefl.

(* ---------- types ---------- *)
Theorem cmp_refl : forall rn f t, ewf f t = true -> cmp rn f t t = K0.
Proof.
  intros rn. induction f as [|f IH]; intros t H; [discriminate|].
  destruct t as [p|name fs|name fl b vs|t|hn cs|len t|dims t|k v|name|name t]; cbn [ewf] in H; cbn [cmp].
  - apply cmp_prim_refl.
  - apply andb_true_iff in H. destruct H as [Hn Hall]. rewrite same_name_refl. cbn [negb].
    rewrite forallb_forall in Hall.
    assert (E1 : existsb (fun fo => match efield fs (fst fo) with
                                   | Some tn => negb (is_k0 (cmp rn f tn (snd fo))) | None => true end) fs = false).
    { apply existsb_false_forall. intros [n0 t0] Hin. cbn [fst snd]. rewrite (efield_in _ _ _ Hn Hin).
      rewrite (IH t0 (Hall _ Hin)). reflexivity. }
    assert (E2 : existsb (fun fn => match efield fs (fst fn) with Some _ => false | None => true end) fs = false).
    { apply existsb_false_forall. intros [n0 t0] Hin. cbn [fst]. rewrite (efield_in _ _ _ Hn Hin). reflexivity. }
    assert (E3 : existsb (fun fo => match findex fs (fst fo) 0, findex fs (fst fo) 0 with
                                   | Some i, Some j => negb (Nat.eqb i j) | _, _ => false end) fs = false).
    { apply existsb_false_forall. intros fo _. destruct (findex fs (fst fo) 0); [rewrite Nat.eqb_refl|]; reflexivity. }
    rewrite E1, E2, E3. reflexivity.
  - rewrite same_name_refl, Bool.eqb_reflx, cmp_prim_refl. cbn [negb is_k0 orb].
    assert (E1 : existsb (fun v => match zassoc vs (fst v) with Some _ => false | None => true end) vs = false).
    { apply existsb_false_forall. intros [n0 z0] Hin. cbn [fst]. rewrite (zassoc_in _ _ _ H Hin). reflexivity. }
    assert (E2 : existsb (fun v => match zassoc vs (fst v) with Some z => negb (z =? snd v)%Z | None => true end) vs = false).
    { apply existsb_false_forall. intros [n0 z0] Hin. cbn [fst snd]. rewrite (zassoc_in _ _ _ H Hin), Z.eqb_refl. reflexivity. }
    rewrite E1, E2. reflexivity.
  - rewrite (IH t H). reflexivity.
  - apply andb_true_iff in H. destruct H as [Hne Hall]. apply union_union_refl; [|exact Hne].
    rewrite forallb_forall in Hall. apply Forall_forall. intros y Hy. apply IH, Hall, Hy.
  - rewrite (IH t H), opt_N_eqb_refl. reflexivity.
  - rewrite (IH t H). destruct dims as [a|]; [rewrite dims_eqb_refl|]; reflexivity.
  - apply andb_true_iff in H. destruct H as [Hk Hv]. rewrite (IH v Hv), (IH k Hk). reflexivity.
  - rewrite str_eqb_refl. reflexivity.
  - apply IH, H.
Qed.

(* ---------- protocols and environments ---------- *)
Definition steps_wf (f : nat) (ss : list estep) : bool :=
  nodup_str (map (fun s => fst (fst s)) ss) && forallb (fun s => ewf f (snd s)) ss.

Lemma sfind_mid : forall (pre post : list estep) s i,
  nodup_str (map (fun s => fst (fst s)) (pre ++ s :: post)) = true ->
  sfind (pre ++ s :: post) (fst (fst s)) i = Some ((length pre + i)%nat, s).
Proof.
  induction pre as [|p pre IH]; intros post s i Hn.
  - cbn [app sfind]. rewrite str_eqb_refl. reflexivity.
  - cbn [app map nodup_str] in Hn. apply andb_true_iff in Hn. destruct Hn as [Hx Hr]. apply negb_true_iff in Hx.
    cbn [app sfind]. assert (Hs : str_eqb (fst (fst p)) (fst (fst s)) = false).
    { apply (existsb_str_false _ _ Hx). rewrite map_app. apply in_or_app. right. left. reflexivity. }
    rewrite Hs, (IH post s (S i) Hr). f_equal. f_equal. cbn [length]. lia.
Qed.

Lemma proto_go_refl : forall rn defs f ss, steps_wf f ss = true ->
  forall post pre, ss = pre ++ post -> proto_go rn defs f ss post (length pre) = VOk.
Proof.
  intros rn defs f ss H. unfold steps_wf in H. apply andb_true_iff in H. destruct H as [Hn Hall].
  induction post as [|s r IHp]; intros pre E; [reflexivity|].
  cbn [proto_go]. subst ss. rewrite (sfind_mid pre r s 0 Hn). rewrite Nat.add_0_r, Nat.eqb_refl.
  rewrite forallb_forall in Hall.
  assert (Hk : cmp rn f (snd s) (snd s) = K0) by (apply cmp_refl, Hall; apply in_or_app; right; left; reflexivity).
  assert (Hs : step_kind rn f s s = K0).
  { unfold step_kind, cmp_item. rewrite Bool.eqb_reflx, Hk. destruct (snd (fst s)); reflexivity. }
  rewrite Hs. cbn [negb kind_verdict is_k0 vmax].
  assert (E : pre ++ s :: r = (pre ++ [s]) ++ r) by (rewrite <- app_assoc; reflexivity).
  specialize (IHp (pre ++ [s]) E). rewrite app_length in IHp. cbn [length] in IHp.
  replace (length pre + 1)%nat with (S (length pre)) in IHp by lia.
  rewrite IHp. reflexivity.
Qed.

Theorem proto_verdict_refl : forall rn defs f ss, steps_wf f ss = true -> proto_verdict rn defs f ss ss = VOk.
Proof.
  intros rn defs f ss H. unfold proto_verdict.
  pose proof (proto_go_refl rn defs f ss H ss [] eq_refl) as G. cbn [length] in G. rewrite G.
  assert (Hrem : steps_removed ss ss = false).
  { unfold steps_wf in H. apply andb_true_iff in H. destruct H as [Hn _]. unfold steps_removed.
    apply existsb_false_forall. intros so Hin. apply in_split in Hin. destruct Hin as [pre [post E]]. subst ss. cbn beta.
    pose proof (sfind_mid pre post so 0 Hn) as E. unfold estep in E. rewrite E. reflexivity. }
  rewrite Hrem. reflexivity.
Qed.

Definition env_wf (f : nat) (e : eenv) : bool :=
  nodup_str (map fst (e_protos e)) && forallb (fun p => steps_wf f (snd p)) (e_protos e).

Lemma dassoc_in : forall (A : Type) (l : list (str * A)) n v, nodup_str (map fst l) = true -> In (n, v) l -> dassoc l n = Some v.
Proof.
  intros A. induction l as [|[k w] r IH]; intros n v Hn Hin; [destruct Hin|].
  cbn [map fst nodup_str] in Hn. apply andb_true_iff in Hn. destruct Hn as [Hx Hr]. apply negb_true_iff in Hx.
  cbn [dassoc]. destruct Hin as [E|Hin].
  - injection E as <- <-. rewrite str_eqb_refl. reflexivity.
  - assert (Hs : str_eqb k n = false).
    { apply (existsb_str_false _ _ Hx). apply in_map_iff. exists (n, v). split; [reflexivity|exact Hin]. }
    rewrite Hs. apply IH; assumption.
Qed.

Lemma vmaxl_all_ok : forall l, (forall v, In v l -> v = VOk) -> vmaxl l = VOk.
Proof.
  induction l as [|v l IH]; intros H; [reflexivity|]. cbn [vmaxl fold_right].
  rewrite (H v (or_introl eq_refl)). change (fold_right vmax VOk l) with (vmaxl l). rewrite IH; [reflexivity|].
  intros w Hw. apply H. right. exact Hw.
Qed.

Theorem env_verdict_refl : forall rn f e, env_wf f e = true -> env_verdict f rn e e = VOk.
Proof.
  intros rn f e H. unfold env_wf in H. apply andb_true_iff in H. destruct H as [Hn Hall].
  unfold env_verdict. apply vmaxl_all_ok. intros v Hv. apply in_map_iff in Hv. destruct Hv as [[pn ss] [<- Hin]].
  cbn [fst snd]. rewrite (dassoc_in _ _ _ _ Hn Hin). rewrite forallb_forall in Hall.
  apply proto_verdict_refl. apply (Hall _ Hin).
Qed.
