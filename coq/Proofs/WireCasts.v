(* Wire-level facts that hold for every width and every stream suffix:
   - the two's-complement casts [to_unsigned]/[to_signed] (the C++ static_casts and the
     numpy/struct views) are mutually inverse on the documented ranges for EVERY width w > 0,
     not only the 8-bit instances used by the byte paths (BinaryProofs.to_signed_unsigned_8);
   - varints are self-delimiting: two encodings followed by arbitrary suffixes coincide only
     when both the values and the suffixes coincide (prefix-freeness), the fact that item
     independence (C17) and truncation detection (C16) rest on at the byte level;
   - zig-zag is a bijection Z <-> N that maps the w-bit signed range onto the w-bit unsigned one. *)
From Coq Require Import List NArith ZArith Bool Lia.
From Coq Require Import ZifyBool ZifyN ZifyNat.
From YV Require Import Base.Wire Proofs.WireProofs.
Import ListNotations.
Open Scope N_scope.
Ltac Zify.zify_post_hook ::= Z.div_mod_to_equations.

(* ---------- varint: injective and prefix-free ---------- *)

Theorem venc_prefix_free : forall a b r1 r2,
  venc a ++ r1 = venc b ++ r2 -> a = b /\ r1 = r2.
Proof.
  intros a b r1 r2 H.
  pose proof (vdec_venc a r1) as Ha. rewrite H, vdec_venc in Ha.
  inversion Ha. split; reflexivity.
Qed.

Theorem venc_inj : forall a b, venc a = venc b -> a = b.
Proof.
  intros a b H. apply (venc_prefix_free a b [] []). rewrite H. reflexivity.
Qed.

Theorem venc_not_proper_prefix : forall a b q, venc a = venc b ++ q -> q = [] /\ a = b.
Proof.
  intros a b q H.
  destruct (venc_prefix_free a b [] q) as [E1 E2]; [rewrite app_nil_r; exact H|].
  split; [symmetry; exact E2 | exact E1].
Qed.

(* A sequence of varints decodes back item by item whatever follows it. *)
Fixpoint venc_all (l : list N) : list N :=
  match l with [] => [] | x :: r => venc x ++ venc_all r end.

Fixpoint vdec_n (k : nat) (s : list N) : option (list N * list N) :=
  match k with
  | O => Some ([], s)
  | S k' => match vdec s with
            | Some (v, r) => match vdec_n k' r with
                             | Some (vs, r') => Some (v :: vs, r')
                             | None => None
                             end
            | None => None
            end
  end.

Theorem vdec_n_venc_all : forall l r, vdec_n (length l) (venc_all l ++ r) = Some (l, r).
Proof.
  induction l as [|x l IH]; intros r; cbn [venc_all vdec_n length]; [reflexivity|].
  rewrite <- app_assoc, vdec_venc, IH. reflexivity.
Qed.

Theorem venc_all_inj : forall l1 l2, length l1 = length l2 -> venc_all l1 = venc_all l2 -> l1 = l2.
Proof.
  intros l1 l2 Hl H.
  pose proof (vdec_n_venc_all l1 []) as H1. pose proof (vdec_n_venc_all l2 []) as H2.
  rewrite <- H, <- Hl, H1 in H2. inversion H2. reflexivity.
Qed.

(* ---------- zig-zag: injective both ways ---------- *)

Theorem zz_enc_inj : forall a b, zz_enc a = zz_enc b -> a = b.
Proof. intros a b H. rewrite <- (zz_dec_enc a), <- (zz_dec_enc b), H. reflexivity. Qed.

Theorem zz_dec_inj : forall a b, zz_dec a = zz_dec b -> a = b.
Proof. intros a b H. rewrite <- (zz_enc_dec a), <- (zz_enc_dec b), H. reflexivity. Qed.

(* ---------- two's complement casts at every width ---------- *)

Lemma pow_split : forall w, 0 < w -> (2 ^ Z.of_N w = 2 * 2 ^ (Z.of_N w - 1))%Z.
Proof. intros w Hw. rewrite <- Z.pow_succ_r by lia. f_equal. lia. Qed.

Lemma pow_N_Z : forall w, Z.of_N (2 ^ w) = (2 ^ Z.of_N w)%Z.
Proof. intros w. rewrite N2Z.inj_pow. reflexivity. Qed.

Lemma pow_pos_Z : forall w, (0 < 2 ^ Z.of_N w)%Z.
Proof. intros w. apply Z.pow_pos_nonneg; lia. Qed.

Theorem to_unsigned_lt : forall w z, to_unsigned w z < 2 ^ w.
Proof.
  intros w z. unfold to_unsigned.
  pose proof (pow_pos_Z w) as Hp. pose proof (pow_N_Z w) as Hq.
  pose proof (Z.mod_pos_bound z (2 ^ Z.of_N w) Hp) as Hm.
  apply N2Z.inj_lt. rewrite Hq, Z2N.id by lia. lia.
Qed.

Theorem to_signed_range : forall w n, 0 < w -> in_range_s w (to_signed w n) = true.
Proof.
  intros w n Hw. unfold in_range_s, to_signed.
  pose proof (pow_split w Hw) as Hs. pose proof (pow_N_Z w) as Hq.
  assert (Hq1 : Z.of_N (2 ^ (w - 1)) = (2 ^ (Z.of_N w - 1))%Z).
  { rewrite N2Z.inj_pow. f_equal. lia. }
  assert (Hm : n mod 2 ^ w < 2 ^ w) by (apply N.mod_lt, N.pow_nonzero; lia).
  cbv zeta. destruct (n mod 2 ^ w <? 2 ^ (w - 1)) eqn:E.
  - apply N.ltb_lt in E. apply andb_true_iff. split; [apply Z.leb_le | apply Z.ltb_lt]; lia.
  - apply N.ltb_ge in E. apply andb_true_iff. split; [apply Z.leb_le | apply Z.ltb_lt]; lia.
Qed.

Theorem to_signed_unsigned : forall w z, 0 < w -> in_range_s w z = true ->
  to_signed w (to_unsigned w z) = z.
Proof.
  intros w z Hw H. unfold in_range_s in H. apply andb_true_iff in H. destruct H as [Hlo Hhi].
  apply Z.leb_le in Hlo. apply Z.ltb_lt in Hhi.
  pose proof (pow_split w Hw) as Hs. pose proof (pow_N_Z w) as Hq. pose proof (pow_pos_Z w) as Hp.
  assert (Hq1 : Z.of_N (2 ^ (w - 1)) = (2 ^ (Z.of_N w - 1))%Z).
  { rewrite N2Z.inj_pow. f_equal. lia. }
  unfold to_signed. cbv zeta.
  rewrite (N.mod_small _ _ (to_unsigned_lt w z)).
  unfold to_unsigned.
  destruct (Z_lt_le_dec z 0) as [Hneg|Hpos].
  - assert (Em : (z mod 2 ^ Z.of_N w = z + 2 ^ Z.of_N w)%Z).
    { symmetry. apply Z.mod_unique with (q := (-1)%Z); lia. }
    rewrite Em.
    assert (E : (Z.to_N (z + 2 ^ Z.of_N w) <? 2 ^ (w - 1)) = false).
    { apply N.ltb_ge. apply N2Z.inj_le. rewrite Hq1, Z2N.id by lia. lia. }
    rewrite E, Z2N.id by lia. lia.
  - rewrite Z.mod_small by lia.
    assert (E : (Z.to_N z <? 2 ^ (w - 1)) = true).
    { apply N.ltb_lt. apply N2Z.inj_lt. rewrite Hq1, Z2N.id by lia. lia. }
    rewrite E, Z2N.id by lia. reflexivity.
Qed.

Theorem to_unsigned_signed : forall w n, 0 < w -> n < 2 ^ w ->
  to_unsigned w (to_signed w n) = n.
Proof.
  intros w n Hw Hn.
  pose proof (pow_split w Hw) as Hs. pose proof (pow_N_Z w) as Hq. pose proof (pow_pos_Z w) as Hp.
  assert (Hq1 : Z.of_N (2 ^ (w - 1)) = (2 ^ (Z.of_N w - 1))%Z).
  { rewrite N2Z.inj_pow. f_equal. lia. }
  unfold to_signed, to_unsigned. cbv zeta. rewrite (N.mod_small n (2 ^ w) Hn).
  destruct (n <? 2 ^ (w - 1)) eqn:E.
  - rewrite Z.mod_small by lia. lia.
  - apply N.ltb_ge in E.
    assert (Em : ((Z.of_N n - 2 ^ Z.of_N w) mod 2 ^ Z.of_N w = Z.of_N n)%Z).
    { symmetry. apply Z.mod_unique with (q := (-1)%Z); lia. }
    rewrite Em. lia.
Qed.

(* Unsigned values are fixed by the unsigned view, at every width. *)
Theorem to_unsigned_id : forall w z, in_range_u w z = true -> to_unsigned w z = Z.to_N z.
Proof.
  intros w z H. unfold in_range_u in H. apply andb_true_iff in H. destruct H as [Hlo Hhi].
  apply Z.leb_le in Hlo. apply Z.ltb_lt in Hhi.
  unfold to_unsigned. rewrite Z.mod_small by lia. reflexivity.
Qed.

(* The casts are injective on the ranges the writers accept: two distinct in-range values
   never share a fixed-width encoding. *)
Theorem to_unsigned_inj_s : forall w a b, 0 < w ->
  in_range_s w a = true -> in_range_s w b = true -> to_unsigned w a = to_unsigned w b -> a = b.
Proof.
  intros w a b Hw Ha Hb H.
  rewrite <- (to_signed_unsigned w a Hw Ha), <- (to_signed_unsigned w b Hw Hb), H. reflexivity.
Qed.

(* Fixed-width little-endian of a signed value round-trips at every byte width k >= 1
   (int8/16/32/64 in the typed fast paths are the instances k = 1, 2, 4, 8). *)
Theorem le_signed_roundtrip : forall k z, (1 <= k)%nat ->
  in_range_s (8 * N.of_nat k) z = true ->
  to_signed (8 * N.of_nat k) (le_dec (le_enc k (to_unsigned (8 * N.of_nat k) z))) = z.
Proof.
  intros k z Hk H.
  assert (Hpow : 256 ^ N.of_nat k = 2 ^ (8 * N.of_nat k)).
  { change 256 with (2 ^ 8). rewrite <- N.pow_mul_r. reflexivity. }
  rewrite le_dec_enc by (rewrite Hpow; apply to_unsigned_lt).
  apply to_signed_unsigned; [lia | exact H].
Qed.

Example casts_nonvacuous :
  in_range_s 16 (-32768)%Z = true /\ to_unsigned 16 (-32768)%Z = 32768 /\
  to_signed 16 65535 = (-1)%Z /\ venc 300 = [172; 2] /\ zz_enc (-3)%Z = 5.
Proof. vm_compute. repeat split. Qed.

Print Assumptions venc_prefix_free.
Print Assumptions to_signed_unsigned.
Print Assumptions to_unsigned_signed.
Print Assumptions le_signed_roundtrip.
