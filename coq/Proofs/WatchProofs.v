From Coq Require Import List Arith Bool Lia.
From YV Require Import Gen.Watch Model.Watch.
Import ListNotations.

(* nothing is pending that will read the package again => what runs (or, if nothing runs, what is on disk) is current *)
Definition winv (s : wstate) : Prop :=
  (length (running s) <= 1) /\ (running s = [] -> waiting s = 0) /\
  (armed s = false -> waiting s = 0 ->
     match running s with [] => disk s = contents s | a :: _ => a = contents s end).

Lemma winv_init : winv winit.
Proof. unfold winv, winit; cbn. repeat split; auto. Qed.

Lemma winv_step : forall s e s', winv s -> step_serial s e = Some s' -> winv s'.
Proof.
  intros s e s' [Hlen [Hw Hinv]] Hs. destruct e as [| |i]; cbn [step_serial] in Hs.
  - injection Hs as <-. unfold winv; cbn. split; [exact Hlen|split; [exact Hw|intros H; discriminate]].
  - destruct (armed s) eqn:Ea; [|discriminate]. destruct (running s) as [|a r] eqn:Er.
    + injection Hs as <-. unfold winv; cbn. split; [lia|split; [intros H; discriminate|intros _ _; reflexivity]].
    + injection Hs as <-. unfold winv; cbn. split; [exact Hlen|split; [intros H; discriminate|intros _ H; discriminate]].
  - destruct i; [|discriminate]. destruct (running s) as [|snap [|b r]] eqn:Er; try discriminate.
    destruct (waiting s) as [|w] eqn:Ew.
    + injection Hs as <-. unfold winv; cbn. split; [lia|split; [intros _; reflexivity|]].
      intros Ha _. apply (Hinv Ha eq_refl).
    + injection Hs as <-. unfold winv; cbn. split; [lia|split; [intros H; discriminate|intros _ _; reflexivity]].
Qed.

Theorem serial_converges : forall es s, wrun step_serial winit es = Some s -> quiescent s = true -> disk s = contents s.
Proof.
  assert (G : forall es s0 s, winv s0 -> wrun step_serial s0 es = Some s -> winv s).
  { induction es as [|e es IH]; intros s0 s H0 Hr; cbn [wrun] in Hr.
    - injection Hr as <-. exact H0.
    - destruct (step_serial s0 e) as [s1|] eqn:E; [|discriminate]. apply (IH s1 s (winv_step _ _ _ H0 E) Hr). }
  intros es s Hr Hq. destruct (G es winit s winv_init Hr) as [_ [_ Hinv]].
  unfold quiescent in Hq. apply andb_true_iff in Hq. destruct Hq as [Hq Hw]. apply andb_true_iff in Hq. destruct Hq as [Ha Hr'].
  apply negb_true_iff in Ha. apply Nat.eqb_eq in Hw. specialize (Hinv Ha Hw).
  destruct (running s); [exact Hinv|discriminate].
Qed.

(* progress: from any reachable state the watcher can be driven to quiescence without further edits *)
Lemma serial_never_stuck : forall s, winv s -> quiescent s = false ->
  exists e, e <> Edit /\ step_serial s e <> None.
Proof.
  intros s [Hlen [Hw _]] Hq. destruct (armed s) eqn:Ea.
  - exists Fire. split; [discriminate|]. cbn. rewrite Ea. destruct (running s); discriminate.
  - destruct (running s) as [|a [|b r]] eqn:Er.
    + exfalso. unfold quiescent in Hq. rewrite Ea, Er, (Hw eq_refl) in Hq. cbn in Hq. discriminate.
    + exists (Finish 0). split; [discriminate|]. cbn. rewrite Er. destruct (waiting s); discriminate.
    + cbn in Hlen. lia.
Qed.

(* without the mutex the property fails: a slow regeneration overtaken by a fast one *)
Theorem free_diverges :
  exists es s, wrun step_free winit es = Some s /\ quiescent s = true /\ disk s <> contents s.
Proof.
  exists [Edit; Fire; Edit; Fire; Finish 1; Finish 0].
  eexists. split; [reflexivity|]. split; [reflexivity|]. cbn. discriminate.
Qed.
