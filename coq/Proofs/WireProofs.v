From Coq Require Import List NArith ZArith Bool Lia.
From Coq Require Import ZifyBool ZifyN ZifyNat.
From YV Require Import Base.Wire.
Import ListNotations.
Open Scope N_scope.
Ltac Zify.zify_post_hook ::= Z.div_mod_to_equations.

(* ---------- varint ---------- *)

Lemma vdec_venc_fuel : forall fuel n r,
  n < 2 ^ N.of_nat fuel -> vdec (venc_fuel fuel n ++ r) = Some (n, r).
Proof.
  induction fuel as [|f IH]; intros n r Hn.
  - cbn in Hn. assert (n = 0) by lia. subst. reflexivity.
  - cbn [venc_fuel]. destruct (n <? 128) eqn:E.
    + cbn. rewrite E. reflexivity.
    + cbn [app vdec].
      assert (Hb : (n mod 128 + 128 <? 128) = false) by lia.
      rewrite Hb. rewrite IH.
      * f_equal. f_equal. lia.
      * rewrite Nat2N.inj_succ, N.pow_succ_r' in Hn.
        assert (n / 128 <= n / 2) by (apply N.div_le_compat_l; lia).
        assert (n / 2 < 2 ^ N.of_nat f) by (apply N.div_lt_upper_bound; lia).
        lia.
Qed.

Theorem vdec_venc : forall n r, vdec (venc n ++ r) = Some (n, r).
Proof.
  intros n r. unfold venc. apply vdec_venc_fuel.
  rewrite N2Nat.id. apply N.size_gt.
Qed.

Lemma venc_fuel_bytes : forall fuel n, n < 2 ^ N.of_nat fuel -> all_bytes (venc_fuel fuel n) = true.
Proof.
  induction fuel as [|f IH]; intros n Hn.
  - cbn in Hn. assert (n = 0) by lia. subst. reflexivity.
  - cbn [venc_fuel]. destruct (n <? 128) eqn:E.
    + cbn. unfold is_byte. assert (n <? 256 = true) by lia. rewrite H. reflexivity.
    + cbn [all_bytes forallb]. fold (all_bytes (venc_fuel f (n / 128))). rewrite IH.
      * unfold is_byte. assert (n mod 128 + 128 <? 256 = true) by lia. rewrite H. reflexivity.
      * rewrite Nat2N.inj_succ, N.pow_succ_r' in Hn.
        assert (n / 128 <= n / 2) by (apply N.div_le_compat_l; lia).
        assert (n / 2 < 2 ^ N.of_nat f) by (apply N.div_lt_upper_bound; lia).
        lia.
Qed.

Theorem venc_bytes : forall n, all_bytes (venc n) = true.
Proof.
  intros n. unfold venc. apply venc_fuel_bytes. rewrite N2Nat.id. apply N.size_gt.
Qed.

(* Fuel independence: any fuel that covers n gives the same bytes. *)
Lemma venc_fuel_indep : forall f1 f2 n,
  n < 2 ^ N.of_nat f1 -> n < 2 ^ N.of_nat f2 -> venc_fuel f1 n = venc_fuel f2 n.
Proof.
  induction f1 as [|f1 IH]; intros f2 n H1 H2.
  - cbn in H1. assert (n = 0) by lia. subst. destruct f2; reflexivity.
  - destruct f2 as [|f2].
    + cbn in H2. assert (n = 0) by lia. subst. reflexivity.
    + cbn [venc_fuel]. destruct (n <? 128) eqn:E; [reflexivity|].
      f_equal. apply IH.
      * rewrite Nat2N.inj_succ, N.pow_succ_r' in H1.
        assert (n / 128 <= n / 2) by (apply N.div_le_compat_l; lia).
        assert (n / 2 < 2 ^ N.of_nat f1) by (apply N.div_lt_upper_bound; lia). lia.
      * rewrite Nat2N.inj_succ, N.pow_succ_r' in H2.
        assert (n / 128 <= n / 2) by (apply N.div_le_compat_l; lia).
        assert (n / 2 < 2 ^ N.of_nat f2) by (apply N.div_lt_upper_bound; lia). lia.
Qed.

Lemma venc_unfold : forall n,
  venc n = if n <? 128 then [n] else (n mod 128 + 128) :: venc (n / 128).
Proof.
  intros n. unfold venc.
  destruct (N.to_nat (N.size n)) as [|f] eqn:Ef.
  - assert (N.size n = 0) by lia.
    assert (n < 2 ^ N.size n) by apply N.size_gt. rewrite H in H0. cbn in H0.
    assert (n = 0) by lia. subst. reflexivity.
  - cbn [venc_fuel]. destruct (n <? 128) eqn:E; [reflexivity|]. f_equal.
    apply venc_fuel_indep.
    + assert (n < 2 ^ N.size n) by apply N.size_gt.
      assert (N.size n = N.succ (N.of_nat f)) by lia. rewrite H0, N.pow_succ_r' in H.
      assert (n / 128 <= n / 2) by (apply N.div_le_compat_l; lia).
      assert (n / 2 < 2 ^ N.of_nat f) by (apply N.div_lt_upper_bound; lia). lia.
    + rewrite N2Nat.id. apply N.size_gt.
Qed.

(* Length bound: a value below 2^(7k) needs at most k bytes (k >= 1). *)
Lemma venc_fuel_length : forall k fuel n, (1 <= k)%nat ->
  n < 2 ^ (7 * N.of_nat k) -> (length (venc_fuel fuel n) <= k)%nat.
Proof.
  induction k as [|k IH]; intros fuel n Hk Hn; [lia|].
  destruct fuel as [|f]; [cbn; lia|].
  cbn [venc_fuel]. destruct (n <? 128) eqn:E; [cbn; lia|].
  cbn [length]. destruct k as [|k'].
  - cbn in Hn. lia.
  - apply le_n_S. apply IH; [lia|].
    replace (7 * N.of_nat (S (S k'))) with (7 + 7 * N.of_nat (S k')) in Hn by lia.
    rewrite N.pow_add_r in Hn. apply N.div_lt_upper_bound; [lia|].
    change (2 ^ 7) with 128 in Hn. lia.
Qed.

Theorem venc_length_64 : forall n, n < 2 ^ 64 -> (length (venc n) <= 10)%nat.
Proof.
  intros n Hn. unfold venc. apply venc_fuel_length; [lia|].
  eapply N.lt_le_trans; [exact Hn|]. apply N.pow_le_mono_r; lia.
Qed.

Theorem venc_length_32 : forall n, n < 2 ^ 32 -> (length (venc n) <= 5)%nat.
Proof.
  intros n Hn. unfold venc. apply venc_fuel_length; [lia|].
  eapply N.lt_le_trans; [exact Hn|]. apply N.pow_le_mono_r; lia.
Qed.

Lemma venc_nonempty : forall n, venc n <> [].
Proof. intros n. rewrite venc_unfold. destruct (n <? 128); discriminate. Qed.

(* Extension lemma: a successful decode is unaffected by bytes appended to the input. *)
Theorem vdec_ext : forall s v r e, vdec s = Some (v, r) -> vdec (s ++ e) = Some (v, r ++ e).
Proof.
  induction s as [|b s IH]; intros v r e H; [discriminate|].
  cbn [vdec app] in *. destruct (b <? 128).
  - inversion H; subst. reflexivity.
  - destruct (vdec s) as [[v' r']|] eqn:E; [|discriminate].
    inversion H; subst. rewrite (IH v' r e eq_refl). reflexivity.
Qed.

(* A successful decode consumed a non-empty prefix: s = used ++ r. *)
Theorem vdec_consumes : forall s v r, vdec s = Some (v, r) ->
  exists used, s = used ++ r /\ used <> [] /\ vdec used = Some (v, []).
Proof.
  induction s as [|b s IH]; intros v r H; [discriminate|].
  cbn [vdec] in H. destruct (b <? 128) eqn:E.
  - injection H as Hv Hr. subst v r. exists [b]. cbn. rewrite E. repeat split; congruence.
  - destruct (vdec s) as [[v' r']|] eqn:E2; [|discriminate].
    injection H as Hv Hr. subst v r'. destruct (IH v' r eq_refl) as [u [Hu [_ Hd]]].
    exists (b :: u). subst s. cbn. rewrite E, Hd. repeat split; congruence.
Qed.

(* Prefix lemma: a strict prefix of an encoding does not decode. *)
Theorem vdec_strict_prefix_fails : forall n p q, venc n = p ++ q -> q <> [] -> vdec p = None.
Proof.
  intros n p q H Hq. destruct (vdec p) as [[v r]|] eqn:E; [|reflexivity]. exfalso.
  pose proof (vdec_ext p v r q E) as H1. rewrite <- H in H1.
  pose proof (vdec_venc n []) as H2. rewrite app_nil_r in H2. rewrite H2 in H1.
  inversion H1. destruct r; destruct q; try discriminate; congruence.
Qed.

(* ---------- zig-zag ---------- *)

Theorem zz_dec_enc : forall z, zz_dec (zz_enc z) = z.
Proof.
  intros z. unfold zz_enc, zz_dec. destruct (0 <=? z)%Z eqn:E.
  - assert (H : N.even (Z.to_N (2 * z)) = true).
    { rewrite N.even_spec. exists (Z.to_N z). lia. }
    rewrite H. lia.
  - assert (H : N.even (Z.to_N (-2 * z - 1)) = false).
    { rewrite <- N.negb_odd. apply negb_false_iff. rewrite N.odd_spec.
      exists (Z.to_N (- z - 1)). lia. }
    rewrite H. lia.
Qed.

Theorem zz_enc_dec : forall n, zz_enc (zz_dec n) = n.
Proof.
  intros n. unfold zz_enc, zz_dec. destruct (N.even n) eqn:E.
  - apply N.even_spec in E. destruct E as [k Hk]. subst.
    assert ((0 <=? Z.of_N (2 * k / 2))%Z = true) by lia. rewrite H. lia.
  - assert (O : N.odd n = true) by (rewrite <- N.negb_even, E; reflexivity).
    apply N.odd_spec in O. destruct O as [k Hk]. subst.
    assert ((0 <=? - Z.of_N ((2 * k + 1 + 1) / 2))%Z = false) by lia. rewrite H. lia.
Qed.

Theorem zz_enc_range : forall w z, 0 < w -> in_range_s w z = true -> zz_enc z < 2 ^ w.
Proof.
  intros w z Hw H. unfold in_range_s in H. unfold zz_enc.
  assert (Hp : (2 ^ Z.of_N w = 2 * 2 ^ (Z.of_N w - 1))%Z).
  { rewrite <- Z.pow_succ_r by lia. f_equal. lia. }
  assert (Hq : Z.of_N (2 ^ w) = (2 ^ Z.of_N w)%Z) by (rewrite N2Z.inj_pow; reflexivity).
  destruct (0 <=? z)%Z eqn:E; lia.
Qed.

Theorem zz_dec_range : forall w n, 0 < w -> n < 2 ^ w -> in_range_s w (zz_dec n) = true.
Proof.
  intros w n Hw H. unfold in_range_s, zz_dec.
  assert (Hp : (2 ^ Z.of_N w = 2 * 2 ^ (Z.of_N w - 1))%Z).
  { rewrite <- Z.pow_succ_r by lia. f_equal. lia. }
  assert (Hq : Z.of_N (2 ^ w) = (2 ^ Z.of_N w)%Z) by (rewrite N2Z.inj_pow; reflexivity).
  destruct (N.even n) eqn:E.
  - apply N.even_spec in E. destruct E as [k Hk]. subst. lia.
  - assert (O : N.odd n = true) by (rewrite <- N.negb_even, E; reflexivity).
    apply N.odd_spec in O. destruct O as [k Hk]. subst. lia.
Qed.

(* ---------- fixed width little endian ---------- *)

Theorem le_dec_enc : forall k n, n < 256 ^ N.of_nat k -> le_dec (le_enc k n) = n.
Proof.
  induction k as [|k IH]; intros n H.
  - cbn in H. cbn. lia.
  - cbn [le_enc le_dec]. rewrite IH.
    + lia.
    + rewrite Nat2N.inj_succ, N.pow_succ_r' in H. apply N.div_lt_upper_bound; lia.
Qed.

Theorem le_enc_length : forall k n, length (le_enc k n) = k.
Proof. induction k; intros; cbn; auto. Qed.

Theorem le_enc_bytes : forall k n, all_bytes (le_enc k n) = true.
Proof.
  induction k as [|k IH]; intros n; [reflexivity|].
  cbn [le_enc all_bytes forallb]. fold (all_bytes (le_enc k (n / 256))). rewrite IH.
  unfold is_byte. assert (n mod 256 <? 256 = true) by lia. rewrite H. reflexivity.
Qed.

Theorem le_dec_bound : forall l, all_bytes l = true -> le_dec l < 256 ^ N.of_nat (length l).
Proof.
  induction l as [|b l IH]; intros H; [cbn; lia|].
  cbn [all_bytes forallb] in H. apply andb_true_iff in H. destruct H as [Hb Hl].
  fold (all_bytes l) in Hl. specialize (IH Hl). unfold is_byte in Hb.
  cbn [le_dec length]. rewrite Nat2N.inj_succ, N.pow_succ_r'. lia.
Qed.

Theorem le_enc_dec : forall l, all_bytes l = true -> le_enc (length l) (le_dec l) = l.
Proof.
  induction l as [|b l IH]; intros H; [reflexivity|].
  cbn [all_bytes forallb] in H. apply andb_true_iff in H. destruct H as [Hb Hl].
  fold (all_bytes l) in Hl. unfold is_byte in Hb.
  cbn [le_dec length le_enc]. f_equal; [lia|].
  replace ((b + 256 * le_dec l) / 256) with (le_dec l) by lia. apply IH, Hl.
Qed.

(* ---------- take ---------- *)

Theorem take_app : forall l r, take (N.of_nat (length l)) (l ++ r) = Some (l, r).
Proof.
  induction l as [|b l IH]; intros r.
  - cbn. destruct r; reflexivity.
  - cbn [length app]. rewrite Nat2N.inj_succ. cbn [take].
    assert (E : (N.succ (N.of_nat (length l)) =? 0) = false) by lia. rewrite E.
    replace (N.succ (N.of_nat (length l)) - 1) with (N.of_nat (length l)) by lia.
    rewrite IH. reflexivity.
Qed.

Theorem take_spec : forall l n h t, take n l = Some (h, t) -> l = h ++ t /\ N.of_nat (length h) = n.
Proof.
  induction l as [|b l IH]; intros n h t H.
  - cbn in H. destruct (n =? 0) eqn:E; [|discriminate]. inversion H; subst. split; [reflexivity|cbn; lia].
  - cbn [take] in H. destruct (n =? 0) eqn:E.
    + inversion H; subst. split; [reflexivity|cbn; lia].
    + destruct (take (n - 1) l) as [[h' t']|] eqn:E2; [|discriminate].
      inversion H; subst. destruct (IH _ _ _ E2) as [H1 H2]. subst l.
      split; [reflexivity|]. cbn [length]. lia.
Qed.

Theorem take_ext : forall l n h t e, take n l = Some (h, t) -> take n (l ++ e) = Some (h, t ++ e).
Proof.
  intros l n h t e H. destruct (take_spec _ _ _ _ H) as [H1 H2]. subst.
  rewrite <- app_assoc. apply take_app.
Qed.
