(* The binary encoding is unambiguous.  Consequences of the round trip (BinaryProofs.dec_enc,
   ProtocolProofs.protocol_roundtrip) stated about the ENCODER alone, for every type and every
   pair of well-typed values:
   - [enc_prefix_free]: two encodings followed by arbitrary suffixes coincide only when the values
     and the suffixes coincide, so no encoding is a proper prefix of another and the bytes of an
     item never depend on, or leak into, what follows it (the byte-level basis of C17 item
     independence and of C16: cutting inside an item cannot yield another complete item of the
     same type followed by the same remainder);
   - [enc_inj]: distinct well-typed values have distinct encodings (nothing is lost on the wire);
   - [enc_protocol_inj]: two accepted write histories that produce the same stream are
     indistinguishable to the reader, i.e. the stream determines everything a reader observes. *)
From Coq Require Import List NArith ZArith Bool Lia.
From YV Require Import Base.Wire Proofs.WireProofs Model.Binary Proofs.BinaryProofs Proofs.ProtocolProofs.
Import ListNotations.
Open Scope N_scope.

Theorem enc_prefix_free : forall t v1 v2 r1 r2,
  has_type t v1 = true -> has_type t v2 = true ->
  enc t v1 ++ r1 = enc t v2 ++ r2 -> v1 = v2 /\ r1 = r2.
Proof.
  intros t v1 v2 r1 r2 H1 H2 H.
  pose proof (dec_enc t v1 r1 H1) as D1. rewrite H, (dec_enc t v2 r2 H2) in D1.
  inversion D1. split; reflexivity.
Qed.

Theorem enc_inj : forall t v1 v2,
  has_type t v1 = true -> has_type t v2 = true -> enc t v1 = enc t v2 -> v1 = v2.
Proof.
  intros t v1 v2 H1 H2 H.
  apply (enc_prefix_free t v1 v2 [] [] H1 H2). rewrite H. reflexivity.
Qed.

Theorem enc_not_proper_prefix : forall t v1 v2 q,
  has_type t v1 = true -> has_type t v2 = true -> enc t v1 = enc t v2 ++ q -> q = [] /\ v1 = v2.
Proof.
  intros t v1 v2 q H1 H2 H.
  destruct (enc_prefix_free t v1 v2 [] q H1 H2) as [E1 E2]; [rewrite app_nil_r; exact H|].
  split; [symmetry; exact E2 | exact E1].
Qed.

(* a sequence of items of one type, written back to back, is determined by its bytes *)
Theorem enc_items_inj : forall t xs ys,
  forallb (has_type t) xs = true -> forallb (has_type t) ys = true -> length xs = length ys ->
  concat (map (enc t) xs) = concat (map (enc t) ys) -> xs = ys.
Proof.
  intros t xs ys Hx Hy Hl H.
  pose proof (dec_n_enc t xs [] (dec_enc t) Hx) as D1.
  pose proof (dec_n_enc t ys [] (dec_enc t) Hy) as D2.
  rewrite H, Hl, D2 in D1. inversion D1. reflexivity.
Qed.

Theorem enc_protocol_inj : forall schema p ws1 ws2,
  steps_ok p ws1 = true -> steps_ok p ws2 = true ->
  enc_protocol schema p ws1 = enc_protocol schema p ws2 -> map sread_of ws1 = map sread_of ws2.
Proof.
  intros schema p ws1 ws2 H1 H2 H.
  pose proof (protocol_roundtrip schema p ws1 H1) as D1.
  rewrite H, (protocol_roundtrip schema p ws2 H2) in D1. inversion D1. reflexivity.
Qed.

(* the stream also determines the schema it carries *)
Theorem enc_protocol_schema_inj : forall s1 s2 p1 p2 ws1 ws2,
  enc_protocol s1 p1 ws1 = enc_protocol s2 p2 ws2 -> s1 = s2.
Proof.
  intros s1 s2 p1 p2 ws1 ws2 H.
  destruct (list_eq_N s1 s2) eqn:E; [apply list_eq_N_eq; exact E|].
  assert (Hne : s1 <> s2) by (intros ->; rewrite list_eq_N_refl in E; discriminate).
  pose proof (foreign_schema_refused s1 s2 p1 p1 ws1 Hne) as F.
  rewrite H in F. unfold dec_protocol, enc_protocol in F.
  rewrite dec_header_enc, list_eq_N_refl in F. cbn [negb] in F.
  destruct (dec_steps p1 (enc_steps p2 ws2)) as [[? [|? ?]]|]; discriminate.
Qed.

(* cutting an item anywhere before its last byte leaves bytes that do not decode at its type: no strict prefix of an
   encoding is itself decodable (so a truncated item is never mistaken for a shorter complete one) *)
Theorem enc_strict_prefix_undecodable : forall t v p q,
  has_type t v = true -> enc t v = p ++ q -> q <> [] -> dec t p = None.
Proof.
  intros t v p q Hv H Hq.
  destruct (dec t p) as [[v' r']|] eqn:D; [|reflexivity].
  apply (dec_ext t p v' r' q) in D. rewrite <- H in D.
  pose proof (dec_enc t v [] Hv) as R. rewrite app_nil_r in R. rewrite R in D.
  inversion D as [[Ev Er]]. symmetry in Er. apply app_eq_nil in Er. destruct Er as [_ Er]. contradiction.
Qed.

Example enc_inj_hyp_sat :
  has_type (TVec (TPrim PInt32)) (VSeq [VInt 1; VInt (-2)]) = true /\
  has_type (TVec (TPrim PInt32)) (VSeq [VInt 1]) = true /\
  enc (TVec (TPrim PInt32)) (VSeq [VInt 1; VInt (-2)]) <> enc (TVec (TPrim PInt32)) (VSeq [VInt 1]).
Proof. repeat split; vm_compute; try reflexivity. discriminate. Qed.

Print Assumptions enc_prefix_free.
Print Assumptions enc_items_inj.
Print Assumptions enc_strict_prefix_undecodable.
Print Assumptions enc_protocol_inj.
Print Assumptions enc_protocol_schema_inj.
