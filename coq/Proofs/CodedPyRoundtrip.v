(* The Python coded streams end to end: what CodedOutputStream (any buffer size >= 10) hands to the underlying stream,
   CodedInputStream (any buffer size > 0) reads back as exactly the values written. *)
From Coq Require Import List NArith ZArith Bool Lia Arith.
From Coq Require Import ZifyBool ZifyN ZifyNat.
From YV Require Import Base.Wire Proofs.WireProofs Model.CodedCpp Proofs.CodedCppIn Model.CodedPy
  Proofs.CodedPyIn Proofs.CodedPyOut.
Import ListNotations.
Open Scope N_scope.

(* the read operation that takes back what a write operation put, and the value it must yield *)
Definition read_of (op : pwop) : list (pop * rval) :=
  match op with
  | PWEnsure _ | PWFlush => []
  | PWByteNC b | PWByte b => [(PByte, VNum b)]
  | PWVar n => [(PVar, VNum n)]
  | PWFixed k n => [(PFixed k, VNum n)]
  | PWBytes l | PWDirect l => [(PBytes (N.of_nat (length l)), VBytes l)]
  end.

Definition reads_of (ops : list pwop) : list pop := map fst (concat (map read_of ops)).
Definition values_of (ops : list pwop) : list rval := map snd (concat (map read_of ops)).

Lemma pvdec_of_vdec : forall a v r, all_bytes a = true -> vdec a = Some (v, []) -> pvdec (a ++ r) = Some (v, r).
Proof.
  induction a as [|b a IH]; intros v r Hb H; [discriminate|].
  unfold all_bytes in Hb. cbn [forallb] in Hb. apply andb_true_iff in Hb. destruct Hb as [Hb1 Hb2]. unfold is_byte in Hb1.
  cbn [vdec] in H. cbn [app pvdec]. destruct (b <? 128) eqn:E.
  - injection H as <- Ha. subst a. cbn [app]. rewrite N.mod_small by lia. reflexivity.
  - destruct (vdec a) as [[v' r']|] eqn:E2; [|discriminate]. injection H as <- ->.
    rewrite (IH v' r Hb2 eq_refl). f_equal. f_equal.
    assert (b mod 128 = b - 128) as ->; [|reflexivity].
    replace b with ((b - 128) + 1 * 128) at 1 by lia. rewrite N.mod_add by lia. apply N.mod_small. lia.
Qed.

Lemma pvdec_venc : forall n r, pvdec (venc n ++ r) = Some (n, r).
Proof.
  intros n r. apply pvdec_of_vdec; [apply venc_bytes|].
  pose proof (vdec_venc n []) as H. rewrite app_nil_r in H. exact H.
Qed.

Lemma pastep_read_of : forall b1 op rest, pwop_ok b1 op ->
  forall rd v, In (rd, v) (read_of op) -> pastep (pwbytes op ++ rest) rd = Some (v, rest).
Proof.
  intros b1 op rest Hok rd v Hin. destruct op as [n|b|b|n|k n|l|l|]; cbn [read_of pwbytes pwop_ok] in *;
    try contradiction; destruct Hin as [Hin|[]]; injection Hin as <- <-; cbn [pastep app].
  - reflexivity.
  - rewrite pvdec_venc. reflexivity.
  - destruct Hok as [_ Hn]. pose proof (take_app (le_enc k n) rest) as H. rewrite le_enc_length in H. rewrite H.
    rewrite le_dec_enc by assumption. reflexivity.
  - rewrite take_app. reflexivity.
  - rewrite take_app. reflexivity.
Qed.

Lemma paexact_written : forall b1 ops, Forall (pwop_ok b1) ops ->
  paexact (concat (map pwbytes ops)) (reads_of ops) = Some (values_of ops).
Proof.
  intros b1 ops H. unfold reads_of, values_of. induction H as [|op ops Hop Hops IH]; [reflexivity|].
  cbn [map concat]. rewrite !map_app.
  destruct (read_of op) as [|[rd v] [|x y]] eqn:E.
  - (* operations that write nothing *)
    cbn [map app]. destruct op; cbn [read_of] in E; try discriminate; cbn [pwbytes app]; exact IH.
  - cbn [map app fst snd paexact].
    rewrite (pastep_read_of b1 op _ Hop rd v) by (rewrite E; left; reflexivity).
    rewrite IH. reflexivity.
  - destruct op; cbn [read_of] in E; discriminate.
Qed.

Lemma reads_ok : forall b1 b2 ops, Forall (pwop_ok b1) ops ->
  Forall (fun op => match op with PWFixed k _ => (k <= b2)%nat | _ => True end) ops ->
  Forall (pop_ok b2) (reads_of ops).
Proof.
  intros b1 b2 ops H1 H2. unfold reads_of. induction H2 as [|op ops Hop Hops IH]; [constructor|].
  inversion H1 as [|? ? Hok Hoks]; subst. cbn [map concat]. rewrite map_app. apply Forall_app. split; [|apply IH; assumption].
  destruct op; cbn [read_of map fst]; repeat constructor. exact Hop.
Qed.

Theorem py_stream_roundtrip : forall b1 b2 ops, (10 <= b1)%nat -> (0 < b2)%nat ->
  Forall (pwop_ok b1) ops ->
  Forall (fun op => match op with PWFixed k _ => (k <= b2)%nat | _ => True end) ops ->
  exists chunks, pwfinish b1 ops = PWOk chunks /\
                 prun b2 (pin_init (concat chunks)) (reads_of ops) = map PyOk (values_of ops).
Proof.
  intros b1 b2 ops H1 H2 Hok Hk.
  destruct (py_writer_refines b1 ops H1 Hok) as [chunks [E C]].
  exists chunks. split; [assumption|]. rewrite C.
  apply py_complete; [assumption|apply (reads_ok b1); assumption|apply (paexact_written b1); assumption].
Qed.
