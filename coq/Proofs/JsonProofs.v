(* NDJSON: of_json (to_json v) = v, soundness of the declared JSON kinds, and the line protocol. *)
From Coq Require Import List NArith ZArith Bool Lia Arith.
From Coq Require Import ZifyBool ZifyN ZifyNat.
From YV Require Import Base.Wire Model.Binary Gen.Tables Model.Json Proofs.BinaryProofs.
Import ListNotations.
Open Scope N_scope.

(* ---------- induction principle for the nested type ---------- *)
Section JtyInd.
Variable P : jty -> Prop.
Hypothesis Hprim : forall p, P (JTPrim p).
Hypothesis Henum : forall b s, P (JTEnum b s).
Hypothesis Hflags : forall b s, P (JTFlags b s).
Hypothesis Hopt : forall t, P t -> P (JTOpt t).
Hypothesis Hunion : forall hn cs, Forall (fun c => P (snd c)) cs -> P (JTUnion hn cs).
Hypothesis Hvec : forall t, P t -> P (JTVec t).
Hypothesis Hfixvec : forall n t, P t -> P (JTFixVec n t).
Hypothesis Harr : forall r t, P t -> P (JTArr r t).
Hypothesis Hfixarr : forall d t, P t -> P (JTFixArr d t).
Hypothesis Hdynarr : forall t, P t -> P (JTDynArr t).
Hypothesis Hmap : forall k v, P k -> P v -> P (JTMap k v).
Hypothesis Hrec : forall fs, Forall (fun c => P (snd c)) fs -> P (JTRec fs).

Fixpoint jty_ind' (t : jty) : P t :=
  match t with
  | JTPrim p => Hprim p
  | JTEnum b s => Henum b s
  | JTFlags b s => Hflags b s
  | JTOpt e => Hopt e (jty_ind' e)
  | JTUnion hn cs =>
      Hunion hn cs ((fix go (cs : list (str * jty)) : Forall (fun c => P (snd c)) cs :=
                       match cs with
                       | [] => Forall_nil _
                       | c :: r => Forall_cons c (jty_ind' (snd c)) (go r)
                       end) cs)
  | JTVec e => Hvec e (jty_ind' e)
  | JTFixVec n e => Hfixvec n e (jty_ind' e)
  | JTArr r e => Harr r e (jty_ind' e)
  | JTFixArr d e => Hfixarr d e (jty_ind' e)
  | JTDynArr e => Hdynarr e (jty_ind' e)
  | JTMap k v => Hmap k v (jty_ind' k) (jty_ind' v)
  | JTRec fs =>
      Hrec fs ((fix go (fs : list (str * jty)) : Forall (fun c => P (snd c)) fs :=
                  match fs with
                  | [] => Forall_nil _
                  | c :: r => Forall_cons c (jty_ind' (snd c)) (go r)
                  end) fs)
  end.
End JtyInd.

(* ---------- strings ---------- *)
Lemma str_eqb_refl : forall a, str_eqb a a = true.
Proof. induction a as [|x a IH]; cbn; [reflexivity|]. rewrite N.eqb_refl, IH. reflexivity. Qed.

Lemma str_eqb_eq : forall a b, str_eqb a b = true -> a = b.
Proof.
  induction a as [|x a IH]; intros [|y b] H; cbn in H; try discriminate; [reflexivity|].
  apply andb_true_iff in H. destruct H as [H1 H2]. apply N.eqb_eq in H1. subst. f_equal. apply IH, H2.
Qed.

Lemma existsb_str_false : forall x l, existsb (str_eqb x) l = false -> forall y, In y l -> str_eqb x y = false.
Proof.
  intros x l H y Hy. destruct (str_eqb x y) eqn:E; [|reflexivity].
  assert (existsb (str_eqb x) l = true) by (apply existsb_exists; exists y; split; assumption). congruence.
Qed.

Lemma value_of_sym_in : forall (V : Type) (syms : list (str * V)) s v,
  nodup_str (map fst syms) = true -> In (s, v) syms -> value_of_sym syms s = Some v.
Proof.
  intros V syms. induction syms as [|[s0 v0] r IH]; intros s v Hn Hin; [destruct Hin|].
  cbn [map fst nodup_str] in Hn. apply andb_true_iff in Hn. destruct Hn as [Hx Hr].
  apply negb_true_iff in Hx. cbn [value_of_sym].
  destruct Hin as [E|Hin].
  - injection E as <- <-. rewrite str_eqb_refl. reflexivity.
  - assert (Hs : str_eqb s0 s = false).
    { apply (existsb_str_false _ _ Hx). apply in_map_iff. exists (s, v). split; [reflexivity|assumption]. }
    rewrite Hs. apply IH; assumption.
Qed.

Lemma sym_of_value_in : forall syms z s, sym_of_value syms z = Some s -> In (s, z) syms.
Proof.
  induction syms as [|[s0 v0] r IH]; intros z s H; cbn [sym_of_value] in H; [discriminate|].
  destruct (v0 =? z)%Z eqn:E.
  - injection H as <-. apply Z.eqb_eq in E. subst. left. reflexivity.
  - right. apply IH, H.
Qed.

(* ---------- bit sets ---------- *)
Lemma land_lor_0_l : forall a b c, N.land a (N.lor b c) = 0 -> N.land a b = 0.
Proof.
  intros a b c H. apply N.bits_inj. intro n.
  assert (Hn := f_equal (fun x => N.testbit x n) H). cbn beta in Hn.
  rewrite N.land_spec, N.lor_spec, N.bits_0 in Hn. rewrite N.land_spec, N.bits_0.
  destruct (N.testbit a n), (N.testbit b n), (N.testbit c n); cbn in *; congruence.
Qed.

Lemma land_lor_0_r : forall a b c, N.land a (N.lor b c) = 0 -> N.land a c = 0.
Proof. intros a b c H. rewrite N.lor_comm in H. apply (land_lor_0_l _ _ _ H). Qed.

Lemma land_sub_0 : forall k d e, N.land k d = k -> N.land d e = 0 -> N.land e k = 0.
Proof.
  intros k d e H1 H2. apply N.bits_inj. intro n.
  assert (A := f_equal (fun x => N.testbit x n) H1). assert (B := f_equal (fun x => N.testbit x n) H2).
  cbn beta in A, B. rewrite N.land_spec in A. rewrite N.land_spec, N.bits_0 in B. rewrite N.land_spec, N.bits_0.
  destruct (N.testbit k n), (N.testbit d n), (N.testbit e n); cbn in *; congruence.
Qed.

Lemma lor_ldiff_sub : forall v r, N.land v r = v -> N.lor v (N.ldiff r v) = r.
Proof.
  intros v r H. apply N.bits_inj. intro n.
  assert (A := f_equal (fun x => N.testbit x n) H). cbn beta in A. rewrite N.land_spec in A.
  rewrite N.lor_spec, N.ldiff_spec.
  destruct (N.testbit v n), (N.testbit r n); cbn in *; congruence.
Qed.

(* ---------- flags ---------- *)
Lemma Forall2_weaken : forall (A B : Type) (P Q : A -> B -> Prop) l1 l2,
  (forall a b, P a b -> Q a b) -> Forall2 P l1 l2 -> Forall2 Q l1 l2.
Proof. intros A B P Q l1 l2 H F. induction F; constructor; auto. Qed.

Lemma flags_decompose_spec : forall syms rem taken rem',
  flags_decompose syms rem = (taken, rem') ->
  exists vs, Forall2 (fun s v => In (s, v) syms) taken vs /\ rem = N.lor (fold_right N.lor 0 vs) rem'.
Proof.
  induction syms as [|[s v] r IH]; intros rem taken rem' H; cbn [flags_decompose] in H.
  - injection H as <- <-. exists []. split; [constructor|reflexivity].
  - destruct ((v =? 0) || negb (N.land v rem =? v)) eqn:E.
    + destruct (IH _ _ _ H) as [vs [F Hr]]. exists vs. split; [|exact Hr].
      eapply Forall2_weaken; [|exact F]. intros a b Hab. right. exact Hab.
    + apply orb_false_iff in E. destruct E as [_ E]. apply negb_false_iff in E. apply N.eqb_eq in E.
      destruct (flags_decompose r (N.ldiff rem v)) as [tk rm] eqn:D. injection H as <- <-.
      destruct (IH _ _ _ D) as [vs [F Hr]]. exists (v :: vs). split.
      * constructor; [left; reflexivity|]. eapply Forall2_weaken; [|exact F]. intros a b Hab. right. exact Hab.
      * cbn [fold_right]. rewrite <- N.lor_assoc, <- Hr. symmetry. apply lor_ldiff_sub, E.
Qed.

Lemma flags_of_syms_taken : forall syms taken vs,
  nodup_str (map fst syms) = true -> Forall2 (fun s v => In (s, v) syms) taken vs ->
  flags_of_syms syms (map JStr taken) = Some (fold_right N.lor 0 vs).
Proof.
  intros syms taken vs Hn F. induction F as [|s v tk vs' Hin F IH]; [reflexivity|].
  cbn [map flags_of_syms fold_right]. rewrite (value_of_sym_in _ _ _ _ Hn Hin), IH. reflexivity.
Qed.

Lemma flags_rt : forall syms v, nodup_str (map fst syms) = true ->
  match flags_to_json syms v with
  | JNum z => z = Z.of_N v
  | JArr l => flags_of_syms syms l = Some v
  | _ => False
  end.
Proof.
  intros syms v Hn. unfold flags_to_json. destruct (v =? 0) eqn:E0.
  - apply N.eqb_eq in E0. subst v. unfold flags_zero_json.
    destruct (find (fun sv => snd sv =? 0) syms) as [[s v0]|] eqn:F; [|reflexivity].
    apply find_some in F. destruct F as [Hin Hv]. cbn [snd] in Hv. apply N.eqb_eq in Hv. subst v0.
    cbn [flags_of_syms]. rewrite (value_of_sym_in _ _ _ _ Hn Hin). reflexivity.
  - destruct (flags_decompose syms v) as [taken rem] eqn:D.
    destruct (rem =? 0) eqn:Er; [|reflexivity].
    apply N.eqb_eq in Er. subst rem. destruct (flags_decompose_spec _ _ _ _ D) as [vs [F Hr]].
    rewrite N.lor_0_r in Hr. rewrite Hr. apply flags_of_syms_taken; assumption.
Qed.

(* ---------- soundness of the declared kinds: what is written has a kind the table announces ---------- *)
Definition kind_sound (t : jty) : Prop :=
  forall v, jhas_type t v = true ->
    N.land (kind_of (to_json t v)) (declared_kind t) = kind_of (to_json t v).

Lemma kind_sound_prim : forall p, kind_sound (JTPrim p).
Proof.
  intros p v H. cbn [jhas_type] in H. cbn [to_json declared_kind].
  destruct p; destruct v; cbn in H; try discriminate; reflexivity.
Qed.

Lemma kind_sound_enum : forall b s, kind_sound (JTEnum b s).
Proof.
  intros b s v H. destruct v; cbn [jhas_type] in H; try discriminate.
  cbn [to_json declared_kind]. destruct (sym_of_value s z); reflexivity.
Qed.

Lemma kind_sound_flags : forall b s, kind_sound (JTFlags b s).
Proof.
  intros b s v H. destruct v; cbn [jhas_type] in H; try discriminate.
  cbn [to_json declared_kind]. unfold flags_to_json, flags_zero_json.
  destruct (Z.to_N z =? 0).
  - destruct (find _ s) as [[? ?]|]; reflexivity.
  - destruct (flags_decompose s (Z.to_N z)) as [tk rm]. destruct (rm =? 0); reflexivity.
Qed.

Lemma kind_sound_case : forall t, is_case_ok t = true -> kind_sound t.
Proof.
  intros t Hc. destruct t; cbn [is_case_ok] in Hc; try discriminate.
  - apply kind_sound_prim.
  - apply kind_sound_enum.
  - apply kind_sound_flags.
  - intros v H. destruct v; cbn [jhas_type] in H; try discriminate. reflexivity.
  - intros v H. destruct v; cbn [jhas_type] in H; try discriminate. reflexivity.
  - intros v H. destruct v; cbn [jhas_type] in H; try discriminate. reflexivity.
  - intros v H. destruct v; cbn [jhas_type] in H; try discriminate. reflexivity.
  - intros v H. destruct v; cbn [jhas_type] in H; try discriminate. reflexivity.
  - intros v H. destruct v; cbn [jhas_type] in H; try discriminate.
    cbn [to_json declared_kind]. destruct (is_string_prim t1); reflexivity.
  - intros v H. destruct v; cbn [jhas_type] in H; try discriminate. reflexivity.
Qed.

Lemma kind_of_nonzero : forall j, kind_of j <> 0.
Proof. destruct j; cbn; discriminate. Qed.

(* a typed value of a type that cannot be null is never written as null *)
Lemma not_null_case : forall t v, is_case_ok t = true -> jhas_type t v = true -> is_jnull (to_json t v) = false.
Proof.
  intros t v Hc H. destruct t; cbn [is_case_ok] in Hc; try discriminate.
  - cbn [jhas_type] in H. cbn [to_json]. destruct p; destruct v; cbn in H; try discriminate; reflexivity.
  - destruct v; cbn [jhas_type] in H; try discriminate. cbn [to_json]. destruct (sym_of_value syms z); reflexivity.
  - destruct v; cbn [jhas_type] in H; try discriminate. cbn [to_json]. unfold flags_to_json, flags_zero_json.
    destruct (Z.to_N z =? 0).
    + destruct (find _ syms) as [[? ?]|]; reflexivity.
    + destruct (flags_decompose syms (Z.to_N z)) as [tk rm]. destruct (rm =? 0); reflexivity.
  - destruct v; cbn [jhas_type] in H; try discriminate. reflexivity.
  - destruct v; cbn [jhas_type] in H; try discriminate. reflexivity.
  - destruct v; cbn [jhas_type] in H; try discriminate. reflexivity.
  - destruct v; cbn [jhas_type] in H; try discriminate. reflexivity.
  - destruct v; cbn [jhas_type] in H; try discriminate. reflexivity.
  - destruct v; cbn [jhas_type] in H; try discriminate. cbn [to_json]. destruct (is_string_prim t1); reflexivity.
  - destruct v; cbn [jhas_type] in H; try discriminate. reflexivity.
Qed.

(* ---------- unions ---------- *)
Lemma disjoint_in : forall ks acc k, disjoint_from acc ks = true -> In k ks -> N.land k acc = 0.
Proof.
  induction ks as [|k0 r IH]; intros acc k H Hin; [destruct Hin|].
  cbn [disjoint_from] in H. apply andb_true_iff in H. destruct H as [H1 H2]. apply N.eqb_eq in H1.
  destruct Hin as [<-|Hin]; [exact H1|].
  apply (land_lor_0_l _ _ _ (IH _ _ H2 Hin)).
Qed.

Fixpoint jnth (cs : list (str * jty)) (i : N) : option (str * jty) :=
  match cs with
  | [] => None
  | c :: r => if i =? 0 then Some c else jnth r (i - 1)
  end.

Lemma jpick_nth : forall (A : Type) (f : jty -> A) d cs i,
  jpick f d cs i = match jnth cs i with Some c => f (snd c) | None => d end.
Proof.
  intros A f d. induction cs as [|c cs IH]; intros i; cbn [jpick jnth]; [reflexivity|].
  destruct (i =? 0); [reflexivity|apply IH].
Qed.

Lemma tag_at_nth : forall cs i, tag_at cs i = match jnth cs i with Some c => fst c | None => [] end.
Proof.
  unfold tag_at. induction cs as [|c cs IH]; intros i; cbn [jnth]; [reflexivity|].
  destruct (i =? 0); [reflexivity|apply IH].
Qed.

Lemma jnth_in : forall cs i c, jnth cs i = Some c -> In c cs.
Proof.
  induction cs as [|c0 cs IH]; intros i c H; cbn [jnth] in H; [discriminate|].
  destruct (i =? 0); [injection H as <-; left; reflexivity|right; eapply IH; exact H].
Qed.

Lemma case_by_kind_hit : forall cs acc i base k c,
  disjoint_from acc (map (fun c => declared_kind (snd c)) cs) = true ->
  jnth cs i = Some c -> N.land k (declared_kind (snd c)) = k -> k <> 0 ->
  case_by_kind_from cs k base = Some (base + i).
Proof.
  induction cs as [|c0 cs IH]; intros acc i base k c Hd Hn Hk Hk0; cbn [jnth] in Hn; [discriminate|].
  cbn [map disjoint_from] in Hd. apply andb_true_iff in Hd. destruct Hd as [Hd1 Hd2].
  cbn [case_by_kind_from]. destruct (i =? 0) eqn:Ei.
  - apply N.eqb_eq in Ei. subst i. injection Hn as ->.
    rewrite N.land_comm, Hk. destruct (k =? 0) eqn:E; [apply N.eqb_eq in E; contradiction|].
    cbn [negb]. rewrite N.add_0_r. reflexivity.
  - assert (Hdis : N.land (declared_kind (snd c)) (N.lor acc (declared_kind (snd c0))) = 0).
    { apply (disjoint_in _ _ _ Hd2). apply in_map_iff. exists c. split; [reflexivity|exact (jnth_in _ _ _ Hn)]. }
    apply land_lor_0_r in Hdis.
    rewrite (land_sub_0 _ _ _ Hk Hdis). cbn [N.eqb negb].
    rewrite (IH _ (i - 1) (base + 1) k c Hd2 Hn Hk Hk0). f_equal. apply N.eqb_neq in Ei. lia.
Qed.

Lemma case_by_tag_hit : forall cs i base c,
  nodup_str (map fst cs) = true -> jnth cs i = Some c ->
  case_by_tag_from cs (fst c) base = Some (base + i).
Proof.
  induction cs as [|c0 cs IH]; intros i base c Hn Hc; cbn [jnth] in Hc; [discriminate|].
  cbn [map nodup_str] in Hn. apply andb_true_iff in Hn. destruct Hn as [Hx Hr]. apply negb_true_iff in Hx.
  cbn [case_by_tag_from]. destruct (i =? 0) eqn:Ei.
  - apply N.eqb_eq in Ei. subst i. injection Hc as ->. rewrite str_eqb_refl, N.add_0_r. reflexivity.
  - assert (Hs : str_eqb (fst c0) (fst c) = false).
    { apply (existsb_str_false _ _ Hx). apply in_map. exact (jnth_in _ _ _ Hc). }
    rewrite Hs, (IH (i - 1) (base + 1) c Hr Hc). f_equal. apply N.eqb_neq in Ei. lia.
Qed.

Lemma jall_in : forall f cs c, jall f cs = true -> In c cs -> f (snd c) = true.
Proof.
  intros f. induction cs as [|c0 cs IH]; intros c H Hin; [destruct Hin|].
  cbn [jall] in H. apply andb_true_iff in H. destruct H as [H1 H2].
  destruct Hin as [<-|Hin]; [exact H1|apply IH; assumption].
Qed.

Lemma simple_union_disjoint : forall hn cs, simple_union hn cs = true ->
  exists acc, disjoint_from acc (map (fun c => declared_kind (snd c)) cs) = true.
Proof.
  intros hn cs H. unfold simple_union in H. destruct hn; cbn [app disjoint_from] in H.
  - apply andb_true_iff in H. destruct H as [_ H]. eexists. exact H.
  - eexists. exact H.
Qed.

Lemma not_null : forall t v, nullable t = false -> jty_ok t = true -> jhas_type t v = true ->
  is_jnull (to_json t v) = false.
Proof.
  intros t v Hn Hok H. destruct t; try (apply not_null_case; [reflexivity|exact H]); cbn [nullable] in Hn; [discriminate|].
  subst has_null. destruct v; cbn [jhas_type] in H; try discriminate.
  cbn [jty_ok] in Hok. apply andb_true_iff in Hok. destruct Hok as [Hok _]. apply andb_true_iff in Hok. destruct Hok as [_ Hc].
  rewrite jpick_nth in H. destruct (jnth cases i) as [c|] eqn:En; [|discriminate].
  cbn [to_json]. rewrite jpick_nth, En. destruct (simple_union false cases); [|reflexivity].
  apply not_null_case; [apply (jall_in _ _ _ Hc (jnth_in _ _ _ En))|exact H].
Qed.

(* ---------- the round trip ---------- *)
Definition jrt (t : jty) : Prop :=
  jty_ok t = true -> forall v, jhas_type t v = true -> of_json t (to_json t v) = Some v.

Lemma list_rt : forall e xs, (forall v, jhas_type e v = true -> of_json e (to_json e v) = Some v) ->
  forallb (jhas_type e) xs = true -> list_of_json (of_json e) (map (to_json e) xs) = Some xs.
Proof.
  intros e xs He. induction xs as [|x xs IH]; intros H; [reflexivity|].
  cbn [forallb] in H. apply andb_true_iff in H. destruct H as [H1 H2].
  cbn [map list_of_json]. rewrite (He x H1), (IH H2). reflexivity.
Qed.

Lemma shape_rt : forall sh,
  list_of_json (fun d => match d with JNum z => Some (VInt z) | _ => None end) (map (fun d => JNum (Z.of_N d)) sh)
  = Some (map (fun d => VInt (Z.of_N d)) sh).
Proof. induction sh as [|d sh IH]; [reflexivity|]. cbn [map list_of_json]. rewrite IH. reflexivity. Qed.

Lemma shape_back : forall sh, map (fun d => match d with VInt z => Z.to_N z | _ => 0 end) (map (fun d => VInt (Z.of_N d)) sh) = sh.
Proof. induction sh as [|d sh IH]; [reflexivity|]. cbn [map]. rewrite N2Z.id, IH. reflexivity. Qed.

Lemma obj_rt : forall e kvs, (forall v, jhas_type e v = true -> of_json e (to_json e v) = Some v) ->
  forallb (fun kv => jhas_type (JTPrim PString) (fst kv) && jhas_type e (snd kv)) kvs = true ->
  obj_of_json (of_json e) (map (fun kv => (match fst kv with VStr s => s | _ => [] end, to_json e (snd kv))) kvs) = Some kvs.
Proof.
  intros e kvs He. induction kvs as [|[a b] kvs IH]; intros H; [reflexivity|].
  cbn [forallb fst snd] in H. apply andb_true_iff in H. destruct H as [H1 H2].
  apply andb_true_iff in H1. destruct H1 as [Ha Hb].
  cbn [map obj_of_json fst snd]. rewrite (He b Hb), (IH H2).
  destruct a; cbn in Ha; try discriminate. reflexivity.
Qed.

Lemma pairs_rt : forall k e kvs,
  (forall v, jhas_type k v = true -> of_json k (to_json k v) = Some v) ->
  (forall v, jhas_type e v = true -> of_json e (to_json e v) = Some v) ->
  forallb (fun kv => jhas_type k (fst kv) && jhas_type e (snd kv)) kvs = true ->
  pairs_of_json (of_json k) (of_json e) (map (fun kv => JArr [to_json k (fst kv); to_json e (snd kv)]) kvs) = Some kvs.
Proof.
  intros k e kvs Hk He. induction kvs as [|[a b] kvs IH]; intros H; [reflexivity|].
  cbn [forallb fst snd] in H. apply andb_true_iff in H. destruct H as [H1 H2].
  apply andb_true_iff in H1. destruct H1 as [Ha Hb].
  cbn [map pairs_of_json fst snd]. rewrite (Hk a Ha), (He b Hb), (IH H2). reflexivity.
Qed.

(* records: every field is found under its own name, or is an omitted null *)
Fixpoint fields_ok (fs : list (str * jty)) (xs : list val) (obj : list (str * json)) : Prop :=
  match fs, xs with
  | [], [] => True
  | (name, t) :: fr, x :: xr =>
      lookup_field name obj = match x with
                              | VNone => if nullable t then None else Some (to_json t x)
                              | _ => Some (to_json t x)
                              end
      /\ fields_ok fr xr obj
  | _, _ => False
  end.

Lemma rec_read : forall fs xs obj,
  Forall (fun c => forall v, jhas_type (snd c) v = true -> of_json (snd c) (to_json (snd c) v) = Some v) fs ->
  jall2 jhas_type fs xs = true -> fields_ok fs xs obj ->
  rec_of_json of_json fs obj = Some xs.
Proof.
  induction fs as [|[name t] fr IH]; intros xs obj HF Ht Hok.
  - destruct xs; [reflexivity|discriminate].
  - destruct xs as [|x xr]; [discriminate|]. inversion HF as [|? ? Hc HF']; subst. cbn [snd] in Hc.
    cbn [jall2 snd] in Ht. apply andb_true_iff in Ht. destruct Ht as [Ht1 Ht2].
    cbn [fields_ok] in Hok. destruct Hok as [Hl Hok].
    cbn [rec_of_json]. rewrite Hl. change ((fix go (fs : list (str * jty)) (obj0 : list (str * json)) {struct fs} : option (list val) := _) fr obj) with (rec_of_json of_json fr obj).
    rewrite (IH xr obj HF' Ht2 Hok).
    destruct x; try (rewrite (Hc _ Ht1); reflexivity).
    destruct (nullable t); [reflexivity|]. rewrite (Hc _ Ht1). reflexivity.
Qed.

Lemma lookup_app_none : forall n pre l, lookup_field n pre = None -> lookup_field n (pre ++ l) = lookup_field n l.
Proof.
  induction pre as [|[n0 j0] pre IH]; intros l H; [reflexivity|].
  cbn [lookup_field app] in *. destruct (str_eqb n0 n); [discriminate|apply IH, H].
Qed.

Lemma lookup_rec_none : forall f n fs xs, (forall c, In c fs -> str_eqb (fst c) n = false) ->
  lookup_field n (rec_to_json f fs xs) = None.
Proof.
  intros f n. induction fs as [|[name t] fr IH]; intros xs H; [reflexivity|].
  destruct xs as [|x xr]; [reflexivity|].
  assert (Hn : str_eqb name n = false) by (apply (H (name, t)); left; reflexivity).
  assert (Hr : lookup_field n (rec_to_json f fr xr) = None) by (apply IH; intros c Hc; apply H; right; exact Hc).
  cbn [rec_to_json].
  change ((fix go (fs : list (str * jty)) (xs : list val) {struct fs} : list (str * json) := _) fr xr) with (rec_to_json f fr xr).
  destruct x; try (cbn [lookup_field]; rewrite Hn; exact Hr).
  destruct (nullable t); [exact Hr|]. cbn [lookup_field]. rewrite Hn. exact Hr.
Qed.

Lemma str_eqb_sym : forall a b, str_eqb a b = str_eqb b a.
Proof.
  induction a as [|x a IH]; intros [|y b]; cbn; try reflexivity. rewrite IH, N.eqb_sym. reflexivity.
Qed.

Lemma rec_written : forall fs xs pre,
  nodup_str (map fst fs) = true -> jall2 jhas_type fs xs = true ->
  (forall c, In c fs -> lookup_field (fst c) pre = None) ->
  fields_ok fs xs (pre ++ rec_to_json to_json fs xs).
Proof.
  induction fs as [|[name t] fr IH]; intros xs pre Hn Ht Hpre.
  - destruct xs; [exact I|discriminate].
  - destruct xs as [|x xr]; [discriminate|].
    cbn [map fst nodup_str] in Hn. apply andb_true_iff in Hn. destruct Hn as [Hx Hr]. apply negb_true_iff in Hx.
    cbn [jall2 snd] in Ht. apply andb_true_iff in Ht. destruct Ht as [Ht1 Ht2].
    assert (Hname : lookup_field name pre = None) by (apply (Hpre (name, t)); left; reflexivity).
    assert (Hrest : lookup_field name (rec_to_json to_json fr xr) = None).
    { apply lookup_rec_none. intros c Hc. rewrite str_eqb_sym. apply (existsb_str_false _ _ Hx). apply in_map, Hc. }
    cbn [fields_ok rec_to_json].
    change ((fix go (fs : list (str * jty)) (xs : list val) {struct fs} : list (str * json) := _) fr xr) with (rec_to_json to_json fr xr).
    assert (Hemit : forall j, lookup_field name (pre ++ (name, j) :: rec_to_json to_json fr xr) = Some j).
    { intros j. rewrite (lookup_app_none _ _ _ Hname). cbn [lookup_field]. rewrite str_eqb_refl. reflexivity. }
    assert (Htail : forall j, fields_ok fr xr (pre ++ (name, j) :: rec_to_json to_json fr xr)).
    { intros j. change (pre ++ (name, j) :: rec_to_json to_json fr xr) with (pre ++ [(name, j)] ++ rec_to_json to_json fr xr).
      rewrite app_assoc. apply IH; [exact Hr|exact Ht2|].
      intros c Hc. rewrite lookup_app_none by (apply Hpre; right; exact Hc).
      cbn [lookup_field]. replace (str_eqb name (fst c)) with false; [reflexivity|].
      symmetry. apply (existsb_str_false _ _ Hx). apply in_map, Hc. }
    destruct x; try (split; [apply Hemit|apply Htail]).
    destruct (nullable t).
    + split; [rewrite (lookup_app_none _ _ _ Hname); exact Hrest|].
      apply IH; [exact Hr|exact Ht2|]. intros c Hc. apply Hpre. right. exact Hc.
    + split; [apply Hemit|apply Htail].
Qed.

Lemma jall_Forall : forall (P : jty -> Prop) f cs, Forall (fun c => f (snd c) = true -> P (snd c)) cs ->
  jall f cs = true -> Forall (fun c => P (snd c)) cs.
Proof.
  intros P f. induction cs as [|c cs IH]; intros HF H; [constructor|].
  inversion HF as [|? ? Hc HF']; subst. cbn [jall] in H. apply andb_true_iff in H. destruct H as [H1 H2].
  constructor; [apply Hc, H1|apply IH; assumption].
Qed.

Theorem of_json_to_json : forall t, jrt t.
Proof.
  apply jty_ind'; unfold jrt.
  - (* prim *) intros p _ v H. cbn [jhas_type] in H. cbn [to_json of_json].
    destruct p; destruct v; cbn in H; try discriminate; cbn [prim_to_json prim_of_json]; try reflexivity.
    (* bool *) unfold int_ok in H. cbn [int_width] in H. unfold in_range_u in H. change (2 ^ Z.of_N 1)%Z with 2%Z in H.
    assert (z = 0 \/ z = 1)%Z as [-> | ->] by lia; reflexivity.
  - (* enum *) intros b s Hok v H. cbn [jty_ok] in Hok. destruct v; cbn [jhas_type] in H; try discriminate.
    cbn [to_json]. destruct (sym_of_value s z) as [sym|] eqn:E; cbn [of_json]; [|reflexivity].
    rewrite (value_of_sym_in _ _ _ _ Hok (sym_of_value_in _ _ _ E)). reflexivity.
  - (* flags *) intros b s Hok v H. cbn [jty_ok] in Hok. destruct v; cbn [jhas_type] in H; try discriminate.
    apply andb_true_iff in H. destruct H as [_ Hz]. apply Z.leb_le in Hz.
    cbn [to_json]. pose proof (flags_rt s (Z.to_N z) Hok) as F.
    destruct (flags_to_json s (Z.to_N z)) eqn:E; try contradiction; cbn [of_json].
    + subst z0. rewrite Z2N.id by exact Hz. reflexivity.
    + rewrite F, Z2N.id by exact Hz. reflexivity.
  - (* optional *) intros e IH Hok v H. cbn [jty_ok] in Hok. apply andb_true_iff in Hok. destruct Hok as [Hnn Hok].
    apply negb_true_iff in Hnn. destruct v; cbn [jhas_type] in H; try discriminate; cbn [to_json of_json]; [reflexivity|].
    rewrite (not_null e v Hnn Hok H), (IH Hok v H). reflexivity.
  - (* union *) intros hn cs IH Hok v H. cbn [jty_ok] in Hok.
    apply andb_true_iff in Hok. destruct Hok as [Hok Hok3]. apply andb_true_iff in Hok. destruct Hok as [Hok1 Hok2].
    destruct v; cbn [jhas_type] in H; try discriminate.
    + subst hn. reflexivity.
    + rewrite jpick_nth in H. destruct (jnth cs i) as [c|] eqn:En; [|discriminate].
      pose proof (jnth_in _ _ _ En) as Hin.
      assert (Hcase : is_case_ok (snd c) = true) by (apply (jall_in _ _ _ Hok2 Hin)).
      assert (Hcok : jty_ok (snd c) = true) by (apply (jall_in _ _ _ Hok3 Hin)).
      assert (Hrt : of_json (snd c) (to_json (snd c) v) = Some v).
      { rewrite Forall_forall in IH. apply (IH c Hin Hcok v H). }
      cbn [to_json]. rewrite jpick_nth, En, tag_at_nth, En.
      destruct (simple_union hn cs) eqn:Es.
      * cbn [of_json]. rewrite (not_null_case _ _ Hcase H), Es.
        destruct (simple_union_disjoint _ _ Es) as [acc Hd].
        unfold case_by_kind.
        rewrite (case_by_kind_hit cs acc i 0 _ c Hd En (kind_sound_case _ Hcase v H) (kind_of_nonzero _)).
        rewrite N.add_0_l, jpick_nth, En, Hrt. reflexivity.
      * cbn [of_json is_jnull]. rewrite Es. unfold case_by_tag.
        rewrite (case_by_tag_hit cs i 0 c Hok1 En), N.add_0_l, jpick_nth, En, Hrt. reflexivity.
  - (* vector *) intros e IH Hok v H. cbn [jty_ok] in Hok. destruct v; cbn [jhas_type] in H; try discriminate.
    cbn [to_json of_json]. rewrite (list_rt e vs (IH Hok) H). reflexivity.
  - (* fixed vector *) intros n e IH Hok v H. cbn [jty_ok] in Hok. destruct v; cbn [jhas_type] in H; try discriminate.
    apply andb_true_iff in H. destruct H as [H1 H2].
    cbn [to_json of_json]. rewrite map_length, H1, (list_rt e vs (IH Hok) H2). reflexivity.
  - (* array of known rank *) intros r e IH Hok v H. cbn [jty_ok] in Hok. destruct v; cbn [jhas_type] in H; try discriminate.
    apply andb_true_iff in H. destruct H as [H H3].
    cbn [to_json of_json]. rewrite shape_rt, (list_rt e vs (IH Hok) H3), shape_back. reflexivity.
  - (* fixed array *) intros d e IH Hok v H. cbn [jty_ok] in Hok. destruct v; cbn [jhas_type] in H; try discriminate.
    apply andb_true_iff in H. destruct H as [H H3]. apply andb_true_iff in H. destruct H as [H1 H2].
    apply list_eq_N_eq in H1. subst d.
    cbn [to_json of_json]. rewrite (list_rt e vs (IH Hok) H3). reflexivity.
  - (* dynamic array *) intros e IH Hok v H. cbn [jty_ok] in Hok. destruct v; cbn [jhas_type] in H; try discriminate.
    apply andb_true_iff in H. destruct H as [H2 H3].
    cbn [to_json of_json]. rewrite shape_rt, (list_rt e vs (IH Hok) H3), shape_back. reflexivity.
  - (* map *) intros k e IHk IHe Hok v H. cbn [jty_ok] in Hok. apply andb_true_iff in Hok. destruct Hok as [Hk He].
    destruct v; cbn [jhas_type] in H; try discriminate.
    cbn [to_json of_json]. destruct (is_string_prim k) eqn:Ek.
    + destruct k; cbn in Ek; try discriminate. destruct p; try discriminate.
      rewrite (obj_rt e kvs (IHe He) H). reflexivity.
    + rewrite (pairs_rt k e kvs (IHk Hk) (IHe He) H). reflexivity.
  - (* record *) intros fs IH Hok v H. cbn [jty_ok] in Hok. apply andb_true_iff in Hok. destruct Hok as [Hn Hall].
    destruct v; cbn [jhas_type] in H; try discriminate.
    cbn [to_json of_json].
    assert (HF : Forall (fun c => forall v, jhas_type (snd c) v = true -> of_json (snd c) (to_json (snd c) v) = Some v) fs).
    { apply (jall_Forall (fun t => forall v, jhas_type t v = true -> of_json t (to_json t v) = Some v) jty_ok); [|exact Hall].
      eapply Forall_impl; [|exact IH]. intros c Hc Hcok. apply Hc, Hcok. }
    rewrite (rec_read fs vs _ HF H); [reflexivity|].
    apply (rec_written fs vs [] Hn H). intros c _. reflexivity.
Qed.

(* ---------- the line protocol ---------- *)
Definition flat (st : rstate) : list line :=
  match fst st with Some l => l :: snd st | None => snd st end.

Definition head_differs (name : str) (L : list line) : Prop :=
  match L with [] => True | (n, _) :: _ => str_eqb n name = false end.

Lemma read_items_rest_ok : forall name t items L,
  (forall v, jhas_type t v = true -> of_json t (to_json t v) = Some v) ->
  forallb (jhas_type t) items = true -> head_differs name L ->
  exists st', read_items_rest name t (map (fun v => (name, to_json t v)) items ++ L) = Some (items, st') /\ flat st' = L.
Proof.
  intros name t items L Ht. induction items as [|v items IH]; intros Hty HL.
  - cbn [map app]. destruct L as [|[n j] r].
    + exists (None, []). split; reflexivity.
    + cbn [head_differs] in HL. cbn [read_items_rest]. rewrite HL. exists (Some (n, j), r). split; reflexivity.
  - cbn [forallb] in Hty. apply andb_true_iff in Hty. destruct Hty as [H1 H2].
    destruct (IH H2 HL) as [st' [Hr Hf]].
    cbn [map app read_items_rest]. rewrite str_eqb_refl, (Ht v H1), Hr. exists st'. split; [reflexivity|exact Hf].
Qed.

Lemma read_items_ok : forall name t items L st,
  (forall v, jhas_type t v = true -> of_json t (to_json t v) = Some v) ->
  forallb (jhas_type t) items = true -> head_differs name L ->
  flat st = map (fun v => (name, to_json t v)) items ++ L ->
  exists st', read_items name t st = Some (items, st') /\ flat st' = L.
Proof.
  intros name t items L [[l|] rest] Ht Hty HL Hf; unfold flat in Hf; cbn [fst snd] in Hf.
  - destruct items as [|v items].
    + cbn [map app] in Hf. subst L. destruct l as [n j]. cbn [head_differs] in HL.
      cbn [read_items]. rewrite HL. exists (Some (n, j), rest). split; reflexivity.
    + cbn [map app] in Hf. injection Hf as -> ->.
      cbn [forallb] in Hty. apply andb_true_iff in Hty. destruct Hty as [H1 H2].
      destruct (read_items_rest_ok name t items L Ht H2 HL) as [st' [Hr Hfl]].
      cbn [read_items]. rewrite str_eqb_refl, (Ht v H1), Hr. exists st'. split; [reflexivity|exact Hfl].
  - subst rest. cbn [read_items]. apply read_items_rest_ok; assumption.
Qed.

Lemma write_lines_names : forall p ws l, In l (write_lines p ws) -> In (fst l) (map (fun s => fst (fst s)) p).
Proof.
  induction p as [|[[name st] t] pr IH]; intros ws l H; [destruct ws; destruct H|].
  destruct ws as [|w wr]; [destruct H|]. cbn [write_lines] in H. apply in_app_or in H. destruct H as [H|H].
  - left. cbn [fst]. destruct w; cbn [write_step] in H.
    + destruct H as [<-|[]]. reflexivity.
    + apply in_map_iff in H. destruct H as [v [<- _]]. reflexivity.
  - right. apply (IH wr l H).
Qed.

Theorem read_write_lines : forall p ws st,
  jproto_ok p = true -> jwrites_ok p ws = true -> flat st = write_lines p ws ->
  exists st', read_lines p st = Some (ws, st') /\ flat st' = [].
Proof.
  induction p as [|[[name is_stream] t] pr IH]; intros ws st Hp Hw Hf.
  - destruct ws; [|discriminate]. exists st. split; [reflexivity|exact Hf].
  - destruct ws as [|w wr]; [discriminate|].
    unfold jproto_ok in Hp. cbn [map fst snd nodup_str forallb] in Hp.
    apply andb_true_iff in Hp. destruct Hp as [Hn Hall]. apply andb_true_iff in Hn. destruct Hn as [Hx Hn].
    apply negb_true_iff in Hx. apply andb_true_iff in Hall. destruct Hall as [Htok Hall].
    assert (Hp' : jproto_ok pr = true) by (unfold jproto_ok; rewrite Hn, Hall; reflexivity).
    cbn [jwrites_ok] in Hw. apply andb_true_iff in Hw. destruct Hw as [Hw1 Hw2].
    pose proof (of_json_to_json t Htok) as Hrt.
    assert (HL : head_differs name (write_lines pr wr)).
    { destruct (write_lines pr wr) as [|[n j] r] eqn:E; [exact I|]. cbn [head_differs].
      rewrite str_eqb_sym. apply (existsb_str_false _ _ Hx).
      apply (write_lines_names pr wr (n, j)). rewrite E. left. reflexivity. }
    cbn [write_lines] in Hf. cbn [read_lines]. destruct w as [v|items]; cbn [jwrite_ok write_step] in Hw1, Hf.
    + apply andb_true_iff in Hw1. destruct Hw1 as [Hs Hv]. apply negb_true_iff in Hs. subst is_stream.
      assert (Hnext : exists st1, next_line st = Some ((name, to_json t v), st1) /\ flat st1 = write_lines pr wr).
      { destruct st as [[l|] rest]; unfold flat in Hf; cbn [fst snd app] in Hf.
        - injection Hf as -> ->. exists (None, write_lines pr wr). split; reflexivity.
        - subst rest. exists (None, write_lines pr wr). split; reflexivity. }
      destruct Hnext as [st1 [Hn1 Hf1]]. unfold read_value. rewrite Hn1, str_eqb_refl, (Hrt v Hv).
      destruct (IH wr st1 Hp' Hw2 Hf1) as [st' [Hr Hfl]]. rewrite Hr. exists st'. split; [reflexivity|exact Hfl].
    + apply andb_true_iff in Hw1. destruct Hw1 as [Hs Hv]. subst is_stream.
      destruct (read_items_ok name t items (write_lines pr wr) st Hrt Hv HL Hf) as [st1 [Hr1 Hf1]].
      rewrite Hr1. destruct (IH wr st1 Hp' Hw2 Hf1) as [st' [Hr Hfl]]. rewrite Hr.
      exists st'. split; [reflexivity|exact Hfl].
Qed.

Corollary read_write_lines_start : forall p ws,
  jproto_ok p = true -> jwrites_ok p ws = true ->
  exists st', read_lines p (None, write_lines p ws) = Some (ws, st') /\ flat st' = [].
Proof. intros p ws Hp Hw. apply read_write_lines; [exact Hp|exact Hw|reflexivity]. Qed.
