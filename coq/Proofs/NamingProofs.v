From Coq Require Import List String Bool NArith Lia.
From YV Require Import Base.Wire Model.Binary Model.Json Model.Schema Model.Naming Proofs.JsonProofs Proofs.SchemaProofs.
Import ListNotations.

Lemma smem_in : forall s l, smem s l = true <-> In s l.
Proof.
  intros s l. unfold smem. rewrite existsb_exists. split.
  - intros [y [Hin E]]. apply String.eqb_eq in E. subst. exact Hin.
  - intros Hin. exists s. split; [exact Hin|apply String.eqb_refl].
Qed.

Section EscapeProofs.
Variable casing : string -> string.
Variable reserved : list string.
Variable suffix : string.

Theorem escape_not_reserved :
  suffix_leaves_reserved reserved suffix = true ->
  forall name, smem (escape casing reserved suffix true name) reserved = false.
Proof.
  intros Ht name. unfold escape. destruct (smem (casing name) reserved) eqn:E; [|exact E].
  unfold suffix_leaves_reserved in Ht. rewrite forallb_forall in Ht.
  apply negb_true_iff. apply Ht. apply smem_in, E.
Qed.

Lemma append_cancel_r : forall a b s : string, (a ++ s = b ++ s)%string -> a = b.
Proof.
  intros a b s H.
  assert (L : forall x y : string, String.length (x ++ y) = (String.length x + String.length y)%nat).
  { induction x as [|c x IH]; intros y; cbn; [reflexivity|]. rewrite IH. reflexivity. }
  revert b H. induction a as [|c a IH]; intros [|d b] H; cbn in H.
  - reflexivity.
  - exfalso. assert (E := f_equal String.length H). cbn in E. rewrite L in E. lia.
  - exfalso. assert (E := f_equal String.length H). cbn in E. rewrite L in E. lia.
  - injection H as -> H. f_equal. apply IH, H.
Qed.

(* collisions between escaped names come only from collisions of the casing function, as long as no cased name
   is itself a reserved word followed by the suffix *)
Theorem escape_collisions_are_casing_collisions :
  (forall s w, In w reserved -> casing s <> (w ++ suffix)%string) ->
  forall a b, escape casing reserved suffix true a = escape casing reserved suffix true b -> casing a = casing b.
Proof.
  intros H a b E. unfold escape in E.
  destruct (smem (casing a) reserved) eqn:Ea; destruct (smem (casing b) reserved) eqn:Eb.
  - apply append_cancel_r in E. exact E.
  - exfalso. apply (H b (casing a)); [apply smem_in, Ea|symmetry; exact E].
  - exfalso. apply (H a (casing b)); [apply smem_in, Eb|exact E].
  - exact E.
Qed.
End EscapeProofs.

(* ---------- definition order ---------- *)
Lemma ordered_sound : forall defs seen all, ordered seen all defs = true ->
  forall pre d post, defs = pre ++ d :: post ->
  forall n, In n (def_refs d) -> In n all -> same_ns n (d_name d) = true ->
    In n (seen ++ map d_name pre).
Proof.
  induction defs as [|d0 defs IH]; intros seen all H pre d post E n Hn Hall Hns.
  - destruct pre; discriminate.
  - cbn [ordered] in H. apply andb_true_iff in H. destruct H as [H1 H2]. destruct pre as [|p pre].
    + cbn [app] in E. injection E as <- <-. rewrite forallb_forall in H1. specialize (H1 n Hn).
      rewrite Hns, (proj2 (mem_str_in n all) Hall) in H1. cbn in H1.
      rewrite app_nil_r. apply mem_str_in, H1.
    + cbn [app] in E. injection E as Ep E. subst d0.
      specialize (IH (d_name p :: seen) all H2 pre d post E n Hn Hall Hns).
      cbn [map]. apply in_app_or in IH. apply in_or_app. destruct IH as [[<-|Hs]|Hp].
      * right. left. reflexivity.
      * left. exact Hs.
      * right. right. exact Hp.
Qed.

Theorem env_ordered_sound : forall env, env_ordered env = true ->
  forall pre d post, map f_def env = pre ++ d :: post ->
  forall n, In n (def_refs d) -> In n (map d_name (map f_def env)) -> same_ns n (d_name d) = true ->
    In n (map d_name pre).
Proof.
  intros env H pre d post E n Hn Hall Hns. unfold env_ordered in H.
  apply (ordered_sound _ [] _ H pre d post E n Hn Hall Hns).
Qed.
