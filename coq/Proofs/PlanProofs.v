(* The comparison used by the plan check is sound, and equal plans mean equal bytes. *)
From Coq Require Import List NArith ZArith Bool Lia.
From YV Require Import Base.Wire Model.Binary Gen.Tables Model.Json Model.Schema Model.SchemaCases Model.PlanCases
  Proofs.BinaryProofs Proofs.JsonProofs.
Import ListNotations.
Open Scope N_scope.

Lemma prim_kind_tag_inj : forall p q, prim_kind_tag p = prim_kind_tag q -> p = q.
Proof. intros p q H. destruct p; destruct q; try reflexivity; cbn in H; discriminate. Qed.

Lemma list_eqb_N_eq : forall a b, list_eqb N.eqb a b = true -> a = b.
Proof.
  induction a as [|x a IH]; intros [|y b] H; cbn in H; try discriminate; [reflexivity|].
  apply andb_true_iff in H. destruct H as [H1 H2]. apply N.eqb_eq in H1. subst. f_equal. apply IH, H2.
Qed.

Definition eqb_sound (a : ty) : Prop := forall b, ty_eqb a b = true -> a = b.

Lemma tys_eqb_eq : forall xs, Forall eqb_sound xs -> forall ys,
  (fix go (x y : list ty) : bool :=
     match x, y with [], [] => true | p :: pr, q :: qr => ty_eqb p q && go pr qr | _, _ => false end) xs ys = true -> xs = ys.
Proof.
  intros xs HF. induction HF as [|x xs Hx HF IH]; intros [|y ys] H; try discriminate; [reflexivity|].
  apply andb_true_iff in H. destruct H as [H1 H2]. f_equal; [apply Hx, H1|apply IH, H2].
Qed.

Theorem ty_eqb_eq : forall a, eqb_sound a.
Proof.
  apply ty_ind'; unfold eqb_sound.
  - intros p b H. destruct b; cbn in H; try discriminate. apply N.eqb_eq in H. f_equal. apply prim_kind_tag_inj, H.
  - intros p b H. destruct b; cbn in H; try discriminate. apply N.eqb_eq in H. f_equal. apply prim_kind_tag_inj, H.
  - intros t IH b H. destruct b; cbn in H; try discriminate. f_equal. apply IH, H.
  - intros hn cs IH b H. destruct b; cbn [ty_eqb] in H; try discriminate.
    apply andb_true_iff in H. destruct H as [H1 H2]. apply Bool.eqb_prop in H1. subst. f_equal. apply (tys_eqb_eq cs IH _ H2).
  - intros t IH b H. destruct b; cbn in H; try discriminate. f_equal. apply IH, H.
  - intros n t IH b H. destruct b; cbn [ty_eqb] in H; try discriminate.
    apply andb_true_iff in H. destruct H as [H1 H2]. apply N.eqb_eq in H1. subst. f_equal. apply IH, H2.
  - intros n t IH b H. destruct b; cbn [ty_eqb] in H; try discriminate.
    apply andb_true_iff in H. destruct H as [H1 H2]. apply N.eqb_eq in H1. subst. f_equal. apply IH, H2.
  - intros d t IH b H. destruct b; cbn [ty_eqb] in H; try discriminate.
    apply andb_true_iff in H. destruct H as [H1 H2]. apply list_eqb_N_eq in H1. subst. f_equal. apply IH, H2.
  - intros t IH b H. destruct b; cbn in H; try discriminate. f_equal. apply IH, H.
  - intros k v IHk IHv b H. destruct b; cbn [ty_eqb] in H; try discriminate.
    apply andb_true_iff in H. destruct H as [H1 H2]. f_equal; [apply IHk, H1|apply IHv, H2].
  - intros fs IH b H. destruct b; cbn [ty_eqb] in H; try discriminate. f_equal. apply (tys_eqb_eq fs IH _ H).
Qed.

(* two backends whose plans both equal the structural type of the schema write and read the same bytes *)
Theorem same_plan_same_bytes : forall w t1 t2, ty_eqb w t1 = true -> ty_eqb w t2 = true ->
  forall v, enc t1 v = enc t2 v /\ (has_type w v = true -> forall rest, dec t2 (enc t1 v ++ rest) = Some (v, rest)).
Proof.
  intros w t1 t2 H1 H2 v. apply ty_eqb_eq in H1. apply ty_eqb_eq in H2. subst t1 t2.
  split; [reflexivity|]. intros Hv rest. apply dec_enc, Hv.
Qed.

(* a value typed for the NDJSON plan is typed for the binary plan it erases to *)
Lemma jall2_all2 : forall fs xs,
  Forall (fun c => forall v, jhas_type (snd c) v = true -> has_type (jty_erase (snd c)) v = true) fs ->
  jall2 jhas_type fs xs = true -> all2 has_type (map (fun c => jty_erase (snd c)) fs) xs = true.
Proof.
  induction fs as [|c fs IH]; intros xs HF H; destruct xs as [|x xs]; try discriminate; [reflexivity|].
  inversion HF as [|? ? Hc HF']; subst. cbn [jall2] in H. apply andb_true_iff in H. destruct H as [H1 H2].
  cbn [map all2]. rewrite (Hc x H1), (IH xs HF' H2). reflexivity.
Qed.

Lemma forallb_impl : forall (A : Type) (f g : A -> bool) l, (forall x, f x = true -> g x = true) -> forallb f l = true -> forallb g l = true.
Proof.
  intros A f g l H. induction l as [|x l IH]; intros Hf; [reflexivity|]. cbn [forallb] in *.
  apply andb_true_iff in Hf. destruct Hf as [H1 H2]. rewrite (H x H1), (IH H2). reflexivity.
Qed.

Theorem erase_typed : forall t v, jhas_type t v = true -> has_type (jty_erase t) v = true.
Proof.
  apply (jty_ind' (fun t => forall v, jhas_type t v = true -> has_type (jty_erase t) v = true)).
  - intros p v H. exact H.
  - intros b s v H. destruct v; cbn in H |- *; try discriminate. exact H.
  - intros b s v H. destruct v; cbn [jhas_type] in H; try discriminate. apply andb_true_iff in H. exact (proj1 H).
  - intros t IH v H. destruct v; cbn [jhas_type] in H; try discriminate; cbn [jty_erase has_type]; [reflexivity|apply IH, H].
  - intros hn cs IH v H. destruct v; cbn [jhas_type] in H; try discriminate; cbn [jty_erase has_type]; [exact H|].
    revert i H. induction IH as [|c cs Hc IH IH']; intros i H; cbn [jpick map pick] in *; [discriminate|].
    destruct (i =? 0); [apply Hc, H|apply IH', H].
  - intros t IH v H. destruct v; cbn [jhas_type] in H; try discriminate. cbn [jty_erase has_type].
    apply (forallb_impl _ _ _ _ IH H).
  - intros n t IH v H. destruct v; cbn [jhas_type] in H; try discriminate. cbn [jty_erase has_type].
    apply andb_true_iff in H. destruct H as [H1 H2]. rewrite H1. apply (forallb_impl _ _ _ _ IH H2).
  - intros r t IH v H. destruct v; cbn [jhas_type] in H; try discriminate. cbn [jty_erase has_type].
    apply andb_true_iff in H. destruct H as [H1 H2]. rewrite H1. apply (forallb_impl _ _ _ _ IH H2).
  - intros d t IH v H. destruct v; cbn [jhas_type] in H; try discriminate. cbn [jty_erase has_type].
    apply andb_true_iff in H. destruct H as [H1 H2]. rewrite H1. apply (forallb_impl _ _ _ _ IH H2).
  - intros t IH v H. destruct v; cbn [jhas_type] in H; try discriminate. cbn [jty_erase has_type].
    apply andb_true_iff in H. destruct H as [H1 H2]. rewrite H1. apply (forallb_impl _ _ _ _ IH H2).
  - intros k e IHk IHe v H. destruct v; cbn [jhas_type] in H; try discriminate. cbn [jty_erase has_type].
    apply (forallb_impl _ (fun kv => jhas_type k (fst kv) && jhas_type e (snd kv))
                          (fun kv => has_type (jty_erase k) (fst kv) && has_type (jty_erase e) (snd kv)) kvs); [|exact H].
    intros [a b] Hab. cbn [fst snd] in *. apply andb_true_iff in Hab. destruct Hab as [Ha Hb].
    rewrite (IHk a Ha), (IHe b Hb). reflexivity.
  - intros fs IH v H. destruct v; cbn [jhas_type] in H; try discriminate. cbn [jty_erase has_type].
    apply jall2_all2; assumption.
Qed.

(* an enum over size and an enum over uint64 are the same bytes *)
Theorem enum_size_is_uint64 : forall v, enc (TEnum PSize) v = enc (TEnum PUint64) v /\ has_type (TEnum PSize) v = has_type (TEnum PUint64) v.
Proof. intros v. destruct v; split; reflexivity. Qed.
