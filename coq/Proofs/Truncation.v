(* Truncation at the level of reader scripts: on any strict prefix of an input that a script
   consumes exactly, the abstract reader (and hence, by refinement, the buffered C++ machine for
   every buffer size) delivers a prefix of the original values and then reports end-of-stream. *)
From Coq Require Import List NArith ZArith Bool Lia Arith.
From Coq Require Import ZifyBool ZifyN ZifyNat.
From YV Require Import Base.Wire Proofs.WireProofs Model.CodedCpp Proofs.CodedCppIn.
Import ListNotations.
Open Scope N_scope.

(* all operations succeed and the input is consumed exactly *)
Fixpoint aexact (l : list N) (ops : list rop) : option (list rval) :=
  match ops with
  | [] => match l with [] => Some [] | _ => None end
  | op :: rest =>
      match astep l op with
      | AOk v r => match aexact r rest with Some vs => Some (v :: vs) | None => None end
      | _ => None
      end
  end.

Lemma vdecb_prefix : forall k p q v r, vdecb k (p ++ q) = AOk v r ->
  (exists r', vdecb k p = AOk v r' /\ r = r' ++ q) \/ vdecb k p = AEof.
Proof.
  induction k as [|k IH]; intros p q v r H; [discriminate|].
  destruct p as [|b p]; [right; reflexivity|].
  cbn [app vdecb] in *. destruct (b <? 128).
  - injection H as <- <-. left. eexists. split; reflexivity.
  - destruct (vdecb k (p ++ q)) as [v' r'| | |] eqn:E; try discriminate.
    injection H as <- <-. destruct (IH p q v' r' E) as [[r'' [H1 H2]]|H1].
    + rewrite H1. left. eexists. split; [reflexivity|assumption].
    + rewrite H1. right. reflexivity.
Qed.

Lemma take_prefix : forall n p q h t, take n (p ++ q) = Some (h, t) ->
  (exists t', take n p = Some (h, t') /\ t = t' ++ q) \/ take n p = None.
Proof.
  intros n p q h t H.
  destruct (take n p) as [[h' t']|] eqn:E; [|right; reflexivity].
  left. pose proof (take_ext _ _ _ _ q E) as H1. rewrite H in H1. injection H1 as -> ->.
  eexists. split; reflexivity.
Qed.

Lemma astep_prefix : forall op p q v r, op <> RVerify -> astep (p ++ q) op = AOk v r ->
  (exists r', astep p op = AOk v r' /\ r = r' ++ q) \/ astep p op = AEof.
Proof.
  intros op p q v r Hop H. destruct op as [|w|k|n|]; cbn [astep] in *.
  - destruct p as [|b p]; [right; reflexivity|]. cbn [app] in H. injection H as <- <-.
    left. eexists. split; reflexivity.
  - destruct (vdecb (max_varint w) (p ++ q)) as [v' r'| | |] eqn:E; try discriminate.
    injection H as <- <-. destruct (vdecb_prefix _ _ _ _ _ E) as [[r'' [H1 H2]]|H1]; rewrite H1.
    + left. eexists. split; [reflexivity|assumption].
    + right. reflexivity.
  - destruct (take (N.of_nat k) (p ++ q)) as [[h t]|] eqn:E; [|discriminate].
    injection H as <- <-. destruct (take_prefix _ _ _ _ _ E) as [[t' [H1 H2]]|H1]; rewrite H1.
    + left. eexists. split; [reflexivity|assumption].
    + right. reflexivity.
  - destruct (take n (p ++ q)) as [[h t]|] eqn:E; [|discriminate].
    injection H as <- <-. destruct (take_prefix _ _ _ _ _ E) as [[t' [H1 H2]]|H1]; rewrite H1.
    + left. eexists. split; [reflexivity|assumption].
    + right. reflexivity.
  - congruence.
Qed.

Theorem arun_truncated : forall ops data vs p q,
  Forall (fun op => op <> RVerify) ops ->
  aexact data ops = Some vs -> data = p ++ q -> q <> [] ->
  exists k, (k <= length vs)%nat /\ arun p ops = map Ok (firstn k vs) ++ [Eof] /\ no_malformed p ops.
Proof.
  induction ops as [|op ops IH]; intros data vs p q Hops Hex Hd Hq.
  - cbn in Hex. destruct data; [|discriminate]. symmetry in Hd. apply app_eq_nil in Hd.
    destruct Hd as [_ Hd]. contradiction.
  - cbn [aexact] in Hex. inversion Hops as [|? ? Hop Hops']; subst.
    destruct (astep (p ++ q) op) as [v r| | |] eqn:E; try discriminate.
    destruct (aexact r ops) as [vs'|] eqn:E2; [|discriminate]. injection Hex as <-.
    destruct (astep_prefix _ _ _ _ _ Hop E) as [[r' [H1 H2]]|H1].
    + destruct (IH r vs' r' q Hops' E2 H2 Hq) as [k [Hk [Hrun Hnm]]].
      exists (S k). cbn [arun no_malformed length firstn map app]. rewrite H1, Hrun.
      split; [lia|]. split; [reflexivity|assumption].
    + exists 0%nat. cbn [arun no_malformed firstn map app]. rewrite H1.
      split; [lia|]. split; [reflexivity|exact I].
Qed.

(* The buffered C++ reader, for every buffer size, on every strict prefix. *)
Theorem cpp_truncated : forall bufsize ops data vs p q, (0 < bufsize)%nat ->
  Forall (fun op => op <> RVerify) ops ->
  aexact data ops = Some vs -> data = p ++ q -> q <> [] ->
  exists k, (k <= length vs)%nat /\
            rrun bufsize (cin_init p) ops = map Ok (firstn k vs) ++ [Eof].
Proof.
  intros bufsize ops data vs p q Hb Hops Hex Hd Hq.
  destruct (arun_truncated ops data vs p q Hops Hex Hd Hq) as [k [Hk [Hrun Hnm]]].
  exists k. split; [assumption|]. rewrite cpp_reader_refines by assumption. assumption.
Qed.

(* and on the complete input it returns all values and VerifyFinished succeeds *)
Lemma arun_complete : forall ops data vs, aexact data ops = Some vs ->
  arun data (ops ++ [RVerify]) = map Ok vs ++ [Ok VUnit] /\ no_malformed data (ops ++ [RVerify]).
Proof.
  induction ops as [|op ops IH]; intros data vs H.
  - cbn in H. destruct data; [|discriminate]. injection H as <-. cbn. split; [reflexivity|exact I].
  - cbn [aexact] in H. destruct (astep data op) as [v r| | |] eqn:E; try discriminate.
    destruct (aexact r ops) as [vs'|] eqn:E2; [|discriminate]. injection H as <-.
    destruct (IH r vs' E2) as [H1 H2]. cbn [app arun no_malformed map]. rewrite E, H1.
    split; [reflexivity|assumption].
Qed.

Theorem cpp_complete : forall bufsize ops data vs, (0 < bufsize)%nat ->
  aexact data ops = Some vs ->
  rrun bufsize (cin_init data) (ops ++ [RVerify]) = map Ok vs ++ [Ok VUnit].
Proof.
  intros bufsize ops data vs Hb H. destruct (arun_complete ops data vs H) as [H1 H2].
  rewrite cpp_reader_refines by assumption. assumption.
Qed.
