(* The constants written into the hand-written models are the ones in the current sources
   (Gen/Tables.v is regenerated from /repo on every run): a changed constant breaks this file. *)
From Coq Require Import List NArith.
From YV Require Import Base.Wire Model.CodedCpp Model.Binary Model.Packages Gen.Tables.
Import ListNotations.

Definition constants_statement : Prop :=
  max_depth = max_import_recursion_depth
  /\ max_varint 32 = cpp_max_varint32_bytes /\ max_varint 64 = cpp_max_varint64_bytes
  /\ magic = cpp_magic /\ magic = py_magic
  /\ format_version = cpp_format_version /\ format_version = py_format_version
  /\ cpp_default_buffer_size = py_default_buffer_size
  /\ (10 <=? cpp_default_buffer_size)%N = true.

Theorem constants_agree : constants_statement.
Proof. vm_compute. repeat split; reflexivity. Qed.
