(* Protocol level: header, steps, streams as blocks.  Round trip for every block partition,
   rejection of foreign headers, rejection of every strict prefix. *)
From Coq Require Import List NArith ZArith Bool Lia Arith.
From Coq Require Import ZifyBool ZifyN ZifyNat.
From YV Require Import Base.Wire Proofs.WireProofs Model.Binary Proofs.BinaryProofs.
Import ListNotations.
Open Scope N_scope.

(* ---------- blocks ---------- *)

Lemma dec_blocks_mono : forall f t l x k, dec_blocks f t l = Some x -> dec_blocks (f + k) t l = Some x.
Proof.
  induction f as [|f IH]; intros t l x k H; [discriminate|].
  cbn [dec_blocks Nat.add] in *. destruct (vdec l) as [[n r]|]; [|discriminate].
  destruct (n =? 0); [assumption|].
  destruct (dec_n (dec t) (N.to_nat n) r) as [[vs r']|]; [|discriminate].
  destruct (dec_blocks f t r') as [[ws r'']|] eqn:E; [|discriminate].
  rewrite (IH _ _ _ k E). assumption.
Qed.

Lemma dec_blocks_enc : forall t bs rest fuel,
  forallb (forallb (has_type t)) bs = true -> (length (filter nonempty bs) < fuel)%nat ->
  dec_blocks fuel t (concat (map (enc_block t) (filter nonempty bs)) ++ 0 :: rest) = Some (concat bs, rest).
Proof.
  intros t bs. induction bs as [|b bs IH]; intros rest fuel H Hf.
  - destruct fuel; [cbn in Hf; lia|]. cbn. reflexivity.
  - cbn [forallb] in H. apply andb_true_iff in H. destruct H as [H1 H2].
    destruct b as [|x b].
    + cbn [filter nonempty concat app] in *. apply IH; assumption.
    + cbn [filter nonempty] in *. cbn [length] in Hf. destruct fuel as [|fuel]; [lia|].
      cbn [map concat dec_blocks]. unfold enc_block at 1. rewrite <- !app_assoc, vdec_venc.
      assert (E : (N.of_nat (length (x :: b)) =? 0) = false) by (cbn [length]; lia). rewrite E.
      rewrite Nat2N.id. rewrite (dec_n_enc t (x :: b) _ (dec_enc t) H1).
      rewrite (IH rest fuel H2 ltac:(lia)). reflexivity.
Qed.

Lemma enc_block_nonempty : forall t b, enc_block t b <> [].
Proof.
  intros t b. unfold enc_block. pose proof (venc_nonempty (N.of_nat (length b))).
  destruct (venc (N.of_nat (length b))); [congruence|discriminate].
Qed.

Lemma blocks_length : forall t bs, (length bs <= length (concat (map (enc_block t) bs)))%nat.
Proof.
  induction bs as [|b bs IH]; [cbn; lia|]. cbn [map concat length]. rewrite app_length.
  pose proof (enc_block_nonempty t b). destruct (enc_block t b); [congruence|cbn [length]; lia].
Qed.

(* ---------- steps ---------- *)

Lemma dec_step_enc : forall s w rest, step_ok s w = true ->
  dec_step s (enc_step s w ++ rest) = Some (sread_of w, rest).
Proof.
  intros s w rest H. destruct s as [t|t]; destruct w as [v|bs]; cbn [step_ok] in H; try discriminate.
  - cbn [enc_step dec_step sread_of]. rewrite (dec_enc t v rest H). reflexivity.
  - cbn [enc_step dec_step sread_of]. rewrite <- app_assoc. cbn [app].
    rewrite dec_blocks_enc; [reflexivity|assumption|].
    rewrite app_length. pose proof (blocks_length t (filter nonempty bs)). cbn [length]. lia.
Qed.

Lemma dec_steps_enc : forall p ws rest, steps_ok p ws = true ->
  dec_steps p (enc_steps p ws ++ rest) = Some (map sread_of ws, rest).
Proof.
  induction p as [|s p IH]; intros ws rest H.
  - destruct ws; [reflexivity|discriminate].
  - destruct ws as [|w ws]; [discriminate|]. cbn [steps_ok] in H. apply andb_true_iff in H.
    destruct H as [H1 H2]. cbn [enc_steps dec_steps map]. rewrite <- app_assoc.
    rewrite (dec_step_enc s w _ H1), (IH ws rest H2). reflexivity.
Qed.

(* ---------- header ---------- *)

Lemma dec_header_enc : forall schema rest, dec_header (enc_header schema ++ rest) = HOk schema rest.
Proof.
  intros schema rest. unfold dec_header, enc_header. rewrite <- !app_assoc.
  change 5 with (N.of_nat (length magic)). rewrite take_app. rewrite list_eq_N_refl. cbn [negb].
  change 4 with (N.of_nat 4). rewrite take_le_enc. rewrite le_dec_enc by (unfold format_version; change (256 ^ N.of_nat 4) with 4294967296; lia).
  rewrite N.eqb_refl. cbn [negb]. rewrite vdec_venc, take_app. reflexivity.
Qed.

Theorem protocol_roundtrip : forall schema p ws, steps_ok p ws = true ->
  dec_protocol schema p (enc_protocol schema p ws) = POk (map sread_of ws).
Proof.
  intros schema p ws H. unfold dec_protocol, enc_protocol. rewrite dec_header_enc, list_eq_N_refl.
  cbn [negb]. rewrite <- (app_nil_r (enc_steps p ws)), (dec_steps_enc p ws [] H). reflexivity.
Qed.

(* what a reader that expects [expected] accepts really starts with the magic bytes, four bytes
   that read as version 1, and exactly that schema *)
Theorem accepted_header : forall expected p l vs, dec_protocol expected p l = POk vs ->
  exists verbytes lenbytes r,
    l = magic ++ verbytes ++ lenbytes ++ expected ++ r
    /\ length verbytes = 4%nat /\ le_dec verbytes = format_version
    /\ vdec lenbytes = Some (N.of_nat (length expected), []).
Proof.
  intros expected p l vs H. unfold dec_protocol, dec_header in H.
  destruct (take 5 l) as [[m r]|] eqn:E1; [|discriminate].
  destruct (list_eq_N m magic) eqn:Em; cbn [negb] in H; [|discriminate].
  destruct (take 4 r) as [[v r2]|] eqn:E2; [|discriminate].
  destruct (le_dec v =? format_version) eqn:Ev; cbn [negb] in H; [|discriminate].
  destruct (vdec r2) as [[n r3]|] eqn:E3; [|discriminate].
  destruct (take n r3) as [[s r4]|] eqn:E4; [|discriminate].
  destruct (list_eq_N s expected) eqn:Es; cbn [negb] in H; [|discriminate].
  apply list_eq_N_eq in Em, Es. subst m s.
  apply take_spec in E1, E2, E4. destruct E1 as [-> _]. destruct E2 as [-> Hl]. destruct E4 as [-> Hn].
  destruct (vdec_consumes _ _ _ E3) as [u [-> [_ Hu]]].
  exists v, u, r4. split; [reflexivity|].
  split; [lia|]. split; [apply N.eqb_eq; assumption|]. rewrite Hu, <- Hn. reflexivity.
Qed.

Theorem foreign_schema_refused : forall sa sb pa pb ws, sa <> sb ->
  dec_protocol sb pb (enc_protocol sa pa ws) = PSchemaMismatch.
Proof.
  intros sa sb pa pb ws Hne. unfold dec_protocol, enc_protocol. rewrite dec_header_enc.
  destruct (list_eq_N sa sb) eqn:E; [apply list_eq_N_eq in E; contradiction|reflexivity].
Qed.

(* ---------- extension for steps and header, then: every strict prefix is refused ---------- *)

Lemma dec_blocks_ext : forall f t s vs r e, dec_blocks f t s = Some (vs, r) ->
  dec_blocks f t (s ++ e) = Some (vs, r ++ e).
Proof.
  induction f as [|f IH]; intros t s vs r e H; [discriminate|]. cbn [dec_blocks] in *.
  destruct (vdec s) as [[n r0]|] eqn:E; [|discriminate]. rewrite (vdec_ext _ _ _ e E).
  destruct (n =? 0).
  - injection H as <- <-. reflexivity.
  - destruct (dec_n (dec t) (N.to_nat n) r0) as [[xs r1]|] eqn:E1; [|discriminate].
    destruct (dec_blocks f t r1) as [[ws r2]|] eqn:E2; [|discriminate]. injection H as <- <-.
    rewrite (dec_n_ext _ _ _ _ _ e (dec_ext t) E1), (IH _ _ _ _ e E2). reflexivity.
Qed.

Lemma dec_step_ext : forall s l v r e, dec_step s l = Some (v, r) -> dec_step s (l ++ e) = Some (v, r ++ e).
Proof.
  intros s l v r e H. destruct s as [t|t]; cbn [dec_step] in *.
  - destruct (dec t l) as [[x r0]|] eqn:E; [|discriminate]. injection H as <- <-.
    rewrite (dec_ext t _ _ _ e E). reflexivity.
  - destruct (dec_blocks (S (length l)) t l) as [[xs r0]|] eqn:E; [|discriminate]. injection H as <- <-.
    rewrite app_length. replace (S (length l + length e)) with (S (length l) + length e)%nat by lia.
    rewrite (dec_blocks_mono _ _ _ _ (length e) (dec_blocks_ext _ _ _ _ _ e E)). reflexivity.
Qed.

Lemma dec_steps_ext : forall p l vs r e, dec_steps p l = Some (vs, r) -> dec_steps p (l ++ e) = Some (vs, r ++ e).
Proof.
  induction p as [|s p IH]; intros l vs r e H; cbn [dec_steps] in *.
  - injection H as <- <-. reflexivity.
  - destruct (dec_step s l) as [[v r0]|] eqn:E; [|discriminate].
    destruct (dec_steps p r0) as [[vs0 r1]|] eqn:E2; [|discriminate]. injection H as <- <-.
    rewrite (dec_step_ext _ _ _ _ e E), (IH _ _ _ e E2). reflexivity.
Qed.

Lemma dec_header_ext : forall l s r e, dec_header l = HOk s r -> dec_header (l ++ e) = HOk s (r ++ e).
Proof.
  intros l s r e H. unfold dec_header in *.
  destruct (take 5 l) as [[m r1]|] eqn:E1; [|discriminate]. rewrite (take_ext _ _ _ _ e E1).
  destruct (negb (list_eq_N m magic)); [discriminate|].
  destruct (take 4 r1) as [[v r2]|] eqn:E2; [|discriminate]. rewrite (take_ext _ _ _ _ e E2).
  destruct (negb (le_dec v =? format_version)); [discriminate|].
  destruct (vdec r2) as [[n r3]|] eqn:E3; [|discriminate]. rewrite (vdec_ext _ _ _ e E3).
  destruct (take n r3) as [[s0 r4]|] eqn:E4; [|discriminate]. rewrite (take_ext _ _ _ _ e E4).
  injection H as <- <-. reflexivity.
Qed.

(* No strict prefix of a written stream is accepted as a complete stream. *)
Theorem truncated_refused : forall schema p ws pre q, steps_ok p ws = true ->
  enc_protocol schema p ws = pre ++ q -> q <> [] ->
  forall vs, dec_protocol schema p pre <> POk vs.
Proof.
  intros schema p ws pre q Hok Hsplit Hq vs Hacc.
  pose proof (protocol_roundtrip schema p ws Hok) as Hfull. rewrite Hsplit in Hfull.
  unfold dec_protocol in *.
  destruct (dec_header pre) as [s r| | |] eqn:Eh; try discriminate.
  rewrite (dec_header_ext _ _ _ q Eh) in Hfull.
  destruct (negb (list_eq_N s schema)); [discriminate|].
  destruct (dec_steps p r) as [[xs [|y ys]]|] eqn:Es; try discriminate.
  rewrite (dec_steps_ext _ _ _ _ q Es) in Hfull. cbn [app] in Hfull.
  destruct q; [congruence|discriminate].
Qed.

(* The values read do not depend on how the items were grouped into write calls. *)
Theorem grouping_irrelevant : forall schema p ws1 ws2,
  steps_ok p ws1 = true -> steps_ok p ws2 = true -> map sread_of ws1 = map sread_of ws2 ->
  dec_protocol schema p (enc_protocol schema p ws1) = dec_protocol schema p (enc_protocol schema p ws2).
Proof.
  intros schema p ws1 ws2 H1 H2 He. rewrite !protocol_roundtrip by assumption. rewrite He. reflexivity.
Qed.
