From Coq Require Import List NArith Bool.
From YV Require Import Model.GenPhases.
Import ListNotations.

(* If the phases are ordered (gates first, checked) then whenever some gate fails - package loading,
   configuration, validation of the package, an import, a previous version or the evolution check -
   the run ends with exit status 1 and the output file system is untouched, for every initial
   population of the outputs and whatever the writers would have written. *)
Theorem all_or_nothing : forall (l : list (phase * phase_run)) (s : fs),
  phases_ok (map fst l) = true ->
  existsb (fun pr => is_gate (fst pr) && negb (ok (snd pr))) l = true ->
  run l s = (1%N, s).
Proof.
  induction l as [|[[k c] r] l IH]; intros s Hok Hex; [discriminate|].
  cbn [map fst phases_ok] in Hok. apply andb_true_iff in Hok. destruct Hok as [Hp Hok].
  cbn [existsb fst snd] in Hex. cbn [run].
  destruct (is_write (k, c)) eqn:Ew.
  - (* a write phase first: then no gate follows, and this is no gate: contradiction with Hex *)
    exfalso. assert (Hk : is_gate (k, c) = false) by (destruct k; cbn in *; congruence).
    rewrite Hk in Hex. cbn [andb orb] in Hex.
    rewrite forallb_forall in Hp. apply existsb_exists in Hex. destruct Hex as [[p r'] [Hin Hg]].
    apply andb_true_iff in Hg. destruct Hg as [Hg _].
    assert (Hin' : In p (map fst l)) by (apply in_map_iff; exists (p, r'); split; [reflexivity|assumption]).
    specialize (Hp p Hin'). cbn [fst] in Hg. rewrite Hg in Hp. discriminate.
  - assert (Hs : match k with KWrite => writes r s | _ => s end = s) by (destruct k; cbn in Ew; congruence).
    rewrite Hs. destruct (is_gate (k, c)) eqn:Eg.
    + cbn [fst snd] in Hp. subst c. destruct (ok r) eqn:Eo.
      * cbn [negb andb]. cbn [negb andb orb] in Hex. apply IH; assumption.
      * reflexivity.
    + cbn [andb orb] in Hex. destruct (negb (ok r) && c) eqn:E.
      * reflexivity.
      * apply IH; assumption.
Qed.

(* exit status 0 is only possible when every checked phase succeeded *)
Theorem exit_zero_means_all_ok : forall (l : list (phase * phase_run)) (s : fs) s',
  run l s = (0%N, s') -> forallb (fun pr => ok (snd pr) || negb (snd (fst pr))) l = true.
Proof.
  induction l as [|[[k c] r] l IH]; intros s s' H; [reflexivity|].
  cbn [run] in H. cbn [forallb fst snd]. destruct (negb (ok r) && c) eqn:E; [discriminate|].
  apply andb_true_iff. split; [destruct (ok r); destruct c; cbn in *; congruence|eapply IH; exact H].
Qed.

Lemma map_fst_combine : forall (A B : Type) (a : list A) (b : list B), length b = length a -> map fst (combine a b) = a.
Proof.
  induction a as [|x a IH]; intros b H; destruct b as [|y b]; cbn in *; try reflexivity; try discriminate.
  f_equal. apply IH. injection H as H. exact H.
Qed.

Theorem all_or_nothing_phases : forall (ps : list phase) (runs : list phase_run) (s : fs),
  phases_ok ps = true -> length runs = length ps ->
  existsb (fun pr => is_gate (fst pr) && negb (ok (snd pr))) (combine ps runs) = true ->
  run (combine ps runs) s = (1%N, s).
Proof.
  intros ps runs s Hok Hlen Hex. apply all_or_nothing; [|assumption].
  rewrite map_fst_combine by assumption. exact Hok.
Qed.
