(* The bit-level zig-zag of the runtimes (Model.ZigZagBits) computes Base.Wire.zz_enc / zz_dec on the whole W-bit range, for
   every width W >= 1 (C++: W = 32, 64; MATLAB: the 64-bit forms) and, for Python's unbounded integers, on the 64-bit range. *)
From Coq Require Import ZArith NArith Bool Lia.
From Coq Require Import ZifyBool ZifyN.
From YV Require Import Base.Wire Proofs.WireProofs Model.ZigZagBits.
Local Open Scope Z_scope.

Lemma zz_enc_Z : forall v, Z.of_N (zz_enc v) = if 0 <=? v then 2 * v else - 2 * v - 1.
Proof. intros v. unfold zz_enc. destruct (0 <=? v) eqn:E; lia. Qed.

(* x xor (2^w - 1) = 2^w - 1 - x for a w-bit x *)
Lemma lxor_ones : forall w x, 0 <= w -> 0 <= x < 2 ^ w -> Z.lxor x (2 ^ w - 1) = 2 ^ w - 1 - x.
Proof.
  intros w x Hw Hx.
  assert (Hm : 2 ^ w - 1 - x = (Z.lnot x) mod 2 ^ w).
  { unfold Z.lnot. rewrite <- Z.sub_1_r. apply Z.mod_unique with (q := -1); lia. }
  rewrite Hm. replace (2 ^ w - 1) with (Z.ones w) by (rewrite Z.ones_equiv; lia).
  apply Z.bits_inj'. intros n Hn. rewrite Z.lxor_spec.
  destruct (Z_lt_le_dec n w) as [Hlt|Hge].
  - rewrite Z.ones_spec_low by lia. rewrite Z.mod_pow2_bits_low by lia.
    rewrite Z.lnot_spec by lia. apply xorb_true_r.
  - rewrite Z.ones_spec_high by lia. rewrite Z.mod_pow2_bits_high by lia.
    rewrite xorb_false_r. rewrite <- (Z.mod_small x (2 ^ w)) by lia. apply Z.mod_pow2_bits_high. lia.
Qed.

Lemma shiftr_sign : forall w v, 1 <= w -> - 2 ^ (w - 1) <= v < 2 ^ (w - 1) ->
  Z.shiftr v (w - 1) = if 0 <=? v then 0 else -1.
Proof.
  intros w v Hw Hv. rewrite Z.shiftr_div_pow2 by lia.
  assert (Hp : 0 < 2 ^ (w - 1)) by (apply Z.pow_pos_nonneg; lia).
  destruct (0 <=? v) eqn:E.
  - apply Z.div_small. lia.
  - symmetry. apply Z.div_unique with (r := v + 2 ^ (w - 1)); lia.
Qed.

Lemma pow_split : forall w, 1 <= w -> 2 ^ w = 2 * 2 ^ (w - 1).
Proof. intros w Hw. rewrite <- Z.pow_succ_r by lia. f_equal. lia. Qed.

Theorem cpp_zz_enc_correct : forall w v, 1 <= w -> - 2 ^ (w - 1) <= v < 2 ^ (w - 1) ->
  cpp_zz_enc w v = Z.of_N (zz_enc v).
Proof.
  intros w v Hw Hv. rewrite zz_enc_Z. unfold cpp_zz_enc, wrap.
  pose proof (pow_split w Hw) as Hs.
  assert (Hp : 0 < 2 ^ (w - 1)) by (apply Z.pow_pos_nonneg; lia).
  rewrite (shiftr_sign w v Hw Hv). rewrite Z.shiftl_mul_pow2 by lia. change (2 ^ 1) with 2.
  destruct (0 <=? v) eqn:E.
  - rewrite (Z.mod_small v) by lia. rewrite (Z.mod_small (v * 2)) by lia.
    rewrite Z.mod_0_l by lia. rewrite Z.lxor_0_r. lia.
  - assert (E1 : v mod 2 ^ w = v + 2 ^ w) by (symmetry; apply Z.mod_unique with (q := -1); lia).
    assert (E2 : ((v + 2 ^ w) * 2) mod 2 ^ w = 2 * v + 2 ^ w) by (symmetry; apply Z.mod_unique with (q := 1); lia).
    assert (E3 : (-1) mod 2 ^ w = 2 ^ w - 1) by (symmetry; apply Z.mod_unique with (q := -1); lia).
    rewrite E1, E2, E3. rewrite lxor_ones by lia. lia.
Qed.

Lemma land_1 : forall n, Z.land n 1 = n mod 2.
Proof. intros n. change 1 with (Z.ones 1). rewrite Z.land_ones by lia. reflexivity. Qed.

Lemma zz_dec_Z : forall n : N, zz_dec n = if (Z.of_N n mod 2 =? 0) then Z.of_N n / 2 else - ((Z.of_N n + 1) / 2).
Proof.
  intros n. unfold zz_dec. destruct (N.even n) eqn:E.
  - apply N.even_spec in E. destruct E as [k Hk]. subst.
    assert (H : (Z.of_N (2 * k) mod 2 =? 0) = true) by lia. rewrite H. lia.
  - assert (O : N.odd n = true) by (rewrite <- N.negb_even, E; reflexivity).
    apply N.odd_spec in O. destruct O as [k Hk]. subst.
    assert (H : (Z.of_N (2 * k + 1) mod 2 =? 0) = false) by lia. rewrite H. lia.
Qed.

Theorem cpp_zz_dec_correct : forall w (n : N), 1 <= w -> Z.of_N n < 2 ^ w ->
  cpp_zz_dec w (Z.of_N n) = zz_dec n.
Proof.
  intros w n Hw Hn. rewrite zz_dec_Z. unfold cpp_zz_dec, wrap, as_signed.
  pose proof (pow_split w Hw) as Hs.
  assert (Hp : 0 < 2 ^ (w - 1)) by (apply Z.pow_pos_nonneg; lia).
  rewrite land_1. rewrite Z.shiftr_div_pow2 by lia. change (2 ^ 1) with 2.
  set (m := Z.of_N n) in *. assert (Hm0 : 0 <= m) by (subst m; lia).
  destruct (m mod 2 =? 0) eqn:E.
  - apply Z.eqb_eq in E. rewrite E. change (Z.lnot 0) with (-1).
    assert (E3 : (-1) mod 2 ^ w = 2 ^ w - 1) by (symmetry; apply Z.mod_unique with (q := -1); lia).
    rewrite E3. replace (2 ^ w - 1 + 1) with (2 ^ w) by lia. rewrite Z.mod_same by lia.
    rewrite Z.lxor_0_r. assert (H : (m / 2 <? 2 ^ (w - 1)) = true) by lia. rewrite H. reflexivity.
  - apply Z.eqb_neq in E. assert (E1 : m mod 2 = 1) by lia. rewrite E1. change (Z.lnot 1) with (-2).
    assert (E3 : (-2) mod 2 ^ w = 2 ^ w - 2) by (symmetry; apply Z.mod_unique with (q := -1); lia).
    rewrite E3. replace (2 ^ w - 2 + 1) with (2 ^ w - 1) by lia. rewrite (Z.mod_small (2 ^ w - 1)) by lia.
    rewrite lxor_ones by lia.
    assert (H : (2 ^ w - 1 - m / 2 <? 2 ^ (w - 1)) = false) by lia. rewrite H. lia.
Qed.

Theorem py_zz_enc_correct : forall v, - 2 ^ 63 <= v < 2 ^ 63 -> py_zz_enc v = Z.of_N (zz_enc v).
Proof.
  intros v Hv. rewrite zz_enc_Z. unfold py_zz_enc.
  change 63 with (64 - 1) at 1. rewrite (shiftr_sign 64 v) by (change (64 - 1) with 63; lia).
  rewrite Z.shiftl_mul_pow2 by lia. change (2 ^ 1) with 2.
  destruct (0 <=? v) eqn:E.
  - rewrite Z.lxor_0_r. lia.
  - rewrite Z.lxor_m1_r. unfold Z.lnot. lia.
Qed.

Theorem py_zz_dec_correct : forall n : N, py_zz_dec (Z.of_N n) = zz_dec n.
Proof.
  intros n. rewrite zz_dec_Z. unfold py_zz_dec. rewrite land_1.
  rewrite Z.shiftr_div_pow2 by lia. change (2 ^ 1) with 2.
  destruct (Z.of_N n mod 2 =? 0) eqn:E.
  - apply Z.eqb_eq in E. rewrite E. change (- 0) with 0. apply Z.lxor_0_r.
  - apply Z.eqb_neq in E. assert (E1 : Z.of_N n mod 2 = 1) by lia. rewrite E1.
    rewrite Z.lxor_m1_r. unfold Z.lnot. lia.
Qed.

(* Python outside the 64-bit range: the bit form is NOT zig-zag any more (the generated writers range-check first). *)
Theorem py_zz_enc_out_of_range_differs : py_zz_enc (2 ^ 63) <> Z.of_N (zz_enc (2 ^ 63)).
Proof. vm_compute. discriminate. Qed.

(* the instances the runtimes use, and the bit-level round trips that follow *)
Corollary cpp_zz_roundtrip : forall w v, 1 <= w -> - 2 ^ (w - 1) <= v < 2 ^ (w - 1) ->
  cpp_zz_dec w (cpp_zz_enc w v) = v.
Proof.
  intros w v Hw Hv. rewrite (cpp_zz_enc_correct w v Hw Hv).
  rewrite cpp_zz_dec_correct; [apply zz_dec_enc|exact Hw|].
  rewrite zz_enc_Z. pose proof (pow_split w Hw). destruct (0 <=? v) eqn:E; lia.
Qed.

Example zz_bits_nonvacuous :
  cpp_zz_enc 64 (-3) = 5 /\ cpp_zz_enc 32 (- 2 ^ 31) = 2 ^ 32 - 1 /\ cpp_zz_dec 64 (2 ^ 64 - 1) = - 2 ^ 63 /\
  py_zz_enc (- 2 ^ 63) = 2 ^ 64 - 1 /\ py_zz_dec 7 = -4.
Proof. vm_compute. repeat split. Qed.

Print Assumptions cpp_zz_enc_correct.
Print Assumptions cpp_zz_dec_correct.
Print Assumptions py_zz_enc_correct.
Print Assumptions py_zz_dec_correct.
