(* Round trip and extension lemmas for the compact binary codec. *)
From Coq Require Import List NArith ZArith Bool Lia Arith.
From Coq Require Import ZifyBool ZifyN ZifyNat.
From YV Require Import Base.Wire Proofs.WireProofs Model.Binary.
Import ListNotations.
Open Scope N_scope.

(* ---------- a usable induction principle for the nested type ---------- *)
Section TyInd.
Variable P : ty -> Prop.
Hypothesis Hprim : forall p, P (TPrim p).
Hypothesis Henum : forall b, P (TEnum b).
Hypothesis Hopt : forall t, P t -> P (TOpt t).
Hypothesis Hunion : forall hn cs, Forall P cs -> P (TUnion hn cs).
Hypothesis Hvec : forall t, P t -> P (TVec t).
Hypothesis Hfixvec : forall n t, P t -> P (TFixVec n t).
Hypothesis Harr : forall r t, P t -> P (TArr r t).
Hypothesis Hfixarr : forall d t, P t -> P (TFixArr d t).
Hypothesis Hdynarr : forall t, P t -> P (TDynArr t).
Hypothesis Hmap : forall k v, P k -> P v -> P (TMap k v).
Hypothesis Hrec : forall fs, Forall P fs -> P (TRec fs).

Fixpoint ty_ind' (t : ty) : P t :=
  match t with
  | TPrim p => Hprim p
  | TEnum b => Henum b
  | TOpt e => Hopt e (ty_ind' e)
  | TUnion hn cs =>
      Hunion hn cs ((fix go (cs : list ty) : Forall P cs :=
                       match cs with
                       | [] => Forall_nil P
                       | c :: r => Forall_cons c (ty_ind' c) (go r)
                       end) cs)
  | TVec e => Hvec e (ty_ind' e)
  | TFixVec n e => Hfixvec n e (ty_ind' e)
  | TArr r e => Harr r e (ty_ind' e)
  | TFixArr d e => Hfixarr d e (ty_ind' e)
  | TDynArr e => Hdynarr e (ty_ind' e)
  | TMap k v => Hmap k v (ty_ind' k) (ty_ind' v)
  | TRec fs =>
      Hrec fs ((fix go (fs : list ty) : Forall P fs :=
                  match fs with
                  | [] => Forall_nil P
                  | c :: r => Forall_cons c (ty_ind' c) (go r)
                  end) fs)
  end.
End TyInd.

(* ---------- primitives ---------- *)

Lemma to_signed_unsigned_8 : forall z, (-128 <= z < 128)%Z -> to_signed 8 (to_unsigned 8 z) = z.
Proof.
  intros z H. unfold to_signed, to_unsigned.
  change (Z.of_N 8) with 8%Z. change (2 ^ 8)%Z with 256%Z. change (2 ^ 8) with 256. change (2 ^ (8 - 1)) with 128.
  assert (Hm : (0 <= z mod 256 < 256)%Z) by (apply Z.mod_pos_bound; lia).
  rewrite N.mod_small by lia.
  destruct (Z.to_N (z mod 256) <? 128) eqn:E; lia.
Qed.

Lemma to_unsigned_small : forall z, (0 <= z < 256)%Z -> to_unsigned 8 z = Z.to_N z.
Proof.
  intros z H. unfold to_unsigned. change (Z.of_N 8) with 8%Z. change (2 ^ 8)%Z with 256%Z.
  rewrite Z.mod_small by lia. reflexivity.
Qed.

Lemma dec_enc_int : forall p z r, int_ok p z = true -> dec_int p (enc_int p z ++ r) = Some (z, r).
Proof.
  intros p z r H. unfold int_ok, dec_int, enc_int in *.
  destruct (int_width p) as [[s w]|] eqn:Ew; [|discriminate].
  assert (Hw : w = 1 \/ w = 8 \/ w = 16 \/ w = 32 \/ w = 64).
  { destruct p; cbn in Ew; inversion Ew; subst; lia. }
  destruct (w <=? 8) eqn:E8.
  - cbn [app]. destruct s.
    + assert (w = 8) by (destruct p; cbn in Ew; inversion Ew; subst; lia). subst w.
      unfold in_range_s in H. change (2 ^ (Z.of_N 8 - 1))%Z with 128%Z in H.
      rewrite to_signed_unsigned_8 by lia. reflexivity.
    + unfold in_range_u in H.
      assert (Hz : (0 <= z < 256)%Z).
      { destruct Hw as [->|[->|Hw]]; [change (2 ^ Z.of_N 1)%Z with 2%Z in H; lia
                                     |change (2 ^ Z.of_N 8)%Z with 256%Z in H; lia|lia]. }
      rewrite to_unsigned_small by lia. rewrite Z2N.id by lia. reflexivity.
  - destruct s.
    + rewrite vdec_venc, zz_dec_enc. reflexivity.
    + rewrite vdec_venc. unfold in_range_u in H. rewrite Z2N.id by lia. reflexivity.
Qed.

Lemma take_le_enc : forall k n r, take (N.of_nat k) (le_enc k n ++ r) = Some (le_enc k n, r).
Proof. intros. rewrite <- (le_enc_length k n) at 1. apply take_app. Qed.

Lemma dec_enc_prim : forall p v r, prim_ok p v = true ->
  dec_prim p (enc_prim enc_int p v ++ r) = Some (v, r).
Proof.
  intros p v r H.
  assert (Hint : forall z, v = VInt z -> int_ok p z = true ->
            match dec_int p (enc_int p z ++ r) with Some (z0, r0) => Some (VInt z0, r0) | None => None end
            = Some (VInt z, r)).
  { intros z _ Hz. rewrite dec_enc_int by assumption. reflexivity. }
  destruct p; destruct v; cbn [prim_ok] in H; try discriminate;
    try (cbn [dec_prim enc_prim]; apply Hint; [reflexivity|assumption]).
  - (* float32 *) cbn [dec_prim enc_prim]. change 4 with (N.of_nat 4). rewrite take_le_enc.
    rewrite le_dec_enc; [reflexivity|]. change (256 ^ N.of_nat 4) with (2 ^ 32). lia.
  - cbn [dec_prim enc_prim]. change 8 with (N.of_nat 8). rewrite take_le_enc.
    rewrite le_dec_enc; [reflexivity|]. change (256 ^ N.of_nat 8) with (2 ^ 64). lia.
  - cbn [dec_prim enc_prim]. change 4 with (N.of_nat 4). rewrite <- app_assoc, take_le_enc, take_le_enc.
    rewrite !le_dec_enc; [reflexivity| |]; change (256 ^ N.of_nat 4) with (2 ^ 32); lia.
  - cbn [dec_prim enc_prim]. change 8 with (N.of_nat 8). rewrite <- app_assoc, take_le_enc, take_le_enc.
    rewrite !le_dec_enc; [reflexivity| |]; change (256 ^ N.of_nat 8) with (2 ^ 64); lia.
  - cbn [dec_prim enc_prim]. rewrite <- app_assoc, vdec_venc, take_app. reflexivity.
Qed.

(* ---------- repetition ---------- *)

Definition rt (t : ty) : Prop :=
  forall v rest, has_type t v = true -> dec t (enc t v ++ rest) = Some (v, rest).

Lemma dec_n_enc : forall t xs rest, rt t -> forallb (has_type t) xs = true ->
  dec_n (dec t) (length xs) (concat (map (enc t) xs) ++ rest) = Some (xs, rest).
Proof.
  intros t xs rest Ht. induction xs as [|x xs IH]; intros H; [reflexivity|].
  cbn [forallb] in H. apply andb_true_iff in H. destruct H as [H1 H2].
  cbn [length map concat dec_n]. rewrite <- app_assoc, (Ht x _ H1), (IH H2). reflexivity.
Qed.

Lemma dec_dims_enc : forall sh rest,
  dec_dims (length sh) (concat (map venc sh) ++ rest) = Some (sh, rest).
Proof.
  induction sh as [|d sh IH]; intros rest; [reflexivity|].
  cbn [length map concat dec_dims]. rewrite <- app_assoc, vdec_venc, IH. reflexivity.
Qed.

Lemma dec_kv_enc : forall k e kvs rest, rt k -> rt e ->
  forallb (fun kv => has_type k (fst kv) && has_type e (snd kv)) kvs = true ->
  dec_kv (dec k) (dec e) (length kvs)
    (concat (map (fun kv => enc k (fst kv) ++ enc e (snd kv)) kvs) ++ rest) = Some (kvs, rest).
Proof.
  intros k e kvs rest Hk He. induction kvs as [|[a b] kvs IH]; intros H; [reflexivity|].
  cbn [forallb fst snd] in H. apply andb_true_iff in H. destruct H as [H1 H2].
  apply andb_true_iff in H1. destruct H1 as [Ha Hb].
  cbn [length map concat dec_kv fst snd]. rewrite <- !app_assoc, (Hk a _ Ha), (He b _ Hb), (IH H2).
  reflexivity.
Qed.

Lemma list_eq_N_eq : forall a b, list_eq_N a b = true -> a = b.
Proof.
  induction a as [|x a IH]; intros [|y b] H; cbn in H; try discriminate; [reflexivity|].
  apply andb_true_iff in H. destruct H as [H1 H2]. apply N.eqb_eq in H1. subst. f_equal. apply IH, H2.
Qed.

Lemma list_eq_N_refl : forall a, list_eq_N a a = true.
Proof. induction a as [|x a IH]; cbn; [reflexivity|]. rewrite N.eqb_refl, IH. reflexivity. Qed.

Lemma pick_rt : forall (x : val) rest cs i, Forall rt cs ->
  pick (fun c => has_type c x) false cs i = true ->
  pick (fun c => dec c (pick (fun c0 => enc c0 x) [] cs i ++ rest)) None cs i = Some (x, rest).
Proof.
  intros x rest cs. induction cs as [|c cs IH]; intros i HF H; [discriminate|].
  inversion HF as [|? ? Hc HF']; subst. cbn [pick] in *.
  destruct (i =? 0) eqn:Ei.
  - apply (Hc x rest H).
  - apply IH; assumption.
Qed.

Lemma fields_rt : forall fs xs rest, Forall rt fs -> all2 has_type fs xs = true ->
  dec_fields dec fs (enc_fields enc fs xs ++ rest) = Some (xs, rest).
Proof.
  induction fs as [|f fs IH]; intros xs rest HF H.
  - destruct xs; [reflexivity|discriminate].
  - destruct xs as [|x xs]; [discriminate|]. inversion HF as [|? ? Hf HF']; subst.
    cbn [all2] in H. apply andb_true_iff in H. destruct H as [H1 H2].
    cbn [enc_fields dec_fields]. rewrite <- app_assoc, (Hf x _ H1), (IH xs rest HF' H2). reflexivity.
Qed.

(* ---------- the round trip ---------- *)

Theorem dec_enc : forall t, rt t.
Proof.
  apply ty_ind'; unfold rt.
  - (* prim *) intros p v rest H. cbn [has_type] in H. apply dec_enc_prim. assumption.
  - (* enum *) intros b v rest H. destruct v; cbn [has_type] in H; try discriminate.
    unfold enc. cbn [enc_with dec]. rewrite dec_enc_int by assumption. reflexivity.
  - (* optional *) intros t IH v rest H. destruct v; cbn [has_type] in H; try discriminate.
    + reflexivity.
    + unfold enc in *. cbn [enc_with dec app]. cbn [N.eqb]. rewrite (IH v rest H). reflexivity.
  - (* union *) intros hn cs IH v rest H. destruct v; cbn [has_type] in H; try discriminate.
    + subst hn. unfold enc. cbn [enc_with dec]. rewrite vdec_venc. reflexivity.
    + unfold enc. cbn [enc_with dec]. rewrite <- app_assoc, vdec_venc.
      assert (E0 : (hn && (i + (if hn then 1 else 0) =? 0)) = false).
      { destruct hn; cbn [andb]; [|reflexivity]. apply N.eqb_neq. lia. }
      rewrite E0. replace (i + (if hn then 1 else 0) - (if hn then 1 else 0)) with i by (destruct hn; lia).
      fold enc. rewrite (pick_rt v rest cs i IH H). reflexivity.
  - (* vector *) intros t IH v rest H. destruct v; cbn [has_type] in H; try discriminate.
    unfold enc. cbn [enc_with dec]. fold enc. rewrite <- app_assoc, vdec_venc, Nat2N.id.
    rewrite dec_n_enc by assumption. reflexivity.
  - (* fixed vector *) intros n t IH v rest H. destruct v; cbn [has_type] in H; try discriminate.
    apply andb_true_iff in H. destruct H as [H1 H2]. apply N.eqb_eq in H1. subst n.
    unfold enc. cbn [enc_with dec]. fold enc. rewrite Nat2N.id.
    rewrite dec_n_enc by assumption. reflexivity.
  - (* array of known rank *) intros r t IH v rest H. destruct v; cbn [has_type] in H; try discriminate.
    apply andb_true_iff in H. destruct H as [H H3]. apply andb_true_iff in H. destruct H as [H1 H2].
    apply N.eqb_eq in H1, H2. subst r.
    unfold enc. cbn [enc_with dec]. fold enc. rewrite Nat2N.id, <- app_assoc, dec_dims_enc.
    rewrite <- H2, Nat2N.id. rewrite dec_n_enc by assumption. reflexivity.
  - (* fixed array *) intros d t IH v rest H. destruct v; cbn [has_type] in H; try discriminate.
    apply andb_true_iff in H. destruct H as [H H3]. apply andb_true_iff in H. destruct H as [H1 H2].
    apply list_eq_N_eq in H1. apply N.eqb_eq in H2. subst d.
    unfold enc. cbn [enc_with dec]. fold enc. rewrite <- H2, Nat2N.id.
    rewrite dec_n_enc by assumption. reflexivity.
  - (* dynamic array *) intros t IH v rest H. destruct v; cbn [has_type] in H; try discriminate.
    apply andb_true_iff in H. destruct H as [H2 H3]. apply N.eqb_eq in H2.
    unfold enc. cbn [enc_with dec]. fold enc. rewrite <- app_assoc, vdec_venc, Nat2N.id.
    rewrite <- app_assoc, dec_dims_enc. rewrite <- H2, Nat2N.id. rewrite dec_n_enc by assumption. reflexivity.
  - (* map *) intros k e IHk IHe v rest H. destruct v; cbn [has_type] in H; try discriminate.
    unfold enc. cbn [enc_with dec]. fold enc. rewrite <- app_assoc, vdec_venc, Nat2N.id.
    rewrite dec_kv_enc by assumption. reflexivity.
  - (* record *) intros fs IH v rest H. destruct v; cbn [has_type] in H; try discriminate.
    unfold enc. cbn [enc_with dec]. fold enc. rewrite (fields_rt fs vs rest IH H). reflexivity.
Qed.

Corollary dec_enc_exact : forall t v, has_type t v = true -> dec t (enc t v) = Some (v, []).
Proof. intros t v H. rewrite <- (app_nil_r (enc t v)). apply dec_enc, H. Qed.

(* ---------- extension: appended bytes never change a successful decode ---------- *)

Definition ext (d : list N -> option (val * list N)) : Prop :=
  forall s v r e, d s = Some (v, r) -> d (s ++ e) = Some (v, r ++ e).

Lemma dec_int_ext : forall p s z r e, dec_int p s = Some (z, r) -> dec_int p (s ++ e) = Some (z, r ++ e).
Proof.
  intros p s z r e H. unfold dec_int in *. destruct (int_width p) as [[sg w]|]; [|discriminate].
  destruct (w <=? 8).
  - destruct s as [|b s]; [discriminate|]. injection H as <- <-. reflexivity.
  - destruct (vdec s) as [[n r0]|] eqn:E; [|discriminate]. injection H as <- <-.
    rewrite (vdec_ext _ _ _ e E). reflexivity.
Qed.

Lemma dec_prim_ext : forall p, ext (dec_prim p).
Proof.
  intros p s v r e H.
  assert (Hint : forall s, match dec_int p s with Some (z, r0) => Some (VInt z, r0) | None => None end = Some (v, r) ->
            match dec_int p (s ++ e) with Some (z, r0) => Some (VInt z, r0) | None => None end = Some (v, r ++ e)).
  { intros s0 H0. destruct (dec_int p s0) as [[z r0]|] eqn:E; [|discriminate]. injection H0 as <- <-.
    rewrite (dec_int_ext _ _ _ _ e E). reflexivity. }
  destruct p; cbn [dec_prim] in *; try (apply Hint; assumption).
  - destruct (take 4 s) as [[h t]|] eqn:E; [|discriminate]. injection H as <- <-.
    rewrite (take_ext _ _ _ _ e E). reflexivity.
  - destruct (take 8 s) as [[h t]|] eqn:E; [|discriminate]. injection H as <- <-.
    rewrite (take_ext _ _ _ _ e E). reflexivity.
  - destruct (take 4 s) as [[h t]|] eqn:E; [|discriminate].
    destruct (take 4 t) as [[h2 t2]|] eqn:E2; [|discriminate]. injection H as <- <-.
    rewrite (take_ext _ _ _ _ e E), (take_ext _ _ _ _ e E2). reflexivity.
  - destruct (take 8 s) as [[h t]|] eqn:E; [|discriminate].
    destruct (take 8 t) as [[h2 t2]|] eqn:E2; [|discriminate]. injection H as <- <-.
    rewrite (take_ext _ _ _ _ e E), (take_ext _ _ _ _ e E2). reflexivity.
  - destruct (vdec s) as [[n r0]|] eqn:E; [|discriminate].
    destruct (take n r0) as [[h t]|] eqn:E2; [|discriminate]. injection H as <- <-.
    rewrite (vdec_ext _ _ _ e E), (take_ext _ _ _ _ e E2). reflexivity.
Qed.

Lemma dec_n_ext : forall d n s vs r e, ext d -> dec_n d n s = Some (vs, r) ->
  dec_n d n (s ++ e) = Some (vs, r ++ e).
Proof.
  intros d n. induction n as [|n IH]; intros s vs r e Hd H; cbn [dec_n] in *.
  - injection H as <- <-. reflexivity.
  - destruct (d s) as [[v r0]|] eqn:E; [|discriminate].
    destruct (dec_n d n r0) as [[vs0 r1]|] eqn:E2; [|discriminate]. injection H as <- <-.
    rewrite (Hd _ _ _ e E), (IH _ _ _ e Hd E2). reflexivity.
Qed.

Lemma dec_kv_ext : forall dk dv n s kvs r e, ext dk -> ext dv -> dec_kv dk dv n s = Some (kvs, r) ->
  dec_kv dk dv n (s ++ e) = Some (kvs, r ++ e).
Proof.
  intros dk dv n. induction n as [|n IH]; intros s kvs r e Hk Hv H; cbn [dec_kv] in *.
  - injection H as <- <-. reflexivity.
  - destruct (dk s) as [[k r0]|] eqn:E; [|discriminate].
    destruct (dv r0) as [[v r1]|] eqn:E1; [|discriminate].
    destruct (dec_kv dk dv n r1) as [[kvs0 r2]|] eqn:E2; [|discriminate]. injection H as <- <-.
    rewrite (Hk _ _ _ e E), (Hv _ _ _ e E1), (IH _ _ _ e Hk Hv E2). reflexivity.
Qed.

Lemma dec_dims_ext : forall n s ds r e, dec_dims n s = Some (ds, r) -> dec_dims n (s ++ e) = Some (ds, r ++ e).
Proof.
  induction n as [|n IH]; intros s ds r e H; cbn [dec_dims] in *.
  - injection H as <- <-. reflexivity.
  - destruct (vdec s) as [[d r0]|] eqn:E; [|discriminate].
    destruct (dec_dims n r0) as [[ds0 r1]|] eqn:E2; [|discriminate]. injection H as <- <-.
    rewrite (vdec_ext _ _ _ e E), (IH _ _ _ e E2). reflexivity.
Qed.

Lemma dec_fields_ext : forall fs s vs r e, Forall (fun t => ext (dec t)) fs ->
  dec_fields dec fs s = Some (vs, r) -> dec_fields dec fs (s ++ e) = Some (vs, r ++ e).
Proof.
  induction fs as [|f fs IH]; intros s vs r e HF H; cbn [dec_fields] in *.
  - injection H as <- <-. reflexivity.
  - inversion HF as [|? ? Hf HF']; subst.
    destruct (dec f s) as [[v r0]|] eqn:E; [|discriminate].
    destruct (dec_fields dec fs r0) as [[vs0 r1]|] eqn:E2; [|discriminate]. injection H as <- <-.
    rewrite (Hf _ _ _ e E), (IH _ _ _ e HF' E2). reflexivity.
Qed.

Lemma pick_ext : forall cs i s v r e, Forall (fun t => ext (dec t)) cs ->
  pick (fun c => dec c s) None cs i = Some (v, r) ->
  pick (fun c => dec c (s ++ e)) None cs i = Some (v, r ++ e).
Proof.
  induction cs as [|c cs IH]; intros i s v r e HF H; cbn [pick] in *; [discriminate|].
  inversion HF as [|? ? Hc HF']; subst. destruct (i =? 0).
  - apply Hc, H.
  - apply IH; assumption.
Qed.

Theorem dec_ext : forall t, ext (dec t).
Proof.
  apply ty_ind'; unfold ext.
  - intros p. apply dec_prim_ext.
  - intros b s v r e H. cbn [dec] in *. destruct (dec_int b s) as [[z r0]|] eqn:E; [|discriminate].
    injection H as <- <-. rewrite (dec_int_ext _ _ _ _ e E). reflexivity.
  - intros t IH s v r e H. cbn [dec] in *. destruct s as [|b s]; [discriminate|]. cbn [app].
    destruct (b =? 0).
    + injection H as <- <-. reflexivity.
    + destruct (dec t s) as [[v0 r0]|] eqn:E; [|discriminate]. injection H as <- <-.
      rewrite (IH _ _ _ e E). reflexivity.
  - intros hn cs IH s v r e H. cbn [dec] in *.
    destruct (vdec s) as [[idx r0]|] eqn:E; [|discriminate]. rewrite (vdec_ext _ _ _ e E).
    destruct (hn && (idx =? 0)).
    + injection H as <- <-. reflexivity.
    + destruct (pick (fun c => dec c r0) None cs (idx - (if hn then 1 else 0))) as [[v0 r1]|] eqn:E2; [|discriminate].
      injection H as <- <-. rewrite (pick_ext _ _ _ _ _ e IH E2). reflexivity.
  - intros t IH s v r e H. cbn [dec] in *.
    destruct (vdec s) as [[n r0]|] eqn:E; [|discriminate]. rewrite (vdec_ext _ _ _ e E).
    destruct (dec_n (dec t) (N.to_nat n) r0) as [[vs r1]|] eqn:E2; [|discriminate]. injection H as <- <-.
    rewrite (dec_n_ext _ _ _ _ _ e IH E2). reflexivity.
  - intros n t IH s v r e H. cbn [dec] in *.
    destruct (dec_n (dec t) (N.to_nat n) s) as [[vs r1]|] eqn:E2; [|discriminate]. injection H as <- <-.
    rewrite (dec_n_ext _ _ _ _ _ e IH E2). reflexivity.
  - intros rk t IH s v r e H. cbn [dec] in *.
    destruct (dec_dims (N.to_nat rk) s) as [[sh r0]|] eqn:E; [|discriminate]. rewrite (dec_dims_ext _ _ _ _ e E).
    destruct (dec_n (dec t) (N.to_nat (prodN sh)) r0) as [[vs r1]|] eqn:E2; [|discriminate]. injection H as <- <-.
    rewrite (dec_n_ext _ _ _ _ _ e IH E2). reflexivity.
  - intros d t IH s v r e H. cbn [dec] in *.
    destruct (dec_n (dec t) (N.to_nat (prodN d)) s) as [[vs r1]|] eqn:E2; [|discriminate]. injection H as <- <-.
    rewrite (dec_n_ext _ _ _ _ _ e IH E2). reflexivity.
  - intros t IH s v r e H. cbn [dec] in *.
    destruct (vdec s) as [[rk r00]|] eqn:E0; [|discriminate]. rewrite (vdec_ext _ _ _ e E0).
    destruct (dec_dims (N.to_nat rk) r00) as [[sh r0]|] eqn:E; [|discriminate]. rewrite (dec_dims_ext _ _ _ _ e E).
    destruct (dec_n (dec t) (N.to_nat (prodN sh)) r0) as [[vs r1]|] eqn:E2; [|discriminate]. injection H as <- <-.
    rewrite (dec_n_ext _ _ _ _ _ e IH E2). reflexivity.
  - intros k t IHk IHt s v r e H. cbn [dec] in *.
    destruct (vdec s) as [[n r0]|] eqn:E; [|discriminate]. rewrite (vdec_ext _ _ _ e E).
    destruct (dec_kv (dec k) (dec t) (N.to_nat n) r0) as [[kvs r1]|] eqn:E2; [|discriminate]. injection H as <- <-.
    rewrite (dec_kv_ext _ _ _ _ _ _ e IHk IHt E2). reflexivity.
  - intros fs IH s v r e H. cbn [dec] in *.
    destruct (dec_fields dec fs s) as [[vs r1]|] eqn:E2; [|discriminate]. injection H as <- <-.
    rewrite (dec_fields_ext _ _ _ _ e IH E2). reflexivity.
Qed.

(* ---------- conformance with docs/reference/binary.md ---------- *)

(* types that contain no 8-bit integer (int8, uint8, or an enum/flags with such a base) *)
Definition prim8 (p : prim) : bool := match p with PInt8 | PUint8 => true | _ => false end.

Fixpoint no_int8 (t : ty) : bool :=
  match t with
  | TPrim p => negb (prim8 p)
  | TEnum b => negb (prim8 b)
  | TOpt e | TVec e | TFixVec _ e | TArr _ e | TFixArr _ e | TDynArr e => no_int8 e
  | TUnion _ cs => forallb no_int8 cs
  | TMap k e => no_int8 k && no_int8 e
  | TRec fs => forallb no_int8 fs
  end.

Lemma enc_int_doc_eq : forall p z, prim8 p = false -> enc_int_doc p z = enc_int p z.
Proof.
  intros p z H. unfold enc_int_doc, enc_int. destruct p; cbn in *; try reflexivity; discriminate.
Qed.

Lemma enc_prim_doc_eq : forall p v, prim8 p = false -> enc_prim enc_int_doc p v = enc_prim enc_int p v.
Proof.
  intros p v H. destruct p; destruct v; cbn [enc_prim]; try reflexivity; apply enc_int_doc_eq; assumption.
Qed.

Lemma map_ext_Forall : forall (A B : Type) (f g : A -> B) l, Forall (fun x => f x = g x) l -> map f l = map g l.
Proof. intros A B f g l H. induction H; cbn; [reflexivity|]. rewrite H, IHForall. reflexivity. Qed.

Theorem enc_doc_eq : forall t, no_int8 t = true -> forall v, enc_doc t v = enc t v.
Proof.
  unfold enc_doc, enc.
  apply (ty_ind' (fun t => no_int8 t = true -> forall v, enc_with enc_int_doc venc t v = enc_with enc_int venc t v)).
  - intros p H v. cbn [no_int8] in H. apply negb_true_iff in H. cbn [enc_with]. apply enc_prim_doc_eq, H.
  - intros b H v. cbn [no_int8] in H. apply negb_true_iff in H. destruct v; cbn [enc_with]; try reflexivity.
    apply enc_int_doc_eq, H.
  - intros t IH H v. cbn [no_int8] in H. destruct v; cbn [enc_with]; try reflexivity. rewrite IH by assumption. reflexivity.
  - intros hn cs IH H v. cbn [no_int8] in H. destruct v; cbn [enc_with]; try reflexivity. f_equal.
    revert i. induction cs as [|c cs IHcs]; intros i; [reflexivity|]. cbn [pick].
    inversion IH as [|? ? Hc HF]; subst. cbn [forallb] in H. apply andb_true_iff in H. destruct H as [H1 H2].
    destruct (i =? 0); [apply Hc, H1|apply IHcs; assumption].
  - intros t IH H v. cbn [no_int8] in H. destruct v; cbn [enc_with]; try reflexivity. f_equal. f_equal.
    apply map_ext_Forall, Forall_forall. intros x _. apply IH, H.
  - intros n t IH H v. cbn [no_int8] in H. destruct v; cbn [enc_with]; try reflexivity. f_equal.
    apply map_ext_Forall, Forall_forall. intros x _. apply IH, H.
  - intros r t IH H v. cbn [no_int8] in H. destruct v; cbn [enc_with]; try reflexivity. f_equal. f_equal.
    apply map_ext_Forall, Forall_forall. intros x _. apply IH, H.
  - intros d t IH H v. cbn [no_int8] in H. destruct v; cbn [enc_with]; try reflexivity. f_equal.
    apply map_ext_Forall, Forall_forall. intros x _. apply IH, H.
  - intros t IH H v. cbn [no_int8] in H. destruct v; cbn [enc_with]; try reflexivity. f_equal. f_equal. f_equal.
    apply map_ext_Forall, Forall_forall. intros x _. apply IH, H.
  - intros k e IHk IHe H v. cbn [no_int8] in H. apply andb_true_iff in H. destruct H as [H1 H2].
    destruct v; cbn [enc_with]; try reflexivity. f_equal. f_equal.
    apply map_ext_Forall, Forall_forall. intros x _. rewrite IHk, IHe by assumption. reflexivity.
  - intros fs IH H v. cbn [no_int8] in H. destruct v; cbn [enc_with]; try reflexivity.
    revert vs. induction fs as [|f fs IHfs]; intros vs; [reflexivity|]. cbn [enc_fields].
    inversion IH as [|? ? Hf HF]; subst. cbn [forallb] in H. apply andb_true_iff in H. destruct H as [H1 H2].
    destruct vs as [|x xs]; [reflexivity|]. rewrite (Hf H1), (IHfs HF H2). reflexivity.
Qed.

(* ... and the document and the implementations really do differ on 8-bit integers *)
Theorem enc_doc_differs_uint8 : enc_doc (TPrim PUint8) (VInt 200) <> enc (TPrim PUint8) (VInt 200).
Proof. vm_compute. discriminate. Qed.
Theorem enc_doc_differs_int8 : enc_doc (TPrim PInt8) (VInt 1) <> enc (TPrim PInt8) (VInt 1).
Proof. vm_compute. discriminate. Qed.

(* ---------- Python writes the union case index as one raw byte ---------- *)

(* all unions in the type have fewer than 128 alternatives (null included) *)
Fixpoint small_unions (t : ty) : bool :=
  match t with
  | TPrim _ | TEnum _ => true
  | TOpt e | TVec e | TFixVec _ e | TArr _ e | TFixArr _ e | TDynArr e => small_unions e
  | TUnion hn cs => (N.of_nat (length cs) + (if hn then 1 else 0) <? 128) && forallb small_unions cs
  | TMap k e => small_unions k && small_unions e
  | TRec fs => forallb small_unions fs
  end.

Lemma venc_small : forall i, i < 128 -> venc i = [i].
Proof. intros i H. rewrite venc_unfold. assert (E : (i <? 128) = true) by lia. rewrite E. reflexivity. Qed.

Lemma pick_default : forall (A : Type) (f : ty -> A) (d : A) cs i, N.of_nat (length cs) <= i -> pick f d cs i = d.
Proof.
  induction cs as [|c cs IH]; intros i H; [reflexivity|]. cbn [pick length] in *.
  assert (E : (i =? 0) = false) by lia. rewrite E. apply IH. lia.
Qed.

Theorem enc_py_eq : forall t, small_unions t = true -> forall v, has_type t v = true -> enc_py t v = enc t v.
Proof.
  unfold enc_py, enc.
  apply (ty_ind' (fun t => small_unions t = true -> forall v, has_type t v = true ->
                           enc_with enc_int (fun i => [i]) t v = enc_with enc_int venc t v)).
  - intros p H v Hv. reflexivity.
  - intros b H v Hv. destruct v; reflexivity.
  - intros t IH H v Hv. cbn [small_unions] in H. destruct v; cbn [has_type] in Hv; cbn [enc_with]; try reflexivity.
    rewrite IH by assumption. reflexivity.
  - intros hn cs IH H v Hv. cbn [small_unions] in H. apply andb_true_iff in H. destruct H as [Hn Hcs].
    destruct v; cbn [has_type] in Hv; cbn [enc_with]; try discriminate.
    + rewrite venc_small by lia. reflexivity.
    + (* the index is in range because the value is well typed *)
      assert (Hi : i < N.of_nat (length cs)).
      { destruct (N.lt_ge_cases i (N.of_nat (length cs))) as [Hlt|Hge]; [assumption|].
        rewrite pick_default in Hv by assumption. discriminate. }
      rewrite venc_small by (destruct hn; lia). f_equal.
      clear Hn Hi. revert i Hv. induction cs as [|c cs IHcs]; intros i Hv; [reflexivity|]. cbn [pick] in *.
      inversion IH as [|? ? Hc HF]; subst. cbn [forallb] in Hcs. apply andb_true_iff in Hcs. destruct Hcs as [H1 H2].
      destruct (i =? 0); [apply Hc; assumption|apply IHcs; assumption].
  - intros t IH H v Hv. cbn [small_unions] in H. destruct v; cbn [has_type] in Hv; cbn [enc_with]; try reflexivity. f_equal. f_equal.
    apply map_ext_Forall, Forall_forall. intros x Hx. apply IH; [assumption|]. rewrite forallb_forall in Hv. apply Hv, Hx.
  - intros n t IH H v Hv. cbn [small_unions] in H. destruct v; cbn [has_type] in Hv; cbn [enc_with]; try reflexivity. f_equal.
    apply andb_true_iff in Hv. destruct Hv as [_ Hv].
    apply map_ext_Forall, Forall_forall. intros x Hx. apply IH; [assumption|]. rewrite forallb_forall in Hv. apply Hv, Hx.
  - intros r t IH H v Hv. cbn [small_unions] in H. destruct v; cbn [has_type] in Hv; cbn [enc_with]; try reflexivity. f_equal. f_equal.
    apply andb_true_iff in Hv. destruct Hv as [_ Hv].
    apply map_ext_Forall, Forall_forall. intros x Hx. apply IH; [assumption|]. rewrite forallb_forall in Hv. apply Hv, Hx.
  - intros d t IH H v Hv. cbn [small_unions] in H. destruct v; cbn [has_type] in Hv; cbn [enc_with]; try reflexivity. f_equal.
    apply andb_true_iff in Hv. destruct Hv as [_ Hv].
    apply map_ext_Forall, Forall_forall. intros x Hx. apply IH; [assumption|]. rewrite forallb_forall in Hv. apply Hv, Hx.
  - intros t IH H v Hv. cbn [small_unions] in H. destruct v; cbn [has_type] in Hv; cbn [enc_with]; try reflexivity. f_equal. f_equal. f_equal.
    apply andb_true_iff in Hv. destruct Hv as [_ Hv].
    apply map_ext_Forall, Forall_forall. intros x Hx. apply IH; [assumption|]. rewrite forallb_forall in Hv. apply Hv, Hx.
  - intros k e IHk IHe H v Hv. cbn [small_unions] in H. apply andb_true_iff in H. destruct H as [H1 H2].
    destruct v; cbn [has_type] in Hv; cbn [enc_with]; try reflexivity. f_equal. f_equal.
    apply map_ext_Forall, Forall_forall. intros x Hx. rewrite forallb_forall in Hv. specialize (Hv x Hx).
    apply andb_true_iff in Hv. destruct Hv as [Hk He]. rewrite IHk, IHe by assumption. reflexivity.
  - intros fs IH H v Hv. cbn [small_unions] in H. destruct v; cbn [has_type] in Hv; cbn [enc_with]; try reflexivity.
    revert vs Hv. induction fs as [|f fs IHfs]; intros vs Hv; [reflexivity|]. cbn [enc_fields all2] in *.
    inversion IH as [|? ? Hf HF]; subst. cbn [forallb] in H. apply andb_true_iff in H. destruct H as [H1 H2].
    destruct vs as [|x xs]; [reflexivity|]. apply andb_true_iff in Hv. destruct Hv as [Hx Hxs].
    rewrite (Hf H1 x Hx), (IHfs HF H2 xs Hxs). reflexivity.
Qed.

(* with 128 or more alternatives the two writers disagree: C++ writes a two-byte varint, Python one raw byte *)
Theorem enc_py_differs_large_union :
  let t := TUnion false (repeat (TPrim PBool) 200) in
  has_type t (VCase 130 (VInt 1)) = true /\ enc_py t (VCase 130 (VInt 1)) <> enc t (VCase 130 (VInt 1)).
Proof. vm_compute. split; [reflexivity|discriminate]. Qed.
