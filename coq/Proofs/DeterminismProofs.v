From Coq Require Import List NArith Bool Lia Permutation.
From YV Require Import Model.Determinism.
Import ListNotations.

(* ---------- sorting: ANY algorithm that returns a sorted permutation returns THE sorted permutation ---------- *)
Section Sorted.
Variable A : Type.
Variable le : A -> A -> bool.
Hypothesis le_antisym : forall a b, le a b = true -> le b a = true -> a = b.

Theorem sorted_perm_unique : forall o1 o2 : list A,
  sortedb le o1 = true -> sortedb le o2 = true -> Permutation o1 o2 -> o1 = o2.
Proof.
  induction o1 as [|x o1 IH]; intros o2 S1 S2 P.
  - apply Permutation_nil in P. subst. reflexivity.
  - destruct o2 as [|y o2]; [apply Permutation_sym, Permutation_nil in P; discriminate|].
    cbn [sortedb] in S1, S2. apply andb_true_iff in S1, S2. destruct S1 as [H1 S1]. destruct S2 as [H2 S2].
    rewrite forallb_forall in H1, H2.
    assert (Hxy : x = y).
    { assert (Hx : In x (y :: o2)) by (eapply Permutation_in; [exact P|left; reflexivity]).
      assert (Hy : In y (x :: o1)) by (eapply Permutation_in; [apply Permutation_sym; exact P|left; reflexivity]).
      destruct Hx as [->|Hx]; [reflexivity|]. destruct Hy as [->|Hy]; [reflexivity|].
      apply le_antisym; [apply H1, Hy|apply H2, Hx]. }
    subst y. f_equal. apply IH; try assumption. eapply Permutation_cons_inv. exact P.
Qed.
End Sorted.

Lemma diag_le_antisym : forall a b, diag_le a b = true -> diag_le b a = true -> a = b.
Proof.
  intros [[[f1 l1] c1] m1] [[[f2 l2] c2] m2] H1 H2. unfold diag_le in *.
  destruct (N.eqb f1 f2) eqn:Ef.
  - apply N.eqb_eq in Ef. subst f2. rewrite N.eqb_refl in H2. cbn [negb] in *.
    destruct (N.eqb l1 l2) eqn:El.
    + apply N.eqb_eq in El. subst l2. rewrite N.eqb_refl in H2. cbn [negb] in *.
      destruct (N.eqb c1 c2) eqn:Ec.
      * apply N.eqb_eq in Ec. subst c2. rewrite N.eqb_refl in H2. cbn [negb] in *.
        apply N.leb_le in H1, H2. f_equal. lia.
      * rewrite N.eqb_sym, Ec in H2. cbn [negb] in *. apply N.ltb_lt in H1, H2. lia.
    + rewrite N.eqb_sym, El in H2. cbn [negb] in *. apply N.ltb_lt in H1, H2. lia.
  - rewrite N.eqb_sym, Ef in H2. cbn [negb] in *. apply N.ltb_lt in H1, H2. lia.
Qed.

(* the rendered, sorted diagnostics are a function of the MULTISET of diagnostics reported, whatever
   order a map iteration produced them in and whatever (unstable) sorting algorithm sort.Slice uses *)
Theorem diagnostics_order_independent : forall reported1 reported2 out1 out2 : list diag,
  Permutation reported1 reported2 ->
  Permutation out1 reported1 -> sortedb diag_le out1 = true ->
  Permutation out2 reported2 -> sortedb diag_le out2 = true ->
  out1 = out2.
Proof.
  intros r1 r2 o1 o2 P P1 S1 P2 S2. apply (sorted_perm_unique diag diag_le diag_le_antisym); try assumption.
  eapply Permutation_trans; [exact P1|]. eapply Permutation_trans; [exact P|]. apply Permutation_sym. exact P2.
Qed.

(* without the message in the key two different sorted outputs exist for one multiset *)
Theorem no_message_key_refuted :
  exists o1 o2 : list diag, Permutation o1 o2 /\ sortedb diag_le_nomsg o1 = true /\ sortedb diag_le_nomsg o2 = true /\ o1 <> o2.
Proof.
  exists [(1, 2, 3, 10); (1, 2, 3, 20)]%N, [(1, 2, 3, 20); (1, 2, 3, 10)]%N.
  split; [apply perm_swap|]. split; [reflexivity|]. split; [reflexivity|discriminate].
Qed.

(* ---------- the other disciplines ---------- *)

Theorem set_build_order_independent : forall (A : Type) (l1 l2 : list A), Permutation l1 l2 ->
  forall x, In x l1 <-> In x l2.
Proof. intros A l1 l2 P x. split; intros H; [eapply Permutation_in; eassumption|eapply Permutation_in; [apply Permutation_sym|]; eassumption]. Qed.

Theorem any_order_independent : forall (A : Type) (p : A -> bool) (l1 l2 : list A), Permutation l1 l2 ->
  existsb p l1 = existsb p l2.
Proof.
  intros A p l1 l2 P. induction P; cbn.
  - reflexivity.
  - rewrite IHP. reflexivity.
  - destruct (p x); destruct (p y); reflexivity.
  - congruence.
Qed.

Theorem all_order_independent : forall (A : Type) (p : A -> bool) (l1 l2 : list A), Permutation l1 l2 ->
  forallb p l1 = forallb p l2.
Proof.
  intros A p l1 l2 P. induction P; cbn.
  - reflexivity.
  - rewrite IHP. reflexivity.
  - destruct (p x); destruct (p y); reflexivity.
  - congruence.
Qed.

(* returning at the first failing entry is NOT independent of the order *)
Theorem first_error_refuted :
  exists (l1 l2 : list N), Permutation l1 l2 /\ find (fun k => N.ltb 5 k) l1 <> find (fun k => N.ltb 5 k) l2.
Proof. exists [7; 9]%N, [9; 7]%N. split; [apply perm_swap|cbn; discriminate]. Qed.

(* ---------- regenerating an unchanged package touches nothing ---------- *)

Lemma win_same : forall now p c fs, content p fs = Some c -> write_if_needed now p c fs = fs.
Proof.
  induction fs as [|[[p' c'] t] r IH]; intros H; [discriminate|].
  cbn [content write_if_needed] in *. destruct (N.eqb p' p).
  - injection H as ->. rewrite N.eqb_refl. reflexivity.
  - rewrite IH by assumption. reflexivity.
Qed.

Lemma win_content_same : forall now p c fs, content p (write_if_needed now p c fs) = Some c.
Proof.
  induction fs as [|[[p' c'] t] r IH]; cbn [write_if_needed content].
  - rewrite N.eqb_refl. reflexivity.
  - destruct (N.eqb p' p) eqn:E.
    + destruct (N.eqb c' c) eqn:Ec; cbn [content]; rewrite E; [apply N.eqb_eq in Ec; congruence|reflexivity].
    + cbn [content]. rewrite E. exact IH.
Qed.

Lemma win_content_other : forall now p c q fs, q <> p -> content q (write_if_needed now p c fs) = content q fs.
Proof.
  induction fs as [|[[p' c'] t] r IH]; intros Hq; cbn [write_if_needed content].
  - assert (E : N.eqb p q = false) by (apply N.eqb_neq; congruence). rewrite E. reflexivity.
  - destruct (N.eqb p' p) eqn:E.
    + apply N.eqb_eq in E. subst p'. assert (E2 : N.eqb p q = false) by (apply N.eqb_neq; congruence).
      destruct (N.eqb c' c); cbn [content]; rewrite E2; reflexivity.
    + cbn [content]. destruct (N.eqb p' q); [reflexivity|apply IH, Hq].
Qed.

Lemma regenerate_satisfies : forall now outs fs, NoDup (map fst outs) ->
  forall p c, In (p, c) outs -> content p (regenerate now outs fs) = Some c.
Proof.
  unfold regenerate. induction outs as [|[p0 c0] outs IH]; intros fs Hnd p c Hin; [destruct Hin|].
  cbn [map fst] in Hnd. inversion Hnd as [|? ? Hnot Hnd']; subst. cbn [fold_left fst snd].
  destruct Hin as [Heq|Hin].
  - injection Heq as -> ->.
    (* later writes go to other paths *)
    assert (G : forall outs' fs', ~ In p (map fst outs') ->
              content p (fold_left (fun fs pc => write_if_needed now (fst pc) (snd pc) fs) outs' fs') = content p fs').
    { clear. induction outs' as [|[p1 c1] outs' IH']; intros fs' Hn; [reflexivity|].
      cbn [fold_left fst snd]. rewrite IH'; [|intro H; apply Hn; right; exact H].
      apply win_content_other. intro E. apply Hn. left. cbn. congruence. }
    rewrite G by assumption. apply win_content_same.
  - apply IH; assumption.
Qed.

Lemma regenerate_fixpoint : forall now outs fs,
  (forall p c, In (p, c) outs -> content p fs = Some c) -> regenerate now outs fs = fs.
Proof.
  unfold regenerate. induction outs as [|[p0 c0] outs IH]; intros fs H; [reflexivity|].
  cbn [fold_left fst snd]. rewrite win_same by (apply H; left; reflexivity).
  apply IH. intros p c Hin. apply H. right. exact Hin.
Qed.

(* a second run over unchanged package contents leaves every file - contents AND modification times - untouched,
   whatever the clock says and whatever was in the output directory before the first run *)
Theorem regenerate_idempotent : forall now1 now2 outs fs, NoDup (map fst outs) ->
  regenerate now2 outs (regenerate now1 outs fs) = regenerate now1 outs fs.
Proof. intros. apply regenerate_fixpoint. intros p c Hin. apply regenerate_satisfies; assumption. Qed.
