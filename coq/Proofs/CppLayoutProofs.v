(* Soundness of the C++ memcpy fast path: whenever the trait IsTriviallySerializable holds for the C++ type of a resolved
   yardl type, the bytes memcpy copies are exactly the encoding the schema's plan prescribes, for every well-typed value.
   Without the element-count guard on the array specializations (the header before /repo commit 7b8854d) this is false. *)
From Coq Require Import List NArith ZArith Bool Lia Arith.
From Coq Require Import ZifyBool ZifyN ZifyNat.
From YV Require Import Base.Wire Proofs.WireProofs Model.Binary Proofs.BinaryProofs Model.CppLayout.
Import ListNotations.
Open Scope N_scope.

Lemma align_up_ge : forall o a, 0 < a -> o <= align_up o a.
Proof.
  intros o a Ha. unfold align_up.
  pose proof (N.div_mod (o + a - 1) a ltac:(lia)) as H.
  pose proof (N.mod_lt (o + a - 1) a ltac:(lia)) as H2.
  set (q := (o + a - 1) / a) in *. set (r := (o + a - 1) mod a) in *.
  replace (q * a) with (a * q) by apply N.mul_comm. lia.
Qed.

Lemma pad_0 : pad 0 = [].
Proof. reflexivity. Qed.

Lemma concat_map_some : forall (l : list (list N)), concat (map (map Some) l) = map Some (concat l).
Proof.
  induction l as [|x l IH]; [reflexivity|]. cbn [map concat]. rewrite IH, map_app. reflexivity.
Qed.

Lemma length_concat_const : forall (l : list (list N)) s,
  Forall (fun x => N.of_nat (length x) = s) l -> N.of_nat (length (concat l)) = N.of_nat (length l) * s.
Proof.
  intros l s H. induction H as [|x l Hx Hl IH]; [cbn; lia|].
  cbn [concat length]. rewrite app_length. lia.
Qed.

(* what the induction carries: image = encoding, and the encoding has exactly sizeof bytes *)
Definition S (t : ty) : Prop :=
  forall v, ts true t = true -> has_type t v = true ->
    img t v = map Some (enc t v) /\
    exists s a, layout t = Some (s, a) /\ N.of_nat (length (enc t v)) = s /\ 0 < a.

Lemma S_prim : forall p, S (TPrim p).
Proof.
  intros p v Hts Hty. cbn [ts] in Hts. cbn [img]. rewrite Hts. split; [reflexivity|].
  cbn [has_type] in Hty. cbn [layout]. unfold enc. cbn [enc_with].
  destruct p; cbn [leaf_ts] in Hts; try discriminate; cbn [prim_layout];
    destruct v; cbn [prim_ok] in Hty; try discriminate; cbn [enc_prim];
    eexists; eexists; (split; [reflexivity|]); (split; [|lia]);
    try (unfold enc_int; cbn; reflexivity);
    rewrite ?app_length, ?le_enc_length; reflexivity.
Qed.

Lemma S_seq : forall e xs s a, S e -> ts true e = true -> forallb (has_type e) xs = true ->
  layout e = Some (s, a) ->
  concat (map (img e) xs) = map Some (concat (map (enc e) xs)) /\
  N.of_nat (length (concat (map (enc e) xs))) = N.of_nat (length xs) * s /\ 0 < a.
Proof.
  intros e xs s a IH Hts Hall Hl.
  assert (Hx : Forall (fun x => img e x = map Some (enc e x) /\ N.of_nat (length (enc e x)) = s /\ 0 < a) xs).
  { apply Forall_forall. intros x Hin. rewrite forallb_forall in Hall.
    destruct (IH x Hts (Hall x Hin)) as [H1 [s' [a' [H2 [H3 H4]]]]]. rewrite Hl in H2. injection H2 as <- <-.
    repeat split; assumption. }
  split; [|split].
  - rewrite <- concat_map_some, map_map. f_equal. apply map_ext_in. intros x Hin.
    rewrite Forall_forall in Hx. apply (Hx x Hin).
  - rewrite length_concat_const with (s := s).
    + rewrite map_length. reflexivity.
    + apply Forall_map. eapply Forall_impl; [|exact Hx]. intros x [_ [H _]]. exact H.
  - destruct xs as [|x xs].
    + (* no element to ask: alignments are positive by construction *)
      clear Hx Hall. revert s a Hl. clear IH Hts. induction e using ty_ind'; intros s a Hl; cbn [layout] in Hl; try discriminate.
      * destruct p; cbn in Hl; try discriminate; injection Hl as <- <-; lia.
      * destruct b; cbn in Hl; try discriminate; injection Hl as <- <-; lia.
      * destruct (layout e) as [[s' a']|]; [|discriminate]. destruct (n =? 0); injection Hl as <- <-; [lia|]. eapply IHe; reflexivity.
      * destruct (layout e) as [[s' a']|]; [|discriminate]. destruct (prodN d =? 0); injection Hl as <- <-; [lia|]. eapply IHe; reflexivity.
      * destruct (fields_layout layout fs 0 1) as [[e' al]|] eqn:E; [|discriminate]. injection Hl as <- <-.
        assert (G : forall fs off al e' al', Forall (fun t => forall s a, layout t = Some (s, a) -> 0 < a) fs ->
                    fields_layout layout fs off al = Some (e', al') -> 0 < al -> 0 < al').
        { clear. induction fs as [|t r IHr]; intros off al e' al' HF E Hal; cbn [fields_layout] in E.
          - injection E as <- <-. assumption.
          - inversion HF as [|? ? Ht Hr]; subst. destruct (layout t) as [[s a]|] eqn:El; [|discriminate].
            apply (IHr _ _ _ _ Hr E). specialize (Ht s a eq_refl). lia. }
        apply (G fs 0 1 e' al); [assumption|assumption|lia].
    + inversion Hx as [|? ? [_ [_ H]] _]; subst. exact H.
Qed.

Lemma S_fixvec : forall n e, S e -> S (TFixVec n e).
Proof.
  intros n e IH v Hts Hty. cbn [ts] in Hts. apply andb_true_iff in Hts. destruct Hts as [Hte Hn]. cbn [negb orb] in Hn.
  destruct v; cbn [has_type] in Hty; try discriminate. apply andb_true_iff in Hty. destruct Hty as [Hlen Hall].
  assert (En : (n =? 0) = false) by lia.
  destruct vs as [|x xs]; [cbn [length] in Hlen; lia|].
  assert (Hx : has_type e x = true) by (cbn [forallb] in Hall; apply andb_true_iff in Hall; apply Hall).
  destruct (IH x Hte Hx) as [_ [s [a [Hl [_ Ha]]]]].
  destruct (S_seq e (x :: xs) s a IH Hte Hall Hl) as [H1 [H2 H3]].
  cbn [img layout]. rewrite En, Hl. unfold enc in *. cbn [enc_with]. split; [exact H1|].
  eexists. eexists. split; [reflexivity|]. split; [|exact H3]. rewrite H2. lia.
Qed.

Lemma S_fixarr : forall d e, S e -> S (TFixArr d e).
Proof.
  intros d e IH v Hts Hty. cbn [ts] in Hts. apply andb_true_iff in Hts. destruct Hts as [Hte Hn]. cbn [negb orb] in Hn.
  destruct v; cbn [has_type] in Hty; try discriminate.
  apply andb_true_iff in Hty. destruct Hty as [Hty Hall]. apply andb_true_iff in Hty. destruct Hty as [Hsh Hlen].
  apply list_eq_N_eq in Hsh. subst shape.
  assert (En : (prodN d =? 0) = false) by lia.
  destruct vs as [|x xs]; [cbn [length] in Hlen; lia|].
  assert (Hx : has_type e x = true) by (cbn [forallb] in Hall; apply andb_true_iff in Hall; apply Hall).
  destruct (IH x Hte Hx) as [_ [s [a [Hl [_ Ha]]]]].
  destruct (S_seq e (x :: xs) s a IH Hte Hall Hl) as [H1 [H2 H3]].
  cbn [img layout]. rewrite En, Hl. unfold enc in *. cbn [enc_with]. split; [exact H1|].
  eexists. eexists. split; [reflexivity|]. split; [|exact H3]. rewrite H2. lia.
Qed.

(* members in declaration order: the end of the last member is at least the sum of the sizes; when it IS the sum there is
   no padding anywhere and the image is the concatenation of the member encodings *)
Lemma fields_dense : forall fs xs off al e al' k,
  Forall S fs -> forallb (ts true) fs = true -> all2 has_type fs xs = true ->
  fields_layout layout fs off al = Some (e, al') -> sum_sizes layout fs = Some k -> 0 < al ->
  off + k <= e /\ 0 < al' /\ N.of_nat (length (enc_fields enc fs xs)) = k /\
  (e = off + k -> img_fields img fs xs off = map Some (enc_fields enc fs xs)).
Proof.
  induction fs as [|t r IH]; intros xs off al e al' k HS Hts Hty Hl Hk Hal.
  - cbn [fields_layout] in Hl. injection Hl as <- <-. cbn [sum_sizes] in Hk. injection Hk as <-.
    destruct xs; cbn [all2] in Hty; [|discriminate]. cbn. repeat split; try lia.
  - inversion HS as [|? ? Ht Hr]; subst.
    cbn [forallb] in Hts. apply andb_true_iff in Hts. destruct Hts as [Hts1 Hts2].
    destruct xs as [|x xr]; cbn [all2] in Hty; [discriminate|]. apply andb_true_iff in Hty. destruct Hty as [Hx Hxr].
    destruct (Ht x Hts1 Hx) as [Himg [s [a [El [Hlen Ha]]]]].
    cbn [fields_layout] in Hl. rewrite El in Hl. cbn [sum_sizes] in Hk. rewrite El in Hk.
    destruct (sum_sizes layout r) as [k'|] eqn:Ek; [|discriminate]. injection Hk as <-.
    destruct (IH xr (align_up off a + s) (N.max al a) e al' k' Hr Hts2 Hxr Hl eq_refl ltac:(lia)) as [H1 [H2 [H3 H4]]].
    pose proof (align_up_ge off a Ha) as Hge.
    cbn [enc_fields img_fields]. rewrite El, app_length.
    split; [lia|]. split; [assumption|]. split; [lia|].
    intros He. assert (Eo : align_up off a = off) by lia. rewrite Eo in *.
    replace (off - off) with 0 by lia. rewrite pad_0. cbn [app].
    rewrite Himg, H4 by lia. rewrite map_app. reflexivity.
Qed.

Lemma S_rec : forall fs, Forall S fs -> S (TRec fs).
Proof.
  intros fs HS v Hts Hty. cbn [ts] in Hts. apply andb_true_iff in Hts. destruct Hts as [Hall Hl].
  destruct (layout (TRec fs)) as [[sz al0]|] eqn:El; [|discriminate].
  destruct (sum_sizes layout fs) as [k|] eqn:Ek; [|discriminate].
  destruct (offsets_of layout fs 0) as [offs|]; [|discriminate].
  apply andb_true_iff in Hl. destruct Hl as [Hsz _]. apply N.eqb_eq in Hsz. subst k.
  destruct v; cbn [has_type] in Hty; try discriminate.
  cbn [layout] in El. destruct (fields_layout layout fs 0 1) as [[e al]|] eqn:Ef; [|discriminate].
  injection El as <- <-.
  destruct (fields_dense fs vs 0 1 e al (align_up e al) HS Hall Hty Ef Ek ltac:(lia)) as [H1 [H2 [H3 H4]]].
  pose proof (align_up_ge e al H2) as Hge.
  assert (Ee : e = align_up e al) by lia.
  cbn [img]. rewrite Ef. unfold enc in *. cbn [enc_with]. split.
  - rewrite H4 by lia. replace (align_up e al - e) with 0 by lia. rewrite pad_0, app_nil_r. reflexivity.
  - eexists. eexists. split; [reflexivity|]. split; [exact H3|exact H2].
Qed.

Theorem S_all : forall t, S t.
Proof.
  apply ty_ind'.
  - exact S_prim.
  - intros b v H. discriminate.
  - intros e _ v H. discriminate.
  - intros hn cs _ v H. discriminate.
  - intros e _ v H. discriminate.
  - exact S_fixvec.
  - intros r e _ v H. discriminate.
  - exact S_fixarr.
  - intros e _ v H. discriminate.
  - intros k e _ _ v H. discriminate.
  - exact S_rec.
Qed.

(* memcpy of a trivially serializable object = its encoding *)
Theorem ts_sound : forall t v, ts true t = true -> has_type t v = true -> img t v = map Some (enc t v).
Proof. intros t v H1 H2. apply (S_all t v H1 H2). Qed.

(* ... and it is exactly sizeof(T) bytes *)
Theorem ts_size : forall t v, ts true t = true -> has_type t v = true ->
  exists s a, layout t = Some (s, a) /\ N.of_nat (length (enc t v)) = s.
Proof.
  intros t v H1 H2. destruct (S_all t v H1 H2) as [_ [s [a [H3 [H4 _]]]]]. exists s, a. split; assumption.
Qed.

(* the header before 7b8854d: the trait holds for record {a: uint8*0, b: uint8}, whose object has a byte the stream must not *)
Theorem ts_unguarded_refuted :
  exists t v, ts false t = true /\ has_type t v = true /\ img t v <> map Some (enc t v).
Proof.
  exists (TRec [TFixVec 0 (TPrim PUint8); TPrim PUint8]), (VSeq [VSeq []; VInt 7]).
  split; [vm_compute; reflexivity|]. split; [vm_compute; reflexivity|]. vm_compute. discriminate.
Qed.

(* ---------- independent of the ABI ---------- *)
(* Whatever the compiler's layout: if the members lie in declaration order without overlapping inside the object and
   sizeof equals the sum of the member sizes - what the generated specialization tests - there is no padding at all. *)
Fixpoint ordered_from (o : N) (offs sizes : list N) (total : N) : Prop :=
  match offs, sizes with
  | [], [] => o <= total
  | o1 :: offs', s1 :: sizes' => o <= o1 /\ ordered_from (o1 + s1) offs' sizes' total
  | _, _ => False
  end.

Fixpoint packed_from (o : N) (offs sizes : list N) : Prop :=
  match offs, sizes with
  | [], [] => True
  | o1 :: offs', s1 :: sizes' => o1 = o /\ packed_from (o + s1) offs' sizes'
  | _, _ => False
  end.

Fixpoint sumN (l : list N) : N := match l with [] => 0 | x :: r => x + sumN r end.

Theorem no_padding_any_abi : forall offs sizes o total,
  ordered_from o offs sizes total -> total <= o + sumN sizes -> packed_from o offs sizes.
Proof.
  induction offs as [|o1 offs IH]; intros sizes o total H Ht; destruct sizes as [|s1 sizes]; cbn in *; try contradiction; [exact I|].
  destruct H as [H1 H2].
  assert (Hlow : forall offs sizes o, ordered_from o offs sizes total -> o + sumN sizes <= total).
  { clear. induction offs as [|a offs IH]; intros sizes o H; destruct sizes as [|s sizes]; cbn in *; try contradiction; [lia|].
    destruct H as [H1 H2]. specialize (IH _ _ H2). lia. }
  pose proof (Hlow _ _ _ H2) as Hl.
  assert (o1 = o) by lia. subst o1. split; [reflexivity|]. apply (IH sizes (o + s1) total H2). lia.
Qed.
