(* Floating-point computed fields: the model's value is, at every operator, the correctly rounded (nearest, ties to even)
   result of the mathematical operation on the operand values, as long as no intermediate result overflows and no divisor
   is zero.  These are Flocq's correctness theorems for Bplus / Bminus / Bmult / Bdiv, lifted to whole expressions. *)
From Coq Require Import ZArith List Bool Reals.
From Flocq Require Import IEEE754.BinarySingleNaN IEEE754.Binary IEEE754.Bits Core.
From YV Require Import Model.FloatExpr.
Import ListNotations.
Open Scope R_scope.

Definition rnd (x : R) : R := round radix2 (FLT_exp (3 - 1024 - 53) 53) ZnearestE x.
Definition B2R64 (x : binary64) : R := Binary.B2R 53 1024 x.
Definition fin64 (x : binary64) : bool := Binary.is_finite 53 1024 x.

Definition rop (o : fop) (x y : R) : R :=
  match o with FAdd => x + y | FSub => x - y | FMul => x * y | FDiv => x / y end.

(* the mathematical value, rounded once per operator *)
Fixpoint reval (fields : list Z) (e : fexpr) : R :=
  match e with
  | FField i => B2R64 (b64_of_bits (nth i fields 0%Z))
  | FOfInt z => B2R64 (of_int z)
  | FNeg a => - reval fields a
  | FBin o a b => rnd (rop o (reval fields a) (reval fields b))
  end.

(* in-range operands: finite leaves, no overflow at any operator, no zero divisor *)
Fixpoint fok (fields : list Z) (e : fexpr) : Prop :=
  match e with
  | FField i => fin64 (b64_of_bits (nth i fields 0%Z)) = true
  | FOfInt z => fin64 (of_int z) = true
  | FNeg a => fok fields a
  | FBin o a b =>
      fok fields a /\ fok fields b /\
      Rabs (rnd (rop o (reval fields a) (reval fields b))) < bpow radix2 1024 /\
      (o = FDiv -> reval fields b <> 0)
  end.

Theorem feval_correct : forall fields e, fok fields e ->
  B2R64 (feval fields e) = reval fields e /\ fin64 (feval fields e) = true.
Proof.
  intros fields. induction e as [i|z|a IHa|o a IHa b IHb]; intros H; cbn [fok] in H; cbn [feval reval].
  - split; [reflexivity|exact H].
  - split; [reflexivity|exact H].
  - destruct (IHa H) as [H1 H2]. unfold b64_opp, B2R64, fin64 in *. rewrite Binary.B2R_Bopp, Binary.is_finite_Bopp, H1. split; [reflexivity|exact H2].
  - destruct H as [Ha [Hb [Hov Hz]]]. destruct (IHa Ha) as [Ra Fa]. destruct (IHb Hb) as [Rb Fb].
    unfold B2R64, fin64, rnd in *.
    destruct o; cbn [rop] in *.
    + unfold b64_plus.
      match goal with |- context [Binary.Bplus ?p ?e ?h1 ?h2 ?n _ _ _] =>
        pose proof (Binary.Bplus_correct p e h1 h2 n mode_NE (feval fields a) (feval fields b) Fa Fb) as H end.
      rewrite Ra, Rb in H. cbn [round_mode] in H. rewrite Rlt_bool_true in H by exact Hov.
      destruct H as [H1 [H2 _]]. split; assumption.
    + unfold b64_minus.
      match goal with |- context [Binary.Bminus ?p ?e ?h1 ?h2 ?n _ _ _] =>
        pose proof (Binary.Bminus_correct p e h1 h2 n mode_NE (feval fields a) (feval fields b) Fa Fb) as H end.
      rewrite Ra, Rb in H. cbn [round_mode] in H. rewrite Rlt_bool_true in H by exact Hov.
      destruct H as [H1 [H2 _]]. split; assumption.
    + unfold b64_mult.
      match goal with |- context [Binary.Bmult ?p ?e ?h1 ?h2 ?n _ _ _] =>
        pose proof (Binary.Bmult_correct p e h1 h2 n mode_NE (feval fields a) (feval fields b)) as H end.
      rewrite Ra, Rb in H. cbn [round_mode] in H. rewrite Rlt_bool_true in H by exact Hov.
      destruct H as [H1 [H2 _]]. split; [assumption|]. rewrite H2, Fa, Fb. reflexivity.
    + unfold b64_div.
      assert (Hy : Binary.B2R 53 1024 (feval fields b) <> 0) by (rewrite Rb; apply Hz; reflexivity).
      match goal with |- context [Binary.Bdiv ?p ?e ?h1 ?h2 ?n _ _ _] =>
        pose proof (Binary.Bdiv_correct p e h1 h2 n mode_NE (feval fields a) (feval fields b) Hy) as H end.
      rewrite Ra, Rb in H. cbn [round_mode] in H. rewrite Rlt_bool_true in H by exact Hov.
      destruct H as [H1 [H2 _]]. split; [assumption|]. rewrite H2. exact Fa.
Qed.

(* 7.0 / 2.0 is 3.5, not the 3.0 of floor division (what generated Python computed before /repo commit a378590) *)
Theorem float_division_is_not_floor :
  fbits (feval [4619567317775286272; 4611686018427387904]%Z (FBin FDiv (FField 0) (FField 1))) = 4615063718147915776%Z
  /\ 4615063718147915776%Z <> 4613937818241073152%Z.
Proof. split; [vm_compute; reflexivity|discriminate]. Qed.

(* ---------- the hypotheses of feval_correct are satisfiable: 7.0 / 2.0 ---------- *)
Lemma finite_strict_nonzero : forall x : binary64, Binary.is_finite_strict 53 1024 x = true -> B2R64 x <> 0.
Proof.
  intros [s|s|s pl H|s m e H] Hs; try discriminate. unfold B2R64. cbn [Binary.B2R].
  apply F2R_neq_0. destruct s; simpl; intro Hc; discriminate Hc.
Qed.

Example fok_sat : fok [4619567317775286272; 4611686018427387904]%Z (FBin FDiv (FField 0) (FField 1)).
Proof.
  cbn [fok reval nth rop].
  set (x := b64_of_bits 4619567317775286272). set (y := b64_of_bits 4611686018427387904).
  assert (Hy : B2R64 y <> 0) by (apply finite_strict_nonzero; vm_compute; reflexivity).
  split; [vm_compute; reflexivity|]. split; [vm_compute; reflexivity|]. split; [|intros _; exact Hy].
  pose proof (Binary.Bdiv_correct 53 1024 (refl_equal _) (refl_equal _) binop_nan_pl64 mode_NE x y Hy) as H.
  cbn [round_mode] in H. unfold rnd, B2R64.
  match type of H with (if Rlt_bool ?a ?b then _ else _) => destruct (Rlt_bool_spec a b) as [Hlt|Hge] end; [exact Hlt|].
  exfalso. vm_compute in H. discriminate H.
Qed.

(* float32 operands: generated C++ computes in float, generated Python in double on the widened operands; the two values
   differ as real numbers already for 0.1f + 0.2f *)
Theorem float32_languages_differ :
  let fs := [1036831949; 1045220557]%Z in
  let e := FBin FAdd (FField 0) (FField 1) in
  widen (fbits32 (feval32 fs e)) <> fbits (feval (map widen fs) e).
Proof. vm_compute. discriminate. Qed.
