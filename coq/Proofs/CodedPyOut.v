(* The Python CodedOutputStream machine (Model/CodedPy.v): whatever the buffer size, the flushes and the way byte
   strings are passed, what reaches the underlying stream is the concatenation of what each operation denotes; with a
   buffer of at least 10 bytes the operations generated code uses never raise. *)
From Coq Require Import List NArith ZArith Bool Lia Arith.
From Coq Require Import ZifyBool ZifyN ZifyNat.
From YV Require Import Base.Wire Proofs.WireProofs Model.CodedCpp Model.CodedPy.
Import ListNotations.
Open Scope N_scope.

Definition pall_out (s : pout) : list N := concat (pchunks s) ++ pstaged s.

Definition pwop_ok (bufsize : nat) (op : pwop) : Prop :=
  match op with
  | PWByteNC _ => False                   (* only behind ensure_capacity: see PWByte *)
  | PWByte b => b < 256
  | PWVar n => n < 2 ^ 64
  | PWFixed k n => (k <= bufsize)%nat /\ n < 256 ^ N.of_nat k
  | _ => True
  end.

Section Out.
Variable bufsize : nat.

Definition PWInv (s : pout) : Prop := (length (pstaged s) <= bufsize)%nat.

Lemma pflush_spec : forall s, PWInv s ->
  PWInv (pflush s) /\ pall_out (pflush s) = pall_out s /\ pstaged (pflush s) = [].
Proof.
  intros s H. unfold pflush. destruct (pstaged s) as [|b r] eqn:E.
  - repeat split; assumption.
  - unfold PWInv, pall_out; cbn [pstaged pchunks]. rewrite concat_app. cbn [concat].
    rewrite app_nil_r, app_nil_r, E. repeat split. cbn; lia.
Qed.

Lemma pensure_spec : forall n s, PWInv s ->
  PWInv (pensure bufsize n s) /\ pall_out (pensure bufsize n s) = pall_out s /\
  ((n <= bufsize)%nat -> (length (pstaged (pensure bufsize n s)) + n <= bufsize)%nat).
Proof.
  intros n s H. unfold pensure, premaining. destruct (Nat.ltb (bufsize - length (pstaged s)) n) eqn:E.
  - destruct (pflush_spec s H) as [H1 [H2 H3]]. repeat split; try assumption. intros Hn. rewrite H3. cbn. lia.
  - repeat split; try assumption. intros Hn. unfold PWInv in H. lia.
Qed.

Lemma pbyte_nc_spec : forall b s, b < 256 -> (length (pstaged s) < bufsize)%nat ->
  exists s', pbyte_nc bufsize b s = PWOk s' /\ PWInv s' /\ pall_out s' = pall_out s ++ [b] /\
             length (pstaged s') = S (length (pstaged s)).
Proof.
  intros b s Hb Hl. unfold pbyte_nc.
  assert (E1 : negb (b <? 256) = false) by lia. rewrite E1.
  assert (E2 : Nat.ltb (length (pstaged s)) bufsize = true) by lia. rewrite E2.
  eexists. split; [reflexivity|]. unfold PWInv, pall_out. cbn [pstaged pchunks].
  rewrite app_length, app_assoc. cbn [length]. repeat split; lia.
Qed.

Lemma pbytes_nc_spec : forall l s, all_bytes l = true -> (length (pstaged s) + length l <= bufsize)%nat ->
  exists s', pbytes_nc bufsize l s = PWOk s' /\ PWInv s' /\ pall_out s' = pall_out s ++ l.
Proof.
  induction l as [|b l IH]; intros s Hb Hl.
  - exists s. cbn [pbytes_nc]. rewrite app_nil_r. unfold PWInv. cbn [length] in Hl.
    split; [reflexivity|]. split; [lia|reflexivity].
  - cbn [all_bytes forallb] in Hb. unfold all_bytes in Hb. cbn [forallb] in Hb.
    apply andb_true_iff in Hb. destruct Hb as [Hb1 Hb2]. unfold is_byte in Hb1. cbn [length] in Hl.
    destruct (pbyte_nc_spec b s ltac:(lia) ltac:(lia)) as [s1 [E [Hi [Ho Hlen]]]].
    cbn [pbytes_nc]. rewrite E.
    destruct (IH s1 Hb2 ltac:(lia)) as [s2 [E2 [Hi2 Ho2]]].
    exists s2. split; [assumption|]. split; [assumption|]. rewrite Ho2, Ho, <- app_assoc. reflexivity.
Qed.

(* --- nothing is lost or reordered, unconditionally: if no exception is raised the output is exact --- *)

Lemma pbyte_nc_out : forall b s s', pbyte_nc bufsize b s = PWOk s' -> pall_out s' = pall_out s ++ [b].
Proof.
  intros b s s' H. unfold pbyte_nc in H. destruct (negb (b <? 256)); [discriminate|].
  destruct (Nat.ltb (length (pstaged s)) bufsize); [|discriminate]. injection H as <-.
  unfold pall_out. cbn [pstaged pchunks]. rewrite app_assoc. reflexivity.
Qed.

Lemma pbytes_nc_out : forall l s s', pbytes_nc bufsize l s = PWOk s' -> pall_out s' = pall_out s ++ l.
Proof.
  induction l as [|b l IH]; intros s s' H; cbn [pbytes_nc] in H.
  - injection H as <-. rewrite app_nil_r. reflexivity.
  - destruct (pbyte_nc bufsize b s) as [s1|] eqn:E; [|discriminate].
    rewrite (IH s1 s' H), (pbyte_nc_out b s s1 E), <- app_assoc. reflexivity.
Qed.

Lemma pflush_out : forall s, pall_out (pflush s) = pall_out s.
Proof.
  intros s. unfold pflush. destruct (pstaged s) as [|b r] eqn:E; [reflexivity|].
  unfold pall_out. cbn [pstaged pchunks]. rewrite concat_app. cbn [concat]. rewrite !app_nil_r, E. reflexivity.
Qed.

Lemma pensure_out : forall n s, pall_out (pensure bufsize n s) = pall_out s.
Proof. intros n s. unfold pensure. destruct (Nat.ltb _ n); [apply pflush_out|reflexivity]. Qed.

Lemma direct_out : forall s l, pall_out (mkPout [] (pchunks (pflush s) ++ [l])) = pall_out s ++ l.
Proof.
  intros s l. unfold pall_out at 1. cbn [pstaged pchunks]. rewrite concat_app. cbn [concat]. rewrite !app_nil_r.
  pose proof (pflush_out s) as H. unfold pall_out at 1 in H.
  assert (Hs : pstaged (pflush s) = []).
  { unfold pflush. destruct (pstaged s) eqn:E; [assumption|reflexivity]. }
  rewrite Hs, app_nil_r in H. rewrite H. reflexivity.
Qed.

Theorem pwstep_out : forall s op s', pwstep bufsize s op = PWOk s' -> pall_out s' = pall_out s ++ pwbytes op.
Proof.
  intros s op s' H. destruct op as [n|b|b|n|k n|l|l|]; cbn [pwstep pwbytes] in *.
  - injection H as <-. rewrite pensure_out, app_nil_r. reflexivity.
  - apply pbyte_nc_out. assumption.
  - rewrite (pbyte_nc_out _ _ _ H), pensure_out. reflexivity.
  - rewrite (pbytes_nc_out _ _ _ H), pensure_out. reflexivity.
  - destruct (negb (n <? 256 ^ N.of_nat k)); [discriminate|].
    destruct (Nat.ltb bufsize _); [discriminate|]. injection H as <-.
    unfold pall_out at 1. cbn [pstaged pchunks]. rewrite app_assoc. fold (pall_out (pensure bufsize k s)).
    rewrite pensure_out. reflexivity.
  - destruct (Nat.ltb (premaining bufsize s) (length l)); injection H as <-.
    + apply direct_out.
    + unfold pall_out. cbn [pstaged pchunks]. rewrite app_assoc. reflexivity.
  - injection H as <-. apply direct_out.
  - injection H as <-. rewrite pflush_out, app_nil_r. reflexivity.
Qed.

Theorem pwrun_out : forall ops s s', pwrun bufsize s ops = PWOk s' ->
  pall_out s' = pall_out s ++ concat (map pwbytes ops).
Proof.
  induction ops as [|op ops IH]; intros s s' H; cbn [pwrun] in H.
  - injection H as <-. cbn. rewrite app_nil_r. reflexivity.
  - destruct (pwstep bufsize s op) as [s1|] eqn:E; [|discriminate].
    rewrite (IH s1 s' H), (pwstep_out s op s1 E). cbn [map concat]. rewrite <- app_assoc. reflexivity.
Qed.

(* --- and with a buffer of at least 10 bytes no exception is raised --- *)
Hypothesis bufbig : (10 <= bufsize)%nat.

Theorem pwstep_total : forall s op, PWInv s -> pwop_ok bufsize op ->
  exists s', pwstep bufsize s op = PWOk s' /\ PWInv s'.
Proof.
  intros s op Hinv Hok. destruct op as [n|b|b|n|k n|l|l|]; cbn [pwstep pwop_ok] in *.
  - eexists. split; [reflexivity|]. apply pensure_spec. assumption.
  - contradiction.
  - destruct (pensure_spec 1 s Hinv) as [H1 [H2 H3]].
    destruct (pbyte_nc_spec b (pensure bufsize 1 s) Hok ltac:(specialize (H3 ltac:(lia)); lia)) as [s' [E [Hi _]]].
    exists s'. split; assumption.
  - destruct (pensure_spec 10 s Hinv) as [H1 [H2 H3]].
    destruct (pbytes_nc_spec (venc n) (pensure bufsize 10 s) (venc_bytes n)) as [s' [E [Hi _]]].
    + pose proof (venc_length_64 n Hok). specialize (H3 bufbig). lia.
    + exists s'. split; assumption.
  - destruct Hok as [Hk Hn]. destruct (pensure_spec k s Hinv) as [H1 [H2 H3]]. specialize (H3 Hk).
    assert (E1 : negb (n <? 256 ^ N.of_nat k) = false) by lia. rewrite E1.
    assert (E2 : Nat.ltb bufsize (length (pstaged (pensure bufsize k s)) + k) = false) by lia. rewrite E2.
    eexists. split; [reflexivity|]. unfold PWInv. cbn [pstaged]. rewrite app_length, le_enc_length. lia.
  - unfold premaining. destruct (Nat.ltb (bufsize - length (pstaged s)) (length l)) eqn:E.
    + eexists. split; [reflexivity|]. unfold PWInv. cbn. lia.
    + eexists. split; [reflexivity|]. unfold PWInv in *. cbn [pstaged]. rewrite app_length. lia.
  - eexists. split; [reflexivity|]. unfold PWInv. cbn. lia.
  - eexists. split; [reflexivity|]. apply pflush_spec. assumption.
Qed.

Theorem pwrun_total : forall ops s, PWInv s -> Forall (pwop_ok bufsize) ops ->
  exists s', pwrun bufsize s ops = PWOk s' /\ PWInv s'.
Proof.
  induction ops as [|op ops IH]; intros s Hinv Hops.
  - exists s. split; [reflexivity|assumption].
  - inversion Hops as [|? ? Hop Hops']; subst. cbn [pwrun].
    destruct (pwstep_total s op Hinv Hop) as [s1 [E Hi]]. rewrite E. apply IH; assumption.
Qed.

End Out.

(* what reaches the underlying stream after close(): exactly the concatenation, for every buffer size >= 10 *)
Theorem py_writer_refines : forall bufsize ops, (10 <= bufsize)%nat -> Forall (pwop_ok bufsize) ops ->
  exists chunks, pwfinish bufsize ops = PWOk chunks /\ concat chunks = concat (map pwbytes ops).
Proof.
  intros bufsize ops Hb Hops. unfold pwfinish.
  assert (Hi : PWInv bufsize pout_init) by (unfold PWInv; cbn; lia).
  destruct (pwrun_total bufsize Hb ops pout_init Hi Hops) as [s [E Hs]]. rewrite E.
  eexists. split; [reflexivity|].
  pose proof (pwrun_out bufsize ops pout_init s E) as Ho.
  destruct (pflush_spec bufsize s Hs) as [_ [H2 H3]].
  unfold pall_out in H2 at 1. rewrite H3, app_nil_r in H2. rewrite H2, Ho. reflexivity.
Qed.

(* for any buffer size at all, and any script (unguarded byte stores included): no exception => exact output *)
Theorem py_writer_no_loss : forall bufsize ops chunks, pwfinish bufsize ops = PWOk chunks ->
  concat chunks = concat (map pwbytes ops).
Proof.
  intros bufsize ops chunks H. unfold pwfinish in H.
  destruct (pwrun bufsize pout_init ops) as [s|] eqn:E; [|discriminate]. injection H as <-.
  pose proof (pwrun_out bufsize ops pout_init s E) as Ho.
  pose proof (pflush_out s) as H2. unfold pall_out in H2 at 1.
  assert (Hs : pstaged (pflush s) = []).
  { unfold pflush. destruct (pstaged s) eqn:E2; [assumption|reflexivity]. }
  rewrite Hs, app_nil_r in H2. rewrite H2, Ho. reflexivity.
Qed.

(* two buffer sizes, two ways of flushing: same bytes *)
Corollary py_writer_buffer_independent : forall b1 b2 ops, (10 <= b1)%nat -> (10 <= b2)%nat ->
  Forall (pwop_ok b1) ops -> Forall (pwop_ok b2) ops ->
  exists c1 c2, pwfinish b1 ops = PWOk c1 /\ pwfinish b2 ops = PWOk c2 /\ concat c1 = concat c2.
Proof.
  intros b1 b2 ops H1 H2 Ho1 Ho2.
  destruct (py_writer_refines b1 ops H1 Ho1) as [c1 [E1 C1]].
  destruct (py_writer_refines b2 ops H2 Ho2) as [c2 [E2 C2]].
  exists c1, c2. repeat split; try assumption. congruence.
Qed.
