From Coq Require Import List Arith Bool Lia.
From YV Require Import Model.Fallback.
Import ListNotations.

Section P.
Variable A : Type.
Variable dflt : A.

Lemma set_nth_length : forall i (x : A) l, length (set_nth i x l) = length l.
Proof. induction i as [|i IH]; intros x [|y l]; cbn; auto. Qed.

Lemma set_nth_app_last : forall (p : list A) (x y : A), set_nth (length p) x (p ++ [y]) = p ++ [x].
Proof. induction p as [|a p IH]; intros x y; cbn; [reflexivity | f_equal; apply IH]. Qed.

Lemma set_nth_prefix : forall (p : list A) (x y : A) (t : list A), set_nth (length p) x (p ++ y :: t) = p ++ x :: t.
Proof. induction p as [|a p IH]; intros x y t; cbn; [reflexivity | f_equal; apply IH]. Qed.

(* loop invariant: the first i slots hold the items read so far (p), the vector is p ++ t with |p ++ t| <= cap *)
Lemma fb_spec : forall (src p t : list A) cap,
  length p + length t <= cap -> length p < cap ->
  fb dflt src (p ++ t) cap (length p) =
    if cap - length p <=? length src
    then (true, p ++ firstn (cap - length p) src ++ skipn (cap - length p) t, skipn (cap - length p) src)
    else (false, p ++ src, []).
Proof.
  induction src as [|x r IH]; intros p t cap Hlen Hp.
  - cbn [fb length]. destruct (cap - length p <=? 0) eqn:E; [apply Nat.leb_le in E; lia|].
    rewrite app_length. destruct (Nat.eqb (length p) (length p + length t)) eqn:E2.
    + rewrite <- app_assoc. rewrite firstn_app, Nat.sub_diag, firstn_all. cbn. rewrite !app_nil_r. reflexivity.
    + rewrite firstn_app, Nat.sub_diag, firstn_all. cbn. rewrite !app_nil_r. reflexivity.
  - cbn [fb]. rewrite app_length.
    assert (Hv2 : set_nth (length p) x (if Nat.eqb (length p) (length p + length t) then (p ++ t) ++ [dflt] else p ++ t)
                  = p ++ x :: tl t).
    { destruct t as [|y t'].
      - cbn [length]. rewrite Nat.add_0_r, Nat.eqb_refl, app_nil_r. apply set_nth_app_last.
      - cbn [length tl]. replace (Nat.eqb (length p) (length p + S (length t'))) with false
          by (symmetry; apply Nat.eqb_neq; lia). apply set_nth_prefix. }
    rewrite Hv2. clear Hv2.
    destruct (Nat.eqb (S (length p)) cap) eqn:Ec.
    + apply Nat.eqb_eq in Ec. replace (cap - length p) with 1 by lia. cbn [length Nat.leb firstn skipn].
      destruct t; reflexivity.
    + apply Nat.eqb_neq in Ec.
      replace (p ++ x :: tl t) with ((p ++ [x]) ++ tl t) by (rewrite <- app_assoc; reflexivity).
      replace (S (length p)) with (length (p ++ [x])) by (rewrite app_length; cbn; lia).
      rewrite IH.
      * rewrite app_length. cbn [length]. replace (cap - (length p + 1)) with (cap - length p - 1) by lia.
        destruct (cap - length p) as [|k] eqn:Ek; [lia|]. cbn [Nat.leb]. replace (S k - 1) with k by lia.
        destruct (k <=? length r) eqn:E.
        -- cbn [firstn skipn]. rewrite <- app_assoc. cbn. f_equal. f_equal. f_equal. f_equal. f_equal.
           destruct t; cbn; [destruct k; reflexivity | reflexivity].
        -- rewrite <- app_assoc. reflexivity.
      * rewrite app_length. cbn [length]. destruct t; cbn [tl length] in *; lia.
      * rewrite app_length. cbn [length]. lia.
Qed.

(* one batch read into a vector of any contents (at most cap): the next min(cap, |src|) items, in order; true iff cap items were there *)
Theorem fallback_batch : forall (src vals : list A) cap, 0 < cap -> length vals <= cap ->
  fb dflt src vals cap 0 =
    if cap <=? length src then (true, firstn cap src, skipn cap src) else (false, src, []).
Proof.
  intros src vals cap Hc Hl.
  pose proof (fb_spec src [] vals cap) as H. cbn [length app] in H. rewrite Nat.sub_0_r in H.
  rewrite H by lia. destruct (cap <=? length src) eqn:E; [|reflexivity].
  rewrite (skipn_all2 vals) by lia. rewrite app_nil_r. reflexivity.
Qed.

(* the read loop with one reused vector delivers exactly the items of the stream, whatever the capacity *)
Theorem fallback_drain : forall fuel (src vals : list A) cap, 0 < cap -> length vals <= cap -> length src < fuel ->
  drain (fb dflt) fuel src vals cap = src.
Proof.
  induction fuel as [|f IH]; intros src vals cap Hc Hl Hf; [lia|].
  cbn [drain]. rewrite fallback_batch by assumption.
  destruct (cap <=? length src) eqn:E.
  - apply Nat.leb_le in E. rewrite IH.
    + apply firstn_skipn.
    + assumption.
    + rewrite firstn_length. lia.
    + rewrite skipn_length. lia.
  - reflexivity.
Qed.
End P.

(* the seeded slip delivers a stale item: 4 items read with capacity 3 *)
Example fallback_popback_refuted :
  drain (fb_popback 0) 10 [1; 2; 3; 4] [] 3 = [1; 2; 3; 4; 2] /\ drain (fb 0) 10 [1; 2; 3; 4] [] 3 = [1; 2; 3; 4].
Proof. vm_compute. split; reflexivity. Qed.
