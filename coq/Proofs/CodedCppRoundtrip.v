(* The C++ coded streams end to end: what CodedOutputStream (any buffer size >= 10) hands to the ostream, CodedInputStream
   (any buffer size > 0) reads back as exactly the values written, and VerifyFinished succeeds. *)
From Coq Require Import List NArith ZArith Bool Lia Arith.
From Coq Require Import ZifyBool ZifyN ZifyNat.
From YV Require Import Base.Wire Proofs.WireProofs Model.CodedCpp Proofs.CodedCppIn Proofs.CodedCppOut Proofs.Truncation.
Import ListNotations.
Open Scope N_scope.

Definition cread_of (op : wop) : list (rop * rval) :=
  match op with
  | WByte b => [(RByte, VNum b)]
  | WVar w n => [(RVar w, VNum (n mod 2 ^ w))]
  | WFixed k n => [(RFixed k, VNum n)]
  | WBytes l => [(RBytes (N.of_nat (length l)), VBytes l)]
  | WFlush => []
  end.

Definition creads_of (ops : list wop) : list rop := map fst (concat (map cread_of ops)).
Definition cvalues_of (ops : list wop) : list rval := map snd (concat (map cread_of ops)).

(* what can be read back: a fixed-width value must fit its width *)
Definition wop_rt (op : wop) : Prop :=
  match op with
  | WFixed k n => n < 256 ^ N.of_nat k
  | _ => True
  end.

Lemma vdecb_of_vdec : forall k l v r, vdec l = Some (v, r) -> (length l - length r <= k)%nat -> vdecb k l = AOk v r.
Proof.
  induction k as [|k IH]; intros l v r H Hk.
  - destruct (vdec_consumes _ _ _ H) as [used [-> [Hne _]]]. rewrite app_length in Hk.
    destruct used; [contradiction|cbn [length] in Hk; lia].
  - destruct l as [|b l]; [discriminate|]. cbn [vdec] in H. cbn [vdecb].
    destruct (b <? 128); [injection H as <- <-; reflexivity|].
    destruct (vdec l) as [[v' r']|] eqn:E; [|discriminate]. injection H as <- <-.
    rewrite (IH l v' r' E); [reflexivity|]. cbn [length] in Hk.
    destruct (vdec_consumes _ _ _ E) as [used [-> _]]. rewrite app_length in *. lia.
Qed.

Lemma astep_cread_of : forall b1 op rest, wop_ok b1 op -> wop_rt op ->
  forall rd v, In (rd, v) (cread_of op) -> astep (wbytes op ++ rest) rd = AOk v rest.
Proof.
  intros b1 op rest Hok Hrt rd v Hin. destruct op as [b|w n|k n|l|]; cbn [cread_of wbytes wop_ok wop_rt] in *;
    try contradiction; destruct Hin as [Hin|[]]; injection Hin as <- <-; cbn [astep app].
  - reflexivity.
  - assert (Hd : vdec (venc (n mod 2 ^ w) ++ rest) = Some (n mod 2 ^ w, rest)) by apply vdec_venc.
    rewrite (vdecb_of_vdec _ _ _ _ Hd).
    + rewrite N.mod_mod by (apply N.pow_nonzero; lia). reflexivity.
    + rewrite app_length. pose proof (venc_len_w 10 (le_n 10) w n Hok). lia.
  - pose proof (take_app (le_enc k n) rest) as H. rewrite le_enc_length in H. rewrite H.
    rewrite le_dec_enc by assumption. reflexivity.
  - rewrite take_app. reflexivity.
Qed.

Lemma aexact_written : forall b1 ops, Forall (wop_ok b1) ops -> Forall wop_rt ops ->
  aexact (concat (map wbytes ops)) (creads_of ops) = Some (cvalues_of ops).
Proof.
  intros b1 ops H. unfold creads_of, cvalues_of. induction H as [|op ops Hop Hops IH]; intros Hrt; [reflexivity|].
  inversion Hrt as [|? ? Hr Hrs]; subst. specialize (IH Hrs).
  cbn [map concat]. rewrite !map_app.
  destruct (cread_of op) as [|[rd v] [|x y]] eqn:E.
  - cbn [map app]. destruct op; cbn [cread_of] in E; try discriminate. cbn [wbytes app]. exact IH.
  - cbn [map app fst snd aexact].
    rewrite (astep_cread_of b1 op _ Hop Hr rd v) by (rewrite E; left; reflexivity).
    rewrite IH. reflexivity.
  - destruct op; cbn [cread_of] in E; discriminate.
Qed.

Theorem cpp_stream_roundtrip : forall b1 b2 ops, (10 <= b1)%nat -> (0 < b2)%nat ->
  Forall (wop_ok b1) ops -> Forall wop_rt ops ->
  exists chunks, wfinish b1 ops = Ok chunks /\
                 rrun b2 (cin_init (concat chunks)) (creads_of ops ++ [RVerify]) = map Ok (cvalues_of ops) ++ [Ok VUnit].
Proof.
  intros b1 b2 ops H1 H2 Hok Hrt.
  destruct (cpp_writer_refines b1 ops H1 Hok) as [chunks [E C]].
  exists chunks. split; [assumption|]. rewrite C.
  apply cpp_complete; [assumption|]. apply (aexact_written b1); assumption.
Qed.
