(* A reader program behaves over the buffered Python stream exactly as over the byte list, for every buffer size. *)
From Coq Require Import List NArith ZArith Bool Lia Arith.
From YV Require Import Base.Wire Model.CodedCpp Model.CodedPy Proofs.CodedPyIn Model.PyReadProg.
Import ListNotations.
Open Scope N_scope.

Theorem prog_refines : forall A bufsize (p : rprog A) s, (0 < bufsize)%nat -> PInv bufsize s -> prog_ok bufsize p ->
  match arun_p p (ppending s) with
  | PVal a r => exists s', mrun_p bufsize p s = MVal a s' /\ PInv bufsize s' /\ ppending s' = r
  | PEnd => mrun_p bufsize p s = MEnd PyEof \/ mrun_p bufsize p s = MEnd (PyFault BufferErr)
  | PBad => mrun_p bufsize p s = MBad
  end.
Proof.
  intros A bufsize p. induction p as [a| |op k IH]; intros s Hb Hinv Hok; cbn [arun_p mrun_p].
  - exists s. split; [reflexivity|]. split; [assumption|reflexivity].
  - reflexivity.
  - cbn [prog_ok] in Hok. destruct Hok as [Hop Hk].
    assert (Hpop : pop_ok bufsize op) by (destruct op; exact Hop || exact I).
    pose proof (pstep_refines bufsize Hb s op Hinv Hpop) as H.
    destruct (pastep (ppending s) op) as [[v r]|].
    + destruct H as [s' [-> [Hi Hp]]]. specialize (IH v s' Hb Hi (Hk v)). rewrite Hp in IH. exact IH.
    + destruct H as [f [s' [-> Hf]]]. destruct Hf as [-> | ->]; [left|right]; reflexivity.
Qed.
