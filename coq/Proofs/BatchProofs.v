(* Reading a stream item by item, or in batches of ANY capacity, yields the items written in ANY
   block partition. *)
From Coq Require Import List NArith ZArith Bool Lia Arith.
From Coq Require Import ZifyBool ZifyN ZifyNat.
From YV Require Import Base.Wire Proofs.WireProofs Model.Binary Proofs.BinaryProofs Model.Batch.
Import ListNotations.
Open Scope N_scope.

Section Batch.
Variable t : ty.
Let d := dec t.
Let encs (xs : list val) : list N := concat (map (enc t) xs).
Let blocks (bs : list (list val)) : list N := concat (map (enc_block t) (filter nonempty bs)).

(* The reader's position: [cur] are the items still owed by the current block
   (current_block_remaining_ = length cur), then whole blocks, the end marker, and what follows. *)
Definition at_pos (cbr : N) (l : list N) (cur : list val) (bs : list (list val)) (r : list N) : Prop :=
  cbr = N.of_nat (length cur) /\ l = encs cur ++ blocks bs ++ 0 :: r
  /\ forallb (has_type t) cur = true /\ forallb (forallb (has_type t)) bs = true.

Lemma encs_app : forall a b, encs (a ++ b) = encs a ++ encs b.
Proof. intros. unfold encs. rewrite map_app, concat_app. reflexivity. Qed.

Lemma dec_n_encs : forall xs rest, forallb (has_type t) xs = true ->
  dec_n d (length xs) (encs xs ++ rest) = Some (xs, rest).
Proof. intros. apply dec_n_enc; [apply dec_enc|assumption]. Qed.

(* loading the next block header *)
Lemma next_block : forall bs r, forallb (forallb (has_type t)) bs = true ->
  match filter nonempty bs with
  | [] => vdec (blocks bs ++ 0 :: r) = Some (0, r)
  | b :: _ => exists bs', vdec (blocks bs ++ 0 :: r) = Some (N.of_nat (length b), encs b ++ blocks bs' ++ 0 :: r)
                          /\ b <> [] /\ concat bs = b ++ concat bs'
                          /\ forallb (has_type t) b = true /\ forallb (forallb (has_type t)) bs' = true
  end.
Proof.
  induction bs as [|b bs IH]; intros r H.
  - cbn. reflexivity.
  - cbn [forallb] in H. apply andb_true_iff in H. destruct H as [H1 H2].
    destruct b as [|x b].
    + cbn [filter nonempty]. specialize (IH r H2). unfold blocks in *. cbn [filter nonempty] in *.
      destruct (filter nonempty bs) as [|b' fb]; [exact IH|].
      destruct IH as [bs' [E [Hne [Hc [Hb Hbs]]]]]. exists bs'. repeat split; assumption.
    + cbn [filter nonempty]. exists bs. unfold blocks. cbn [filter nonempty map concat].
      unfold enc_block at 1. rewrite <- !app_assoc, vdec_venc. repeat split; try assumption; discriminate.
Qed.

(* ---------- item by item ---------- *)

Lemma read_items_spec : forall fuel cbr l cur bs r, at_pos cbr l cur bs r ->
  (length cur + length (concat bs) < fuel)%nat ->
  read_items d fuel cbr l = Some (cur ++ concat bs, r).
Proof.
  induction fuel as [|f IH]; intros cbr l cur bs r [Hc [Hl [Hcur Hbs]]] Hf; [lia|].
  cbn [read_items]. unfold read_block.
  destruct cur as [|x cur].
  - cbn [length] in Hc. subst cbr. cbn [N.eqb N.of_nat]. subst l. cbn [encs map concat app].
    pose proof (next_block bs r Hbs) as Hn. destruct (filter nonempty bs) as [|b fb] eqn:Ef.
    + fold (blocks bs). rewrite Hn. cbn [N.eqb].
      assert (Hcb : concat bs = []).
      { clear -Ef. induction bs as [|b bs IH]; [reflexivity|]. cbn [filter] in Ef.
        destruct b; cbn [nonempty] in Ef; [|discriminate]. cbn. apply IH, Ef. }
      rewrite Hcb. reflexivity.
    + destruct Hn as [bs' [E [Hne [Hcc [Hb Hbs']]]]]. fold (blocks bs). rewrite E.
      destruct b as [|y b]; [congruence|].
      assert (E0 : (N.of_nat (length (y :: b)) =? 0) = false) by (cbn [length]; lia). rewrite E0.
      cbn [forallb] in Hb. apply andb_true_iff in Hb. destruct Hb as [Hy Hb].
      unfold encs at 1. cbn [map concat]. rewrite <- app_assoc. unfold d. rewrite (dec_enc t y _ Hy).
      fold d. rewrite (IH (N.of_nat (length (y :: b)) - 1) _ b bs' r).
      * rewrite Hcc. reflexivity.
      * repeat split; try assumption. cbn [length]. lia.
      * rewrite Hcc in Hf. cbn [length app] in Hf. rewrite app_length in *. cbn [length] in Hf. lia.
  - assert (E0 : (cbr =? 0) = false) by (subst cbr; cbn [length]; lia). rewrite E0, E0.
    cbn [forallb] in Hcur. apply andb_true_iff in Hcur. destruct Hcur as [Hx Hcur].
    subst l. unfold encs at 1. cbn [map concat]. rewrite <- app_assoc. unfold d. rewrite (dec_enc t x _ Hx).
    fold d. rewrite (IH (cbr - 1) _ cur bs r).
    + reflexivity.
    + repeat split; try assumption. subst cbr. cbn [length]. lia.
    + cbn [length] in Hf. lia.
Qed.

(* ---------- batches ---------- *)

(* the loop of ReadBlocksIntoVector: delivers min(remcap, everything left) items *)
Lemma rbiv_spec : forall fuel cbr remcap l cur bs r acc,
  at_pos cbr l cur bs r -> 0 < remcap -> cur <> [] -> (N.to_nat remcap < fuel)%nat ->
  let all := cur ++ concat bs in
  let k := N.to_nat remcap in
  exists c' l' cur' bs',
    rbiv d fuel cbr remcap l acc = Some (acc ++ firstn k all, c', l')
    /\ cur' ++ concat bs' = skipn k all
    /\ ((skipn k all = [] /\ c' = 0 /\ l' = r) \/
        (skipn k all <> [] /\ cur' <> [] /\ at_pos c' l' cur' bs' r)).
Proof.
  induction fuel as [|f IH]; intros cbr remcap l cur bs r acc [Hc [Hl [Hcur Hbs]]] Hcap Hne Hf all k; [lia|].
  cbn [rbiv].
  assert (E0 : (cbr =? 0) = false) by (destruct cur; [congruence|subst cbr; cbn [length]; lia]). rewrite E0.
  set (rc := N.min cbr remcap).
  assert (Hrc : N.to_nat rc = Nat.min (length cur) k) by (unfold rc, k; subst cbr; lia).
  (* split cur at rc *)
  set (n := N.to_nat rc).
  assert (Hn : (n <= length cur)%nat) by (unfold n; lia).
  assert (Hsplit : encs cur = encs (firstn n cur) ++ encs (skipn n cur))
    by (rewrite <- encs_app, firstn_skipn; reflexivity).
  assert (Hf12 : forallb (has_type t) (firstn n cur) = true /\ forallb (has_type t) (skipn n cur) = true).
  { pose proof Hcur as Hc2. rewrite <- (firstn_skipn n cur), forallb_app in Hc2.
    apply andb_true_iff in Hc2. exact Hc2. }
  destruct Hf12 as [Hf1 Hf2].
  subst l. rewrite Hsplit, <- app_assoc.
  assert (Hlen : length (firstn n cur) = n) by (rewrite firstn_length; lia).
  pose proof (dec_n_encs (firstn n cur) (encs (skipn n cur) ++ blocks bs ++ 0 :: r) Hf1) as Hd.
  rewrite Hlen in Hd. fold n. rewrite Hd. clear Hd.
  destruct (cbr - rc =? 0) eqn:Ecr.
  - (* current block finished: load the next header *)
    assert (Hall : n = length cur) by (unfold n; subst cbr; lia).
    assert (Hsk : skipn n cur = []) by (rewrite Hall; apply skipn_all).
    rewrite Hsk. cbn [encs map concat app].
    pose proof (next_block bs r Hbs) as Hnb.
    destruct (filter nonempty bs) as [|b fb] eqn:Ef.
    + fold (blocks bs). rewrite Hnb.
      assert (Hcb : concat bs = []).
      { clear -Ef. induction bs as [|b bs IH]; [reflexivity|]. cbn [filter] in Ef.
        destruct b; cbn [nonempty] in Ef; [|discriminate]. cbn. apply IH, Ef. }
      assert (Hallk : firstn k all = cur /\ skipn k all = []).
      { unfold all. rewrite Hcb, app_nil_r. split; [apply firstn_all2|apply skipn_all2]; unfold k in *; lia. }
      destruct Hallk as [Ha1 Ha2].
      assert (Hfn : firstn n cur = cur) by (rewrite Hall; apply firstn_all).
      destruct (remcap - rc =? 0).
      * exists 0, r, [], []. rewrite Ha1, Ha2, Hfn. split; [reflexivity|]. split; [reflexivity|].
        left. repeat split.
      * destruct f as [|f']; [unfold k in *; lia|]. cbn [rbiv N.eqb].
        exists 0, r, [], []. rewrite Ha1, Ha2, Hfn. split; [reflexivity|]. split; [reflexivity|].
        left. repeat split.
    + destruct Hnb as [bs' [E [Hbne [Hcc [Hb Hbs']]]]]. fold (blocks bs). rewrite E.
      assert (Hfn : firstn n cur = cur) by (rewrite Hall; apply firstn_all).
      destruct (remcap - rc =? 0) eqn:Erem.
      * (* vector full exactly at the block boundary *)
        assert (Hk : k = length cur) by (unfold k, rc in *; subst cbr; lia).
        exists (N.of_nat (length b)), (encs b ++ blocks bs' ++ 0 :: r), b, bs'.
        unfold all. rewrite Hk, firstn_app, firstn_all, Nat.sub_diag, firstn_O, app_nil_r.
        rewrite skipn_app, skipn_all, Nat.sub_diag, skipn_O. cbn [app]. rewrite Hfn.
        split; [reflexivity|]. split; [symmetry; exact Hcc|].
        right. rewrite Hcc. split; [destruct b; [congruence|discriminate]|]. split; [assumption|].
        repeat split; assumption.
      * (* continue with the next block *)
        assert (Hlt : (length cur < k)%nat) by (unfold k, rc in *; subst cbr; lia).
        destruct (IH (N.of_nat (length b)) (remcap - rc) (encs b ++ blocks bs' ++ 0 :: r) b bs' r
                     (acc ++ firstn n cur)) as [c' [l' [cur' [bs'' [G1 [G2 G3]]]]]].
        { repeat split; assumption. }
        { lia. }
        { assumption. }
        { unfold k in *. lia. }
        exists c', l', cur', bs''. rewrite G1, Hfn.
        assert (Hkk : N.to_nat (remcap - rc) = (k - length cur)%nat) by (unfold k, rc; subst cbr; lia).
        rewrite Hkk in *. unfold all. rewrite Hcc.
        assert (Hfa : firstn k (cur ++ b ++ concat bs') = cur ++ firstn (k - length cur) (b ++ concat bs')).
        { rewrite firstn_app. f_equal. apply firstn_all2. apply Nat.lt_le_incl; exact Hlt. }
        assert (Hsa : skipn k (cur ++ b ++ concat bs') = skipn (k - length cur) (b ++ concat bs')).
        { rewrite skipn_app. rewrite (skipn_all2 (n:=k) cur) by (apply Nat.lt_le_incl; exact Hlt). reflexivity. }
        rewrite Hfa, Hsa, <- app_assoc. split; [reflexivity|]. split; [exact G2|exact G3].
  - (* the vector is full inside the current block *)
    assert (Hk : (k < length cur)%nat) by (unfold k, rc in *; subst cbr; lia).
    assert (Hnk : n = k) by (unfold n, rc, k in *; subst cbr; lia).
    assert (Erem : (remcap - rc =? 0) = true) by (unfold rc in *; subst cbr; lia). rewrite Erem.
    exists (cbr - rc), (encs (skipn n cur) ++ blocks bs ++ 0 :: r), (skipn n cur), bs.
    unfold all. rewrite firstn_app, skipn_app.
    replace (k - length cur)%nat with 0%nat by lia. rewrite firstn_O, skipn_O, app_nil_r, Hnk.
    split; [reflexivity|]. split; [reflexivity|]. right.
    assert (Hsne : skipn k cur <> []).
    { intro Hs. apply (f_equal (@length val)) in Hs. rewrite skipn_length in Hs. cbn in Hs. lia. }
    split; [destruct (skipn k cur); [congruence|discriminate]|]. split; [assumption|].
    repeat split; try assumption.
    + rewrite skipn_length. unfold rc in *. subst cbr. lia.
    + rewrite <- Hnk. assumption.
Qed.

Lemma concat_nil_of_filter : forall bs : list (list val), filter nonempty bs = [] -> concat bs = [].
Proof.
  induction bs as [|b bs IH]; intros H; [reflexivity|]. cbn [filter] in H.
  destruct b; cbn [nonempty] in H; [|discriminate]. cbn. apply IH, H.
Qed.

(* one ReadBlocksIntoVector call from any position *)
Lemma read_batch_spec : forall cbr cap l cur bs r, at_pos cbr l cur bs r -> 0 < cap ->
  let all := cur ++ concat bs in
  let k := N.to_nat cap in
  exists c' l' cur' bs',
    read_batch d cbr cap l = Some (firstn k all, c', l')
    /\ cur' ++ concat bs' = skipn k all
    /\ ((skipn k all = [] /\ c' = 0 /\ l' = r) \/
        (skipn k all <> [] /\ cur' <> [] /\ at_pos c' l' cur' bs' r)).
Proof.
  intros cbr cap l cur bs r Hp Hcap all k. unfold read_batch.
  destruct cur as [|x cur].
  - destruct Hp as [Hc [Hl [Hcur Hbs]]]. cbn [length] in Hc. subst cbr. cbn [N.eqb N.of_nat].
    subst l. cbn [encs map concat app]. pose proof (next_block bs r Hbs) as Hn.
    destruct (filter nonempty bs) as [|b fb] eqn:Ef.
    + fold (blocks bs). rewrite Hn. cbn [rbiv N.eqb].
      unfold all. rewrite (concat_nil_of_filter bs Ef). cbn [app]. rewrite firstn_nil, skipn_nil.
      exists 0, r, [], []. split; [reflexivity|]. split; [reflexivity|]. left. repeat split.
    + destruct Hn as [bs' [E [Hbne [Hcc [Hb Hbs']]]]]. fold (blocks bs). rewrite E.
      destruct (rbiv_spec (S (N.to_nat cap)) (N.of_nat (length b)) cap (encs b ++ blocks bs' ++ 0 :: r) b bs' r [])
        as [c' [l' [cur' [bs'' [G1 [G2 G3]]]]]].
      { repeat split; assumption. }
      { assumption. }
      { assumption. }
      { lia. }
      exists c', l', cur', bs''. unfold all. cbn [app] in *. rewrite Hcc. fold k in G1, G2, G3.
      split; [exact G1|]. split; [exact G2|exact G3].
  - assert (E0 : (cbr =? 0) = false) by (destruct Hp as [Hc _]; subst cbr; cbn [length]; lia). rewrite E0.
    destruct (rbiv_spec (S (N.to_nat cap)) cbr cap l (x :: cur) bs r []) as [c' [l' [cur' [bs'' [G1 [G2 G3]]]]]].
    { assumption. } { assumption. } { discriminate. } { lia. }
    exists c', l', cur', bs''. split; [exact G1|]. split; [exact G2|exact G3].
Qed.

(* the caller's loop: the batches concatenate to exactly the remaining items; the input is left at [r] *)
Lemma read_batches_spec : forall fuel cbr cap l cur bs r, at_pos cbr l cur bs r -> 0 < cap ->
  (length (cur ++ concat bs) < fuel)%nat ->
  exists batches, read_batches d fuel cbr cap l = Some (batches, r)
                  /\ concat batches = cur ++ concat bs
                  /\ Forall (fun b => b <> [] /\ (length b <= N.to_nat cap)%nat) batches.
Proof.
  induction fuel as [|f IH]; intros cbr cap l cur bs r Hp Hcap Hf; [lia|].
  cbn [read_batches].
  destruct (read_batch_spec cbr cap l cur bs r Hp Hcap) as [c' [l' [cur' [bs' [G1 [G2 G3]]]]]].
  rewrite G1. set (all := cur ++ concat bs) in *. set (k := N.to_nat cap) in *.
  destruct G3 as [[Hs [-> ->]]|[Hs [Hne' Hp']]].
  - cbn [N.eqb]. assert (Hall : firstn k all = all).
    { rewrite <- (firstn_skipn k all) at 2. rewrite Hs, app_nil_r. reflexivity. }
    rewrite Hall. destruct all as [|y ys] eqn:Eall.
    + exists []. repeat split. constructor.
    + exists [y :: ys]. split; [reflexivity|]. split; [cbn; rewrite app_nil_r; reflexivity|].
      constructor; [|constructor]. split; [discriminate|]. rewrite <- Hall, firstn_length. lia.
  - assert (E0 : (c' =? 0) = false).
    { destruct Hp' as [Hc' _]. destruct cur'; [congruence|]. subst c'. cbn [length]. lia. }
    rewrite E0.
    assert (Hk : (0 < k)%nat) by (unfold k; lia).
    assert (Hlen : (length (skipn k all) < length all)%nat).
    { rewrite skipn_length. destruct all; [rewrite skipn_nil in Hs; congruence|cbn [length]; lia]. }
    destruct (IH c' cap l' cur' bs' r Hp' Hcap) as [bt [H1 [H2 H3]]]; [rewrite G2; lia|].
    rewrite H1. exists (firstn k all :: bt). split; [reflexivity|].
    split; [cbn [concat]; rewrite H2, G2; apply firstn_skipn|].
    constructor; [|assumption]. split.
    + destruct all; [rewrite skipn_nil in Hs; congruence|]. destruct k; [lia|]. discriminate.
    + rewrite firstn_length. lia.
Qed.

End Batch.

(* ---------- the statements used by the property files ---------- *)

(* item-by-item reading returns the items of any block partition *)
Theorem read_items_any_partition : forall t bs r, forallb (forallb (has_type t)) bs = true ->
  read_items (dec t) (S (S (length (concat bs)))) 0
    (concat (map (enc_block t) (filter nonempty bs)) ++ 0 :: r) = Some (concat bs, r).
Proof.
  intros t bs r H.
  apply (read_items_spec t (S (S (length (concat bs)))) 0 _ [] bs r).
  - repeat split; try reflexivity; assumption.
  - cbn [length]. lia.
Qed.

(* batch reading with ANY capacity returns the same items, in batches that respect the capacity *)
Theorem read_batches_any_capacity : forall t bs r cap, forallb (forallb (has_type t)) bs = true -> 0 < cap ->
  exists batches,
    read_batches (dec t) (S (S (length (concat bs)))) 0 cap
      (concat (map (enc_block t) (filter nonempty bs)) ++ 0 :: r) = Some (batches, r)
    /\ concat batches = concat bs
    /\ Forall (fun b => b <> [] /\ (length b <= N.to_nat cap)%nat) batches.
Proof.
  intros t bs r cap H Hcap.
  destruct (read_batches_spec t (S (S (length (concat bs)))) 0 cap
              (concat (map (enc_block t) (filter nonempty bs)) ++ 0 :: r) [] bs r) as [bt [H1 [H2 H3]]].
  - repeat split; try reflexivity; assumption.
  - assumption.
  - cbn [app length]. lia.
  - exists bt. repeat split; assumption.
Qed.

