(* The C++ CodedOutputStream machine writes exactly the concatenation of what each operation
   denotes, never stores outside its buffer, for every buffer size >= 10. *)
From Coq Require Import List NArith ZArith Bool Lia Arith.
From Coq Require Import ZifyBool ZifyN ZifyNat.
From YV Require Import Base.Wire Proofs.WireProofs Model.CodedCpp.
Import ListNotations.
Open Scope N_scope.

Definition wop_ok (bufsize : nat) (op : wop) : Prop :=
  match op with
  | WVar w _ => w <= 64
  | WFixed k _ => (k <= bufsize)%nat
  | _ => True
  end.

Definition all_out (s : cout) : list N := concat (chunks s) ++ staged s.

Section Out.
Variable bufsize : nat.
Hypothesis bufbig : (10 <= bufsize)%nat.

Definition WInv (s : cout) : Prop := (length (staged s) <= bufsize)%nat.

Lemma flush_spec : forall s, WInv s ->
  WInv (flush_buffer s) /\ all_out (flush_buffer s) = all_out s /\ staged (flush_buffer s) = [].
Proof.
  intros s H. unfold flush_buffer. destruct (staged s) as [|b r] eqn:E.
  - repeat split; assumption.
  - unfold WInv, all_out; cbn [staged chunks]. rewrite concat_app. cbn [concat].
    rewrite app_nil_r, app_nil_r, E. repeat split. cbn; lia.
Qed.

Lemma push_spec : forall l s, (length (staged s) + length l <= bufsize)%nat ->
  exists s', push bufsize l s = Ok s' /\ WInv s' /\ all_out s' = all_out s ++ l
             /\ length (staged s') = (length (staged s) + length l)%nat.
Proof.
  intros l s H. unfold push.
  assert (E : Nat.ltb bufsize (length (staged s) + length l) = false) by (apply Nat.ltb_ge; lia).
  rewrite E. eexists. split; [reflexivity|]. unfold WInv, all_out; cbn [staged chunks].
  rewrite app_length, app_assoc. repeat split; lia.
Qed.

Lemma venc_len_w : forall w n, w <= 64 -> (length (venc (n mod 2 ^ w)) <= max_varint w)%nat.
Proof.
  intros w n Hw. unfold max_varint. destruct (w <=? 32) eqn:E.
  - apply venc_length_32. assert (n mod 2 ^ w < 2 ^ w) by (apply N.mod_lt, N.pow_nonzero; lia).
    assert (2 ^ w <= 2 ^ 32) by (apply N.pow_le_mono_r; lia). lia.
  - apply venc_length_64. assert (n mod 2 ^ w < 2 ^ w) by (apply N.mod_lt, N.pow_nonzero; lia).
    assert (2 ^ w <= 2 ^ 64) by (apply N.pow_le_mono_r; lia). lia.
Qed.

Lemma max_varint_10 : forall w, (max_varint w <= 10)%nat.
Proof. intros w. unfold max_varint. destruct (w <=? 32); lia. Qed.

Lemma write_bytes_spec : forall fuel l s, WInv s ->
  (length l + (if Nat.eqb (remaining bufsize s) 0 then 1 else 0) < fuel)%nat ->
  exists s', write_bytes bufsize fuel l s = Ok s' /\ WInv s' /\ all_out s' = all_out s ++ l.
Proof.
  induction fuel as [|f IH]; intros l s HI Hf; [lia|].
  cbn [write_bytes]. unfold remaining in *. unfold WInv in HI.
  destruct (Nat.leb (length l) (bufsize - length (staged s))) eqn:El.
  - apply Nat.leb_le in El. destruct (push_spec l s ltac:(lia)) as [s' [H1 [H2 [H3 _]]]].
    exists s'. repeat split; assumption.
  - apply Nat.leb_gt in El.
    set (rem := (bufsize - length (staged s))%nat) in *.
    destruct (Nat.ltb 0 rem) eqn:Er.
    + apply Nat.ltb_lt in Er.
      destruct (push_spec (firstn rem l) s) as [s1 [H1 [H2 [H3 H4]]]].
      { rewrite firstn_length. lia. }
      rewrite H1. destruct (flush_spec s1 H2) as [F1 [F2 F3]].
      destruct (IH (skipn rem l) (flush_buffer s1) F1) as [s' [G1 [G2 G3]]].
      { rewrite F3. cbn [length]. rewrite skipn_length.
        replace (Nat.eqb (bufsize - 0) 0) with false by (symmetry; apply Nat.eqb_neq; lia).
        destruct (Nat.eqb rem 0); lia. }
      exists s'. split; [assumption|]. split; [assumption|].
      rewrite G3, F2, H3, <- app_assoc, firstn_skipn. reflexivity.
    + apply Nat.ltb_ge in Er. assert (rem = 0)%nat by lia.
      destruct (flush_spec s HI) as [F1 [F2 F3]].
      destruct (IH (skipn rem l) (flush_buffer s) F1) as [s' [G1 [G2 G3]]].
      { rewrite F3. cbn [length]. rewrite H. cbn [skipn].
        replace (Nat.eqb (bufsize - 0) 0) with false by (symmetry; apply Nat.eqb_neq; lia).
        replace (Nat.eqb rem 0) with true in Hf by (symmetry; apply Nat.eqb_eq; assumption). lia. }
      exists s'. split; [assumption|]. split; [assumption|].
      rewrite G3, F2, H. reflexivity.
Qed.

Lemma wstep_spec : forall s op, WInv s -> wop_ok bufsize op ->
  exists s', wstep bufsize s op = Ok s' /\ WInv s' /\ all_out s' = all_out s ++ wbytes op.
Proof.
  intros s op HI Hok. pose proof (flush_spec s HI) as [F1 [F2 F3]].
  unfold WInv in HI. destruct op as [b|w n|k n|l|]; cbn [wstep wbytes].
  - unfold remaining. destruct (Nat.eqb (bufsize - length (staged s)) 0) eqn:E.
    + destruct (push_spec [b] (flush_buffer s)) as [s' [H1 [H2 [H3 _]]]]; [rewrite F3; cbn; lia|].
      exists s'. rewrite H3, F2. repeat split; assumption.
    + apply Nat.eqb_neq in E. destruct (push_spec [b] s) as [s' [H1 [H2 [H3 _]]]]; [cbn; lia|].
      exists s'. repeat split; assumption.
  - cbn in Hok. pose proof (venc_len_w w n Hok) as Hl. pose proof (max_varint_10 w) as Hm.
    unfold remaining. destruct (Nat.ltb (bufsize - length (staged s)) (max_varint w)) eqn:E.
    + destruct (push_spec (venc (n mod 2 ^ w)) (flush_buffer s)) as [s' [H1 [H2 [H3 _]]]]; [rewrite F3; cbn; lia|].
      exists s'. rewrite H3, F2. repeat split; assumption.
    + apply Nat.ltb_ge in E.
      destruct (push_spec (venc (n mod 2 ^ w)) s) as [s' [H1 [H2 [H3 _]]]]; [lia|].
      exists s'. repeat split; assumption.
  - cbn in Hok. pose proof (le_enc_length k n) as Hl.
    unfold remaining. destruct (Nat.ltb (bufsize - length (staged s)) k) eqn:E.
    + destruct (push_spec (le_enc k n) (flush_buffer s)) as [s' [H1 [H2 [H3 _]]]]; [rewrite F3; cbn; lia|].
      exists s'. rewrite H3, F2. repeat split; assumption.
    + apply Nat.ltb_ge in E.
      destruct (push_spec (le_enc k n) s) as [s' [H1 [H2 [H3 _]]]]; [lia|].
      exists s'. repeat split; assumption.
  - apply write_bytes_spec; [assumption|]. destruct (Nat.eqb (remaining bufsize s) 0); lia.
  - exists (flush_buffer s). rewrite app_nil_r. repeat split; assumption.
Qed.

Lemma wrun_spec : forall ops s, WInv s -> Forall (wop_ok bufsize) ops ->
  exists s', wrun bufsize s ops = Ok s' /\ WInv s' /\ all_out s' = all_out s ++ concat (map wbytes ops).
Proof.
  induction ops as [|op ops IH]; intros s HI Hok.
  - exists s. cbn. rewrite app_nil_r. repeat split; assumption.
  - inversion Hok as [|? ? H1 H2]; subst.
    destruct (wstep_spec s op HI H1) as [s1 [G1 [G2 G3]]].
    destruct (IH s1 G2 H2) as [s' [K1 [K2 K3]]].
    exists s'. cbn [wrun map concat]. rewrite G1. split; [assumption|]. split; [assumption|].
    rewrite K3, G3, <- app_assoc. reflexivity.
Qed.

End Out.

Theorem cpp_writer_refines : forall bufsize ops, (10 <= bufsize)%nat -> Forall (wop_ok bufsize) ops ->
  exists ch, wfinish bufsize ops = Ok ch /\ concat ch = concat (map wbytes ops).
Proof.
  intros bufsize ops Hb Hok. unfold wfinish.
  destruct (wrun_spec bufsize Hb ops cout_init) as [s [H1 [H2 H3]]]; [unfold WInv; cbn; lia|assumption|].
  rewrite H1. eexists. split; [reflexivity|].
  destruct (flush_spec bufsize Hb s H2) as [F1 [F2 F3]].
  unfold all_out in F2, H3. rewrite F3, app_nil_r in F2. cbn [chunks staged concat app] in H3.
  rewrite F2; exact H3.
Qed.
