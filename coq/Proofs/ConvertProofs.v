(* A value converted between a type and itself is unchanged: "unchanged parts exactly". *)
From Coq Require Import List NArith ZArith Bool Arith Lia.
From YV Require Import Base.Wire Model.Binary Gen.Tables Model.Json Model.Schema Model.Evolution Model.Convert
  Proofs.JsonProofs Proofs.EvolutionProofs.
Import ListNotations.
Open Scope N_scope.

Section Identity.
Variable rn : renames.

(* values of the right shape for a type; a union value must sit in the first case its own type matches (unions have no
   two cases that match each other: yardl rejects redundant cases) *)
Fixpoint vwf (fuel : nat) (t : ety) (v : val) {struct fuel} : bool :=
  match fuel with
  | O => false
  | S f =>
      match t, v with
      | (EPrim _ | EEnum _ _ _ _ | EParam _ | EArr _ _ | EMap _ _), _ => true
      | ERec _ fs, VSeq xs =>
          nodup_str (map fst fs) && (Nat.eqb (length xs) (length fs))
          && (fix go (fs : list (str * ety)) (xs : list val) : bool :=
                match fs, xs with
                | [], [] => true
                | ft :: fr, x :: xr => vwf f (snd ft) x && go fr xr
                | _, _ => false
                end) fs xs
      | EOpt _, VNone => true
      | EOpt s, VSome x => vwf f s x
      | EUnion hn _, VNone => hn
      | EUnion _ cs, VCase j x =>
          match nth_case cs j with
          | Some sc => vwf f sc x &&
                       match find_index (fun dc => is_match (cmp rn (S f) dc sc)) cs 0 with
                       | Some (i, _) => i =? j
                       | None => false
                       end
          | None => false
          end
      | EVec _ s, VSeq xs => forallb (vwf f s) xs
      | EAlias _ s, _ => vwf f s v
      | _, _ => false
      end
  end.

Lemma conv_list_id : forall (g : val -> option val) xs, (forall x, In x xs -> g x = Some x) -> conv_list g xs = Some xs.
Proof.
  intros g. induction xs as [|x xs IH]; intros H; [reflexivity|]. cbn [conv_list].
  rewrite (H x (or_introl eq_refl)), IH; [reflexivity|]. intros y Hy. apply H. right. exact Hy.
Qed.

Lemma find_index_hit : forall (A : Type) (f : A -> bool) l i0 i x, find_index f l i0 = Some (i, x) -> i0 <= i.
Proof.
  intros A f. induction l as [|y l IH]; intros i0 i x H; cbn [find_index] in H; [discriminate|].
  destruct (f y); [injection H as <- <-; lia|]. apply IH in H. lia.
Qed.

Lemma find_index_nth : forall cs (f : ety -> bool) i0 i x,
  find_index f cs i0 = Some (i, x) -> nth_case cs (i - i0) = Some x.
Proof.
  induction cs as [|c cs IH]; intros f i0 i x H; cbn [find_index] in H; [discriminate|].
  destruct (f c) eqn:E.
  - injection H as <- <-. rewrite N.sub_diag. reflexivity.
  - pose proof (find_index_hit _ _ _ _ _ _ H) as Hle. cbn [nth_case].
    destruct (i - i0 =? 0) eqn:Ez; [apply N.eqb_eq in Ez; lia|].
    replace (i - i0 - 1) with (i - (i0 + 1)) by lia. apply (IH f (i0 + 1) i x H).
Qed.

(* the fields of a record, looked up by name in the record's own (name, type, value) list *)
Lemma record_fields_id : forall f (c : ety -> ety -> val -> option val) all_fs all_xs,
  nodup_str (map fst all_fs) = true -> length all_xs = length all_fs ->
  forall fs xs pre_f pre_x, all_fs = pre_f ++ fs -> all_xs = pre_x ++ xs -> length pre_f = length pre_x ->
  (forall t x, In (t, x) (zip (map snd fs) xs) -> c t t x = Some x) -> length xs = length fs ->
  (fix go (ds : list (str * ety)) : option (list val) :=
     match ds with
     | [] => Some []
     | d :: r =>
         match (match dassoc (zip (map fst all_fs) (zip (map snd all_fs) all_xs)) (fst d) with
                | Some (st, x) => c st (snd d) x
                | None => Some (zero f (snd d))
                end), go r with
         | Some y, Some ys => Some (y :: ys)
         | _, _ => None
         end
     end) fs = Some xs.
Proof.
  intros f c all_fs all_xs Hn Hlen. induction fs as [|[n t] fs IH]; intros xs pre_f pre_x Ef Ex Hp Hc Hl.
  - destruct xs; [reflexivity|discriminate].
  - destruct xs as [|x xs]; [discriminate|].
    assert (Hd : dassoc (zip (map fst all_fs) (zip (map snd all_fs) all_xs)) n = Some (t, x)).
    { apply dassoc_in.
      - assert (E : map fst (zip (map fst all_fs) (zip (map snd all_fs) all_xs)) = map fst all_fs).
        { clear - Hlen. revert all_xs Hlen. induction all_fs as [|[a b] r IHr]; intros [|y ys] Hl; cbn in *; try discriminate; [reflexivity|].
          f_equal. apply IHr. lia. }
        rewrite E. exact Hn.
      - subst all_fs all_xs. clear - Hp. revert pre_x Hp. induction pre_f as [|[a b] pre_f IHp]; intros [|y pre_x] Hp; cbn in *; try discriminate.
        + left. reflexivity.
        + right. apply IHp. lia. }
    cbn [fst snd]. rewrite Hd.
    rewrite (Hc t x (or_introl eq_refl)).
    rewrite (IH xs (pre_f ++ [(n, t)]) (pre_x ++ [x])).
    + reflexivity.
    + rewrite <- app_assoc. exact Ef.
    + rewrite <- app_assoc. exact Ex.
    + rewrite !app_length. cbn. lia.
    + intros t0 x0 Hin. apply Hc. right. exact Hin.
    + cbn in Hl. lia.
Qed.

Theorem conv_identity : forall f t v, vwf f t v = true -> conv rn f t t v = Some v.
Proof.
  induction f as [|f IH]; intros t v H; [discriminate|].
  destruct t as [p|name fs|name fl b vs|s|hn cs|len s|dims s|k e|name|name s]; cbn [vwf] in H; cbn [conv].
  - rewrite prim_eqb_refl. reflexivity.
  - destruct v as [| | | | | | |xs| |]; try discriminate.
    apply andb_true_iff in H. destruct H as [H Hgo]. apply andb_true_iff in H. destruct H as [Hn Hl]. apply Nat.eqb_eq in Hl.
    rewrite (record_fields_id f (conv rn f) fs xs Hn Hl fs xs [] [] eq_refl eq_refl eq_refl); [reflexivity| |exact Hl].
    clear Hn Hl. revert xs Hgo. induction fs as [|[n t] fs IHf]; intros [|x xs] Hgo t0 x0 Hin; cbn in Hin; try contradiction; try discriminate.
    apply andb_true_iff in Hgo. destruct Hgo as [H1 H2]. destruct Hin as [E|Hin].
    + injection E as <- <-. apply IH, H1.
    + apply (IHf xs H2 t0 x0 Hin).
  - reflexivity.
  - destruct v; try discriminate; [reflexivity|]. rewrite (IH s v H). reflexivity.
  - destruct v as [| | | | |x|j x| | |]; try discriminate.
    + subst hn. reflexivity.
    + destruct (nth_case cs j) as [sc|] eqn:En; [|discriminate]. apply andb_true_iff in H. destruct H as [Hx Hf].
      destruct (find_index (fun dc => is_match (cmp rn (S f) dc sc)) cs 0) as [[i dc]|] eqn:Ef; [|discriminate].
      apply N.eqb_eq in Hf. subst i.
      pose proof (find_index_nth _ _ _ _ _ Ef) as Hn. rewrite N.sub_0_r, En in Hn. injection Hn as <-.
      destruct hn; rewrite (IH sc x Hx); reflexivity.
  - destruct v as [| | | | | | |xs| |]; try discriminate.
    rewrite conv_list_id; [reflexivity|]. intros x Hx. apply IH. rewrite forallb_forall in H. apply H, Hx.
  - reflexivity.
  - reflexivity.
  - reflexivity.
  - apply IH, H.
Qed.
End Identity.

(* ---------- integers <-> floating point ---------- *)
From Coq Require Import Lia.
Open Scope Z_scope.

(* std::round on the decoded value m * 2^e (e < 0): the result is a nearest integer, the halfway case goes away from zero *)
Lemma float_round_nearest : forall prec ew bits s m e,
  float_decode prec ew bits = Some (s, m, e) -> e < 0 ->
  exists a, float_round prec ew bits = Some (if s then - a else a) /\
            2 * Z.abs (m - a * 2 ^ (- e)) <= 2 ^ (- e) /\
            (2 * Z.abs (m - a * 2 ^ (- e)) = 2 ^ (- e) -> m < a * 2 ^ (- e)).
Proof.
  intros prec ew bits s m e Hd He. unfold float_round. rewrite Hd.
  assert (E0 : (0 <=? e) = false) by lia. rewrite E0.
  set (d := 2 ^ (- e)). assert (Hdp : 0 < d) by (apply Z.pow_pos_nonneg; lia).
  pose proof (Z.div_mod m d ltac:(lia)) as Hm. pose proof (Z.mod_pos_bound m d Hdp) as Hr.
  set (q := m / d) in *. set (r := m mod d) in *.
  destruct (d <=? 2 * r) eqn:E.
  - exists (q + 1). split; [reflexivity|]. replace (m - (q + 1) * d) with (r - d) by nia. split; [lia|]. intros _. nia.
  - exists q. split; [reflexivity|]. replace (m - q * d) with r by nia. split; lia.
Qed.

(* an integer that fits the mantissa converts to floating point exactly, and back *)
Definition zrange (lo hi : Z) : list Z := map (fun k => lo + Z.of_nat k) (seq 0 (Z.to_nat (hi - lo + 1))).

Theorem int_float_exact_bounded : forall z, -4096 <= z <= 4096 ->
  float_round 24 8 (z_to_float 24 8 z) = Some z /\ float_round 53 11 (z_to_float 53 11 z) = Some z.
Proof.
  intros z Hz.
  assert (H : forallb (fun z => match float_round 24 8 (z_to_float 24 8 z), float_round 53 11 (z_to_float 53 11 z) with
                               | Some a, Some b => (a =? z) && (b =? z) | _, _ => false end) (zrange (-4096) 4096) = true)
    by (vm_compute; reflexivity).
  rewrite forallb_forall in H. specialize (H z).
  assert (Hin : In z (zrange (-4096) 4096)).
  { unfold zrange. apply in_map_iff. exists (Z.to_nat (z + 4096)). split; [lia|]. apply in_seq. lia. }
  specialize (H Hin). destruct (float_round 24 8 (z_to_float 24 8 z)) as [a|]; [|discriminate].
  destruct (float_round 53 11 (z_to_float 53 11 z)) as [b|]; [|discriminate].
  apply andb_true_iff in H. destruct H as [Ha Hb]. apply Z.eqb_eq in Ha. apply Z.eqb_eq in Hb. subst. split; reflexivity.
Qed.
Open Scope N_scope.
