(* The schema determines the encoding; it depends only on what the protocol reaches; neutral edits leave it unchanged. *)
From Coq Require Import List NArith ZArith Bool Lia Permutation.
From YV Require Import Base.Wire Model.Binary Model.Json Model.Schema Proofs.JsonProofs.
Import ListNotations.
Open Scope N_scope.

(* ---------- order on names ---------- *)
Lemma str_cmp_refl : forall a, str_cmp a a = Eq.
Proof. induction a as [|x a IH]; cbn; [reflexivity|]. rewrite N.compare_refl. exact IH. Qed.

Lemma str_cmp_eq : forall a b, str_cmp a b = Eq -> a = b.
Proof.
  induction a as [|x a IH]; intros [|y b] H; cbn in H; try discriminate; [reflexivity|].
  destruct (x ?= y) eqn:E; try discriminate. apply N.compare_eq in E. subst. f_equal. apply IH, H.
Qed.

Lemma str_cmp_antisym : forall a b, str_cmp b a = CompOpp (str_cmp a b).
Proof.
  induction a as [|x a IH]; intros [|y b]; cbn; try reflexivity.
  rewrite (N.compare_antisym x y). destruct (x ?= y); cbn; [apply IH|reflexivity|reflexivity].
Qed.

Lemma str_cmp_lt_trans : forall a b c, str_cmp a b = Lt -> str_cmp b c = Lt -> str_cmp a c = Lt.
Proof.
  induction a as [|x a IH]; intros [|y b] [|z c] H1 H2; cbn in *; try discriminate; try reflexivity.
  destruct (x ?= y) eqn:E1; try discriminate; destruct (y ?= z) eqn:E2; try discriminate.
  - apply N.compare_eq in E1, E2. subst. rewrite N.compare_refl. eapply IH; eassumption.
  - apply N.compare_eq in E1. subst. rewrite E2. reflexivity.
  - apply N.compare_eq in E2. subst. rewrite E1. reflexivity.
  - assert (x ?= z = Lt) as -> by (apply N.compare_lt_iff; apply N.compare_lt_iff in E1; apply N.compare_lt_iff in E2; eapply N.lt_trans; eassumption). reflexivity.
Qed.

Definition nlt (a b : sdef) : Prop := str_cmp (d_name a) (d_name b) = Lt.

Lemma name_leb_false : forall a b, name_leb a b = false -> nlt b a.
Proof.
  intros a b H. unfold name_leb in H. unfold nlt. rewrite str_cmp_antisym.
  destruct (str_cmp (d_name a) (d_name b)); try discriminate. reflexivity.
Qed.

Lemma name_leb_true : forall a b, name_leb a b = true -> d_name a <> d_name b -> nlt a b.
Proof.
  intros a b H Hn. unfold name_leb in H. unfold nlt.
  destruct (str_cmp (d_name a) (d_name b)) eqn:E; try discriminate; [|reflexivity].
  apply str_cmp_eq in E. contradiction.
Qed.

Lemma nlt_irrefl_leb : forall a b, nlt a b -> name_leb b a = false.
Proof. intros a b H. unfold nlt in H. unfold name_leb. rewrite str_cmp_antisym, H. reflexivity. Qed.

Lemma nlt_leb : forall a b, nlt a b -> name_leb a b = true.
Proof. intros a b H. unfold nlt in H. unfold name_leb. rewrite H. reflexivity. Qed.

(* inserting two definitions with different names commutes *)
Lemma insert_comm : forall x y l, d_name x <> d_name y -> insert x (insert y l) = insert y (insert x l).
Proof.
  intros x y l Hn. induction l as [|z l IH]; cbn [insert].
  - destruct (name_leb x y) eqn:E1; destruct (name_leb y x) eqn:E2; try reflexivity.
    + apply name_leb_true in E1; [|exact Hn]. apply name_leb_true in E2; [|congruence].
      unfold nlt in *. rewrite str_cmp_antisym, E1 in E2. discriminate.
    + apply name_leb_false in E1. apply name_leb_false in E2. unfold nlt in *.
      rewrite str_cmp_antisym, E1 in E2. discriminate.
  - destruct (name_leb y z) eqn:Eyz; destruct (name_leb x z) eqn:Exz; cbn [insert].
    + (* both before z *)
      destruct (name_leb x y) eqn:Exy; destruct (name_leb y x) eqn:Eyx; rewrite ?Exz, ?Eyz; try reflexivity.
      * apply name_leb_true in Exy; [|exact Hn]. apply name_leb_true in Eyx; [|congruence].
        unfold nlt in *. rewrite str_cmp_antisym, Exy in Eyx. discriminate.
      * apply name_leb_false in Exy. apply name_leb_false in Eyx. unfold nlt in *.
        rewrite str_cmp_antisym, Exy in Eyx. discriminate.
    + (* y <= z < x *)
      apply name_leb_false in Exz.
      assert (Hyx : nlt y x).
      { unfold name_leb in Eyz. unfold nlt in *. destruct (str_cmp (d_name y) (d_name z)) eqn:E; try discriminate.
        - apply str_cmp_eq in E. rewrite E. exact Exz.
        - eapply str_cmp_lt_trans; eassumption. }
      rewrite (nlt_irrefl_leb _ _ Hyx), ?Eyz. apply nlt_irrefl_leb in Exz. rewrite ?Exz, ?Eyz. reflexivity.
    + (* x <= z < y *)
      apply name_leb_false in Eyz.
      assert (Hxy : nlt x y).
      { unfold name_leb in Exz. unfold nlt in *. destruct (str_cmp (d_name x) (d_name z)) eqn:E; try discriminate.
        - apply str_cmp_eq in E. rewrite E. exact Eyz.
        - eapply str_cmp_lt_trans; eassumption. }
      rewrite (nlt_irrefl_leb _ _ Hxy), ?Exz. apply nlt_irrefl_leb in Eyz. rewrite ?Eyz, ?Exz. reflexivity.
    + rewrite Exz, Eyz. f_equal. exact IH.
Qed.

Lemma isort_perm : forall l l', Permutation l l' -> NoDup (map d_name l) -> isort l = isort l'.
Proof.
  intros l l' HP. induction HP as [|x l l' HP IH|x y l|l l' l'' HP1 IH1 HP2 IH2]; intros Hn.
  - reflexivity.
  - cbn [isort]. cbn [map] in Hn. inversion Hn; subst. rewrite IH; [reflexivity|assumption].
  - cbn [isort]. cbn [map] in Hn. inversion Hn as [|? ? Hy Hn']; subst. apply insert_comm.
    intro E. apply Hy. left. symmetry. exact E.
  - rewrite IH1 by exact Hn. apply IH2.
    eapply Permutation_NoDup; [|exact Hn]. apply Permutation_map. exact HP1.
Qed.

Lemma insert_perm : forall x l, Permutation (x :: l) (insert x l).
Proof.
  intros x l. induction l as [|y l IH]; cbn [insert]; [apply Permutation_refl|].
  destruct (name_leb x y); [apply Permutation_refl|].
  eapply Permutation_trans; [apply perm_swap|]. apply perm_skip. exact IH.
Qed.

Lemma isort_permutation : forall l, Permutation l (isort l).
Proof.
  induction l as [|x l IH]; [constructor|]. cbn [isort].
  eapply Permutation_trans; [apply perm_skip; exact IH|apply insert_perm].
Qed.

(* ---------- lookup ---------- *)
Lemma nodup_str_NoDup : forall l, nodup_str l = true -> NoDup l.
Proof.
  induction l as [|x l IH]; intros H; [constructor|].
  cbn [nodup_str] in H. apply andb_true_iff in H. destruct H as [H1 H2]. apply negb_true_iff in H1.
  constructor; [|apply IH, H2]. intro Hin.
  assert (str_eqb x x = false) by (apply (existsb_str_false _ _ H1 x Hin)). rewrite str_eqb_refl in H. discriminate.
Qed.

Lemma lookup_in : forall defs d, NoDup (map d_name defs) -> In d defs -> lookup defs (d_name d) = Some d.
Proof.
  induction defs as [|d0 defs IH]; intros d Hn Hin; [destruct Hin|].
  cbn [map] in Hn. inversion Hn as [|? ? Hx Hn']; subst. cbn [lookup]. destruct Hin as [->|Hin].
  - rewrite str_eqb_refl. reflexivity.
  - destruct (str_eqb (d_name d0) (d_name d)) eqn:E.
    + apply str_eqb_eq in E. exfalso. apply Hx. rewrite E. apply in_map, Hin.
    + apply IH; assumption.
Qed.

Lemma lookup_some : forall defs n d, lookup defs n = Some d -> In d defs /\ d_name d = n.
Proof.
  induction defs as [|d0 defs IH]; intros n d H; cbn [lookup] in H; [discriminate|].
  destruct (str_eqb (d_name d0) n) eqn:E.
  - injection H as <-. split; [left; reflexivity|apply str_eqb_eq, E].
  - destruct (IH _ _ H) as [Hin Hn]. split; [right; exact Hin|exact Hn].
Qed.

Lemma lookup_none : forall defs n, lookup defs n = None -> ~ In n (map d_name defs).
Proof.
  induction defs as [|d0 defs IH]; intros n H Hin; [destruct Hin|].
  cbn [lookup] in H. destruct (str_eqb (d_name d0) n) eqn:E; [discriminate|].
  destruct Hin as [E'|Hin]; [rewrite E', str_eqb_refl in E; discriminate|]. apply (IH _ H Hin).
Qed.

(* two duplicate-free lists of definitions: same look-ups on the names of [P] <-> same members named in [P] *)
Lemma lookup_perm : forall l l', Permutation l l' -> NoDup (map d_name l) -> forall n, lookup l' n = lookup l n.
Proof.
  intros l l' HP Hn n. assert (Hn' : NoDup (map d_name l')) by (eapply Permutation_NoDup; [apply Permutation_map, HP|exact Hn]).
  destruct (lookup l n) as [d|] eqn:E.
  - destruct (lookup_some _ _ _ E) as [Hin <-]. apply lookup_in; [exact Hn'|]. eapply Permutation_in; eassumption.
  - destruct (lookup l' n) as [d|] eqn:E'; [|reflexivity].
    destruct (lookup_some _ _ _ E') as [Hin <-]. exfalso. apply (lookup_none _ _ E).
    apply in_map. eapply Permutation_in; [apply Permutation_sym, HP|exact Hin].
Qed.

Lemma mem_str_in : forall n l, mem_str n l = true <-> In n l.
Proof.
  intros n l. unfold mem_str. rewrite existsb_exists. split.
  - intros [y [Hin E]]. apply str_eqb_eq in E. subst. exact Hin.
  - intros Hin. exists n. split; [exact Hin|apply str_eqb_refl].
Qed.

Lemma lookup_filter : forall (r : list str) defs n, NoDup (map d_name defs) ->
  lookup (filter (fun d => mem_str (d_name d) r) defs) n = if mem_str n r then lookup defs n else None.
Proof.
  intros r. induction defs as [|d defs IH]; intros n Hn; [destruct (mem_str n r); reflexivity|].
  cbn [map] in Hn. inversion Hn as [|? ? Hx Hn']; subst. cbn [filter lookup].
  destruct (mem_str (d_name d) r) eqn:Em; cbn [lookup]; destruct (str_eqb (d_name d) n) eqn:E.
  - apply str_eqb_eq in E. subst n. rewrite Em. reflexivity.
  - apply IH, Hn'.
  - apply str_eqb_eq in E. subst n. rewrite Em. rewrite IH by exact Hn'. rewrite Em. reflexivity.
  - apply IH, Hn'.
Qed.

Lemma filter_NoDup_names : forall (P : sdef -> bool) defs, NoDup (map d_name defs) -> NoDup (map d_name (filter P defs)).
Proof.
  intros P. induction defs as [|d defs IH]; intros Hn; [constructor|].
  cbn [map] in Hn. inversion Hn as [|? ? Hx Hn']; subst. cbn [filter]. destruct (P d); [|apply IH, Hn'].
  cbn [map]. constructor; [|apply IH, Hn']. intro Hin. apply Hx.
  apply in_map_iff in Hin. destruct Hin as [d' [E Hin]]. apply filter_In in Hin. rewrite <- E. apply in_map, (proj1 Hin).
Qed.

(* the type list of the schema answers every look-up on a reached name like the environment *)
Lemma lookup_schema_types : forall r defs n, NoDup (map d_name defs) -> In n r ->
  lookup (isort (filter (fun d => mem_str (d_name d) r) defs)) n = lookup defs n.
Proof.
  intros r defs n Hn Hin.
  rewrite (lookup_perm _ _ (isort_permutation _) (filter_NoDup_names _ _ Hn)).
  rewrite lookup_filter by exact Hn. rewrite (proj2 (mem_str_in n r) Hin). reflexivity.
Qed.

(* ---------- resolve and vis only use the look-ups listed by vis ---------- *)
Lemma map_ext_in' : forall (A B : Type) (f g : A -> B) l, (forall a, In a l -> f a = g a) -> map f l = map g l.
Proof. intros A B f g l H. apply map_ext_in. exact H. Qed.

Lemma flat_map_ext_in : forall (A B : Type) (f g : A -> list B) l, (forall a, In a l -> f a = g a) -> flat_map f l = flat_map g l.
Proof.
  intros A B f g. induction l as [|x l IH]; intros H; [reflexivity|]. cbn [flat_map].
  rewrite (H x (or_introl eq_refl)), IH; [reflexivity|]. intros a Ha. apply H. right. exact Ha.
Qed.

Lemma in_flat_map_intro : forall (A B : Type) (f : A -> list B) l a b, In a l -> In b (f a) -> In b (flat_map f l).
Proof. intros A B f l a b Ha Hb. apply in_flat_map. exists a. split; assumption. Qed.

Definition agree (defs defs' : list sdef) (names : list str) : Prop :=
  forall n, In n names -> lookup defs' n = lookup defs n.

Lemma resolve_agree : forall f defs defs' sigma t,
  agree defs defs' (vis f defs t) -> resolve f defs' sigma t = resolve f defs sigma t.
Proof.
  induction f as [|f IH]; intros defs defs' sigma t Ha; [reflexivity|].
  destruct t as [name args|cases|len e|dims e|k v]; cbn [resolve vis] in *.
  - assert (Hargs : map (resolve f defs' sigma) args = map (resolve f defs sigma) args).
    { apply map_ext_in'. intros a Hin. apply IH. intros n Hn. apply Ha. right. apply in_or_app. left.
      eapply in_flat_map_intro; eassumption. }
    rewrite Hargs. destruct (all_some (map (resolve f defs sigma) args)) as [targs|]; [|reflexivity].
    destruct (assoc sigma name); [reflexivity|]. destruct (assoc prim_table name); [reflexivity|].
    rewrite (Ha name (or_introl eq_refl)).
    destruct (lookup defs name) as [d|] eqn:El; [|reflexivity].
    assert (Hb : forall b, In b (body_types (d_body d)) -> forall s, resolve f defs' s b = resolve f defs s b).
    { intros b Hb s. apply IH. intros n Hn. apply Ha. right. apply in_or_app. right. eapply in_flat_map_intro; eassumption. }
    destruct (d_body d) as [fields|[b|] vals|b]; cbn [body_types] in Hb.
    + assert (Hf : map (fun fl => resolve f defs' (zip (d_params d) targs) (snd fl)) fields
                 = map (fun fl => resolve f defs (zip (d_params d) targs) (snd fl)) fields).
      { apply map_ext_in'. intros fl Hin. apply Hb. apply in_map, Hin. }
      rewrite Hf. reflexivity.
    + rewrite (Hb b (or_introl eq_refl)). reflexivity.
    + reflexivity.
    + apply Hb. left. reflexivity.
  - assert (Hc : flat_map (fun c => match snd c with Some x => [resolve f defs' sigma x] | None => [] end) cases
               = flat_map (fun c => match snd c with Some x => [resolve f defs sigma x] | None => [] end) cases).
    { apply flat_map_ext_in. intros c Hin. destruct (snd c) as [x|] eqn:Ec; [|reflexivity]. f_equal. apply IH.
      intros n Hn. apply Ha. eapply in_flat_map_intro; [exact Hin|]. rewrite Ec. exact Hn. }
    rewrite Hc. reflexivity.
  - rewrite (IH defs defs' sigma e Ha). reflexivity.
  - rewrite (IH defs defs' sigma e Ha). reflexivity.
  - rewrite (IH defs defs' sigma k), (IH defs defs' sigma v); [reflexivity| |];
      intros n Hn; apply Ha; apply in_or_app; [right|left]; exact Hn.
Qed.

Lemma vis_agree : forall f defs defs' t, agree defs defs' (vis f defs t) -> vis f defs' t = vis f defs t.
Proof.
  induction f as [|f IH]; intros defs defs' t Ha; [reflexivity|].
  destruct t as [name args|cases|len e|dims e|k v]; cbn [vis] in *.
  - f_equal. f_equal.
    + apply flat_map_ext_in. intros a Hin. apply IH. intros n Hn. apply Ha. right. apply in_or_app. left.
      eapply in_flat_map_intro; eassumption.
    + rewrite (Ha name (or_introl eq_refl)). destruct (lookup defs name) as [d|]; [|reflexivity].
      apply flat_map_ext_in. intros b Hin. apply IH. intros n Hn. apply Ha. right. apply in_or_app. right.
      eapply in_flat_map_intro; eassumption.
  - apply flat_map_ext_in. intros c Hin. destruct (snd c) as [x|] eqn:Ec; [|reflexivity]. apply IH.
    intros n Hn. apply Ha. eapply in_flat_map_intro; [exact Hin|]. rewrite Ec. exact Hn.
  - apply IH, Ha.
  - apply IH, Ha.
  - rewrite (IH defs defs' k), (IH defs defs' v); [reflexivity| |];
      intros n Hn; apply Ha; apply in_or_app; [right|left]; exact Hn.
Qed.

Lemma reach_agree : forall f defs defs' p, agree defs defs' (reach f defs p) -> reach f defs' p = reach f defs p.
Proof.
  intros f defs defs' p Ha. unfold reach in *. apply flat_map_ext_in. intros s Hin. apply vis_agree.
  intros n Hn. apply Ha. eapply in_flat_map_intro; eassumption.
Qed.

(* ---------- the schema pins down the encoding ---------- *)
Definition names_ok (env : list fdef) : Prop := NoDup (map d_name (map f_def env)).

Lemma env_ok_names : forall env, env_ok env = true -> names_ok env.
Proof. intros env H. unfold names_ok. rewrite map_map. apply nodup_str_NoDup, H. Qed.

Lemma wire_of_schema : forall f env p, names_ok env ->
  wire_of f (snd (schema_of f env p)) (fst (schema_of f env p)) = wire f env p.
Proof.
  intros f env p Hn. unfold schema_of, wire, wire_of. cbn [fst snd]. apply map_ext_in'. intros s Hin. f_equal.
  apply resolve_agree. intros n Hv. apply lookup_schema_types; [exact Hn|].
  unfold reach. eapply in_flat_map_intro; eassumption.
Qed.

Theorem schema_pins_encoding : forall f env p env' p',
  env_ok env = true -> env_ok env' = true ->
  schema_of f env p = schema_of f env' p' -> wire f env p = wire f env' p'.
Proof.
  intros f env p env' p' H1 H2 E.
  rewrite <- (wire_of_schema f env p (env_ok_names _ H1)), <- (wire_of_schema f env' p' (env_ok_names _ H2)), E. reflexivity.
Qed.

(* ---------- the schema depends only on the protocol and on what it reaches ---------- *)
Theorem schema_depends_on_reached : forall f env p env' p',
  env_ok env = true -> env_ok env' = true -> fp_proto p' = fp_proto p ->
  agree (map f_def env) (map f_def env') (reach f (map f_def env) (fp_proto p)) ->
  schema_of f env' p' = schema_of f env p.
Proof.
  intros f env p env' p' H1 H2 Ep Ha. unfold schema_of. rewrite Ep. f_equal.
  rewrite (reach_agree _ _ _ _ Ha).
  set (r := reach f (map f_def env) (fp_proto p)) in *.
  pose proof (env_ok_names _ H1) as N1. pose proof (env_ok_names _ H2) as N2. unfold names_ok in N1, N2.
  apply isort_perm; [|apply filter_NoDup_names, N2].
  apply NoDup_Permutation.
  - eapply NoDup_map_inv. apply filter_NoDup_names, N2.
  - eapply NoDup_map_inv. apply filter_NoDup_names, N1.
  - intros d. rewrite !filter_In. split; intros [Hin Hm]; (split; [|exact Hm]).
    + pose proof (lookup_in _ _ N2 Hin) as L. rewrite (Ha _ (proj1 (mem_str_in _ _) Hm)) in L.
      apply (proj1 (lookup_some _ _ _ L)).
    + pose proof (lookup_in _ _ N1 Hin) as L. rewrite <- (Ha _ (proj1 (mem_str_in _ _) Hm)) in L.
      apply (proj1 (lookup_some _ _ _ L)).
Qed.

(* neutral edits *)
Corollary schema_ignores_stripped : forall f env env' p p',
  map f_def env' = map f_def env -> fp_proto p' = fp_proto p -> schema_of f env' p' = schema_of f env p.
Proof. intros f env env' p p' E Ep. unfold schema_of. rewrite E, Ep. reflexivity. Qed.

Corollary schema_ignores_order : forall f env env' p,
  env_ok env = true -> env_ok env' = true -> Permutation env env' -> schema_of f env' p = schema_of f env p.
Proof.
  intros f env env' p H1 H2 HP. apply schema_depends_on_reached; try assumption; [reflexivity|].
  intros n _. apply lookup_perm; [apply Permutation_map, HP|apply (env_ok_names _ H1)].
Qed.

Lemma lookup_app_fresh : forall defs extra n, ~ In n (map d_name extra) -> lookup (defs ++ extra) n = lookup defs n.
Proof.
  induction defs as [|d defs IH]; intros extra n Hf; cbn [app lookup].
  - destruct (lookup extra n) as [d|] eqn:E; [|reflexivity].
    destruct (lookup_some _ _ _ E) as [Hin <-]. exfalso. apply Hf. apply in_map, Hin.
  - destruct (str_eqb (d_name d) n); [reflexivity|apply IH, Hf].
Qed.

Corollary schema_ignores_unrelated : forall f env extra p,
  env_ok env = true -> env_ok (env ++ extra) = true ->
  (forall n, In n (reach f (map f_def env) (fp_proto p)) -> ~ In n (map d_name (map f_def extra))) ->
  schema_of f (env ++ extra) p = schema_of f env p.
Proof.
  intros f env extra p H1 H2 Hf. apply schema_depends_on_reached; try assumption; [reflexivity|].
  intros n Hn. rewrite map_app. apply lookup_app_fresh, Hf, Hn.
Qed.
