(* Truncation at the level of the typed readers: cut the encoding of a value anywhere and the typed reader program - hence, by
   the refinement theorems, the generated reader over its buffered stream with any buffer size - runs out of input; it never
   returns a value and never takes the data for malformed. *)
From Coq Require Import List NArith ZArith Bool Lia Arith.
From YV Require Import Base.Wire Model.Binary Proofs.BinaryProofs Model.CodedCpp Proofs.CodedCppIn Proofs.Truncation
  Model.CodedPy Proofs.CodedPyIn Model.CppLayout Model.CppTyped Proofs.CppTypedProofs
  Model.PyTyped Proofs.PyTypedProofs Model.PyReadProg Proofs.PyReadProofs Model.PyTypedRead Proofs.PyTypedReadProofs
  Model.CppReadProg Proofs.CppReadProofs Model.CppTypedRead Proofs.CppTypedReadProofs.
Import ListNotations.
Open Scope N_scope.

(* ---------- Python ---------- *)
Lemma arun_p_prefix : forall A (p : rprog A) pre q a r, arun_p p (pre ++ q) = PVal a r ->
  (exists r', arun_p p pre = PVal a r' /\ r = r' ++ q) \/ arun_p p pre = PEnd.
Proof.
  intros A p. induction p as [a0| |op k IH]; intros pre q a r H; cbn [arun_p] in *.
  - injection H as <- <-. left. exists pre. split; reflexivity.
  - discriminate.
  - destruct (pastep (pre ++ q) op) as [[v r0]|] eqn:E; [|discriminate].
    destruct (pastep_prefix op pre q v r0 E) as [[r1 [H1 H2]]|H1]; rewrite H1; [|right; reflexivity].
    subst r0. exact (IH v r1 q a r H).
Qed.

Theorem py_typed_truncated : forall t v pre q, has_type t v = true -> enc_py t v = pre ++ q -> q <> [] ->
  arun_p (py_read t) pre = PEnd.
Proof.
  intros t v pre q Ht He Hq.
  pose proof (py_read_roundtrip t v [] Ht) as H. rewrite app_nil_r, He in H.
  destruct (arun_p_prefix val (py_read t) pre q v [] H) as [[r' [_ Hr]]|Hend]; [|exact Hend].
  symmetry in Hr. apply app_eq_nil in Hr. destruct Hr as [_ Hr]. contradiction.
Qed.

(* over the buffered Python stream, any buffer size >= 16: EOFError (or the BufferError of _fill_buffer), never a value *)
Theorem py_typed_truncated_buffered : forall b t v pre q, (16 <= b)%nat -> has_type t v = true -> enc_py t v = pre ++ q -> q <> [] ->
  mrun_p b (py_read t) (pin_init pre) = MEnd PyEof \/ mrun_p b (py_read t) (pin_init pre) = MEnd (PyFault BufferErr).
Proof.
  intros b t v pre q Hb Ht He Hq.
  assert (Hi : PInv b (pin_init pre)) by (apply pinv_init; lia).
  pose proof (prog_refines val b (py_read t) (pin_init pre) ltac:(lia) Hi (py_read_ok b t Hb)) as H.
  change (ppending (pin_init pre)) with pre in H. rewrite (py_typed_truncated t v pre q Ht He Hq) in H. exact H.
Qed.

(* ---------- C++ ---------- *)
Fixpoint no_verify {A} (p : cprog A) : Prop :=
  match p with
  | CRet _ | CFail => True
  | COp op k => op <> RVerify /\ forall v, no_verify (k v)
  end.

Lemma arun_c_prefix : forall A (p : cprog A) pre q a r, no_verify p -> arun_c p (pre ++ q) = CVal a r ->
  (exists r', arun_c p pre = CVal a r' /\ r = r' ++ q) \/ arun_c p pre = CEnd.
Proof.
  intros A p. induction p as [a0| |op k IH]; intros pre q a r Hnv H; cbn [arun_c] in *.
  - injection H as <- <-. left. exists pre. split; reflexivity.
  - discriminate.
  - cbn [no_verify] in Hnv. destruct Hnv as [Hop Hk].
    destruct (astep (pre ++ q) op) as [v r0| | |] eqn:E; try discriminate.
    destruct (astep_prefix op pre q v r0 Hop E) as [[r1 [H1 H2]]|H1]; rewrite H1; [|right; reflexivity].
    subst r0. exact (IH v r1 q a r (Hk v) H).
Qed.

Lemma nv_bind : forall A B (p : cprog A) (f : A -> cprog B), no_verify p -> (forall a, no_verify (f a)) -> no_verify (cbind p f).
Proof.
  intros A B p f. induction p as [a| |op k IH]; intros Hp Hf; cbn [cbind no_verify] in *; auto.
  destruct Hp as [H1 H2]. split; [assumption|]. intros v. apply IH; [apply H2|assumption].
Qed.

Lemma nv_rep : forall A n (p : cprog A), no_verify p -> no_verify (crep n p).
Proof.
  intros A n p Hp. induction n as [|n IH]; cbn [crep no_verify]; [exact I|].
  apply nv_bind; [assumption|]. intros a. apply nv_bind; [assumption|]. intros l. exact I.
Qed.

Lemma nv_var : forall A w (k : N -> cprog A), (forall n, no_verify (k n)) -> no_verify (c_var w k).
Proof. intros A w k H. cbn. split; [discriminate|]. intros v. destruct v; cbn; auto. Qed.
Lemma nv_byte : forall A (k : N -> cprog A), (forall n, no_verify (k n)) -> no_verify (c_byte k).
Proof. intros A k H. cbn. split; [discriminate|]. intros v. destruct v; cbn; auto. Qed.
Lemma nv_bytes : forall A n (k : list N -> cprog A), (forall l, no_verify (k l)) -> no_verify (c_bytes n k).
Proof. intros A n k H. cbn. split; [discriminate|]. intros v. destruct v; cbn; auto. Qed.

Lemma nv_read_int : forall p, no_verify (cpp_read_int p).
Proof.
  intros p. unfold cpp_read_int. destruct (int_width p) as [[s w]|]; [|exact I].
  destruct (w <=? 8); [apply nv_byte|apply nv_var]; intros; exact I.
Qed.

Lemma nv_data : forall fast e slow rd count, no_verify rd -> no_verify (cread_data fast e slow rd count).
Proof.
  intros fast e slow rd count H. unfold cread_data. destruct (fast && ts true e); [|apply nv_rep; assumption].
  destruct (layout e) as [[s a]|]; [|exact I]. apply nv_bytes. intros l.
  destruct (arun_c (crep (N.to_nat count) slow) l) as [xs [|? ?]| | | |]; exact I.
Qed.

Lemma cpp_read_no_verify : forall t fast, no_verify (cpp_read' fast t).
Proof.
  apply (ty_ind' (fun t => forall fast, no_verify (cpp_read' fast t))).
  - intros p fast. cbn [cpp_read']. destruct p; cbn [cpp_read_prim]; try apply nv_read_int; try (apply nv_bytes; intros; exact I).
    apply nv_var. intros n. apply nv_bytes. intros; exact I.
  - intros b fast. apply nv_read_int.
  - intros e IH fast. cbn [cpp_read']. apply nv_byte. intros n. destruct (n =? 0); [exact I|]. apply nv_bind; [apply IH|intros; exact I].
  - intros hn cs IH fast. cbn [cpp_read']. apply nv_var. intros n. destruct (hn && (n =? 0)); [exact I|].
    apply nv_bind; [|intros; exact I]. generalize (n - (if hn then 1 else 0)).
    induction IH as [|c cs Hc Hcs IHcs]; intros i; cbn [pick]; [exact I|]. destruct (i =? 0); [apply Hc|apply IHcs].
  - intros e IH fast. cbn [cpp_read']. apply nv_var. intros n. apply nv_bind; [apply nv_data, IH|intros; exact I].
  - intros n e IH fast. cbn [cpp_read']. apply nv_bind; [apply nv_data, IH|intros; exact I].
  - intros r e IH fast. cbn [cpp_read']. apply nv_bind; [apply nv_rep, nv_var; intros; exact I|]. intros sh.
    apply nv_bind; [apply nv_data, IH|intros; exact I].
  - intros d e IH fast. cbn [cpp_read']. apply nv_bind; [apply nv_data, IH|intros; exact I].
  - intros e IH fast. cbn [cpp_read']. apply nv_var. intros rank. apply nv_bind; [apply nv_rep, nv_var; intros; exact I|]. intros sh.
    apply nv_bind; [apply nv_data, IH|intros; exact I].
  - intros k e IHk IHe fast. cbn [cpp_read']. apply nv_var. intros n. apply nv_bind; [|intros; exact I].
    apply nv_rep. apply nv_bind; [apply IHk|]. intros a. apply nv_bind; [apply IHe|intros; exact I].
  - intros fs IH fast. cbn [cpp_read']. destruct (fast && ts true (TRec fs)).
    + destruct (layout (TRec fs)) as [[s a]|]; [|exact I]. apply nv_bytes. intros l.
      destruct (arun_c (cread_fields (cpp_read' false) fs) l) as [xs [|? ?]| | | |]; exact I.
    + apply nv_bind; [|intros; exact I].
      induction IH as [|f fs Hf Hfs IHfs]; cbn [cread_fields]; [exact I|].
      apply nv_bind; [apply Hf|]. intros x. apply nv_bind; [assumption|intros; exact I].
Qed.

Theorem cpp_typed_truncated : forall t v pre q, has_type t v = true -> vsmall v = true -> enc t v = pre ++ q -> q <> [] ->
  arun_c (cpp_read t) pre = CEnd.
Proof.
  intros t v pre q Ht Hs He Hq.
  pose proof (cpp_read_roundtrip t v [] Ht Hs) as H. rewrite app_nil_r, He in H.
  destruct (arun_c_prefix val (cpp_read t) pre q v [] (cpp_read_no_verify t true) H) as [[r' [_ Hr]]|Hend]; [|exact Hend].
  symmetry in Hr. apply app_eq_nil in Hr. destruct Hr as [_ Hr]. contradiction.
Qed.

(* over the buffered C++ stream, any buffer size: EndOfStreamException, never a value, never a stale byte *)
Theorem cpp_typed_truncated_buffered : forall b t v pre q, (0 < b)%nat -> has_type t v = true -> vsmall v = true ->
  enc t v = pre ++ q -> q <> [] -> mrun_c b (cpp_read t) (cin_init pre) = CMStop Eof.
Proof.
  intros b t v pre q Hb Ht Hs He Hq.
  assert (Hi : Inv b (cin_init pre)) by (split; cbn; [discriminate|lia]).
  pose proof (cprog_refines val b (cpp_read t) (cin_init pre) Hb Hi) as H.
  change (pending (cin_init pre)) with pre in H. rewrite (cpp_typed_truncated t v pre q Ht Hs He Hq) in H. exact H.
Qed.
